(* sexp.ml — the tiny S-expression format shared with the Go harness.
   atoms: symbols, decimal integers, and strings written as ' followed by
   dot-separated hexadecimal code points ('2f.61 = "/a", ' = ""). *)
type t = A of string | L of t list

let parse (s : string) : t =
  let n = String.length s in
  let pos = ref 0 in
  let rec skip () = if !pos < n && (s.[!pos] = ' ' || s.[!pos] = '\t' || s.[!pos] = '\n' || s.[!pos] = '\r') then (incr pos; skip ()) in
  let rec item () =
    skip ();
    if !pos >= n then failwith "sexp: unexpected end";
    if s.[!pos] = '(' then begin
      incr pos;
      let acc = ref [] in
      let rec loop () =
        skip ();
        if !pos >= n then failwith "sexp: missing )";
        if s.[!pos] = ')' then incr pos
        else (acc := item () :: !acc; loop ()) in
      loop ();
      L (List.rev !acc)
    end else if s.[!pos] = ')' then failwith "sexp: unexpected )"
    else begin
      let st = !pos in
      while !pos < n && not (s.[!pos] = ' ' || s.[!pos] = '(' || s.[!pos] = ')' || s.[!pos] = '\t' || s.[!pos] = '\n' || s.[!pos] = '\r') do incr pos done;
      A (String.sub s st (!pos - st))
    end in
  let r = item () in
  skip ();
  if !pos <> n then failwith "sexp: trailing input";
  r

let rec to_buf b = function
  | A a -> Buffer.add_string b a
  | L l ->
    Buffer.add_char b '(';
    List.iteri (fun i x -> if i > 0 then Buffer.add_char b ' '; to_buf b x) l;
    Buffer.add_char b ')'
let to_string x = let b = Buffer.create 256 in to_buf b x; Buffer.contents b
