(* rt.ml — model and judges for the "route table + lookups" cases (C01, C02, C06, C07, C13, C14 router part) *)
open Model
open Sexp
open Conv

exception Unsupported

type rtcase = {
  o : opts; custom_nf : bool; custom_na : bool; lateopt : bool; group : n list option;
  defs : (n list list * n list * bool) list;       (* raw methods, raw path, nil handler *)
  qs : (string * n list * n list) list;            (* kind, method, path *)
  adds : (int * (n list list * n list * bool)) list;   (* query index -> definition registered at that point ("a" queries) *)
  gvars : (n list * n list) list;                     (* SetGlobalVar(name, regex) calls made before the registrations *)
}

(* SetGlobalVar(name, regex): a variable written {name} (no regex of its own) now stands for {name:regex}. The Coq model's
   global-variable table is the constant default one (checked against rux by the constants correspondence), so this glue
   rewrites the pattern text before it reaches the model (names are fresh: they are not in the default table). *)
let rec has_prefix_l p l = match p, l with [] , _ -> true | _, [] -> false | a :: p', b :: l' -> a = b && has_prefix_l p' l'
let rec drop k l = if k = 0 then l else match l with [] -> [] | _ :: r -> drop (k - 1) r
let subst_gvars gvars (path : n list) : n list =
  List.fold_left (fun path (name, re) ->
      let pat = (n_of_int 123 :: name) @ [n_of_int 125] in
      let rep = (n_of_int 123 :: name) @ (n_of_int 58 :: re) @ [n_of_int 125] in
      let rec go l = match l with
        | [] -> []
        | x :: r -> if has_prefix_l pat l then rep @ go (drop (List.length pat) l) else x :: go r in
      go path) path gvars

let parse_case = function
  | L [A "rt"; L os; L ds; L qs] ->
    let strict = ref false and na = ref false and fb = ref false and caching = ref false and cap = ref 1000
    and icpt = ref [] and nf = ref false and nal = ref false and late = ref false and grp = ref None and gv = ref [] and enc = ref false in
    List.iter (function
        | L [A "strict"] -> strict := true
        | L [A "na"] -> na := true
        | L [A "fb"] -> fb := true
        | L [A "cache"; n] -> caching := true; cap := int n
        | L [A "intercept"; p] -> icpt := trim_space (str p)
        | L [A "nf"] -> nf := true
        | L [A "nal"] -> nal := true
        | L [A "group"; p] -> grp := Some (str p)   (* every definition is registered inside r.Group(p, ...) *)
        | L [A "enc"] -> enc := true            (* UseEncodedPath: a served request is matched on the escaped text the case carries *)
        | L [A "direct"] -> ()                  (* the same options, applied by calling the option functions with the router *)
        | L [A "lateopt"] -> late := true       (* Router.WithOptions(<no-op option>) after the registrations *)
        | L (A "gvar" :: nm :: re :: _) -> gv := !gv @ [(str nm, str re)]    (* (an optional 4th element: an earlier definition) *)
        | x -> failwith ("rt: bad option " ^ to_string x)) os;
    { o = { o_strict = !strict; o_na = !na; o_fallback = !fb; o_caching = !caching; o_cap = nat_of_int !cap; o_intercept = !icpt };
      custom_nf = !nf; custom_na = !nal; lateopt = !late; group = !grp; gvars = !gv;
      defs = List.map (function L [L ms; p; nh] -> (List.map str ms, subst_gvars !gv (str p), bool nh) | x -> failwith ("rt: bad def " ^ to_string x)) ds;
      qs = List.map (function L [A "a"; L _; p; _] -> ("a", [], str p) | L [A k; m; p] -> (k, str m, str p)
                            | L [A "s"; m; p; e] -> ("s", str m, if !enc then str e else str p)
                            | x -> failwith ("rt: bad query " ^ to_string x)) qs;
      adds = List.concat (List.mapi (fun i q -> match q with L [A "a"; L ms; p; nh] -> [(i, (List.map str ms, subst_gvars !gv (str p), bool nh))] | _ -> []) qs) }
  | x -> failwith ("rt: bad case " ^ to_string x)

(* one definition: the new router and the stored definition, None when the registration panics *)
let reg_def (o : opts) group rt i (ms, p, nh) =
  match reg_path o.o_strict (match group with Some g -> [g] | None -> []) p with
  | Panic -> None
  | Ok path ->
    let d = { df_methods = format_methods ms; df_path = path; df_nil_handler = nh; df_name = str_of_ascii ("r" ^ string_of_int i) } in
    (match reg_route rt d with
     | Ok rt' ->
       (match List.rev rt'.routes with
        | { rt_kind = KDyn (_, _, CUnsup, _); _ } :: _ -> raise Unsupported
        | _ -> ());
       Some (rt', d)
     | Panic -> None)

(* registration: returns router, reg outcomes, map model rid -> def index *)
let build (c : rtcase) (caching : bool) =
  let o = if caching then c.o else { c.o with o_caching = false } in
  let rt = ref (new_router o) and regs = ref [] and ridmap = ref [] and meths = ref [] in
  List.iteri (fun i (ms, p, nh) ->
      let d = match reg_path o.o_strict (match c.group with Some g -> [g] | None -> []) p with
        | Ok path -> Some { df_methods = format_methods ms; df_path = path; df_nil_handler = nh; df_name = str_of_ascii ("r" ^ string_of_int i) }
        | Panic -> None in
      match d with
      | None -> regs := A "panic" :: !regs
      | Some d ->
        (match reg_route !rt d with
         | Ok rt' ->
           (match List.rev rt'.routes with
            | { rt_kind = KDyn (_, _, CUnsup, _); _ } :: _ -> raise Unsupported
            | _ -> ());
           rt := rt'; regs := A "ok" :: !regs; ridmap := !ridmap @ [i];
           meths := L [A "meths"; sint i; slist sstr d.df_methods] :: !meths
         | Panic -> regs := A "panic" :: !regs)) c.defs;
  regs := !meths @ !regs;      (* (reversed list: the meths entries follow the per-definition outcomes) *)
  if c.lateopt then
    regs := (match with_options !rt o with Ok _ -> A "lateopt-ok" | Panic -> A "lateopt-panic") :: !regs;
  (!rt, List.rev !regs, !ridmap)

let sort_assoc l = List.sort (fun (a, _) (b, _) -> if str_eqb a b then 0 else if str_leb a b then -1 else 1) l
let sparams = function
  | None -> A "nil"
  | Some ps -> slist (fun (k, v) -> L [sstr k; sstr v]) (sort_assoc ps)


let sres ridmap = function
  | QFound (rid, ps) -> L [A "found"; sint (List.nth ridmap (int_of_nat rid)); sparams ps]
  | QFallback rid -> L [A "found"; sint (List.nth ridmap (int_of_nat rid)); A "nil"]
  | QNotAllowed al -> L [A "na"; slist sstr (sort_strs al)]
  | QNotFound -> L [A "nf"]
  | QPanic -> L [A "panic"]
  | QUnsup -> raise Unsupported

let options_m = str_of_ascii "OPTIONS"
let comma_sp = str_of_ascii ", "
let rec join sep = function [] -> [] | [x] -> x | x :: r -> x @ sep @ join sep r

(* what ServeHTTP does with a resolution: status, who, params, Allow *)
let serve_obs c ridmap m res =
  match res with
  | QFound (rid, ps) -> (200, string_of_int (List.nth ridmap (int_of_nat rid)), sparams ps, [])
  | QFallback rid -> (200, string_of_int (List.nth ridmap (int_of_nat rid)), A "nil", [])
  | QNotAllowed al ->
    let allow = join comma_sp (sort_strs al) in
    if c.custom_na then (405, "na", A "nil", allow)
    else ((if str_eqb m options_m then 200 else 405), "none", A "nil", allow)
  | QNotFound -> if c.custom_nf then (404, "nf", A "nil", []) else (404, "none", A "nil", [])
  | QPanic -> (0, "panic", A "nil", [])
  | QUnsup -> raise Unsupported

exception Unsupported_case
let run_full (c : rtcase) =
  let (rt0, regs, ridmap) = build c true in
  let (tw0, _, _) = build c false in
  let rt = ref rt0 and tw = ref tw0 in
  let ridmap_r = ref ridmap in
  let next = ref (List.length c.defs) in
  let qs = List.mapi (fun qi (k, m, p) ->
      let ridmap = !ridmap_r in
      match k with
      | "a" ->
        (* a route registered on the running router (outside any group); the route cache is left as it is *)
        let def = List.assoc qi c.adds in
        let i = !next in incr next;
        let ok = (match reg_def c.o None !rt i def with Some (rt', _) -> rt := rt'; true | None -> false) in
        (match reg_def { c.o with o_caching = false } None !tw i def with Some (tw', _) -> tw := tw' | None -> ());
        if ok then ridmap_r := ridmap @ [i];
        L [A "a"; A (if ok then "ok" else "panic")]
      | "m" ->
        let (r, rt') = router_match !rt m p in rt := rt';
        let (tr, tw') = router_match !tw m p in tw := tw';
        let keys = if c.o.o_caching then slist sstr (akeys !rt.cache) else A "nocache" in
        L [A "m"; sres ridmap r; sres ridmap tr; keys]
      | "s" ->
        let (r, rt') = quick_match !rt m p in rt := rt';
        let (tr, tw') = quick_match !tw m p in tw := tw';
        let (st, who, ps, allow) = serve_obs c ridmap m r in
        let (tst, twho, _, _) = serve_obs c ridmap m tr in
        L [A "s"; sint st; A who; ps; sstr allow; sint tst; A twho]
      | _ -> failwith "rt: bad query kind") c.qs in
  (L (A "reg" :: regs), qs)

let project id (reg, qs) =
  let out = List.concat (List.map (fun q ->
      match id, q with
      | "C01", L [A "m"; r; _; _] -> (match r with L [A "found"; i; _] -> [L [A "sel"; i]] | L (A h :: _) -> [L [A "sel"; A h]] | _ -> [])
      | "C01", L [A "s"; _; A who; _; _; _; _] ->
        [L [A "sel"; A (match int_of_string_opt who with Some _ -> who | None -> if who = "none" || who = "nf" then "nf" else who)]]
      | "C01", _ -> []
      | "C14", L [A "m"; _; _; k] -> [L [A "keys"; k]]
      | "C14", _ -> []
      | "C06", L [A "m"; r; _; _] -> [L [A "m"; r]]
      | "C06", L [A "s"; st; who; _; al; _; _] -> [L [A "s"; st; who; al]]
      | _, q -> [q]) qs) in
  if id = "C13" then
    L [reg; L (A "panics" :: List.map (fun q -> let s = to_string q in
                                         let has sub = try ignore (Str.search_forward (Str.regexp_string sub) s 0); true with Not_found -> false in
                                         sbool (has "(panic)" || has " panic ")) qs)]
  else L [reg; L (A "qs" :: out)]

let model id cs =
  let c = parse_case cs in
  try project id (run_full c) with Unsupported -> L [A "unsupported"]

(* ---------- spec side ---------- *)
(* the table as the documented grammar sees it; None when a definition is outside the grammar *)
let spec_table (c : rtcase) (regs : Sexp.t list) =
  let ok = ref true in
  let rows = List.concat (List.mapi (fun i (ms, p, _) ->
      if List.nth regs i <> A "ok" then [] else
        match reg_path c.o.o_strict (match c.group with Some g -> [g] | None -> []) p with
        | Panic -> ok := false; []
        | Ok path ->
          if is_fixed_path path then [(i, { s_methods = format_methods ms; s_path = path; s_pat = None })] else
          (match parse_pat path with
           | None -> ok := false; []
           | Some pt -> [(i, { s_methods = format_methods ms; s_path = path; s_pat = Some pt })])) c.defs) in
  if !ok then Some rows else None

let get_obs obs = match obs with L [L (A "reg" :: regs); L (_ :: qs)] -> (regs, qs) | _ -> failwith "bad obs"

(* C01: selection = spec_select on the normalised path (direct matches only) *)
let c01_judge cs obs =
  let c = parse_case cs in
  let (regs, qs) = get_obs obs in
  match spec_table c regs with
  | None -> "ok-skip outside-grammar"
  | Some rows ->
    let table = List.map snd rows and idx = List.map fst rows in
    if List.exists (fun r -> r.s_pat <> None && not (link_ok r.s_path)) table
    then "bad model-link-broken the string-level pattern compiler and the grammar-level one disagree on start/first/names" else
    let mqs = List.filter (fun (k, _, _) -> k = "m" || k = "s") c.qs in
    let rec go mqs qs = match mqs, qs with
      | [], [] -> "ok"
      | (k, m, p) :: mqs', q :: qs' ->
        (* Router.Match upper-cases the method; a served request is matched with the method as sent *)
        let m = if k = "s" then m else List.map (fun ch -> let x = int_of_n ch in if x >= 97 && x <= 122 then n_of_int (x - 32) else ch) m in
        (match format_path c.o.o_strict p with
         | Panic -> "bad format-panic"
         | Ok path ->
           (* Router.Match also applies the HEAD -> GET fallback (C06) *)
           let sel = match spec_select table m path with
             | None when str_eqb m (str_of_ascii "HEAD") -> spec_select table (str_of_ascii "GET") path
             | x -> x in
           let exp = match sel with Some i -> L [A "sel"; sint (List.nth idx (int_of_nat i))] | None -> L [A "sel"; A "nf"] in
           if to_string exp = to_string q then go mqs' qs'
           else
             let kind = match q, exp with
               | L [A "sel"; A "nf"], _ -> "no-route-reported-although-a-route-matches"
               | _, L [A "sel"; A "nf"] -> "dispatched-although-no-route-matches"
               | L [A "sel"; A "panic"], _ -> "lookup-panic"
               | _ -> "wrong-priority" in
             "bad " ^ kind ^ " method=" ^ atom_of_str m ^ " path=" ^ atom_of_str path ^ " got=" ^ to_string q ^ " expected=" ^ to_string exp)
      | _ -> "bad query-count" in
    go mqs qs

(* C02: for the route the implementation selected, parameters are what the pattern captures *)
let c02_judge cs obs =
  let c = parse_case cs in
  let (regs, qs) = get_obs obs in
  match spec_table c regs with
  | None -> "ok-skip outside-grammar"
  | Some rows ->
    let rec go cq qs = match cq, qs with
      | [], [] -> "ok"
      | (k, _m, p) :: cq', q :: qs' ->
        let check i ps_obs =
          match List.assoc_opt i rows, format_path c.o.o_strict (if c.o.o_intercept = [] then p else c.o.o_intercept) with
          | None, _ -> "ok"
          | _, Panic -> "ok"
          | Some r, Ok path ->
            (match r.s_pat with
             | None -> if to_string ps_obs = "nil" then "ok" else "bad static-route-exposes-params got=" ^ to_string ps_obs
             | Some pt ->
               (match pat_params pt path with
                | None -> "bad value-does-not-satisfy-the-pattern path=" ^ atom_of_str path ^ " got=" ^ to_string ps_obs
                  (* the selected route's pattern does not match the path at all: some captured value violates its regex *)
                | Some ps ->
                  let exp = sparams (Some ps) in
                  if to_string exp = to_string ps_obs then "ok"
                  else
                    let names l = match l with L kv -> List.map (function L [k; _] -> to_string k | _ -> "?") kv | _ -> [] in
                    if names exp <> names ps_obs then "bad param-names got=" ^ to_string ps_obs ^ " expected=" ^ to_string exp
                    else "bad param-values path=" ^ atom_of_str path ^ " got=" ^ to_string ps_obs ^ " expected=" ^ to_string exp)) in
        let v = match k, q with
          | "m", L [A "m"; L [A "found"; A i; ps]; _; _] -> check (int_of_string i) ps
          | "s", L [A "s"; _; A who; ps; _; _; _] -> (match int_of_string_opt who with Some i -> check i ps | None -> "ok")
          | _ -> "ok" in
        if v = "ok" then go cq' qs' else v
      | _ -> "bad query-count" in
    go c.qs qs

(* C06: the documented decision list, computed from the grammar-level table *)
let c06_judge cs obs =
  let c = parse_case cs in
  let (regs, qs) = get_obs obs in
  match spec_table c regs with
  | None -> "ok-skip outside-grammar"
  | Some rows ->
    let table = List.map snd rows and idx = List.map fst rows in
    let head_m = str_of_ascii "HEAD" and get_m = str_of_ascii "GET" in
    let decide m p =
      let p = if c.o.o_intercept = [] then p else c.o.o_intercept in
      match format_path c.o.o_strict p with
      | Panic -> `Panic
      | Ok path ->
        let sel m = spec_select table m path in
        match sel m with
        | Some i -> `Route (List.nth idx (int_of_nat i))
        | None ->
          match (if str_eqb m head_m then sel get_m else None) with
          | Some i -> `Route (List.nth idx (int_of_nat i))
          | None ->
            let fbr = if c.o.o_fallback then
                (* a static "/*" route registered for the method (the last such registration) *)
                List.fold_left (fun acc (i, r) -> if r.s_pat = None && str_eqb r.s_path (str_of_ascii "/*") && List.exists (str_eqb m) r.s_methods then Some i else acc) None rows
              else None in
            match fbr with
            | Some i -> `Fallback i
            | None ->
              if c.o.o_na then
                (match List.filter (fun m' -> not (str_eqb m' m) && sel m' <> None) any_methods with
                 | [] -> `NotFound
                 | al -> `NotAllowed (sort_strs al))
              else `NotFound in
    let upper m = List.map (fun ch -> let x = int_of_n ch in if x >= 97 && x <= 122 then n_of_int (x - 32) else ch) m in
    let rec go cq qs i = match cq, qs with
      | [], [] -> "ok"
      | (k, m, p) :: cq', q :: qs' ->
        let d = decide (if k = "m" then upper m else m) p in
        let v = match k, q with
          | "m", L [A "m"; r] ->
            let exp = match d with
              | `Route i | `Fallback i -> "found " ^ string_of_int i
              | `NotAllowed al -> "na " ^ to_string (slist sstr al)
              | `NotFound -> "nf" | `Panic -> "panic" in
            let got = match r with
              | L [A "found"; A i; _] -> "found " ^ i
              | L [A "na"; al] -> "na " ^ to_string al
              | L [A h] -> h | x -> to_string x in
            if exp = got then "ok" else
              (match d, r with
               | (`Route _ | `Fallback _), L [A "found"; _; _] -> "bad wrong-route"
               | `NotAllowed _, L [A "na"; _] -> "bad allowed-set-not-exact"
               | _ -> "bad wrong-resolution-step") ^ " step=" ^ string_of_int i ^ " got=" ^ got ^ " expected=" ^ exp
          | "s", L [A "s"; A st; A who; al] ->
            let (est, ewho, eal) = match d with
              | `Route i | `Fallback i -> (200, string_of_int i, [])
              | `NotAllowed al ->
                let allow = join comma_sp al in
                if c.custom_na then (405, "na", allow) else ((if str_eqb m options_m then 200 else 405), "none", allow)
              | `NotFound -> if c.custom_nf then (404, "nf", []) else (404, "none", [])
              | `Panic -> (0, "panic", []) in
            if string_of_int est = st && ewho = who && to_string (sstr eal) = to_string al then "ok"
            else (if string_of_int est <> st || ewho <> who then "bad wrong-response" else "bad allow-header-not-exact")
                 ^ " step=" ^ string_of_int i ^ " got=" ^ to_string q ^ " expected=" ^ string_of_int est ^ "/" ^ ewho ^ "/" ^ atom_of_str eal
          | _ -> "bad observation-shape" in
        if v = "ok" then go cq' qs' (i + 1) else v
      | _ -> "bad query-count" in
    go c.qs qs 0

(* C07: the caching router and its non-caching twin give the same answers, step by step *)
let c07_judge _cs obs =
  let (_, qs) = get_obs obs in
  let rec go i = function
    | [] -> "ok"
    | L [A "m"; r; t; _] :: rest -> if to_string r = to_string t then go (i + 1) rest else "bad cache-changes-match step=" ^ string_of_int i ^ " cached=" ^ to_string r ^ " uncached=" ^ to_string t
    | L [A "s"; st; who; _; _; tst; twho] :: rest ->
      if to_string st = to_string tst && to_string who = to_string twho then go (i + 1) rest
      else "bad cache-changes-response step=" ^ string_of_int i ^ " cached=" ^ to_string (L [st; who]) ^ " uncached=" ^ to_string (L [tst; twho])
    | _ :: rest -> go (i + 1) rest in
  go 0 qs

(* C13: accepted definitions never make a lookup panic; rejected classes are rejected *)
let c13_judge cs obs =
  let c = parse_case cs in
  match obs with
  | L [L (A "reg" :: regs); L (A "panics" :: ps)] ->
    if List.exists (fun p -> p = A "t") ps then "bad lookup-panic-after-accepted-registration"
    else if List.exists (function L [A "meths"; _; L ms] -> List.exists (fun m -> not (List.exists (fun a -> to_string (sstr a) = to_string m) any_methods)) ms | _ -> false) regs
    then "bad accepted-route-stored-under-an-unknown-method-name"
    else if List.mem (A "lateopt-ok") regs && List.exists (fun r -> r = A "ok") regs then "bad options-accepted-after-routes-exist"
    else if List.mem (A "lateopt-panic") regs && not (List.exists (fun r -> r = A "ok") regs) then "bad options-rejected-on-an-empty-router"
    else begin
      (* definitions of the rejected classes must not be accepted *)
      let bad = ref "ok" in
      List.iteri (fun i (ms, p, nh) ->
          if !bad = "ok" && List.nth regs i = A "ok" then begin
            let fm = format_methods ms in
            if nh then bad := "bad nil-handler-accepted def=" ^ string_of_int i
            else if fm = [] then bad := "bad empty-methods-accepted def=" ^ string_of_int i
            else if List.exists (fun m -> not (List.exists (str_eqb m) any_methods)) fm then bad := "bad unknown-method-accepted def=" ^ string_of_int i
            else match reg_path c.o.o_strict (match c.group with Some g -> [g] | None -> []) p with
              | Ok path ->
                (match compile_dyn path with
                 | Panic -> if not (is_fixed_path path) then bad := "bad invalid-pattern-accepted def=" ^ string_of_int i
                 | Ok d -> (match compile_re d with
                     | Panic -> if not (is_fixed_path path) then bad := "bad uncompilable-or-capturing-pattern-accepted def=" ^ string_of_int i
                     | Ok _ -> ()))
              | Panic -> ()
          end) c.defs;
      !bad
    end
  | _ -> "bad no-observation"

(* C14 (router part): after a dynamic match with caching on and capacity >= 1 the key method+path is first *)
let c14r_judge cs obs =
  let c = parse_case cs in
  if not c.o.o_caching then "ok" else
    try
      let (reg, qs) = run_full c in
      let exp = project "C14" (reg, qs) in
      if to_string exp = to_string obs then "ok" else "bad router-cache-contents expected=" ^ to_string exp
    with Unsupported -> "ok-skip"
