(* c15.ml — model and judge of the BuildURL cases *)
open Model
open Sexp
open Conv

let upper m = List.map (fun ch -> let x = int_of_n ch in if x >= 97 && x <= 122 then n_of_int (x - 32) else ch) m
let sort_assoc l = List.sort (fun (a, _) (b, _) -> if str_eqb a b then 0 else if str_leb a b then -1 else 1) l

type bcase = { defs : Sexp.t; idx : int; style : string; vals : (n list * n list) list; extra : (n list * n list) list; opts : Sexp.t }
let parse_build = function
  | L (A "build" :: defs :: i :: A style :: L vals :: L extra :: rest) ->
    let kv = List.map (function L [k; v] -> (str k, str v) | _ -> failwith "c15: bad pair") in
    (* optional 7th element: the routes are registered inside Group(prefix) *)
    let opts = match rest with [g] -> L [L [A "group"; g]] | _ -> L [] in
    { defs; idx = int i; style; vals = kv vals; extra = kv extra; opts }
  | x -> failwith ("c15: bad case " ^ to_string x)

let rtcase_of b = Rt.parse_case (L [A "rt"; b.opts; b.defs; L []])

let model_build b =
  let c = rtcase_of b in
  let (rt, regs, ridmap) = Rt.build c false in
  if List.nth regs b.idx <> A "ok" then L [A "regpanic"]
  else begin
    (* the registered (normalised) path of route idx *)
    let rid = let rec find k = function [] -> failwith "c15: route not registered" | i :: r -> if i = b.idx then k else find (k + 1) r in find 0 ridmap in
    let route = List.nth rt.routes rid in
    let path = build_path route.rt_path b.vals (var_texts route.rt_path) in
    let q = if b.style = "b" then List.concat (List.map (fun (k, v) -> [(k, v); (k, v @ str_of_ascii "~2")]) (sort_assoc b.extra))
      else sort_assoc b.extra in
    let m = match route.rt_methods with m :: _ -> m | [] -> str_of_ascii "GET" in
    let (res, _) = router_match rt m path in
    let rs = Rt.sres ridmap res in
    let srv = match res with
      | QFound (rid, ps) -> L [A "srv"; A (string_of_int (List.nth ridmap (int_of_nat rid))); Rt.sparams ps]
      | _ -> L [A "srv"; A "none"; A "nil"] in
    L [L [A "built"; sstr path; L (A "q" :: List.map (fun (k, v) -> L [sstr k; sstr v]) q)]; L [A "match"; rs]; srv]
  end

(* names: the route most recently registered under the name *)
(* routes are identified by their creation index; Table.names_set (extracted) is Route.NamedTo's effect on the name table *)
let model_names ops name =
  (* created = the paths of the routes created so far, in order; (rename k 'n) calls NamedTo(n) on the (k mod created)-th *)
  let (tbl, created) = List.fold_left (fun (acc, created) op ->
      match op with
      | L [A "rename"; k; n] ->
        (names_set acc (str n) (nat_of_int (Conv.int k mod List.length created)), created)
      | L [A kind; n; p] ->
        let path = match kind with
          | "namedto" -> simple_fmt_path (str p)
          | _ -> (match reg_path false [] (str p) with Ok x -> x | Panic -> failwith "c15: path") in
        (names_set acc (str n) (nat_of_int (List.length created)), created @ [path])
      | _ -> failwith "c15: bad op") ([], []) ops in
  match List.find_opt (fun (k, _) -> str_eqb k name) tbl with
  | Some (_, id) -> L [A "route"; sstr (List.nth created (int_of_nat id))]
  | None -> L [A "none"]

let model cs =
  try (match cs with
      | L [A "names"; L ops; n] -> model_names ops (str n)
      | _ -> model_build (parse_build cs))
  with Rt.Unsupported -> L [A "unsupported"]

(* judge: the built path is the substitution of the values into the pattern and is routed back with those values *)
let judge cs obs =
  match cs with
  | L [A "names"; L ops; n] ->
    let e = model_names ops (str n) in
    if to_string e = to_string obs then "ok" else "bad get-route-not-most-recent expected=" ^ to_string e
  | _ ->
    let b = parse_build cs in
    let c = rtcase_of b in
    (match obs with
     | L [A "regpanic"] -> "ok"
     | L [A "panic"] -> "bad build-panics"
     | L [L [A "built"; bp; L (A "q" :: q)]; L [A "match"; res]; L [A "srv"; who; sps]] ->
       let regs = List.map (fun _ -> A "ok") c.Rt.defs in
       (match Rt.spec_table c regs with
        | None -> "ok-skip outside-grammar"
        | Some rows ->
          (match List.assoc_opt b.idx rows with
           | None -> "ok"
           | Some r ->
             let names = match r.s_pat with Some p -> pat_names p | None -> [] in
             let vs = List.map (fun nme -> match List.find_opt (fun (k, _) -> str_eqb k (n_of_int 123 :: nme @ [n_of_int 125])) b.vals with Some (_, v) -> v | None -> []) names in
             let expect_path = match r.s_pat with Some p -> subst_items p.p_req vs | None -> r.s_path in
             (* query clause *)
             (* (builder style: every key is given two values, v and v~2, through BuildRequestURL.Queries) *)
             let eq = if b.style = "b" then List.concat (List.map (fun (k, v) -> [(k, v); (k, v @ str_of_ascii "~2")]) (sort_assoc b.extra))
               else sort_assoc b.extra in
             let qs = to_string (L (List.map (fun (k, v) -> L [sstr k; sstr v]) eq)) in
             if to_string (L q) <> qs then "bad query-parameters expected=" ^ qs
             else
               let braces = List.exists (fun v -> List.exists (fun ch -> let x = int_of_n ch in x = 123 || x = 125) v) vs in
               if to_string bp <> to_string (sstr expect_path) then
                 (if braces then "bad brace-value-replaced-again built=" ^ to_string bp else "bad built-path-is-not-the-substitution built=" ^ to_string bp ^ " expected=" ^ atom_of_str expect_path)
               else begin
                 (* values must satisfy the regexes, otherwise nothing is promised *)
                 let ok_vals = match r.s_pat with
                   | Some p -> List.for_all2 (fun it v -> match it with Var (_, re) -> matches re v | Lit _ -> true)
                                 (List.filter (function Var _ -> true | _ -> false) p.p_req) vs
                   | None -> true in
                 if not ok_vals then "ok" else
                   let table = List.map snd rows and idx = List.map fst rows in
                   let m = match r.s_methods with m :: _ -> m | [] -> str_of_ascii "GET" in
                   let norm = match format_path c.Rt.o.o_strict expect_path with Ok x -> x | Panic -> expect_path in
                   let trimmed = not (str_eqb norm expect_path) in
                   match res with
                   | L [A "found"; A i; ps] ->
                     let i = int_of_string i in
                     let exp_ps = Rt.sparams (Some (List.combine names vs)) in
                     let sel = match spec_select table m norm with Some k -> List.nth idx (int_of_nat k) | None -> -1 in
                     if i <> b.idx then
                       (if i = sel then "ok" (* a higher-priority route also matches the built path: C01's rule, not an error *)
                        else if trimmed then "bad value-trimmed-by-path-normalisation routed-to=" ^ string_of_int i
                        else "bad routed-to-another-route got=" ^ string_of_int i)
                     else if r.s_pat = None then "ok"
                     else if to_string ps = to_string exp_ps && to_string sps = to_string exp_ps && to_string who = string_of_int i then "ok"
                     else if trimmed then "bad value-trimmed-by-path-normalisation got=" ^ to_string ps ^ " expected=" ^ to_string exp_ps
                     else
                       (* another valid decomposition (two greedy variables): accepted when it is what the pattern captures *)
                       (match r.s_pat with
                        | Some p when (match pat_params p norm with Some x -> to_string (Rt.sparams (Some x)) = to_string ps | None -> false)
                                    && List.exists (fun v -> List.exists (fun ch -> int_of_n ch = 47) v) vs -> "ok"
                        | _ -> "bad parameters-differ-from-values got=" ^ to_string ps ^ " srv=" ^ to_string sps ^ " expected=" ^ to_string exp_ps)
                   | _ -> if trimmed then "bad value-trimmed-by-path-normalisation not-routed-back got=" ^ to_string res
                     else "bad not-routed-back got=" ^ to_string res
               end))
     | _ -> "bad no-observation")
