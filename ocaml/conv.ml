(* conv.ml — conversions between OCaml values / sexps and the extracted inductive
   nat, positive, N, Z and str = N list *)
open Model
open Sexp

let rec nat_of_int n = if n <= 0 then O else S (nat_of_int (n - 1))
let rec int_of_nat = function O -> 0 | S n -> 1 + int_of_nat n
let rec pos_of_int n = if n <= 1 then XH else if n land 1 = 0 then XO (pos_of_int (n lsr 1)) else XI (pos_of_int (n lsr 1))
let n_of_int n = if n <= 0 then N0 else Npos (pos_of_int n)
let rec int_of_pos = function XH -> 1 | XO p -> 2 * int_of_pos p | XI p -> 2 * int_of_pos p + 1
let int_of_n = function N0 -> 0 | Npos p -> int_of_pos p
let z_of_int n = if n = 0 then Z0 else if n > 0 then Zpos (pos_of_int n) else Zneg (pos_of_int (- n))
let int_of_z = function Z0 -> 0 | Zpos p -> int_of_pos p | Zneg p -> - (int_of_pos p)

(* strings *)
let str_of_atom (a : string) : n list =
  if String.length a = 0 || a.[0] <> '\'' then failwith ("not a string atom: " ^ a)
  else if String.length a = 1 then []
  else List.map (fun h -> n_of_int (int_of_string ("0x" ^ h))) (String.split_on_char '.' (String.sub a 1 (String.length a - 1)))
let atom_of_str (s : n list) : string =
  "'" ^ String.concat "." (List.map (fun c -> Printf.sprintf "%x" (int_of_n c)) s)
let str_of_ascii (s : string) : n list = List.init (String.length s) (fun i -> n_of_int (Char.code s.[i]))

let str = function A a -> str_of_atom a | L _ -> failwith "string expected"
let int = function A a -> int_of_string a | L _ -> failwith "int expected"
let nat x = nat_of_int (int x)
let sym = function A a -> a | L _ -> failwith "symbol expected"
let lst = function L l -> l | A a -> failwith ("list expected, got " ^ a)
let bool x = match sym x with "t" -> true | "f" -> false | s -> failwith ("bool expected: " ^ s)

let sstr s = A (atom_of_str s)
let sint i = A (string_of_int i)
let snat n = sint (int_of_nat n)
let sbool b = A (if b then "t" else "f")
let slist f l = L (List.map f l)
let sopt f = function None -> A "none" | Some x -> L [A "some"; f x]
