#!/bin/bash
# builds the extracted model + driver; run from anywhere
set -e
cd "$(dirname "$0")"
coqc -Q ../coq Rux ../coq/Extract.v > extract.log 2>&1 || { cat extract.log; exit 1; }
ocamlfind ocamlopt -w -a -package str -linkpkg model.mli model.ml sexp.ml conv.ml rp.ml rt.ml c16.ml c15.ml driver.ml -o driver 2>&1
