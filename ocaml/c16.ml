(* c16.ml — model and judge of the Resource cases *)
open Model
open Sexp
open Conv

type c16case = { gp : n list; umode : int; mask : int; uses : bool; base : n list; strict : bool; kind : string; res : n list; probes : (n list * n list) list; ng : int; nm : int; twice : bool }
let parse_case = function
  | L (A "c16" :: m :: u :: b :: st :: A kind :: res :: L ps :: rest) ->
    let (ng, nm, twice, umode, gp) = match rest with
      | [a; b] -> (int a, int b, false, 0, str_of_ascii "/g") | [a; b; t] -> (int a, int b, bool t, 0, str_of_ascii "/g")
      | [a; b; t; u] -> (int a, int b, bool t, int u, str_of_ascii "/g")
      | [a; b; t; u; g] -> (int a, int b, bool t, int u, str g)     (* the prefix of the enclosing group: "/g", or the root *)
      | _ -> (0, 0, false, 0, str_of_ascii "/g") in
    { twice; umode; gp; mask = int m; uses = bool u; base = str b; strict = bool st; kind; res = str res; ng; nm;
      probes = List.map (function L [m; p] -> (str m, str p) | _ -> failwith "c16: bad probe") ps }
  | x -> failwith ("c16: bad case " ^ to_string x)

(* the base path of the second registration of the same controller: "/zz/" ++ base without its leading slashes *)
let second_base base = let rec dl = function c :: r when int_of_n c = 47 -> dl r | l -> l in str_of_ascii "/zz/" @ dl base
let acts_of mask = List.filter (fun a -> (mask lsr (int_of_nat (action_id a))) land 1 = 1) all_actions
(* the shapes of Uses(): 0 = one middleware for four of the actions, 1 = two (in order) for those four, 2 = one for each action *)
let uses_of c a =
  let id = int_of_nat (action_id a) in
  if not c.uses then []
  else if c.umode = 2 then [nat_of_int (10 + id)]
  else if not (List.mem id [0; 3; 4; 6]) then []
  else if c.umode = 1 then [nat_of_int (10 + id); nat_of_int (30 + id)]
  else [nat_of_int (10 + id)]
let outer_mws c = List.init c.ng (fun k -> 50 + k) @ List.init c.nm (fun k -> 60 + k)
let mw_obs c a = outer_mws c @ List.map (fun h -> int_of_nat h - 10) (uses_of c a)

let sort_assoc l = List.sort (fun (a, _) (b, _) -> if str_eqb a b then 0 else if str_leb a b then -1 else 1) l
let comma_sp = str_of_ascii ", "
let rec join sep = function [] -> [] | [x] -> x | x :: r -> x @ sep @ join sep r
let options_m = str_of_ascii "OPTIONS"

(* routes: (name, methods, path, nhandlers, action) *)
let observe c (routes : (n list * n list list * n list * int * action) list) =
  (* rows by (name, path): a name registered twice is listed once per path *)
  let rows = sort_assoc (List.map (fun (n, ms, p, nh, a) -> (n @ [n_of_int 0] @ p, (n, ms, p, nh, a))) routes) in
  let rsx = List.map (fun (_, (n, ms, p, nh, _)) -> L [sstr n; slist sstr (sort_strs ms); sstr p; sint nh]) rows in
  let rec uniq = function a :: (b :: _ as r) -> if str_eqb a b then uniq r else a :: uniq r | l -> l in
  let named = L [A "named"; slist sstr (uniq (List.map (fun (_, (n, _, _, _, _)) -> n) rows))] in
  (* lookups through the router model *)
  let o = { o_strict = c.strict; o_na = true; o_fallback = false; o_caching = false; o_cap = nat_of_int 0; o_intercept = [] } in
  let rt = List.fold_left (fun rt (n, ms, p, _, _) ->
      match reg_route rt { df_methods = ms; df_path = p; df_nil_handler = false; df_name = n } with Ok r -> r | Panic -> failwith "c16: model registration panics") (new_router o) routes in
  let probe (m, p) =
    match fst (quick_match rt m p) with
    | QFound (rid, _) ->
      let (_, _, _, _, a) = List.nth routes (int_of_nat rid) in
      L [A "hit"; snat (action_id a); slist sint (mw_obs c a)]
    | QNotAllowed al -> L [A "status"; sint (if str_eqb m options_m then 200 else 405); sstr (join comma_sp (sort_strs al))]
    | QNotFound -> L [A "status"; sint 404; sstr []]
    | _ -> L [A "status"; A "error"] in
  L [L (A "routes" :: rsx @ [named]); L (A "probes" :: List.map probe c.probes)]

let model cs =
  let c = parse_case cs in
  match resource_guard (c.kind <> "val") (c.kind <> "ptrint" && c.kind <> "ptrptr") with
  | Panic -> L [A "regpanic"]
  | Ok _ ->
    let acts = acts_of c.mask in
    let inner = match resource_stmts c.base c.res acts (uses_of c) with
      | [SGroup (p, _, body)] -> [SGroup (p, List.init c.nm (fun k -> nat_of_int (60 + k)), body)]
      | x -> x in
    let inner2 = if not c.twice then [] else
        (match resource_stmts (second_base c.base) c.res acts (uses_of c) with
         | [SGroup (p, _, body)] -> [SGroup (p, List.init c.nm (fun k -> nat_of_int (60 + k)), body)]
         | x -> x) in
    let inner = inner @ inner2 in
    let prog = if c.ng > 0 then [SGroup (c.gp, [], SUse (List.init c.ng (fun k -> nat_of_int (50 + k))) :: inner)] else inner in
    match exec_block c.strict prog rinit with
    | Panic -> L [A "regpanic"]
    | Ok st ->
      let acts2 = if c.twice then acts @ acts else acts in
      let routes = List.map2 (fun r a -> (r.r_name, r.r_methods, r.r_path, List.length r.r_handlers, a)) st.r_routes acts2 in
      observe c routes

let action_path_abs a = (let p = action_path a in match p with x :: _ when int_of_n x = 47 -> p | _ -> n_of_int 47 :: p)

(* the documented table, relative to the normalised prefix *)
let spec cs =
  let c = parse_case cs in
  if c.kind <> "ptr" && c.kind <> "badsig" then L [A "regpanic"] else
    let g0 = nf c.strict (c.base @ c.res) in
    let g = if c.ng > 0 then nf c.strict (nf c.strict c.gp @ g0) else g0 in
    let acts = acts_of c.mask in
    let rows g = List.map (fun a -> (route_name c.res a, action_methods a,
                                     (if c.strict then nf c.strict (g @ nf c.strict (action_path_abs a)) else documented_path g a),
                                     List.length (outer_mws c) + List.length (uses_of c a), a)) acts in
    let g20 = nf c.strict (second_base c.base @ c.res) in
    let g2 = if c.ng > 0 then nf c.strict (nf c.strict c.gp @ g20) else g20 in
    observe c (rows g @ (if c.twice then rows g2 else []))

let judge cs obs =
  let e = try spec cs with Failure m -> L [A "spec-error"; A m] in
  if to_string e = to_string obs then "ok" else
    let part = match e, obs with
      | L [r1; _], L [r2; _] when to_string r1 <> to_string r2 -> "registered-table"
      | L [_; _], L [_; _] -> "dispatch"
      | _ -> "rejection" in
    "bad " ^ part ^ " expected=" ^ to_string e
