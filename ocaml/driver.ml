(* driver.ml — runs the extracted Coq models / spec judges on harness cases.
   usage: driver model <prop> < cases > model.txt
          driver judge <prop> cases.txt impl.txt > verdict.txt      (one "ok" / "bad <why>" per line) *)
open Model
open Sexp
open Conv

(* ---------------- C14 ---------------- *)
let c14_op = function
  | L [A "s"; k; v] -> OSet (str k, n_of_int (int v))
  | L [A "g"; k] -> OGet (str k)
  | L [A "h"; k] -> OHas (str k)
  | L [A "d"; k] -> ODel (str k)
  | L [A "l"] -> OLen
  | x -> failwith ("c14: bad op " ^ to_string x)
let c14_res = function
  | RUnit -> A "u"
  | RVal None -> A "none"
  | RVal (Some v) -> L [A "v"; sint (int_of_n v)]
  | RBool b -> sbool b
  | RNat n -> L [A "n"; snat n]
let c14_obs l = slist (fun (r, ks) -> L [c14_res r; slist sstr ks]) l
let c14_case = function
  | L [A "c14"; cap; L ops] -> (nat cap, List.map c14_op ops)
  | x -> failwith ("c14: bad case " ^ to_string x)
let c14_model c = let (cap, ops) = c14_case c in c14_obs (irun (inew cap) ops)
let c14_spec c = let (cap, ops) = c14_case c in c14_obs (arun cap [] ops)

(* ---------------- C11 ---------------- *)
(* case: (c11 strict enc (prefix ...) reg decoded escaped) ; obs: ((path P) (match b) (serve b)) or (panic) *)
let outc f = function Ok x -> f x | Panic -> A "panic"
(* with the flavour "dyn" the route is registered as reg ++ "/{id}" and requested as path ++ "/7": a request reaches it iff its
   normal form is the registered path with {id} replaced by 7 *)
let c11_dyn = ref false
let c11_sfx_reg = str_of_ascii "/{id}" and c11_sfx_req = str_of_ascii "/7"
let rec c11_inst = function
  | [] -> []
  | l -> let pat = str_of_ascii "{id}" in
    if Rt.has_prefix_l pat l then str_of_ascii "7" @ c11_inst (Rt.drop 4 l) else (match l with x :: r -> x :: c11_inst r | [] -> [])
(* flavours: "dyn" (above) and "cache" (the router caches dynamic matches, the canonical spelling is requested first and every lookup
   is repeated): by C07_cache_transparent / C11_lookup_by_normal_form the cache changes no answer, so model and spec ignore it *)
let c11_case = function
  | L (A "c11" :: st :: enc :: L gs :: reg :: dec :: esc :: fl) ->
    List.iter (function A "dyn" | A "cache" | A "tail" | A "icpt" -> () | x -> failwith ("c11: bad flavour " ^ to_string x)) fl;
    let (st, enc, gs, reg, dec, esc) =
      if List.mem (A "dyn") fl then begin
        let sfx = if List.mem (A "tail") fl then c11_sfx_req @ str_of_ascii "/" else c11_sfx_req in
        c11_dyn := true; (bool st, bool enc, List.map str gs, str reg @ c11_sfx_reg, str dec @ sfx, str esc @ sfx) end
      else begin c11_dyn := false; (bool st, bool enc, List.map str gs, str reg, str dec, str esc) end in
    (* InterceptAll(dec) and the request "/zz": a non-blank intercept path stands for every request path (decoded or escaped) *)
    if List.mem (A "icpt") fl then begin
      let blank = (trim_space dec = []) in
      let q = if blank then str_of_ascii "/zz" else dec in (st, enc, gs, reg, q, q) end
    else (st, enc, gs, reg, dec, esc)
  | x -> failwith ("c11: bad case " ^ to_string x)
let c11_model c =
  let (st, enc, gs, reg, dec, esc) = c11_case c in
  match reg_path st gs reg with
  | Panic -> A "panic"
  | Ok p ->
    let target = if !c11_dyn then c11_inst p else p in
    let hit q = match format_path st q with Ok k -> sbool (str_eqb k target) | Panic -> A "panic" in
    L [L [A "path"; sstr p]; L [A "match"; hit dec]; L [A "serve"; hit (request_path enc dec esc)]]
(* spec: closed form "/" ++ core, independent of the transcription of formatPath *)
let c11_spec c =
  let (st, enc, gs, reg, dec, esc) = c11_case c in
  let sl = n_of_int 47 in
  let nf s = sl :: core st s in
  let p = match gs with [] -> nf reg | _ -> nf (List.concat (List.map nf gs) @ nf reg) in
  let target = if !c11_dyn then c11_inst p else p in
  let hit q = sbool (str_eqb (nf q) target) in
  L [L [A "path"; sstr p]; L [A "match"; hit dec]; L [A "serve"; hit (if enc then esc else dec)]]

(* ---------------- C08 ---------------- *)
(* case: (c08 (script n ...) (((pre ops) (post ops)) ...)) ; handler i calls Next between pre and post *)
let wop = function
  | L [A "st"; z] -> WSetStatus (z_of_int (int z))
  | L [A "hd"; k; v] -> WSetHeader (str k, str v)
  | L [A "wr"; b] -> WWrite (str b)
  | L [A "fl"] -> WFlush
  | L [A "he"; m; c] -> WHttpError (str m, z_of_int (int c))
  | L [A "rd"; u; c] -> WRedirect (str u, z_of_int (int c))
  | L [A "ob"] -> WObs
  | L [A "cp"; b] -> WWrite (str b)      (* io.Copy from a plain reader = one Write (no call at all for no data: filtered below) *)
  | L [A "ab"; z] -> WSetStatus (z_of_int (int z))   (* AbortWithStatus(code) where nothing is left to skip: c.Resp.WriteHeader(code) *)
  | x -> failwith ("bad writer op " ^ to_string x)
let swev = function
  | WH c -> L [A "wh"; sint (int_of_z c)]
  | W b -> L [A "w"; sstr b]
  | F -> L [A "f"]
let c08_case = function
  | L [A "c08"; L sc; L hs] ->
    (* (pre () stdK): the handler is a net/http handler behind one of rux's adaptors; it cannot call Next, the rest of
       the chain follows it automatically: same flattened order *)
    let nonempty_cp = function L [A "cp"; b] -> str b <> [] | _ -> true in
    let hs = List.map (function L (L pre :: L post :: rest) -> L (L (List.filter nonempty_cp pre) :: L (List.filter nonempty_cp post) :: rest) | x -> x) hs in
    let hs = List.map (function
        | L [L pre; L post] -> (List.map wop pre, List.map wop post)
        | L [L pre; L []; A ("std0" | "std1" | "std2" | "std3" | "std4" | "std5")] -> (List.map wop pre, [])
        | x -> failwith ("c08: bad handler " ^ to_string x)) hs in
    let ops = List.concat (List.map fst hs) @ List.concat (List.rev_map snd hs) in
    (List.map nat sc, ops)
  | x -> failwith ("c08: bad case " ^ to_string x)
let c08_model c =
  let (sc, ops) = c08_case c in
  let w = wrequest sc ops in
  L [L (A "log" :: List.map swev w.log); L (A "obs" :: List.map (fun (s, l) -> L [sint (int_of_z s); sint (int_of_z l)]) w.obs)]
let c08_judge c obs =
  let (sc, ops) = c08_case c in
  let expect = L (A "log" :: List.map swev (WH (spec_status Z0 ops) :: spec_events sc ops)) in
  match obs with
  | L (l :: _) when to_string l = to_string expect -> "ok"
  | L (L (A "log" :: evs) :: _) ->
    let nwh = List.length (List.filter (function L [A "wh"; _] -> true | _ -> false) evs) in
    let sigv = if nwh <> 1 then "commit-count" else (match evs with L [A "wh"; c] :: _ -> if to_string c <> string_of_int (int_of_z (spec_status Z0 ops)) then "commit-status" else "body-events" | _ -> "commit-not-first") in
    "bad " ^ sigv ^ " expected=" ^ to_string expect
  | _ -> "bad no-log expected=" ^ to_string expect

(* ---------------- C20 ---------------- *)
let c20_run spec c =
  match c with
  | L (A "auth" :: L accts :: hdr :: dec :: _) ->    (* optional flavour: pre (a middleware before the gate writes first) *)
    let accts = List.map (function L [u; p] -> (str u, str p) | _ -> failwith "c20: bad account") accts in
    let b64 _ = match dec with A "none" -> None | L [A "some"; d] -> Some (str d) | _ -> failwith "c20: bad oracle" in
    let hdr = str hdr in
    let gate = basic_auth b64 accts hdr in
    if spec then
      (* the property text: let through iff well-formed credentials and (no account list or password matches) *)
      (match gate with
       | Allow (_, _) -> L [A "auth"; A "t"; sint 200; sstr []]
       | Deny401 -> L [A "auth"; A "f"; sint 401; sstr (str_of_ascii "Basic realm=\"THE REALM\"")]
       | Deny403 -> L [A "auth"; A "f"; sint 403; sstr []])
    else begin
      (* the model: run the chain [auth middleware; downstream handler] through the dispatcher *)
      let down = [OEff (EEv (nat_of_int 1)); OEff (EW (WSetStatus (z_of_int 200)))] in
      let cfg = { globals = []; on_panic = None; on_error = None } in
      match handle_request cfg false (TRoute ([auth_prog b64 accts hdr], down, [], [], [])) (ctx_init [] fresh_ctx).p_x with
      | Done (x, _) ->
        let ran = List.exists (function TE _ -> true | _ -> false) x.trace in
        let status = match x.w.log with WH c :: _ -> int_of_z c | _ -> 0 in
        let www = match gate with Deny401 -> str_of_ascii "Basic realm=\"THE REALM\"" | _ -> [] in
        L [A "auth"; sbool ran; sint status; sstr www]
      | _ -> L [A "auth"; A "error"]
    end
  | L (A "ovr" :: m :: fv :: hv :: A carrier :: _) ->   (* optional flavour: timeout (handlers.Timeout in the chain) *)
    let fv = if carrier = "n" then [] else str fv in
    let (m', o) = method_override (str m) fv (str hv) in
    L [A "ovr"; sstr m'; (match o with Some x -> sstr x | None -> A "none")]
  | L [A "wrap"; n] ->
    let n = int n in
    let ws = List.init n (fun i -> fun h -> [sint (2 * i)] @ h @ [sint (2 * i + 1)]) in
    let r = [sint 99] in
    (match (if spec then Some (wrap_spec ws r) else wrap_loop ws r) with
     | Some t -> L (A "wrap" :: t)
     | None -> L [A "wrap"; A "nil"])
  | L [A "wraph"; n; k] ->
    let n = int n and k = int k in
    let hs = List.init n (fun i -> if i = k then [OEff (EEv (nat_of_int (i * 10)))]
                           else [OEff (EEv (nat_of_int (i * 10))); ONext; OEff (EEv (nat_of_int (i * 10 + 1)))]) in
    let cfg = { globals = []; on_panic = None; on_error = None } in
    (match handle_request cfg false (TRoute (hs, [OEff (EEv (nat_of_int 990))], [], [], [])) (ctx_init [] fresh_ctx).p_x with
     | Done (x, _) -> L (A "wraph" :: List.concat (List.map (function TE t -> [snat t] | _ -> []) x.trace))
     | _ -> L [A "wraph"; A "error"])
  | x -> failwith ("c20: bad case " ^ to_string x)
let c20_judge c obs =
  let e = c20_run true c in
  if to_string e = to_string obs then "ok" else
    "bad " ^ (match c with L (A "auth" :: _) -> "auth-gate" | L (A "ovr" :: _) -> "method-override" | L (A "wrap" :: _) -> "wrapper-order" | _ -> "wrapped-handler-in-chain")
    ^ " expected=" ^ to_string e

(* ---------------- C17 ---------------- *)
let c17_model = function
  | L [A "clean"; p] -> L [A "clean"; sstr (clean_rooted (str p))]
  | L (A "get" :: _) -> L [A "judge-only"]
  | x -> failwith ("c17: bad case " ^ to_string x)
let ends_with suf s = let ls = String.length s and lf = String.length suf in ls >= lf && String.sub s (ls - lf) lf = suf
let ascii_of s = String.concat "" (List.map (fun c -> let x = int_of_n c in if x < 128 then String.make 1 (Char.chr x) else "?") s)
let c17_judge c obs =
  match c, obs with
  | L [A "clean"; p], _ ->
    let e = L [A "clean"; sstr (clean_rooted (str p))] in
    if to_string e = to_string obs then "ok" else "bad path-clean-model expected=" ^ to_string e
  | L (A "get" :: A kind :: _), L [A "get"; A st; id] ->
    let second = (kind = "dir2" || kind = "files2") in
    (* gdir / gfiles: the same handlers registered inside a group; dire / filese / fse: on a router with UseEncodedPath *)
    let kind = match kind with "gfiles" | "filese" | "tfiles" -> "files" | "gdir" | "dire" -> "dir" | "fse" -> "fs" | k -> k in
    (match id with
     | L [A "out"; f] -> "bad serves-outside-root file=" ^ to_string f ^ " status=" ^ st
     | L [A "in"; f] when second -> "bad serves-outside-root file=(first-root)" ^ to_string f ^ " status=" ^ st
     | L [A "in2"; f] when not second -> "bad serves-outside-root file=(second-root)" ^ to_string f ^ " status=" ^ st
     | L [A "in2"; rel] ->
       let rel = ascii_of (str rel) in
       if kind = "files2" && st = "200" && not (ends_with ".css" rel || ends_with ".js" rel) then "bad extension-filter-bypassed served=" ^ rel
       else "ok"
     | L [A "in"; rel] ->
       let rel = ascii_of (str rel) in
       if kind = "files" && st = "200" && not (ends_with ".css" rel || ends_with ".js" rel) then "bad extension-filter-bypassed served=" ^ rel
       else if kind = "one" && rel <> "a.css" then "bad single-file-handler-serves-another-file served=" ^ rel
       else "ok"
     | L [A "other"; _] -> if (kind = "files" || kind = "files2") && st = "200" then "bad extension-filter-bypassed served=listing-or-index" else "ok"
     | _ -> "bad observation-shape")
  | _ -> "bad observation-shape"

(* ---------------- C18 ---------------- *)
let ssource = function SQuery -> "query" | SForm -> "form" | SMultipart -> "multipart" | SJson -> "json" | SXml -> "xml" | SError -> "err"
(* inputs that are not well-formed documents of their format (or carry a value of the wrong type): binding must fail *)
let c18_malformed = [
  ("json", "{"); ("json", "[1,2"); ("json", "{\"id\":\"x\"}"); ("json", "{\"tags\":5}"); ("json", "{\"id\":1,}"); ("json", "{'id':1}");
  ("json", "<val><id>x</id>"); ("json", "id=abc&ok=maybe"); ("json", "%zz"); ("json", "<a></b>");
  ("xml", "<val><id>x</id>"); ("xml", "<a></b>"); ("xml", "<val><id>1</id></vals>"); ("xml", "<val a=b><id>1</id></val>");
  ("xml", "<val><name>&nbsp;</name></val>"); ("xml", "<val><name>a & b</name></val>"); ("xml", "<val><id>1</ID></val>");
  ("xml", "<val><id>1</id><name>x</val></name>"); ("xml", "<val checked><id>1</id></val>"); ("xml", "{"); ("xml", "[1,2");
  ("form", "id=abc&ok=maybe"); ("query", "id=abc&ok=maybe"); ("form", "id=&ok=true"); ("query", "id=&name=x"); ("form", "score=") ]
let c18_model = function
  | L [A "src"; m; ct] -> L [A "src"; A (ssource (auto_source (str m) (str ct)))]
  | L (A _ :: _) -> L [A "judge-only"]
  | x -> failwith ("c18: bad case " ^ to_string x)
let c18_judge c obs =
  match c, obs with
  | L [A "src"; m; ct], L [A "src"; A got] ->
    (* the documented table on the media type (text before the first ';', trimmed) *)
    let cts = str ct in
    let rec upto = function [] -> [] | x :: r -> if int_of_n x = 59 then [] else x :: upto r in
    let mt = trim_space (upto cts) in
    let exp = if has_body (str m) then ssource (doc_source mt) else "query" in
    if exp = got then "ok"
    else if exp = "err" && got <> "err" then "bad substring-content-type-dispatch media-type=" ^ atom_of_str mt ^ " bound-as=" ^ got
    else "bad wrong-source expected=" ^ exp ^ " got=" ^ got
  | L (A "rt" :: A f :: _), L [A "rt"; A r] -> if r = "ok" then "ok" else "bad roundtrip-" ^ r ^ " format=" ^ f
  | L [A "mal"; A f; body], L [A "mal"; A r] ->
    if r = "panic" then "bad malformed-input-panics"
    else if r = "ok" && List.mem (f, ascii_of (str body)) c18_malformed then "bad malformed-input-accepted format=" ^ f ^ " body=" ^ ascii_of (str body)
    else "ok"
  | L (A "val" :: A en :: A valid :: A f :: _), L [A "val"; A r] ->
    if r = "panic" then "bad validation-panics"
    else if en = "t" && valid = "f" && r = "ok" then "bad bind-succeeds-on-invalid-struct format=" ^ f
    else if (en = "f" || valid = "t") && r <> "ok" then "bad valid-input-rejected format=" ^ f
    else "ok"
  | _ -> "bad observation-shape"

(* ---------------- C19 ---------------- *)
let c19_strs = ["hello"; "<b>bold</b> & more"; "h\xc3\xa9llo w\xc3\xb6rld \xe2\x9c\x93"; "tab\tand\nnewline"; ""; "quote\"s' and \\"; "\xe2\x80\xa8sep"; "a=b&c=d";
                "a\xffb\x00c"; String.make 70000 'z']    (* not valid UTF-8 with a NUL; longer than any copy buffer *)
let c19_cbs = ["cb"; "a.b"; "$x"; "f_1"]
(* a long body is reported by its length and digest (the harness does the same) *)
let sbody (b : n list) =
  if List.length b > 2048 then begin
    let buf = Buffer.create 70000 in
    List.iter (fun c -> Buffer.add_char buf (Char.chr (int_of_n c land 255))) b;
    L [A "long"; sint (List.length b); A (Digest.to_hex (Digest.string (Buffer.contents buf)))]
  end else sstr b
let bytes_of s = List.init (String.length s) (fun i -> n_of_int (Char.code s.[i]))
let c19_run c =
  let preset_of = function A "none" -> None | p -> Some (str p) in
  let sct = function Some c -> sstr c | None -> sstr [] in
  let log_status w = match w.log with WH c :: _ -> int_of_z c | _ -> 0 in
  let log_body w = List.concat (List.map (function W b -> b | _ -> []) w.log) in
  match c with
  | L (A "h" :: A helper :: st :: vk :: preset :: encj :: encx :: prior) ->
    let status = z_of_int (int st) and vk = int vk and preset = preset_of preset in
    let sbytes = bytes_of (List.nth c19_strs (vk mod 10)) in
    let r0 = rsp_init preset [] in
    (* optional: a status recorded by an earlier handler (SetStatus, nothing written yet) *)
    let r0 = match prior with [p] -> { r0 with rw = write_header (z_of_int (int p)) r0.rw } | _ -> r0 in
    let fin r = ensure r.rw in
    let plain ct data = let r = ctx_blob status ct data r0 in (r, fin r) in
    let out r w body nerr loc = L [A "h"; sint (log_status w); sct r.ctype; body; sint nerr; sstr loc] in
    (match helper with
     | "text" -> let (r, w) = plain ct_text sbytes in out r w (sbody (log_body w)) 0 []
     | "html" | "htmlstring" -> let (r, w) = plain ct_html sbytes in out r w (sbody (log_body w)) 0 []
     | "jsonbytes" -> let (r, w) = plain ct_json sbytes in out r w (sbody (log_body w)) 0 []
     | "blob" -> let (r, w) = plain (str_of_ascii "application/x-blob") sbytes in out r w (sbody (log_body w)) 0 []
     | "stream" -> let (r, w) = plain (str_of_ascii "application/x-stream") sbytes in out r w (sbody (log_body w)) 0 []
     | "streamerr" -> let (r, w) = plain (str_of_ascii "application/x-stream") sbytes in out r w (sbody (log_body w)) 1 []
     | "nocontent" -> let r = ctx_no_content r0 in out r (fin r) (sstr []) 0 []
     | "redirect" ->
       let code = if int st >= 300 && int st < 400 then status else z_of_int 301 in
       let r = { r0 with rw = write_header code r0.rw } in out r (fin r) (sstr []) 0 (str_of_ascii "/to")
     | "httperror" ->
       let r = ctx_http_error sbytes status r0 in
       let r = { r with ctype = Some ct_text } in     (* http.Error sets its own Content-Type *)
       out r (fin r) (sbody (log_body (fin r))) 0 []
     | "json" | "jsonp" | "xml" | "xmlindent" ->
       let helper = if helper = "xmlindent" then "xml" else helper in
       let ok = if helper = "xml" then bool encx else bool encj in
       let enc _ = if ok then Some [n_of_int 120] else None in
       let f = match helper with
         | "json" -> render_json enc ()
         | "jsonp" -> render_jsonp enc (str_of_ascii (List.nth c19_cbs (vk mod 4))) ()
         | _ -> render_xml enc [n_of_int 60] () in
       let r = respond status f r0 in
       let body = if not ok then L [A "enc-error"]
         else if helper = "xml" && vk mod 6 <> 2 then L [A "dec"; A "na"] else L [A "dec"; A "ok"] in
       out r (fin r) body (int_of_nat r.nerr) []
     | h -> failwith ("c19: bad helper " ^ h))
  | L [A "rdr"; A name; vk; preset; encj; encx] ->
    (* the renderers of pkg/render used on their own, on a plain ResponseWriter *)
    let vk = int vk and preset = preset_of preset in
    let sbytes = bytes_of (List.nth c19_strs (vk mod 10)) in
    let r0 = rsp_init preset [] in
    let out r body err = L [A "rdr"; sct r.ctype; body; sbool err] in
    let blob ct = let r = render_blob ct sbytes r0 in out r (sbody (log_body (ensure r.rw))) false in
    (match name with
     | "text" | "plain" | "textbytes" -> blob ct_text
     | "html" | "htmlbytes" -> blob ct_html
     | "blob" -> blob (str_of_ascii "application/x-blob")
     | "json" | "jsonindented" | "jsonp" | "xml" | "xmlpretty" ->
       let isx = (name = "xml" || name = "xmlpretty") in
       let ok = if isx then bool encx else bool encj in
       let enc _ = if ok then Some [n_of_int 120] else None in
       let (r, good) = (match name with
           | "json" | "jsonindented" -> render_json enc ()
           | "jsonp" -> render_jsonp enc (str_of_ascii (List.nth c19_cbs (vk mod 4))) ()
           | _ -> render_xml enc [n_of_int 60] ()) r0 in
       let body = if not good then L [A "enc-error"]
         else if isx && vk mod 6 <> 2 then L [A "dec"; A "na"] else L [A "dec"; A "ok"] in
       out r body (not good)
     | h -> failwith ("c19: bad renderer " ^ h))
  | L [A "auto"; acc; vk; preset; encj; encx] ->
    let vk = int vk and preset = preset_of preset in
    (* httpreq.ParseAccept: split at ',', keep the text before ';', trim, drop empties *)
    let rec split acc cur = function
      | [] -> List.rev (List.rev cur :: acc)
      | c :: r -> if int_of_n c = 44 then split (List.rev cur :: acc) [] r else split acc (c :: cur) r in
    let rec upto = function [] -> [] | x :: r -> if int_of_n x = 59 then [] else x :: upto r in
    let accepts = List.filter (fun a -> a <> []) (List.map (fun p -> trim_space (upto p)) (split [] [] (str acc))) in
    let is_str = vk mod 6 = 0 || vk mod 6 = 3 in
    let sval = List.nth c19_strs ((vk / 6) mod 10) in
    let ct d = match preset with Some c -> sstr c | None -> sstr d in
    (match auto_pick accepts with
     | None -> L [A "auto"; ct []; A "empty"; A "t"]
     | Some KHtml -> L [A "auto"; ct []; A "empty"; A "f"]
     | Some KJson -> if bool encj then L [A "auto"; ct ct_json; A "json"; A "f"] else L [A "auto"; ct ct_json; A "empty"; A "t"]
     | Some KXml -> if bool encx then L [A "auto"; ct ct_xml; A "xml"; A "f"] else L [A "auto"; ct ct_xml; A "xml"; A "t"]
     | Some KText ->
       if is_str then L [A "auto"; ct ct_text; A (if sval = "" then "empty" else "text"); A "f"]
       else if bool encj then L [A "auto"; ct ct_text; A "json"; A "f"]
       else L [A "auto"; ct []; A "empty"; A "t"])
  | x -> failwith ("c19: bad case " ^ to_string x)
let c19_judge c obs =
  let e = c19_run c in
  if to_string e = to_string obs then "ok" else
    (match c, e, obs with
     | L (A "h" :: A h :: _), L [_; s1; c1; b1; n1; _], L [_; s2; c2; b2; n2; _] ->
       "bad " ^ (if to_string s1 <> to_string s2 then "status" else if to_string c1 <> to_string c2 then "content-type"
                 else if to_string b1 <> to_string b2 then "body" else if to_string n1 <> to_string n2 then "error-reporting" else "location") ^ " helper=" ^ h
     | L (A "h" :: A h :: _), _, _ -> "bad helper-panics helper=" ^ h
     | L (A "rdr" :: A h :: _), L [_; c1; b1; _], L [_; c2; b2; _] ->
       "bad " ^ (if to_string c1 <> to_string c2 then "content-type" else if to_string b1 <> to_string b2 then "body" else "error-reporting") ^ " renderer=" ^ h
     | L (A "rdr" :: A h :: _), _, _ -> "bad renderer-panics renderer=" ^ h
     | _ -> "bad negotiation") ^ " expected=" ^ to_string e

(* ---------------- C03 ---------------- *)
let c03_judge _c obs =
  match obs with
  | L [L [A "stuck"]; _] -> "bad requests-entangled-under-interleaving (a request parked or finished on behalf of another one: the scheduler was left waiting)"
  | L [L (A "reqs" :: rs); L (A "solo" :: ss)] ->
    let rec go i rs ss = match rs, ss with
      | [], [] -> "ok"
      | r :: rs', s :: ss' ->
        if to_string r = to_string s then go (i + 1) rs' ss'
        else "bad " ^ Rp.first_diff_field r s ^ "-under-interleaving request=" ^ string_of_int i ^ " got=" ^ to_string r ^ " solo=" ^ to_string s
      | _ -> "bad request-count" in
    go 0 rs ss
  | _ -> "bad observation-shape"

(* judge by spec equality: the observation must be exactly what the spec function yields *)
let judge_eq spec c obs =
  let e = to_string (spec c) in
  if e = to_string obs then "ok" else "bad expected=" ^ e

let rec model_of p = match p with
  | "C14" -> (fun c -> match c with L (A "rt" :: _) -> Rt.model "C14" c | _ -> c14_model c)
  | "C11" -> c11_model
  | "C08" -> c08_model
  | "C20" -> c20_run false
  | "C17" -> c17_model
  | "C18" -> c18_model
  | "C19" -> c19_run
  | "C16" -> C16.model
  | "C15" -> C15.model
  | "C04" | "C05" | "C12" | "C09" | "C10" -> Rp.model
  | "C13" -> (fun c -> match c with
      | L (A "rp" :: _) -> (match Rp.model c with L [A "regpanic"] -> L [A "reg"; A "panic"] | _ -> L [A "reg"; A "ok"])
      | _ -> Rt.model "C13" c)
  | "C01" | "C06" -> Rt.model p
  | "C02" | "C07" | "C03" -> (fun _ -> L [A "judge-only"])
  | p -> failwith ("no model for " ^ p)
let judge_of = function
  | "C14" -> (fun c o -> match c with L (A "rt" :: _) -> Rt.c14r_judge c o | _ -> judge_eq c14_spec c o)
  | "C11" -> judge_eq c11_spec
  | "C08" -> c08_judge
  | "C20" -> c20_judge
  | "C17" -> c17_judge
  | "C18" -> c18_judge
  | "C19" -> c19_judge
  | "C03" -> c03_judge
  | "C16" -> C16.judge
  | "C15" -> C15.judge
  | "C12" -> Rp.c12_judge
  | "C04" -> Rp.c04_judge
  | "C05" -> Rp.c05_judge
  | "C09" -> Rp.c09_judge
  | "C10" -> Rp.c10_judge
  | "C01" -> Rt.c01_judge
  | "C02" -> Rt.c02_judge
  | "C07" -> Rt.c07_judge
  | "C06" -> Rt.c06_judge
  | "C13" -> (fun c o -> match c with
      | L (A "rp" :: _) -> Rp.c13_limit_judge c o
      | _ -> Rt.c13_judge c o)
  | p -> failwith ("no judge for " ^ p)

let read_lines ic = let rec go acc = match input_line ic with l -> go (l :: acc) | exception End_of_file -> List.rev acc in go []

let () =
  match Array.to_list Sys.argv with
  | [_; "model"; p] ->
    let f = model_of p in
    List.iter (fun l -> if String.trim l <> "" then
      print_endline (try to_string (f (parse l)) with Failure m -> "(error " ^ String.map (fun c -> if c = ' ' then '_' else c) m ^ ")" | e -> "(error " ^ String.map (fun c -> if c = ' ' then '_' else c) (Printexc.to_string e) ^ ")")) (read_lines stdin)
  | [_; "judge"; p; cf; imf] ->
    let f = judge_of p in
    let cs = read_lines (open_in cf) and is = read_lines (open_in imf) in
    if List.length cs <> List.length is then (prerr_endline "judge: length mismatch"; exit 2);
    List.iter2 (fun c i -> print_endline (try f (parse c) (parse i) with Failure m -> "bad judge-error:" ^ m | e -> "bad judge-error:" ^ Printexc.to_string e)) cs is
  | [_; "consts"] ->
    let pr x = print_endline (to_string x) in
    pr (L [A "abort-index"; sint (int_of_z abort_index)]);
    pr (L [A "any-methods"; slist sstr any_methods]);
    pr (L [A "any-match"; sstr any_match]);
    pr (L [A "rest-actions"; slist (fun (k, ms) -> L [sstr k; slist sstr ms]) rest_actions]);
    pr (L [A "global-vars"; slist (fun (k, v) -> L [sstr k; sstr v]) global_vars])
  | _ -> prerr_endline "usage: driver model|judge <prop> ..."; exit 2
