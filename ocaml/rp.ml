(* rp.ml — model side of the "registration program + requests" cases (C04, C05, C09, C10, C12) *)
open Model
exception Unsupported
open Sexp
open Conv

let wop = function
  | L [A "st"; z] -> WSetStatus (z_of_int (int z))
  | L [A "hd"; k; v] -> WSetHeader (str k, str v)
  | L [A "wr"; b] -> WWrite (str b)
  | L [A "fl"] -> WFlush
  | L [A "he"; m; c] -> WHttpError (str m, z_of_int (int c))
  | L [A "rd"; u; c] -> WRedirect (str u, z_of_int (int c))
  | L [A "ob"] -> WObs
  | x -> failwith ("bad writer op " ^ to_string x)
let swev = function
  | WH c -> L [A "wh"; sint (int_of_z c)]
  | W b -> L [A "w"; sstr b]
  | F -> L [A "f"]

let hop = function
  | L [A "ev"; n] -> OEff (EEv (nat n))
  | L [A "next"] -> ONext
  | L [A "abort"] | L [A "abortthen"] -> OAbort
  | L [A "abs"; c] -> OAbortStatus (z_of_int (int c))
  | L [A "hijack"] -> raise Unsupported      (* Hijack is outside the writer model: such cases are judged by the twin oracle only *)
  | L [A "isab"] -> OIsAborted
  | L [A "panic"; n] -> OPanic (nat n)
  | L [A "w"; o] -> OEff (EW (wop o))
  | L [A "sd"; k; v] -> OEff (ESetData (str k, nat v))
  | L [A "ae"; n] -> OEff (EAddError (nat n))
  | L [A "sp"; k; v] -> OEff (ESetParam (str k, str v))
  | L [A "rr"] -> OEff EReplaceResp
  | L [A "rq"] -> OEff EReplaceReq
  | L [A "snap"] -> OEff ESnap
  | x -> failwith ("rp: bad op " ^ to_string x)

let expand_ops ops = List.concat_map (function
    | L [A "absm"; c] -> [L [A "w"; L [A "he"; sstr (str_of_ascii "denied"); c]]; L [A "abort"]]
    | L [A "mal"] | L [A "sh"] -> []
    | o -> [o]) ops

let rec stmt = function
  | L (A "use" :: ids) -> SUse (List.map nat ids)
  | L [A "group"; p; L m; L body]
  | L [A "group"; p; L m; L body; A "res"] (* Router.Resource(base, ctl, m...): Group(base+name){ AddNamed(name_action, "/", action).Use(uses) } *)
  | L [A "group"; p; L m; L body; A "ctl"] (* Router.Controller(p, c, m...) with c.AddRoutes = body: a Group by definition *)
    -> SGroup (str p, List.map nat m, List.map stmt body)
  | L [A "route"; L ms; p; main; L var; L later; name]
  (* the optional 8th element names the entry point used by the harness (add: r.Add(..).Use(var..);
     pre: NewRoute(..).Use(var..) then AddRoute): the model gives both the same meaning *)
  | L [A "route"; L ms; p; main; L var; L later; name; A ("add" | "pre" | "attach" | "short" | "any")] ->   (* any: Router.Any(path, main, var...) *)
    SRoute (List.map str ms, str p, nat main, List.map nat var, List.map nat later, str name)
  | L (A "nf" :: ids) -> SNotFound (List.map nat ids)
  | L (A "nal" :: ids) -> SNotAllowed (List.map nat ids)
  | x -> failwith ("rp: bad stmt " ^ to_string x)

type rpcase = {
  fb : bool; strict : bool; na : bool; twin : bool; cache : int option; onpanic : hop list option; onerror : hop list option;
  stmts : stmt list; hs : (int * hop list) list;
  reqs : (n list * n list * nat list) list;   (* method, path, script *)
  late_stmts : stmt list; late_reqs : (n list * n list * nat list) list;   (* statements run after the requests, then more requests *)
}

let rec parse_case = function
  | L [A "rp"; o; ss; hs; reqs; L [A "late"; L lss; L lreqs]] ->
    let c = parse_case (L [A "rp"; o; ss; hs; reqs]) in
    { c with late_stmts = List.map stmt lss;
             late_reqs = List.map (function L [m; p; L sc] -> (str m, str p, List.map nat sc) | x -> failwith ("rp: bad req " ^ to_string x)) lreqs }
  | L [A "rp"; L opts; L ss; L hs; L reqs] ->
    let strict = ref false and na = ref false and twin = ref false and onp = ref None and one = ref None and cache = ref None and fb = ref false in
    List.iter (function
        | L [A "fb"] -> fb := true           (* HandleFallbackRoute: an unmatched request goes to the "/*" route of its method *)
        | L [A "na"] -> na := true
        | L [A "strict"] -> strict := true
        | L [A "twin"] -> twin := true
        | L [A "cache"; n] -> cache := Some (int n)
        | L [A "onpanic"; L ops] -> onp := Some (List.map hop ops)
        | L [A "onerror"; L ops] -> one := Some (List.map hop ops)
        | x -> failwith ("rp: bad option " ^ to_string x)) opts;
    { fb = !fb; strict = !strict; na = !na; twin = !twin; cache = !cache; onpanic = !onp; onerror = !one;
      stmts = List.map stmt ss;
      (* (an optional third element names the way the handler is written: std = a net/http handler behind an adaptor) *)
      (* mal (in-place edit of the allowed-methods list handed to the handler) and sh (SetHandlers with an application-owned
         chain as the last op of a last handler) change nothing a later op or request may observe: no model op *)
      (* absm = AbortWithStatus(code, msg): http.Error(c.Resp, msg, code) followed by Abort() *)
      hs = List.map (function L (id :: L ops :: _) -> (int id, List.map hop (expand_ops ops))
                            | x -> failwith ("rp: bad handler " ^ to_string x)) hs;
      reqs = List.map (function L [m; p; L sc] -> (str m, str p, List.map nat sc) | x -> failwith ("rp: bad req " ^ to_string x)) reqs;
      late_stmts = []; late_reqs = [] }
  | x -> failwith ("rp: bad case " ^ to_string x)

let prog_of c id =
  match List.assoc_opt (int_of_nat id) c.hs with Some p -> p | None -> failwith "rp: unknown handler"

let sdval = function
  | DNat n -> L [A "n"; snat n]
  | DStr s -> L [A "s"; sstr s]
  | DStrs l -> L [A "l"; slist sstr (sort_strs l)]
  | DPanic (PUser v) -> L [A "p"; snat v]
  | DPanic PIndex -> L [A "p"; A "idx"]
let sort_assoc l = List.sort (fun (a, _) (b, _) -> if str_eqb a b then 0 else if str_leb a b then -1 else 1) l
let stev = function
  | TE t -> L [A "e"; snat t]
  | TAb b -> L [A "ab"; sbool b]
  | TSnap s ->
    L [A "snap"; slist (fun (k, v) -> L [sstr k; sdval v]) (sort_assoc s.s_data);
       slist (fun (k, v) -> L [sstr k; sstr v]) (sort_assoc s.s_params);
       snat s.s_nerrors; sint (int_of_z s.s_status); sint (int_of_z s.s_length); sbool s.s_resp_own; sbool s.s_req_own;
       A "t"]    (* Context.Router() is the router that serves the request (constant in the model: contexts are per router) *)
let spval = function PUser v -> L [A "p"; snat v] | PIndex -> L [A "p"; A "idx"]

let options_m = str_of_ascii "OPTIONS"

(* which chain a request resolves to. All routes of the rp cases are static, so resolution is the static
   table: the last route registered under (method, normalised path); otherwise 405 when enabled and other
   methods have the path; otherwise 404. (Route matching proper is C01/C06.) *)
type rtarget = RRoute of rroute | RNotFound | RNotAllowed of n list list
let all_methods = List.map str_of_ascii ["GET"; "POST"; "PUT"; "PATCH"; "DELETE"; "OPTIONS"; "HEAD"; "CONNECT"; "TRACE"]
let resolve c (routes : rroute list) m p =
  let p' = match format_path c.strict p with Ok x -> x | Panic -> failwith "format panic" in
  (* static routes: the last registration of the key wins; otherwise the first dynamic route (in registration order) whose
     pattern matches (the rp cases have at most simple, non-overlapping dynamic routes: selection proper is C01) *)
  let is_dyn r = List.exists (fun ch -> let x = int_of_n ch in x = 123 || x = 91) r.r_path in
  let find m =
    match List.fold_left (fun acc r -> if not (is_dyn r) && List.exists (str_eqb m) r.r_methods && str_eqb r.r_path p' then Some r else acc) None routes with
    | Some r -> Some r
    | None -> List.find_opt (fun r -> is_dyn r && List.exists (str_eqb m) r.r_methods &&
                                      (match parse_pat r.r_path with Some pt -> pat_matches pt p' | None -> false)) routes in
  (* a HEAD request without a route of its own is answered by the GET route *)
  let found = match find m with
    | None when str_eqb m (str_of_ascii "HEAD") -> find (str_of_ascii "GET")
    | x -> x in
  (* ... and with HandleFallbackRoute an unmatched request by the static "/*" route registered for its method *)
  let star = str_of_ascii "/*" in
  let found = match found with
    | None when c.fb -> List.fold_left (fun acc r -> if str_eqb r.r_path star && List.exists (str_eqb m) r.r_methods then Some r else acc) None routes
    | x -> x in
  match found with
  | Some r -> RRoute r
  | None ->
    if not c.na then RNotFound else
      (match List.filter (fun m' -> not (str_eqb m' m) && find m' <> None) all_methods with
       | [] -> RNotFound
       | al -> RNotAllowed al)

(* returns (reg observation, per-request observations) or None when registration panics.
   The router is Sys.sys_build (registration program -> route table), every request is Sys.sys_serve (QuickMatch on the
   table, with the route cache when enabled, then the dispatcher) - both extracted; this function only threads the pooled
   context and the router state through the requests and prints. *)
let run_model (c : rpcase) =
  let o = { o_strict = c.strict; o_na = c.na; o_fallback = c.fb;
            o_caching = (c.cache <> None); o_cap = nat_of_int (match c.cache with Some n -> n | None -> 1000); o_intercept = [] } in
  match exec_block c.strict c.stmts rinit, sys_build o c.stmts with
  | Panic, _ | _, Panic -> None
  | Ok st, Ok s0 ->
    if List.exists (fun r -> match r.rt_kind with KDyn (_, _, CUnsup, _) -> true | _ -> false) s0.s_rt.routes then raise Unsupported;
    let reg = L (A "reg" :: List.map (fun r -> L [A "route"; sstr r.r_path; sint (List.length r.r_handlers)]) st.r_routes
                 @ [L [A "scope"; sstr st.g_prefix; sint (List.length st.g_handlers); sint (List.length st.r_globals)]]) in
    let progs id = prog_of c id and hooks = (c.onpanic, c.onerror) in
    let sys = ref s0 and pooled = ref fresh_ctx in
    let serve_all thread = List.map (fun (m, p, sc) ->
        let (out, s') = if thread then sys_serve progs hooks !sys m p sc !pooled else sys_serve progs hooks s0 m p sc fresh_ctx in
        if thread then sys := s';
        let out = match out with Some o -> o | None -> raise Unsupported in
        let (x, esc) = match out with
          | Done (x, _) -> (Some x, A "none")
          | Escaped (p, x, _) -> (Some x, spval p)
          | OutOfFuel -> (None, A "fuel") in
        (match out, x with
         | Done _, Some x when thread -> pooled := { p_index = z_of_int 0; p_handlers = []; p_x = x }
         | _ -> ());
        match x with
        | Some x -> L [A "req"; L (A "trace" :: List.map stev x.trace); L (A "log" :: List.map swev x.w.log); L [A "esc"; esc]]
        | None -> L [A "req"; L [A "trace"]; L [A "log"]; L [A "esc"; esc]]) c.reqs in
    let reqs = serve_all true in
    let fresh = serve_all false in
    (* late phase: the router after the late statements is the router built from all statements (the route cache it has kept
       makes no difference: C07) *)
    let reqs = if c.late_reqs = [] then reqs else begin
        match sys_build o (c.stmts @ c.late_stmts) with
        | Panic -> raise Unsupported
        | Ok s2 ->
          let sys2 = ref s2 in
          reqs @ List.map (fun (m, p, sc) ->
              let (out, s') = sys_serve progs hooks !sys2 m p sc !pooled in
              sys2 := s';
              let out = match out with Some o -> o | None -> raise Unsupported in
              let (x, esc) = match out with
                | Done (x, _) -> (Some x, A "none")
                | Escaped (p, x, _) -> (Some x, spval p)
                | OutOfFuel -> (None, A "fuel") in
              (match out, x with Done _, Some x -> pooled := { p_index = z_of_int 0; p_handlers = []; p_x = x } | _ -> ());
              match x with
              | Some x -> L [A "req"; L (A "trace" :: List.map stev x.trace); L (A "log" :: List.map swev x.w.log); L [A "esc"; esc]]
              | None -> L [A "req"; L [A "trace"]; L [A "log"]; L [A "esc"; esc]]) c.late_reqs
      end in
    Some (reg, L (A "reqs" :: reqs), L (A "fresh" :: fresh), st)

let model c =
  try match run_model (parse_case c) with
  | None -> L [A "regpanic"]
  | Some (reg, reqs, fresh, _) -> if (parse_case c).twin then L [reg; reqs; fresh] else L [reg; reqs]
  with Unsupported -> L [A "unsupported"]

(* ---------- spec side ---------- *)
(* top-level Use statements are global middleware (Use inside a group is group-local) *)
let den_globals ss = List.concat (List.map (function SUse m -> m | _ -> []) ss)

(* a handler program as a well-behaved handler: effects before the first Next, whether it calls Next, effects after;
   None when it contains abort / panic / IsAborted ops *)
let wb_of (ops : hop list) =
  let rec go pre = function
    | [] -> Some { pre = List.rev pre; calls = false; post = [] }
    | OEff e :: r -> go (e :: pre) r
    | ONext :: r ->
      let rec post acc = function
        | [] -> Some { pre = List.rev pre; calls = true; post = List.rev acc }
        | OEff e :: r -> post (e :: acc) r
        | ONext :: r -> post acc r          (* a second Next is a no-op: the chain already ran *)
        | _ -> None in
      post [] r
    | _ -> None in
  go [] ops

(* ---------- judges ---------- *)
let events_of_effs effs = List.concat (List.map (function EEv t -> [L [A "e"; snat t]] | _ -> []) effs)
let impl_events tr = List.filter (function L [A "e"; _] -> true | _ -> false) tr

let get_reqs obs = match obs with L (_ :: L (A "reqs" :: rs) :: _) -> rs | _ -> failwith "no reqs"
let get_fresh obs = match obs with L [_; _; L (A "fresh" :: rs)] -> rs | _ -> failwith "no fresh"
let req_parts = function
  | L [A "req"; L (A "trace" :: tr); L (A "log" :: lg); L [A "esc"; e]] -> (tr, lg, e)
  | x -> failwith ("bad req obs " ^ to_string x)

(* the chain the specification prescribes for a request *)
let spec_chain c (routes : rroute list) st_noroute st_noallowed (m, p, _sc) =
  let g = List.map (prog_of c) (den_globals c.stmts) in
  match resolve c routes m p with
  | RRoute r -> g @ List.map (prog_of c) r.r_handlers @ [prog_of c r.r_main]
  | RNotFound -> g @ (match st_noroute with [] -> [default_404] | hs -> List.map (prog_of c) hs)
  | RNotAllowed ms -> g @ (match st_noallowed with [] -> [default_405 (str_eqb m options_m) ms] | hs -> List.map (prog_of c) hs)

let last_stmt_ids f ss = List.fold_left (fun acc s -> match f s with Some ids -> ids | None -> acc) [] ss

let judge_reg c obs =
  let routes = den_block c.strict [] [] c.stmts in
  match obs with
  | L [A "regpanic"] ->
    if List.exists (fun r -> List.length r.r_handlers >= 63) routes then "ok" else "bad regpanic registration panicked although every route has fewer than 63 handlers"
  | L (L (A "reg" :: items) :: _) ->
    let exp = List.map (fun r -> L [A "route"; sstr r.r_path; sint (List.length r.r_handlers)]) routes
              @ [L [A "scope"; sstr []; sint 0; sint (List.length (den_globals c.stmts))]] in
    let rec cmp i a b = match a, b with
      | [], [] -> "ok"
      | x :: a', y :: b' when to_string x = to_string y -> cmp (i + 1) a' b'
      | x :: _, y :: _ ->
        (match x, y with
         | L [A "route"; p1; _], L [A "route"; p2; _] when to_string p1 <> to_string p2 -> "bad route-path got=" ^ to_string y ^ " expected=" ^ to_string x
         | L [A "route"; _; _], L [A "route"; _; _] -> "bad route-middleware-count got=" ^ to_string y ^ " expected=" ^ to_string x
         | _ -> "bad scope-residue got=" ^ to_string y ^ " expected=" ^ to_string x)
      | _ -> "bad route-count" in
    cmp 0 exp items
  | _ -> "bad no-reg-observation"

(* onion traces of every request whose chain is well-behaved *)
let late_judge_ref : (rpcase -> Sexp.t list -> string) ref = ref (fun _ _ -> "ok")
let late_judge c obs = !late_judge_ref c obs
let rec judge_traces ?(k2 = false) c obs =
  let routes = den_block c.strict [] [] c.stmts in
  let nf = last_stmt_ids (function SNotFound h -> Some h | _ -> None) c.stmts in
  let nal = last_stmt_ids (function SNotAllowed h -> Some h | _ -> None) c.stmts in
  (* K2 is decided by the model itself: the request is a K2 case iff the int8-cursor machine predicts the index crash *)
  let model_reqs = if not k2 then [] else
      (try (match run_model c with Some (_, L (A "reqs" :: mr), _, _) -> mr | _ -> []) with _ -> []) in
  let model_idx_crash i = match List.nth_opt model_reqs i with
    | Some mr -> (let (_, _, e) = req_parts mr in to_string e = "(p idx)")
    | None -> false in
  let reqno = ref (-1) in
  let rec go rqs obs = match rqs, obs with
    | [], [] -> "ok"
    | rq :: rqs', o :: obs' ->
      incr reqno;
      let chain = spec_chain c routes nf nal rq in
      let wbs = List.map wb_of chain in
      if List.exists (fun w -> w = None) wbs then go rqs' obs' else begin
        let wbs = List.map (function Some w -> w | None -> assert false) wbs in
        let exp = events_of_effs (onion wbs) in
        let (tr, _, esc) = req_parts o in
        let total_next = List.fold_left (fun n h -> n + List.length (List.filter (fun o -> o = ONext) h)) 0 chain in
        let wraps = model_idx_crash !reqno in
        if to_string (L (impl_events tr)) = to_string (L exp) && to_string esc = "none" then go rqs' obs'
        else if k2 && wraps then "bad next-many-cursor-wraps chain=" ^ string_of_int (List.length chain) ^ " nexts=" ^ string_of_int total_next
        else if List.length chain >= 128 && impl_events tr = [] then
          "bad chain-of-128-or-more-handlers-runs-nothing chain=" ^ string_of_int (List.length chain)
        else if List.length chain > 63 then "bad chain-longer-than-limit"
        else "bad onion-order got=" ^ to_string (L (impl_events tr)) ^ " esc=" ^ to_string esc ^ " expected=" ^ to_string (L exp)
      end
    | _ -> "bad request-count" in
  match obs with
  | L [A "regpanic"] -> "ok"
  | _ ->
    let all = get_reqs obs in
    let n1 = List.length c.reqs in
    let rec take n l = if n = 0 then [] else (match l with x :: r -> x :: take (n - 1) r | [] -> []) in
    let rec drop n l = if n = 0 then l else (match l with _ :: r -> drop (n - 1) r | [] -> []) in
    (match go c.reqs (take n1 all) with
     | "ok" when c.late_reqs <> [] -> late_judge c (drop n1 all)
     | v -> v)

let c12_judge cs obs =
  let c = parse_case cs in
  match judge_reg c obs with
  | "ok" -> (match judge_traces c obs with "ok" -> "ok" | s -> (match String.split_on_char ' ' s with _ :: _ :: rest -> "bad route-chain " ^ String.concat " " rest | _ -> s))
  | s -> s

(* the late requests are judged like the requests of a case whose program includes the late statements *)
let () = late_judge_ref := (fun c obs ->
    let c2 = { c with stmts = c.stmts @ c.late_stmts; reqs = c.late_reqs; late_stmts = []; late_reqs = [] } in
    judge_traces c2 (L [L [A "reg"]; L (A "reqs" :: obs)]))
let c04_judge cs obs = let c = parse_case cs in judge_traces ~k2:true c obs

(* C05: after the marker event (9000 + id) that precedes the abort op *)
let c05_judge cs obs =
  let c = parse_case cs in
  match obs with
  | L [A "regpanic"] -> "ok"
  | _ ->
    let routes = den_block c.strict [] [] c.stmts in
    let (m0, p0, _) = List.hd c.reqs in
    let n = match resolve c routes m0 p0 with
      | RRoute r -> List.length (den_globals c.stmts) + List.length r.r_handlers + 1
      | _ -> failwith "c05: the request does not resolve to the route" in
    let (tr, lg, esc) = req_parts (List.hd (get_reqs obs)) in
    let ev_id = function L [A "e"; A x] -> Some (int_of_string x) | _ -> None in
    let rec split acc = function
      | [] -> (List.rev acc, None, [])
      | x :: r -> (match ev_id x with Some v when v >= 9000 -> (List.rev acc, Some (v - 9000), r) | _ -> split (x :: acc) r) in
    let (before, marker, after) = split [] tr in
    let started l = List.concat (List.map (fun x -> match ev_id x with Some v when v mod 10 = 0 && v < 9000 -> [v / 10] | _ -> []) l) in
    let nest_ok = 2 * n - 1 < 63 in
    let bad_before = List.exists (fun x -> x = L [A "ab"; A "t"]) before in
    (* the model's view of every request of the case (None when the case is outside the model) *)
    let model_reqs = (try (match run_model c with Some (_, L (A "reqs" :: mr), _, _) -> Some mr | _ -> None) with _ -> None) in
    let model_esc0 = match model_reqs with Some (mr :: _) -> (let (_, _, e) = req_parts mr in to_string e) | _ -> "none" in
    (* follow-up requests (after an abort, possibly after a panic that escaped): they must be what the model says - in
       particular IsAborted() is false again and every handler runs *)
    let followups_bad =
      match model_reqs with
      | Some (_ :: mrest) ->
        let rec cmp k ms os = match ms, os with
          | m :: ms', o :: os' -> if to_string m = to_string o then cmp (k + 1) ms' os'
            else Some ("bad follow-up-request-differs-after-abort request=" ^ string_of_int k ^ " got=" ^ to_string o ^ " expected=" ^ to_string m)
          | _ -> None in
        cmp 1 mrest (List.tl (get_reqs obs))
      | _ -> None in
    if to_string esc <> "none" && to_string esc <> model_esc0 then "bad abort-crash esc=" ^ to_string esc
    else if followups_bad <> None then (match followups_bad with Some s -> s | None -> "ok")
    else if bad_before && not nest_ok then "bad is-aborted-true-without-abort/cursor>=63-by-nesting chain=" ^ string_of_int n
    else if bad_before then "bad is-aborted-true-before-abort"
    else match marker with
      | None -> "ok"
      | Some mid when not (let ops = prog_of c (nat_of_int mid) in
                           let rec chk = function
                             | OEff (EEv t) :: (OAbort | OAbortStatus _) :: _ when int_of_nat t = 9000 + mid -> true
                             | OEff (EEv t) :: OEff (EW (WHttpError _)) :: OAbort :: _ when int_of_nat t = 9000 + mid -> true
                             | _ :: r -> chk r | [] -> false in chk ops) -> failwith "c05: marker not followed by an abort op"
      | Some _ ->
        let st = started before in
        let late = List.filter (fun x -> match ev_id x with Some v when v < 9000 -> not (List.mem (v / 10) st) | _ -> false) after in
        if late <> [] then "bad handler-started-after-abort events=" ^ to_string (L late)
        else if List.exists (fun x -> x = L [A "ab"; A "f"]) after then "bad is-aborted-false-after-abort"
        else begin
          (* suspended handlers resume: every started handler that has a leave event in its program emits it *)
          let missing = List.filter (fun id ->
              let ops = prog_of c (nat_of_int id) in
              List.exists (fun o -> o = OEff (EEv (nat_of_int (id * 10 + 1)))) ops
              && not (List.exists (fun x -> ev_id x = Some (id * 10 + 1)) tr)) st in
          if missing <> [] && to_string esc = "none" then "bad suspended-handler-did-not-resume ids=" ^ String.concat "," (List.map string_of_int missing)
          else begin
            (* status clause: compare the committed status with the model's *)
            match (try run_model c with Unsupported -> None) with
            | Some (_, L (A "reqs" :: mr :: _), _, _) ->
              let (mtr, mlg, _) = req_parts mr in
              let wh l = List.filter (function L [A "wh"; _] -> true | _ -> false) l in
              if to_string (L mtr) = to_string (L tr) && to_string (L (wh mlg)) <> to_string (L (wh lg))
              then "bad abort-status got=" ^ to_string (L (wh lg)) ^ " expected=" ^ to_string (L (wh mlg)) else "ok"
            | _ -> "ok"
          end
        end

(* ---------- C09 / C10: twin oracle (the k-th request must look like the first request of a fresh router) ---------- *)
let first_diff_field a b =
  (* which part of the first differing snapshot / observation differs *)
  let (ta, la, ea) = req_parts a and (tb, lb, eb) = req_parts b in
  let snaps t = List.filter (function L (A "snap" :: _) -> true | _ -> false) t in
  let names = ["data"; "params"; "errors"; "status"; "length"; "resp"; "req"] in
  let rec fields i xs ys = match xs, ys with
    | x :: xs', y :: ys' -> if to_string x <> to_string y then List.nth names i else fields (i + 1) xs' ys'
    | _ -> "shape" in
  match snaps ta, snaps tb with
  | L (_ :: fa) :: _, L (_ :: fb) :: _ when to_string (L fa) <> to_string (L fb) -> "stale-" ^ fields 0 fa fb
  | _ ->
    if to_string (L (List.filter (function L [A "ab"; _] -> true | _ -> false) ta)) <> to_string (L (List.filter (function L [A "ab"; _] -> true | _ -> false) tb)) then "stale-aborted"
    else if to_string (L ta) <> to_string (L tb) then "trace-differs"
    else if to_string (L la) <> to_string (L lb) then "response-differs"
    else if to_string ea <> to_string eb then "escape-differs" else "same"

let twin_judge obs =
  let rs = get_reqs obs and fs = get_fresh obs in
  let rec go k rs fs = match rs, fs with
    | [], [] -> "ok"
    | r :: rs', f :: fs' ->
      if to_string r = to_string f then go (k + 1) rs' fs'
      else "bad " ^ first_diff_field r f ^ " request=" ^ string_of_int k ^ " got=" ^ to_string r ^ " fresh=" ^ to_string f
    | _ -> "bad request-count" in
  go 0 rs fs

let c10_judge _cs obs = match obs with L [A "regpanic"] -> "ok" | _ -> twin_judge obs

(* C09: request 0 panics at the op after the marker event (8000 + id), value = id *)
let c09_judge cs obs =
  let c = parse_case cs in
  match obs with
  | L [A "regpanic"] -> "ok"
  | _ ->
    let r0 = List.hd (get_reqs obs) in
    let (tr, lg, esc) = req_parts r0 in
    let ev_id = function L [A "e"; A x] -> Some (int_of_string x) | _ -> None in
    let rec split acc = function
      | [] -> (List.rev acc, None, [])
      | x :: r -> (match ev_id x with Some v when v >= 8000 && v < 9000 -> (List.rev acc, Some (v - 8000), r) | _ -> split (x :: acc) r) in
    let (_before, marker, after) = split [] tr in
    let hook_panics = match c.onpanic with Some ops -> List.exists (function OPanic _ -> true | _ -> false) ops | None -> false in
    let verdict = match marker with
      | None -> "ok"     (* the panic position was not reached (e.g. an earlier handler did not call Next) *)
      | Some v ->
        (match c.onpanic with
         | None -> if to_string esc = to_string (L [A "p"; sint v]) then "ok" else "bad panic-not-propagated esc=" ^ to_string esc
         | Some _ when hook_panics -> if to_string esc = "none" then "bad hook-panic-swallowed" else "ok"
         | Some _ ->
           let hooks = List.length (List.filter (fun x -> ev_id x = Some 7777) after) in
           let others = List.filter (fun x -> match ev_id x with Some e -> e <> 7777 | None -> false) after in
           let rec_ok = List.exists (function
               | L (A "snap" :: L data :: _) -> List.exists (fun kv -> to_string kv = to_string (L [sstr k_recover; L [A "p"; sint v]])) data
               | _ -> false) after in
           let nwh = List.length (List.filter (function L [A "wh"; _] -> true | _ -> false) lg) in
           if to_string esc <> "none" then "bad panic-escaped-with-hook esc=" ^ to_string esc
           else if hooks <> 1 then "bad hook-count n=" ^ string_of_int hooks
           else if others <> [] then "bad handler-after-panic events=" ^ to_string (L others)
           else if not rec_ok then "bad recover-result-missing"
           else if nwh <> 1 then "bad commit-count n=" ^ string_of_int nwh
           else "ok") in
    if verdict <> "ok" then verdict else
      (match twin_judge obs with
       | "ok" -> "ok"
       | s -> (match String.split_on_char ' ' s with _ :: sg :: rest -> "bad follow-up-" ^ sg ^ " " ^ String.concat " " rest | _ -> s))

(* C13 (handler limit): a route whose group + variadic + later middleware number 63 or more is rejected *)
let c13_limit_judge cs obs =
  let c = parse_case cs in
  let rec count g = function
    | [] -> 0
    | SGroup (_, m, body) :: r -> max (count (g + List.length m) body) (count g r)
    | SRoute (_, _, _, var, later, _) :: r -> max (g + List.length var + List.length later) (count g r)
    | _ :: r -> count g r in
  let worst = count 0 c.stmts in
  match obs with
  | L [A "reg"; A "panic"] -> if worst >= 63 then "ok" else "bad registration-panics-below-the-limit handlers=" ^ string_of_int worst
  | L [A "reg"; A "ok"] -> if worst >= 63 then "bad too-many-handlers-accepted handlers=" ^ string_of_int worst else "ok"
  | _ -> "bad no-observation"
