package main

import (
	"fmt"
	"net/http"
	"net/url"
	"runtime"
	"runtime/debug"
	"sort"
	"strconv"
	"strings"

	"github.com/gookit/rux"
)

// rp: "registration program + requests" executor shared by C04, C05, C09, C10, C12.
//
// case : (rp (opt ...) (stmt ...) ((id (op ...)) ...) (req ...))
// opt  : (na) | (strict) | (onpanic (op ...)) | (onerror (op ...)) | (twin)
// stmt : (use id ...) | (group 'prefix (id ...) (stmt ...)) | (route ('M ...) 'path main (var ...) (later ...) 'name [add|pre])   pre: NewRoute(..).Use(var..) then AddRoute
//        | (nf id ...) | (nal id ...)
// op   : (ev n) (next) (abort) (abortthen) (abs code) (isab) (panic n) (w <wop>) (sd 'k v) (ae n) (sp 'k 'v) (rr) (rq) (snap)
// req  : ('METHOD 'path (script n ...))
// obs  : ((reg (route 'path nh) ... (scope 'prefix ngroup nglobal)) (reqs (req (trace ...) (log ...) (esc ...)) ...)) | (regpanic)

type verifPanic struct{ n int }

type verifErr struct{ n int }

func (e *verifErr) Error() string { return fmt.Sprintf("verif error %d", e.n) }

var lastSentinelPanic int

type rpRecorder struct {
	router *rux.Router // the router serving the request (nil: not checked)
	trace  []Sx
	req    *http.Request
	ctxPtr string
	thread *concThread // set for requests driven by the controlled scheduler
}

type rpKey struct{}

// rpRec returns the recorder of the request a handler is running for: carried in the request context when requests
// run concurrently, the global one otherwise
func rpRec(c *rux.Context) *rpRecorder {
	if v := c.Req.Context().Value(rpKey{}); v != nil {
		return v.(*rpRecorder)
	}
	return rpCur
}

// rpLastReuse: how many requests of the last executed case were served with a *Context already used by an
// earlier request of that case (reported in the evidence of C10)
var rpLastReuse int

type wrapW struct{ http.ResponseWriter }

func (w *wrapW) Flush() { w.ResponseWriter.(http.Flusher).Flush() }

// Unwrap follows the http.ResponseController convention: the wrapper exposes what it wraps
func (w *wrapW) Unwrap() http.ResponseWriter { return w.ResponseWriter }

var rpCur *rpRecorder

// a handler chain owned by the application (see op "sh"): two handlers in a slice with spare capacity
var rpKeep []rux.HandlerFunc
var rpKeepHits [2]int
var rpKeepUsed bool

func rpKeepReset() {
	rpKeepUsed = false
	rpKeep = make([]rux.HandlerFunc, 2, 8)
	rpKeep[0] = func(*rux.Context) { rpKeepHits[0]++ }
	rpKeep[1] = func(*rux.Context) { rpKeepHits[1]++ }
}

// rpKeepIntact: the kept chain still holds the application's two handlers
func rpKeepIntact() (ok bool) {
	defer func() {
		if recover() != nil {
			ok = false
		}
	}()
	before := rpKeepHits
	full := rpKeep[:cap(rpKeep)]
	for i, h := range full {
		if (h != nil) != (i < 2) {
			return false
		}
	}
	rpKeep[0](nil)
	rpKeep[1](nil)
	return rpKeepHits[0] == before[0]+1 && rpKeepHits[1] == before[1]+1
}

func dvalSx(v any) Sx {
	if v == http.ErrAbortHandler {
		return L(A("p"), I(lastSentinelPanic))
	}
	switch x := v.(type) {
	case int:
		return L(A("n"), I(x))
	case string:
		if strings.HasPrefix(x, "verif-panic:") {
			if n, err := strconv.Atoi(x[len("verif-panic:"):]); err == nil {
				return L(A("p"), I(n))
			}
		}
		return L(A("s"), S(x))
	case []string:
		c := append([]string{}, x...)
		sort.Strings(c)
		return L(A("l"), SL(c))
	case verifPanic:
		return L(A("p"), I(x.n))
	case *verifErr:
		return L(A("p"), I(x.n))
	case runtime.Error:
		if strings.Contains(x.Error(), "index out of range") {
			return L(A("p"), A("idx"))
		}
		if strings.Contains(x.Error(), "assignment to entry in nil map") {
			return L(A("p"), I(lastSentinelPanic))
		}
		return L(A("p"), A("rt"))
	default:
		return L(A("other"), A(sanitize(fmt.Sprintf("%T", v))))
	}
}

func rpSnap(c *rux.Context) Sx {
	var keys []string
	for k := range c.Data() {
		keys = append(keys, k)
	}
	sort.Strings(keys)
	var data []Sx
	for _, k := range keys {
		data = append(data, L(S(k), dvalSx(c.Data()[k])))
	}
	keys = keys[:0]
	for k := range c.Params {
		keys = append(keys, k)
	}
	sort.Strings(keys)
	var ps []Sx
	for _, k := range keys {
		ps = append(ps, L(S(k), S(c.Params[k])))
	}
	_, isWrap := c.Resp.(*wrapW)
	return L(A("snap"), LS(data), LS(ps), I(len(c.Errors)), I(c.StatusCode()), I(c.Length()), B(!isWrap), B(c.Req == rpRec(c).req), B(rpRec(c).router == nil || c.Router() == rpRec(c).router))
}

func rpRunOp(c *rux.Context, op Sx) {
	rec := rpRec(c)
	switch op.Head() {
	case "ev":
		rec.trace = append(rec.trace, L(A("e"), op.List[1]))
	case "next":
		c.Next()
	case "abort":
		c.Abort()
	case "abortthen":
		c.AbortThen()
	case "abs":
		c.AbortWithStatus(op.List[1].Int())
	case "absm": // with a message: http.Error, then Abort
		c.AbortWithStatus(op.List[1].Int(), "denied")
	case "isab":
		rec.trace = append(rec.trace, L(A("ab"), B(c.IsAborted())))
	case "panic":
		// the recovered value must come through unchanged whatever its kind: a struct, an error, net/http's sentinel
		switch n := op.List[1].Int(); n % 6 {
		case 1:
			lastSentinelPanic = n
			panic(http.ErrAbortHandler)
		case 2:
			panic(&verifErr{n})
		case 4: // a plain string
			panic(fmt.Sprintf("verif-panic:%d", n))
		case 5: // a run-time error of the handler's own (a write to a nil map)
			lastSentinelPanic = n
			var m map[int]int
			m[n] = 1
		default:
			panic(verifPanic{n})
		}
	case "w":
		var obs []Sx
		wopRun(c, op.List[1], &obs)
	case "hijack": // the handler takes over the connection
		if hj, ok := c.Resp.(http.Hijacker); ok {
			_, _, _ = hj.Hijack()
		}
	case "mal": // the handler edits, in place, the allowed-methods list it was handed (the allowed[:0] filter idiom)
		if al, ok := c.SafeGet(rux.CTXAllowedMethods).([]string); ok && len(al) > 0 {
			al[0] = "MUTATED"
		}
	case "sh": // the handler installs a chain of its own that the application keeps (last op of a last handler: nothing runs after it)
		c.SetHandlers(rpKeep)
		rpKeepUsed = true
	case "sd":
		c.Set(op.List[1].Str(), op.List[2].Int())
	case "ae":
		c.AddError(fmt.Errorf("e%d", op.List[1].Int()))
	case "sp":
		if c.Params == nil {
			c.Params = rux.Params{}
		}
		c.Params[op.List[1].Str()] = op.List[2].Str()
	case "rr":
		c.Resp = &wrapW{c.Resp}
	case "rq":
		c.WithReqCtxValue("k", 1)
	case "snap":
		rec.trace = append(rec.trace, rpSnap(c))
	case "yield":
		if rec.thread != nil {
			rec.thread.park()
		}
	case "params":
		var keys []string
		for k := range c.Params {
			keys = append(keys, k)
		}
		sort.Strings(keys)
		var ps []Sx
		for _, k := range keys {
			ps = append(ps, L(S(k), S(c.Params[k])))
		}
		rec.trace = append(rec.trace, L(A("params"), LS(ps)))
	default:
		panic("rp: bad op " + op.String())
	}
}

// rpStdHandler: the same handler written as a plain net/http handler and registered through one of rux's adaptors
// (it reaches its Context through the adaptor's caller; rp cases run one request at a time)
func rpStdHandler(ops []Sx) rux.HandlerFunc {
	var cur *rux.Context
	body := func(http.ResponseWriter, *http.Request) {
		for _, op := range ops {
			rpRunOp(cur, op)
		}
	}
	var inner rux.HandlerFunc
	switch len(ops) % 3 {
	case 0:
		inner = rux.WrapHTTPHandlerFunc(body)
	case 1:
		inner = rux.WrapHTTPHandler(http.HandlerFunc(body))
	default:
		inner = rux.HTTPHandlerFunc(body)
	}
	return func(c *rux.Context) {
		if rec := rpRec(c); rec.ctxPtr == "" {
			rec.ctxPtr = fmt.Sprintf("%p", c)
		}
		cur = c
		inner(c)
	}
}

func rpHandler(ops []Sx) rux.HandlerFunc {
	return func(c *rux.Context) {
		if rec := rpRec(c); rec.ctxPtr == "" {
			rec.ctxPtr = fmt.Sprintf("%p", c)
		}
		for _, op := range ops {
			rpRunOp(c, op)
		}
	}
}

// Rsi and Rss are REST controllers with one action each (the resource name is the lower-cased type name)
type Rsi struct {
	h    rux.HandlerFunc
	uses []rux.HandlerFunc
}

func (c *Rsi) Index(ctx *rux.Context) { c.h(ctx) }
func (c *Rsi) Uses() map[string][]rux.HandlerFunc {
	if len(c.uses) == 0 {
		return nil
	}
	return map[string][]rux.HandlerFunc{"Index": c.uses}
}

type Rss struct {
	h    rux.HandlerFunc
	uses []rux.HandlerFunc
}

func (c *Rss) Show(ctx *rux.Context) { c.h(ctx) }
func (c *Rss) Uses() map[string][]rux.HandlerFunc {
	if len(c.uses) == 0 {
		return nil
	}
	return map[string][]rux.HandlerFunc{"Show": c.uses}
}

// rpController registers whatever its function registers (rux.ControllerFace)
type rpController func()

func (f rpController) AddRoutes(_ *rux.Router) { f() }

// the per-method shortcuts of Router
func rpShortcut(r *rux.Router, m string) func(string, rux.HandlerFunc, ...rux.HandlerFunc) *rux.Route {
	switch m {
	case "GET":
		return r.GET
	case "HEAD":
		return r.HEAD
	case "POST":
		return r.POST
	case "PUT":
		return r.PUT
	case "PATCH":
		return r.PATCH
	case "TRACE":
		return r.TRACE
	case "OPTIONS":
		return r.OPTIONS
	case "DELETE":
		return r.DELETE
	case "CONNECT":
		return r.CONNECT
	}
	return nil
}

type rpEnv struct {
	shared map[string][]rux.HandlerFunc
	r      *rux.Router
	hs     map[int]rux.HandlerFunc
	routes []*rux.Route
}

func (e *rpEnv) handlers(ids []Sx) []rux.HandlerFunc {
	// a caller that passes the same list of middleware twice passes the same slice (as in  mws := []HandlerFunc{a, b};
	// r.Group("/x", f, mws...); r.Group("/y", g, mws...) ): lists of two or more ids are kept and handed out again
	key := ""
	for _, id := range ids {
		key += id.Atom + ","
	}
	if len(ids) >= 2 {
		if sl, ok := e.shared[key]; ok {
			return sl
		}
	}
	// (a list built by successive appends usually has spare capacity: so have the lists that are handed out again)
	out := make([]rux.HandlerFunc, 0, len(ids)+3*(len(ids)/2))
	for _, id := range ids {
		h, ok := e.hs[id.Int()]
		if !ok {
			panic(fmt.Sprintf("rp: unknown handler %d", id.Int()))
		}
		out = append(out, h)
	}
	if len(ids) >= 2 {
		if e.shared == nil {
			e.shared = map[string][]rux.HandlerFunc{}
		}
		e.shared[key] = out
	}
	if len(out) == 0 {
		return nil
	}
	return out
}

func (e *rpEnv) stmts(ss []Sx) {
	for _, s := range ss {
		switch s.Head() {
		case "use":
			e.r.Use(e.handlers(s.List[1:])...)
		case "group":
			body := s.List[3].Lst()
			if len(s.List) > 4 && s.List[4].Atom == "res" {
				// the same registration through Router.Resource: a group base+<resource name> holding the one REST action
				// the controller has ("/" for Index, "{id}/" for Show), the action's Uses() middleware added to the route
				pfx, rs := s.List[1].Str(), body[0]
				base, kind := pfx[:len(pfx)-3], pfx[len(pfx)-3:]
				main, later := e.handlers(rs.List[3:4])[0], e.handlers(rs.List[5].Lst())
				var ctl any = &Rsi{h: main, uses: later}
				if kind == "rss" {
					ctl = &Rss{h: main, uses: later}
				}
				e.r.Resource(base, ctl, e.handlers(s.List[2].Lst())...)
				e.routes = append(e.routes, e.r.GetRoute(rs.List[6].Str()))
			} else if len(s.List) > 4 && s.List[4].Atom == "ctl" { // the same scope opened through Router.Controller
				e.r.Controller(s.List[1].Str(), rpController(func() { e.stmts(body) }), e.handlers(s.List[2].Lst())...)
			} else {
				e.r.Group(s.List[1].Str(), func() { e.stmts(body) }, e.handlers(s.List[2].Lst())...)
			}
		case "route":
			meths := s.List[1].Strs()
			main := e.handlers(s.List[3:4])[0]
			var rt *rux.Route
			if len(s.List) > 7 && s.List[7].Atom == "short" && len(meths) == 1 && s.List[6].Str() == "" && rpShortcut(e.r, meths[0]) != nil {
				// r.GET(path, main, var...) and friends
				rt = rpShortcut(e.r, meths[0])(s.List[2].Str(), main, e.handlers(s.List[4].Lst())...)
				if later := s.List[5].Lst(); len(later) > 0 {
					rt.Use(e.handlers(later)...)
				}
				e.routes = append(e.routes, rt)
				continue
			}
			if len(s.List) > 7 && s.List[7].Atom == "any" {
				e.r.Any(s.List[2].Str(), main, e.handlers(s.List[4].Lst())...)
				// (Any returns nothing: the new route is the one the router did not list before)
				known := map[*rux.Route]bool{}
				for _, x := range e.routes {
					known[x] = true
				}
				e.r.IterateRoutes(func(x *rux.Route) {
					if !known[x] {
						known[x] = true
						e.routes = append(e.routes, x)
					}
				})
				continue
			}
			if len(s.List) > 7 && (s.List[7].Atom == "pre" || s.List[7].Atom == "attach") {
				// the route brings its own middleware when it is added
				if name := s.List[6].Str(); name != "" {
					rt = rux.NewNamedRoute(name, s.List[2].Str(), main, meths...)
				} else {
					rt = rux.NewRoute(s.List[2].Str(), main, meths...)
				}
				rt.Use(e.handlers(s.List[4].Lst())...)
				if s.List[7].Atom == "attach" {
					rt.AttachTo(e.r)
				} else {
					e.r.AddRoute(rt)
				}
				if later := s.List[5].Lst(); len(later) > 0 {
					rt.Use(e.handlers(later)...)
				}
				e.routes = append(e.routes, rt)
				continue
			}
			if name := s.List[6].Str(); name != "" {
				rt = e.r.AddNamed(name, s.List[2].Str(), main, meths...)
			} else {
				rt = e.r.Add(s.List[2].Str(), main, meths...)
			}
			rt.Use(e.handlers(s.List[4].Lst())...)
			if later := s.List[5].Lst(); len(later) > 0 {
				rt.Use(e.handlers(later)...)
			}
			e.routes = append(e.routes, rt)
		case "nf":
			e.r.NotFound(e.handlers(s.List[1:])...)
		case "nal":
			e.r.NotAllowed(e.handlers(s.List[1:])...)
		default:
			panic("rp: bad stmt " + s.String())
		}
	}
}

func rpExec(c Sx) (out Sx) {
	xs := c.Lst()
	if len(xs) != 5 && len(xs) != 6 {
		panic("rp: bad case")
	}
	twin := false
	for _, o := range xs[1].Lst() {
		if o.Head() == "twin" {
			twin = true
		}
	}
	if twin {
		// keep pooled contexts alive so that reuse really happens
		defer debug.SetGCPercent(debug.SetGCPercent(-1))
	}
	build := func() (*rpEnv, bool) {
		var opts []func(*rux.Router)
		var onPanic, onError []Sx
		hasPanic, hasError := false, false
		for _, o := range xs[1].Lst() {
			switch o.Head() {
			case "na":
				opts = append(opts, rux.HandleMethodNotAllowed)
			case "fb":
				opts = append(opts, rux.HandleFallbackRoute)
			case "strict":
				opts = append(opts, rux.StrictLastSlash)
			case "cache":
				opts = append(opts, rux.CachingWithNum(uint16(o.List[1].Int())))
			case "onpanic":
				onPanic, hasPanic = o.List[1].Lst(), true
			case "onerror":
				onError, hasError = o.List[1].Lst(), true
			case "twin":
			default:
				panic("rp: bad option " + o.String())
			}
		}
		env := &rpEnv{r: rux.New(opts...), hs: map[int]rux.HandlerFunc{}}
		if hasPanic {
			env.r.OnPanic = rpHandler(onPanic)
		}
		if hasError {
			env.r.OnError = rpHandler(onError)
		}
		for _, h := range xs[3].Lst() {
			if len(h.List) > 2 && h.List[2].Atom == "std" {
				env.hs[h.List[0].Int()] = rpStdHandler(h.List[1].Lst())
			} else {
				env.hs[h.List[0].Int()] = rpHandler(h.List[1].Lst())
			}
		}
		regPanicked := func() (p bool) {
			defer func() {
				if e := recover(); e != nil {
					if s, ok := e.(string); ok && strings.HasPrefix(s, "rp:") {
						panic(e)
					}
					p = true
				}
			}()
			env.stmts(xs[2].Lst())
			return false
		}()
		return env, regPanicked
	}
	serve := func(env *rpEnv, rq Sx) (Sx, string) {
		var script []int
		for _, s := range rq.List[2].Lst() {
			script = append(script, s.Int())
		}
		w := newRecWriter(script)
		req := &http.Request{Method: rq.List[0].Str(), URL: &url.URL{Path: rq.List[1].Str()}, Header: http.Header{}, Proto: "HTTP/1.1", ProtoMajor: 1, ProtoMinor: 1}
		rpCur = &rpRecorder{req: req, router: env.r}
		esc := func() (esc Sx) {
			esc = A("none")
			defer func() {
				if e := recover(); e != nil {
					if s, ok := e.(string); ok && strings.HasPrefix(s, "rp:") {
						panic(e)
					}
					esc = dvalSx(e)
				}
			}()
			env.r.ServeHTTP(w, req)
			return
		}()
		if rpKeepUsed && !rpKeepIntact() {
			rpCur.trace = append(rpCur.trace, L(A("application-owned-handler-chain-overwritten")))
		}
		return L(A("req"), LS(append([]Sx{A("trace")}, rpCur.trace...)), LS(append([]Sx{A("log")}, w.log...)), L(A("esc"), esc)), rpCur.ctxPtr
	}
	rpKeepReset()
	env, regPanicked := build()
	if regPanicked {
		return L(A("regpanic"))
	}
	reg := []Sx{A("reg")}
	for _, rt := range env.routes {
		reg = append(reg, L(A("route"), S(rt.Path()), I(len(rt.Handlers()))))
	}
	pfx, ng, ngl := env.r.VerifGroupState()
	reg = append(reg, L(A("scope"), S(pfx), I(ng), I(ngl)))

	reqs := []Sx{A("reqs")}
	seen := map[string]bool{}
	rpLastReuse = 0
	for _, rq := range xs[4].Lst() {
		o, ptr := serve(env, rq)
		reqs = append(reqs, o)
		if ptr != "" {
			if seen[ptr] {
				rpLastReuse++
			}
			seen[ptr] = true
		}
	}
	if len(xs) == 6 && !twin {
		// late phase: further registration statements (global Use) AFTER requests have been served, then more requests
		late := xs[5].Lst()
		if xs[5].Head() != "late" || len(late) != 3 {
			panic("rp: bad late phase")
		}
		func() {
			defer func() {
				if e := recover(); e != nil {
					if s, ok := e.(string); ok && strings.HasPrefix(s, "rp:") {
						panic(e)
					}
				}
			}()
			env.stmts(late[1].Lst())
		}()
		for _, rq := range late[2].Lst() {
			o, _ := serve(env, rq)
			reqs = append(reqs, o)
		}
	}
	if !twin {
		return L(LS(reg), LS(reqs))
	}
	// twin oracle: the same request served as the FIRST request of a freshly built identical router
	fresh := []Sx{A("fresh")}
	for _, rq := range xs[4].Lst() {
		env2, _ := build()
		o, _ := serve(env2, rq)
		fresh = append(fresh, o)
	}
	return L(LS(reg), LS(reqs), LS(fresh))
}
