package main

import (
	"bytes"
	"context"
	"encoding/base64"
	"fmt"
	"io"
	"mime/multipart"
	"net/http"
	"net/http/httptest"
	"net/url"
	"strings"
	"time"

	"github.com/gookit/rux"
	"github.com/gookit/rux/pkg/handlers"
)

// C20: gates.
// (auth ((u p) ...) 'header <decoded | none>)   decoded = base64.StdEncoding decode of header[6:], when the prefix matches
//     obs: (auth ran status 'www)
// (ovr 'method 'formval 'hdrval carrier)          carrier: q (query) | b (body) | n (none)
//     obs: (ovr 'method-seen <'POST|none>)
// (wrap n)                                        n wrappers around the router
//     obs: (wrap e ...)
// (wraph n k)                                     chain of n middleware, handler k is a wrapped plain http.Handler
//     obs: (wraph e ...)

var c20Users = []string{"tom", "ann", "", "ghost", "a:b", "é", "Tom"}
var c20Pwds = []string{"123", "", "p:w", "secret", " ", "Secret", "sEcReT", "0123456789abcdef0123456789abcdef-A", "0123456789abcdef0123456789abcdef-B", "x\x00"}

func c20Decode(hdr string) Sx {
	const prefix = "Basic "
	if len(hdr) < len(prefix) || !strings.EqualFold(hdr[:len(prefix)], prefix) {
		return A("none")
	}
	b, err := base64.StdEncoding.DecodeString(hdr[len(prefix):])
	if err != nil {
		return A("none")
	}
	return L(A("some"), S(string(b)))
}

func c20Gen(r *Rng, tier string, i int) Sx {
	switch i % 4 {
	case 0, 1:
		var accts []Sx
		type up struct{ u, p string }
		var list []up
		used := map[string]bool{}
		for k := r.Intn(4); k > 0; k-- {
			a := up{r.Pick(c20Users), r.Pick(c20Pwds)}
			if used[a.u] {
				continue
			}
			used[a.u] = true
			list = append(list, a)
			accts = append(accts, L(S(a.u), S(a.p)))
		}
		u, p := r.Pick(c20Users), r.Pick(c20Pwds)
		if len(list) > 0 && r.Chance(1, 2) {
			a := list[r.Intn(len(list))]
			u, p = a.u, a.p
			if r.Chance(1, 3) {
				p = r.Pick(c20Pwds)
			}
		}
		cred := base64.StdEncoding.EncodeToString([]byte(u + ":" + p))
		hdr := "Basic " + cred
		switch r.Intn(10) {
		case 0:
			hdr = ""
		case 1:
			hdr = "basic " + cred
		case 2:
			hdr = "BASIC " + cred
		case 3:
			hdr = "Basic " + cred[:len(cred)/2] + "*"
		case 4:
			hdr = "Basic " + base64.StdEncoding.EncodeToString([]byte(u+p)) // no colon
		case 5:
			hdr = "Bearer " + cred
		case 6:
			hdr = "Basic" + cred
		}
		if r.Chance(1, 3) { // something listed before the auth middleware has already started the response
			return L(A("auth"), LS(accts), S(hdr), c20Decode(hdr), A("pre"))
		}
		return L(A("auth"), LS(accts), S(hdr), c20Decode(hdr))
	case 2:
		vals := []string{"PUT", "put", "Patch", "DELETE", "delete", "POST", "GET", "", "PROPFIND", "HEAD", "pu", " put", "OPTIONS", "options", "TRACE", "CONNECT", "patch", "DELETE "}
		m := r.Pick(rtMethods)
		if r.Chance(1, 2) {
			m = "POST"
		}
		if r.Chance(1, 4) { // the shipped Timeout middleware sits between the override wrapper and the observing handler
			return L(A("ovr"), S(m), S(r.Pick(vals)), S(r.Pick(vals)), A(r.Pick([]string{"q", "b", "n", "m"})), A("timeout"))
		}
		return L(A("ovr"), S(m), S(r.Pick(vals)), S(r.Pick(vals)), A(r.Pick([]string{"q", "b", "n", "m"})))
	default:
		if r.Bool() {
			return L(A("wrap"), I(r.Range(1, 6)))
		}
		n := r.Range(2, 6)
		return L(A("wraph"), I(n), I(r.Intn(n)))
	}
}

func c20Exec(c Sx) Sx {
	switch c.Head() {
	case "auth":
		hdr := c.List[2].Str()
		if c20Decode(hdr).String() != c.List[3].String() {
			panic("c20: inconsistent base64 oracle")
		}
		accounts := map[string]string{}
		seen := map[string]bool{}
		for _, a := range c.List[1].Lst() {
			u := a.List[0].Str()
			if seen[u] {
				panic("c20: duplicate account (Go map literal semantics differ)")
			}
			seen[u] = true
			accounts[u] = a.List[1].Str()
		}
		ran := false
		r := rux.New()
		r.Any("/x", func(c *rux.Context) { ran = true; c.SetStatus(200) }, handlers.HTTPBasicAuth(accounts))
		method := rtMethods[len(c.String())%len(rtMethods)]
		// the gate decides every request on its own: the same middleware has just let the first account in, and turned
		// an unknown one away
		for k := 0; k < 2 && len(c.List[1].Lst()) > 0; k++ {
			warm := httptest.NewRequest("GET", "/x", nil)
			a0 := c.List[1].Lst()[0]
			cred := a0.List[0].Str() + ":" + a0.List[1].Str()
			if k == 1 {
				cred = "nobody:nothing"
			}
			warm.Header.Set("Authorization", "Basic "+base64.StdEncoding.EncodeToString([]byte(cred)))
			r.ServeHTTP(httptest.NewRecorder(), warm)
		}
		ran = false
		req := httptest.NewRequest(method, "/x", nil)
		if hdr != "" {
			req.Header.Set("Authorization", hdr)
		}
		w := httptest.NewRecorder()
		r.ServeHTTP(w, req)
		if len(c.List) > 4 { // the same gate behind a middleware that writes first: the decision must be the same
			ran2 := false
			r2 := rux.New()
			r2.GET("/x", func(c *rux.Context) { ran2 = true }, func(c *rux.Context) { c.WriteString("banner\n"); c.Next() }, handlers.HTTPBasicAuth(accounts))
			req2 := httptest.NewRequest("GET", "/x", nil)
			if hdr != "" {
				req2.Header.Set("Authorization", hdr)
			}
			r2.ServeHTTP(httptest.NewRecorder(), req2)
			if ran2 != ran {
				return L(A("auth"), A("gate-differs-after-an-earlier-write"), B(ran), B(ran2))
			}
		}
		// the same gate behind a middleware that buffers the response (it replaces c.Resp and replays what was recorded after
		// Next): the client gets the same status
		{
			r3 := rux.New()
			r3.Any("/x", func(c *rux.Context) { c.SetStatus(200) }, func(c *rux.Context) {
				orig := c.Resp
				buf := httptest.NewRecorder()
				c.Resp = buf
				c.Next()
				c.Resp = orig
				for k, v := range buf.Header() {
					orig.Header()[k] = v
				}
				orig.WriteHeader(buf.Code)
				_, _ = orig.Write(buf.Body.Bytes())
			}, handlers.HTTPBasicAuth(accounts))
			req3 := httptest.NewRequest(method, "/x", nil)
			if hdr != "" {
				req3.Header.Set("Authorization", hdr)
			}
			w3 := httptest.NewRecorder()
			r3.ServeHTTP(w3, req3)
			if w3.Code != w.Code {
				return L(A("auth"), A("status-differs-behind-a-buffering-writer"), I(w.Code), I(w3.Code))
			}
		}
		return L(A("auth"), B(ran), I(w.Code), S(w.Header().Get("WWW-Authenticate")))
	case "ovr":
		m, fv, hv, carrier := c.List[1].Str(), c.List[2].Str(), c.List[3].Str(), c.List[4].Sym()
		seen, orig := "", "none"
		r := rux.New()
		var between []rux.HandlerFunc
		if len(c.List) > 5 {
			between = append(between, handlers.Timeout(time.Hour))
		}
		r.Any("/x", func(c *rux.Context) {
			seen = c.Req.Method
			if v, ok := c.Req.Context().Value(handlers.OriginalMethodContextKey).(string); ok {
				orig = v
			}
		}, between...)
		h := r.WrapHTTPHandlers(handlers.HTTPMethodOverrideHandler)
		target := "/x"
		var body *strings.Reader
		if carrier == "q" {
			target = "/x?_method=" + url.QueryEscape(fv)
		}
		if carrier == "b" {
			body = strings.NewReader("_method=" + url.QueryEscape(fv))
		}
		var req *http.Request
		if carrier == "m" { // a multipart form carries the field
			var buf bytes.Buffer
			mw := multipart.NewWriter(&buf)
			_ = mw.WriteField("_method", fv)
			_ = mw.Close()
			req = httptest.NewRequest(m, target, &buf)
			req.Header.Set("Content-Type", mw.FormDataContentType())
		} else if body != nil {
			req = httptest.NewRequest(m, target, body)
			req.Header.Set("Content-Type", "application/x-www-form-urlencoded")
		} else {
			req = httptest.NewRequest(m, target, nil)
		}
		if hv != "" {
			req.Header.Set(handlers.HTTPMethodOverrideHeader, hv)
		}
		h.ServeHTTP(httptest.NewRecorder(), req)
		o := A("none")
		if orig != "none" {
			o = S(orig)
		}
		return L(A("ovr"), S(seen), o)
	case "wrap":
		n := c.List[1].Int()
		var evs []Sx
		r := rux.New()
		r.GET("/x", func(c *rux.Context) { evs = append(evs, I(99)) })
		var ws []func(http.Handler) http.Handler
		for i := 0; i < n; i++ {
			i := i
			ws = append(ws, func(h http.Handler) http.Handler {
				return http.HandlerFunc(func(w http.ResponseWriter, rq *http.Request) {
					evs = append(evs, I(2*i))
					h.ServeHTTP(w, rq)
					evs = append(evs, I(2*i+1))
				})
			})
		}
		// the caller's list is used twice (as for two routers sharing one wrapper list): both compositions are the same
		h1 := r.WrapHTTPHandlers(ws...)
		h2 := r.WrapHTTPHandlers(ws...)
		h1.ServeHTTP(httptest.NewRecorder(), httptest.NewRequest("GET", "/x", nil))
		first := LS(append([]Sx{A("wrap")}, evs...))
		evs = nil
		h2.ServeHTTP(httptest.NewRecorder(), httptest.NewRequest("GET", "/x", nil))
		second := LS(append([]Sx{A("wrap")}, evs...))
		if first.String() != second.String() {
			return L(A("wrap"), A("second-use-of-the-list-differs"), first, second)
		}
		if n > 1 { // another list on the same router is composed on its own (nothing is remembered)
			evs = nil
			r.WrapHTTPHandlers(ws[1:]...).ServeHTTP(httptest.NewRecorder(), httptest.NewRequest("GET", "/x", nil))
			want := []Sx{A("wrap")}
			for _, e := range second.List[1:] {
				if e.Int() != 0 && e.Int() != 1 {
					want = append(want, e)
				}
			}
			if got := LS(append([]Sx{A("wrap")}, evs...)); got.String() != LS(want).String() {
				return L(A("wrap"), A("a-second-list-on-the-router-is-not-composed-on-its-own"), got, LS(want))
			}
		}
		return second
	case "wraph":
		n, k := c.List[1].Int(), c.List[2].Int()
		var evs []Sx
		r := rux.New()
		var mws []rux.HandlerFunc
		for i := 0; i < n; i++ {
			i := i
			if i == k {
				mws = append(mws, rux.WrapHTTPHandler(http.HandlerFunc(func(w http.ResponseWriter, rq *http.Request) { evs = append(evs, I(i*10)) })))
			} else {
				mws = append(mws, func(c *rux.Context) { evs = append(evs, I(i*10)); c.Next(); evs = append(evs, I(i*10+1)) })
			}
		}
		r.GET("/x", func(c *rux.Context) { evs = append(evs, I(990)) }, mws...)
		r.ServeHTTP(httptest.NewRecorder(), httptest.NewRequest("GET", "/x", nil))
		// several wrapped net/http handlers registered through Router.Use from one call site (a loop over a list): all run
		{
			var got []int
			rr := rux.New()
			for j := 0; j < 3; j++ {
				j := j
				rr.Use(rux.WrapHTTPHandler(http.HandlerFunc(func(http.ResponseWriter, *http.Request) { got = append(got, j) })))
			}
			rr.GET("/u", func(*rux.Context) { got = append(got, 9) })
			rr.ServeHTTP(httptest.NewRecorder(), httptest.NewRequest("GET", "/u", nil))
			if fmt.Sprint(got) != "[0 1 2 9]" {
				return L(A("wraph"), A("wrapped-handlers-added-with-Use-do-not-all-run"), S(fmt.Sprint(got)))
			}
		}
		// a wrapped net/http handler is given the request as the middleware before it left it (context values, method)
		{
			type ctxKey struct{}
			seen := ""
			rr := rux.New()
			rr.GET("/z", rux.WrapHTTPHandlerFunc(func(w http.ResponseWriter, rq *http.Request) {
				seen = fmt.Sprint(rq.Context().Value(ctxKey{}), " ", rq.Method, " ", rq.URL.Path)
			}), func(c *rux.Context) {
				c.Req = c.Req.WithContext(context.WithValue(c.Req.Context(), ctxKey{}, "from-upstream"))
				c.Next()
			})
			rr.ServeHTTP(httptest.NewRecorder(), httptest.NewRequest("GET", "/z", nil))
			if seen != "from-upstream GET /z" {
				return L(A("wraph"), A("wrapped-handler-does-not-see-the-request-of-the-chain"), S(seen))
			}
		}
		// a plain net/http handler that answers (status, then text through io.WriteString / Write / Fprint) gives the
		// response its native twin gives
		codes := []int{503, 404, 201, 200}
		code := codes[(n+k)%len(codes)]
		resp := func(h rux.HandlerFunc) string {
			rr := rux.New()
			rr.GET("/y", h)
			w := httptest.NewRecorder()
			rr.ServeHTTP(w, httptest.NewRequest("GET", "/y", nil))
			return fmt.Sprint(w.Code, " ", w.Body.String())
		}
		native := resp(func(c *rux.Context) { c.SetStatus(code); c.WriteString("text") })
		for j, wrapped := range []rux.HandlerFunc{
			rux.WrapHTTPHandler(http.HandlerFunc(func(w http.ResponseWriter, _ *http.Request) { w.WriteHeader(code); _, _ = io.WriteString(w, "text") })),
			rux.WrapHTTPHandlerFunc(func(w http.ResponseWriter, _ *http.Request) { w.WriteHeader(code); _, _ = w.Write([]byte("text")) }),
			rux.WrapHTTPHandlerFunc(func(w http.ResponseWriter, _ *http.Request) { w.WriteHeader(code); fmt.Fprint(w, "text") }),
		} {
			if got := resp(wrapped); got != native {
				return L(A("wraph"), A("wrapped-response-differs-from-native"), I(j), S(got), S(native))
			}
		}
		return LS(append([]Sx{A("wraph")}, evs...))
	}
	panic("c20: bad case " + c.String())
}

func c20Classify(c, obs Sx) []string {
	labs := []string{c.Head()}
	if c.Head() == "auth" {
		labs = append(labs, fmt.Sprintf("status=%s", obs.List[2].Atom))
		if len(c.List[1].Lst()) > 0 {
			labs = append(labs, "nt:accounts-configured")
		}
	}
	if c.Head() == "ovr" && obs.List[2].Atom != "none" {
		labs = append(labs, "nt:overridden")
	}
	return labs
}

func init() {
	props["C20"] = &Prop{Gen: c20Gen, Exec: c20Exec, Classify: c20Classify}
}
