package main

import (
	"fmt"
	"net/url"
	"strings"
)

// generators for the "route table + lookups" cases (executor rt.go)

type varKind struct {
	re   string   // text after ':' ("" = default [^/]+)
	name string   // forced name (global variables)
	good []string // values the regex accepts
	bad  []string // values it rejects
}

var rtVarKinds = []varKind{
	{re: "", good: []string{"x", "12", "a.b", "hello-1", "é", "a%2Fb", "%41", "100%", "v1.2.zip"}, bad: []string{""}},
	{re: `\d+`, good: []string{"1", "42", "007"}, bad: []string{"a", "1a", ""}},
	{re: `[a-z]+`, good: []string{"a", "abc"}, bad: []string{"A", "1", "a1"}},
	{re: `[0-9]{1,3}`, good: []string{"7", "12", "123"}, bad: []string{"1234", "x"}},
	{re: `\w+`, good: []string{"a_1", "Z9"}, bad: []string{"a-b", "a.b"}},
	{re: `(?:a|b)x*`, good: []string{"a", "bxx", "ax"}, bad: []string{"c", "xa"}},
	{re: `.+`, good: []string{"a", "a/b", "x/y/z.css", "v1/../v2/x.md", "a/./b"}, bad: []string{""}},
	{re: `[1-9][0-9]*`, good: []string{"1", "90"}, bad: []string{"0", "01"}},
	{re: `\d{2}`, good: []string{"12", "00"}, bad: []string{"1", "123"}},
	{name: "all", good: []string{"", "a", "a/b"}, bad: nil},
	{name: "any", good: []string{"z", "z.y"}, bad: []string{""}},
	{name: "num", good: []string{"5", "55"}, bad: []string{"05", "x"}},
	{re: `[a-c]{2,}`, good: []string{"ab", "abc"}, bad: []string{"a", "abd"}},
	{re: `x?y`, good: []string{"y", "xy"}, bad: []string{"xxy", "x"}},
	// several top-level groups: the variable's capture is around the whole regex
	{re: `(?:v|V)(?:[0-9]+)`, good: []string{"v2", "V10"}, bad: []string{"v", "2", "x1"}},
	{re: `(?:[a-z]+)-(?:\d+)`, good: []string{"beta-12", "a-0"}, bad: []string{"beta", "-1", "B-1"}},
	// a custom regex under the name of a global variable: the custom regex wins
	{name: "all", re: `[a-z]+`, good: []string{"abc", "z"}, bad: []string{"A/b", "a/b", "a1", ""}},
	{name: "any", re: `\d+`, good: []string{"12"}, bad: []string{"abc", "1a"}},
	{name: "num", re: `[a-c]+`, good: []string{"abc"}, bad: []string{"12", "5"}},
}

type rtPart struct {
	lit  string
	v    *varKind
	name string
}

type rtPat struct {
	req      [][]rtPart // required segments; each segment = parts
	opt      [][]rtPart // optional tail levels, each level a (slash + segment) or a suffix like ".html"
	optSlash []bool
}

var rtLits = []string{"a", "b", "api", "a.b", "v1.0", "users", "x", "blog", "u", "a-b", "c_d", "9", "café", "文档", "résumé.pdf", "v1.0é", "Users", "API", "v1:beta", "~u", "a,b=c", "x@y", "a!"}

func (g *rtG) seg(allowVar bool) []rtPart {
	r := g.r
	if allowVar && r.Chance(1, 2) {
		vk := &rtVarKinds[r.Intn(len(rtVarKinds))]
		// one pattern never uses a forced name with two different regexes (rux keeps one regex per name;
		// a name that occurs twice in one pattern is outside what the properties talk about)
		for vk.name != "" && g.used[vk.name] != "" && g.used[vk.name] != "="+vk.re {
			vk = &rtVarKinds[r.Intn(len(rtVarKinds))]
		}
		if vk.name != "" {
			g.used[vk.name] = "=" + vk.re
		}
		g.nv++
		name := fmt.Sprintf("v%d", g.nv)
		if vk.name != "" {
			name = vk.name
		}
		parts := []rtPart{}
		if r.Chance(1, 5) {
			parts = append(parts, rtPart{lit: r.Pick([]string{"f-", "v", "id"})})
		}
		parts = append(parts, rtPart{v: vk, name: name})
		if r.Chance(1, 5) {
			parts = append(parts, rtPart{lit: r.Pick([]string{".txt", "-z", ".json"})})
		}
		return parts
	}
	return []rtPart{{lit: g.pool[r.Intn(len(g.pool))]}}
}

type rtG struct {
	r    *Rng
	nv   int
	pool []string
	used map[string]string
}

func (g *rtG) pattern() *rtPat {
	r := g.r
	p := &rtPat{}
	g.used = map[string]string{}
	n := r.Range(1, 4)
	for i := 0; i < n; i++ {
		p.req = append(p.req, g.seg(true))
	}
	if r.Chance(1, 4) {
		for k := r.Range(1, 2); k > 0; k-- {
			if r.Chance(1, 4) {
				p.opt = append(p.opt, []rtPart{{lit: r.Pick([]string{".html", ".json", "-x"})}})
				p.optSlash = append(p.optSlash, false)
			} else {
				p.opt = append(p.opt, g.seg(true))
				p.optSlash = append(p.optSlash, true)
			}
		}
	}
	return p
}

func partsText(ps []rtPart) string {
	var sb strings.Builder
	for _, p := range ps {
		if p.v == nil {
			sb.WriteString(p.lit)
		} else if p.v.re == "" {
			sb.WriteString("{" + p.name + "}")
		} else {
			sb.WriteString("{" + p.name + ":" + p.v.re + "}")
		}
	}
	return sb.String()
}

func (p *rtPat) text() string {
	var sb strings.Builder
	for _, s := range p.req {
		sb.WriteString("/" + partsText(s))
	}
	for i, s := range p.opt {
		sb.WriteString("[")
		if p.optSlash[i] {
			sb.WriteString("/")
		}
		sb.WriteString(partsText(s))
	}
	sb.WriteString(strings.Repeat("]", len(p.opt)))
	return sb.String()
}

// instance: a path that matches (mostly); levels = how many optional levels are present
func (g *rtG) instance(p *rtPat, goodP int) string {
	r := g.r
	val := func(ps []rtPart) string {
		var sb strings.Builder
		for _, q := range ps {
			if q.v == nil {
				sb.WriteString(q.lit)
			} else if r.Intn(100) < goodP || len(q.v.bad) == 0 {
				sb.WriteString(q.v.good[r.Intn(len(q.v.good))])
			} else {
				sb.WriteString(q.v.bad[r.Intn(len(q.v.bad))])
			}
		}
		return sb.String()
	}
	var sb strings.Builder
	for _, s := range p.req {
		sb.WriteString("/" + val(s))
	}
	lv := r.Intn(len(p.opt) + 1)
	for i := 0; i < lv; i++ {
		if p.optSlash[i] {
			sb.WriteString("/")
		}
		sb.WriteString(val(p.opt[i]))
	}
	return sb.String()
}

func rtMutate(r *Rng, s string) string {
	switch r.Intn(11) {
	case 9, 10: // a dot segment after one of the slashes: the path is matched as it is written (nothing resolves "." / "..")
		var at []int
		for i := range s {
			if s[i] == '/' {
				at = append(at, i)
			}
		}
		if len(at) > 0 {
			i := at[r.Intn(len(at))]
			return s[:i] + r.Pick([]string{"/.", "/..", "/./x/..", "/x/.."}) + s[i:]
		}
	case 0:
		return s + "/"
	case 1:
		return " " + s + " "
	case 2:
		return "/" + s
	case 3:
		if len(s) > 1 {
			i := 1 + r.Intn(len(s)-1)
			return s[:i] + s[i+1:]
		}
	case 4:
		i := r.Intn(len(s) + 1)
		return s[:i] + r.Pick([]string{"/", "x", ".", "0", "-"}) + s[i:]
	case 5:
		return s + "/extra"
	case 6:
		return strings.Replace(s, ".", "x", 1)
	case 7:
		return strings.ToUpper(s)
	}
	return s
}

var rtMethods = []string{"GET", "POST", "PUT", "PATCH", "DELETE", "OPTIONS", "HEAD", "CONNECT", "TRACE"}

func (g *rtG) methods() []string {
	r := g.r
	switch r.Intn(6) {
	case 0, 1, 2:
		return []string{"GET"}
	case 3:
		return []string{r.Pick(rtMethods)}
	case 4:
		return []string{"GET", "POST"}
	default:
		var ms []string
		for _, m := range rtMethods {
			if r.Chance(1, 3) {
				ms = append(ms, m)
			}
		}
		if len(ms) == 0 {
			ms = []string{"PUT"}
		}
		return ms
	}
}

type rtTable struct {
	defs  []Sx
	pats  []*rtPat // nil for static
	paths []string
	meths [][]string
}

func (g *rtG) table(n int) *rtTable {
	r := g.r
	t := &rtTable{}
	seenStatic := map[string]bool{}
	for i := 0; i < n; i++ {
		ms := g.methods()
		if r.Chance(1, 20) && !seenStatic["root"] { // the root route
			seenStatic["root"] = true
			t.defs = append(t.defs, L(SL(ms), S(r.Pick([]string{"/", "", " / "})), B(false)))
			t.pats = append(t.pats, nil)
			t.paths = append(t.paths, "/")
			t.meths = append(t.meths, ms)
			continue
		}
		if r.Chance(1, 3) { // static route
			var segs []string
			for k := r.Range(1, 3); k > 0; k-- {
				segs = append(segs, g.pool[r.Intn(len(g.pool))])
			}
			p := "/" + strings.Join(segs, "/")
			dup := false
			for _, m := range ms {
				if seenStatic[m+p] {
					dup = true
				}
			}
			if dup {
				i--
				continue
			}
			for _, m := range ms {
				seenStatic[m+p] = true
			}
			t.defs = append(t.defs, L(SL(ms), S(p), B(false)))
			t.pats = append(t.pats, nil)
			t.paths = append(t.paths, p)
		} else {
			pat := g.pattern()
			regText := pat.text()
			if r.Chance(1, 8) { // other spellings of the same pattern at registration (they normalise to it, except "/" under strict)
				regText = r.Pick([]string{strings.TrimPrefix(regText, "/"), " " + regText + " ", "//" + strings.TrimPrefix(regText, "/"), regText + "/"})
			}
			t.defs = append(t.defs, L(SL(ms), S(regText), B(false)))
			t.pats = append(t.pats, pat)
			t.paths = append(t.paths, pat.text())
			if twin := g.sameShape(pat); twin != nil && r.Chance(1, 5) {
				// a second route of the same shape - same literals, same variable NAMES - whose variables accept other
				// values: both are routes of their own (only the pattern with the regexes identifies a route)
				t.meths = append(t.meths, ms)
				t.defs = append(t.defs, L(SL(ms), S(twin.text()), B(false)))
				t.pats = append(t.pats, twin)
				t.paths = append(t.paths, twin.text())
				i++
			}
		}
		t.meths = append(t.meths, ms)
	}
	return t
}

// sameShape copies a pattern and gives every freely named variable another regex; nil when there is no such variable
func (g *rtG) sameShape(p *rtPat) *rtPat {
	changed := false
	cp := func(levels [][]rtPart) [][]rtPart {
		var out [][]rtPart
		for _, seg := range levels {
			var ns []rtPart
			for _, q := range seg {
				if q.v != nil && q.v.name == "" {
					for tries := 0; tries < 20; tries++ {
						vk := &rtVarKinds[g.r.Intn(len(rtVarKinds))]
						if vk.name == "" && vk.re != q.v.re {
							q.v = vk
							changed = true
							break
						}
					}
				}
				ns = append(ns, q)
			}
			out = append(out, ns)
		}
		return out
	}
	twin := &rtPat{req: cp(p.req), opt: cp(p.opt), optSlash: append([]bool{}, p.optSlash...)}
	if !changed {
		return nil
	}
	return twin
}

func (g *rtG) probePath(t *rtTable) string {
	r := g.r
	i := r.Intn(len(t.pats))
	var p string
	if t.pats[i] == nil {
		p = t.paths[i]
	} else {
		p = g.instance(t.pats[i], 85)
	}
	if r.Chance(1, 4) {
		p = rtMutate(r, p)
	}
	if r.Chance(1, 15) {
		p = r.Pick([]string{"/", "", "//", "/zz", "/a//b", " ", "/a b"})
	}
	return p
}

func (g *rtG) probeMethod(t *rtTable) string {
	r := g.r
	if r.Chance(3, 4) {
		ms := t.meths[r.Intn(len(t.meths))]
		return ms[r.Intn(len(ms))]
	}
	return r.Pick(rtMethods)
}

func newRtG(r *Rng) *rtG {
	g := &rtG{r: r, used: map[string]string{}}
	for k := r.Range(2, 5); k > 0; k-- {
		g.pool = append(g.pool, rtLits[r.Intn(len(rtLits))])
	}
	return g
}

// ---------------- C01 / C02: selection and parameters ----------------
// a crowded first-node bucket: 5..9 overlapping routes of one method that all start with the same literal segment
func (g *rtG) crowded() *rtTable {
	r := g.r
	t := &rtTable{}
	first := g.pool[0]
	m := []string{r.Pick([]string{"GET", "GET", "POST"})}
	size := r.Range(5, 9)
	if r.Chance(1, 4) { // larger buckets (thresholds of 12, 16, 32 ... routes)
		size = r.Pick2([]int{12, 13, 16, 17, 33, 64})
	}
	for k := size; k > 0; k-- {
		pat := g.pattern()
		pat.req[0] = []rtPart{{lit: first}}
		if len(pat.req) == 1 {
			pat.req = append(pat.req, g.seg(true))
		}
		t.defs = append(t.defs, L(SL(m), S(pat.text()), B(false)))
		t.pats = append(t.pats, pat)
		t.paths = append(t.paths, pat.text())
		t.meths = append(t.meths, m)
	}
	return t
}

func c01Gen(r *Rng, tier string, i int) Sx {
	g := newRtG(r)
	t := g.table(r.Range(1, 10))
	if i%9 == 8 {
		t = g.crowded()
	}
	var opts []Sx
	if r.Chance(1, 5) {
		opts = append(opts, L(A("strict")))
	}
	if r.Chance(1, 3) {
		opts = append(opts, L(A("cache"), I(r.Intn(4))))
	}
	var qs []Sx
	for k := 0; k < 12; k++ {
		kind := "m" // Router.Match, or (one in four) a request served through ServeHTTP
		m := g.probeMethod(t)
		if r.Chance(1, 4) && m != "" {
			kind = "s"
		}
		qs = append(qs, L(A(kind), S(m), S(g.probePath(t))))
	}
	if r.Chance(1, 10) {
		opts, qs = rtGvar(r, t, opts, qs)
	}
	opts, qs = rtGroup(r, opts, qs)
	return L(A("rt"), LS(opts), LS(t.defs), LS(qs))
}

func c02Gen(r *Rng, tier string, i int) Sx {
	g := newRtG(r)
	t := g.table(r.Range(1, 6))
	var opts []Sx
	if r.Chance(1, 2) {
		opts = append(opts, L(A("cache"), I(r.Range(0, 4))))
	}
	var qs []Sx
	for k := 0; k < 10; k++ {
		m, p := g.probeMethod(t), g.probePath(t)
		kind := "m"
		if r.Chance(1, 3) {
			kind = "s"
		}
		qs = append(qs, L(A(kind), S(m), S(p)))
		if r.Chance(1, 3) { // repeat: served from the cache when enabled
			qs = append(qs, L(A(kind), S(m), S(p)))
		}
	}
	if r.Chance(1, 8) {
		opts, qs = rtGvar(r, t, opts, qs)
	}
	if r.Chance(1, 6) { // very long paths that differ in the middle only: each gets its own parameters, cached or not
		d, a, b := rtLongTwin(r, true)
		t.defs = append(t.defs, d)
		if len(opts) == 0 {
			opts = append(opts, L(A("cache"), I(r.Range(1, 4))))
		}
		for k := 0; k < 3; k++ {
			qs = append(qs, L(A(r.Pick([]string{"m", "s"})), S("GET"), S(a)), L(A(r.Pick([]string{"m", "s"})), S("GET"), S(b)))
		}
	}
	opts, qs = rtGroup(r, opts, qs)
	if r.Chance(1, 6) { // UseEncodedPath: served requests are matched on the escaped text, which the case carries
		opts = append(opts, L(A("enc")))
		for k, q := range qs {
			if q.Head() == "s" {
				qs[k] = L(q.List[0], q.List[1], q.List[2], S((&url.URL{Path: q.List[2].Str()}).EscapedPath()))
			}
		}
	}
	return L(A("rt"), LS(opts), LS(t.defs), LS(qs))
}

// rtGroup: in some cases the whole table is registered inside r.Group(prefix, ...); the probes then carry the prefix
func rtGroup(r *Rng, opts, qs []Sx) ([]Sx, []Sx) {
	if !r.Chance(1, 7) {
		return opts, qs
	}
	spelled := r.Pick([]string{"/api/v1", "/g", "adm/", "/G.x"})
	norm := "/" + strings.Trim(spelled, "/")
	for k, q := range qs {
		if q.Head() == "m" || q.Head() == "s" {
			p := q.List[2].Str()
			if r.Chance(9, 10) {
				p = norm + p
			}
			qs[k] = L(q.List[0], q.List[1], S(p))
		}
	}
	return append(opts, L(A("group"), S(spelled))), qs
}

// rtGvar: a global path variable of the application's own (SetGlobalVar after the router exists, before the route is added):
// {sku} then stands for {sku:regex}
func rtGvar(r *Rng, t *rtTable, opts, qs []Sx) ([]Sx, []Sx) {
	gv := L(A("gvar"), S("sku"), S(`[A-Z]{3}-[0-9]{4}`))
	if r.Bool() { // the variable was defined differently before
		gv.List = append(gv.List, S(`[a-z]+-[0-9]+`))
	}
	opts = append(opts, gv)
	// (the path texts are the case's own: something remembered per path text by an earlier case of the run must not hide a defect)
	k := r.Intn(1000000)
	pp, qq := fmt.Sprintf("/p%d", k), fmt.Sprintf("/q%d", k)
	t.defs = append(t.defs, L(SL([]string{"GET"}), S(pp+"/{sku}"), B(false)), L(SL([]string{"GET"}), S(qq+"/{sku}/{v9}"), B(false)))
	for _, p := range []string{pp + "/ABC-1234", pp + "/abc-1234", pp + "/ABC-12345", qq + "/XYZ-0001/k", qq + "/xyz/k"} {
		qs = append(qs, L(A(r.Pick([]string{"m", "s"})), S("GET"), S(p)))
	}
	return opts, qs
}

func rtClassify(c, obs Sx) []string {
	var labs []string
	s := c.String()
	o := obs.String()
	xs := c.Lst()
	nd := len(xs[2].Lst())
	switch {
	case nd <= 3:
		labs = append(labs, "routes<=3")
	case nd <= 6:
		labs = append(labs, "routes<=6")
	default:
		labs = append(labs, "routes>6")
	}
	if strings.Contains(s, "(cache ") {
		labs = append(labs, "caching")
	}
	if strings.Contains(s, "5b") { // '[' in a pattern
		labs = append(labs, "optional-tail")
	}
	hits := strings.Count(o, "(found ") + strings.Count(o, "(sel 0") + strings.Count(o, "(sel 1") + strings.Count(o, "(sel 2") + strings.Count(o, "(sel 3")
	if hits > 0 {
		labs = append(labs, "hit")
	}
	if strings.Contains(o, "(na ") {
		labs = append(labs, "not-allowed")
	}
	if strings.Contains(o, "panic") {
		labs = append(labs, "panic-observed")
	}
	if hits >= 2 && nd >= 2 {
		labs = append(labs, "nt:multi-route-hits")
	}
	return labs
}

func init() {
	props["C01"] = &Prop{Gen: c01Gen, Exec: rtExecFor("C01"), Classify: rtClassify}
	props["C02"] = &Prop{Gen: c02Gen, Exec: rtExecFor("C02"), Classify: rtClassify}
}
