package main

import (
	"fmt"
	"strings"
)

// generators for C09 (panic containment) and C10 (pristine context), executor rp.go with the twin oracle

func wst(code int) Sx { return L(A("w"), L(A("st"), I(code))) }
func wwr(b string) Sx { return L(A("w"), L(A("wr"), SB([]byte(b)))) }
func idsSx(xs ...int) []Sx {
	var o []Sx
	for _, x := range xs {
		o = append(o, I(x))
	}
	return o
}

// ---------------- C09 ----------------
func c09Gen(r *Rng, tier string, i int) Sx {
	var hs []Sx
	nGlobal, nGroup, nRoute := r.Intn(3), r.Intn(2), r.Intn(3)
	id := 0
	mk := func(n int) []int {
		var out []int
		for k := 0; k < n; k++ {
			id++
			out = append(out, id)
		}
		return out
	}
	g, gr, rt := mk(nGlobal), mk(nGroup), mk(nRoute)
	mainA, mainB := 90, 91
	fb404, fb405 := 95, 96
	// who panics
	cands := append(append(append([]int{}, g...), gr...), rt...)
	cands = append(cands, mainA)
	customNF := r.Chance(1, 3)
	customNA := r.Chance(1, 3)
	na := r.Chance(1, 2)
	if customNF {
		cands = append(cands, fb404)
	}
	if customNA && na {
		cands = append(cands, fb405)
	}
	onErrPanics := r.Chance(1, 10)
	victim := cands[r.Intn(len(cands))]
	when := r.Intn(3) // before Next / after Next / (main or no-Next handler) in the middle
	abortFirst, wrapFirst := r.Chance(1, 5), r.Chance(1, 6)
	body := func(h int, callsNext bool) []Sx {
		ops := []Sx{ev(h * 10)}
		if r.Chance(1, 4) {
			ops = append(ops, wst([]int{201, 202, 404}[r.Intn(3)]))
		}
		if r.Chance(1, 6) {
			ops = append(ops, wwr("pre"))
		}
		if r.Chance(1, 5) {
			ops = append(ops, L(A("sd"), S("k"), I(h)))
		}
		if onErrPanics || r.Chance(1, 8) {
			ops = append(ops, L(A("ae"), I(h)))
		}
		boom := []Sx{ev(8000 + h), L(A("panic"), I(h))}
		if abortFirst { // the chain is already aborted (with a status of its own) when the panic happens
			boom = append([]Sx{L(A("abs"), I(401))}, boom...)
		}
		if wrapFirst { // the response writer has been wrapped by this handler (and is not restored: the panic comes first)
			boom = append([]Sx{L(A("rr"))}, boom...)
		}
		if h == victim && !onErrPanics && (when == 0 || !callsNext) {
			ops = append(ops, boom...)
		}
		if callsNext {
			ops = append(ops, L(A("next")))
		}
		if h == victim && !onErrPanics && when != 0 && callsNext {
			ops = append(ops, boom...)
		}
		ops = append(ops, ev(h*10+1))
		return ops
	}
	for _, h := range cands {
		callsNext := h != mainA && h != fb404 && h != fb405 && r.Chance(5, 6)
		hd := L(I(h), LS(body(h, callsNext)))
		if !callsNext && r.Chance(1, 3) { // written as a net/http handler behind WrapHTTPHandler & co.
			hd.List = append(hd.List, A("std"))
		}
		hs = append(hs, hd)
	}
	hs = append(hs, L(I(mainB), L(ev(mainB*10), L(A("snap")), wwr("b"))))
	if !customNF {
		hs = append(hs, L(I(fb404), L(ev(fb404*10))))
	}
	if !(customNA && na) {
		hs = append(hs, L(I(fb405), L(ev(fb405*10))))
	}
	var stmts []Sx
	if len(g) > 0 {
		stmts = append(stmts, LS(append([]Sx{A("use")}, idsSx(g...)...)))
	}
	stmts = append(stmts, L(A("group"), S("/g"), LS(idsSx(gr...)),
		L(L(A("route"), SL([]string{"GET"}), S("/a"), I(mainA), LS(idsSx(rt...)), L(), S("")))))
	stmts = append(stmts, L(A("route"), SL([]string{"GET"}), S("/b"), I(mainB), L(), L(), S("")))
	if customNF {
		stmts = append(stmts, L(A("nf"), I(fb404)))
	}
	if customNA && na {
		stmts = append(stmts, L(A("nal"), I(fb405)))
	}
	opts := []Sx{L(A("twin"))}
	if na {
		opts = append(opts, L(A("na")))
	}
	// the hook
	switch r.Intn(7) {
	case 6: // the hook answers through AbortWithStatus
		opts = append(opts, L(A("onpanic"), L(ev(7777), L(A("snap")), L(A("abs"), I(500)), wwr("oops"))))
	case 0: // no hook: the panic propagates
	case 1:
		opts = append(opts, L(A("onpanic"), L(ev(7777), L(A("snap")))))
	case 2:
		opts = append(opts, L(A("onpanic"), L(ev(7777), L(A("snap")), wst(500))))
	case 3, 4:
		opts = append(opts, L(A("onpanic"), L(ev(7777), L(A("snap")), wst(500), wwr("oops"))))
	case 5:
		opts = append(opts, L(A("onpanic"), L(ev(7777), L(A("panic"), I(77)))))
	}
	if onErrPanics {
		opts = append(opts, L(A("onerror"), L(ev(8000+97), L(A("panic"), I(97)))))
	} else if r.Chance(1, 5) {
		opts = append(opts, L(A("onerror"), L(ev(970), wst(500))))
	}
	// request 0 reaches the victim; then follow-ups
	first := L(S("GET"), S("/g/a"), L())
	switch victim {
	case fb404:
		first = L(S("GET"), S("/nope"), L())
	case fb405:
		first = L(S("POST"), S("/g/a"), L())
	}
	reqs := []Sx{first}
	followups := []Sx{L(S("GET"), S("/b"), L()), L(S("GET"), S("/g/a"), L()), L(S("GET"), S("/nope"), L()), L(S("POST"), S("/b"), L())}
	for k := r.Range(1, 3); k > 0; k-- {
		reqs = append(reqs, followups[r.Intn(len(followups))])
	}
	return L(A("rp"), LS(opts), LS(stmts), LS(hs), LS(reqs))
}

func c09Classify(c, obs Sx) []string {
	s := c.String()
	o := obs.String()
	var labs []string
	switch {
	case !strings.Contains(s, "(onpanic"):
		labs = append(labs, "hook=none")
	case strings.Contains(s, "(panic 77)"):
		labs = append(labs, "hook=panics")
	case strings.Contains(s, "(wr '6f.6f.70.73)"):
		labs = append(labs, "hook=status+body")
	case strings.Contains(s, "(onpanic ((ev 7777) (snap) (w (st 500))))"):
		labs = append(labs, "hook=status")
	default:
		labs = append(labs, "hook=nothing")
	}
	reached := strings.Contains(o, "(e 80")
	if reached {
		labs = append(labs, "nt:panic-reached")
	} else {
		labs = append(labs, "panic-not-reached")
	}
	if strings.Contains(o, "(esc (p") {
		labs = append(labs, "escaped")
	}
	if strings.Contains(s, "(onerror") {
		labs = append(labs, "onerror-hook")
	}
	return labs
}

// ---------------- C10 ----------------
var c10Mut = []func(r *Rng, h int) Sx{
	func(r *Rng, h int) Sx { return L(A("sd"), S(fmt.Sprintf("k%d", r.Intn(3))), I(h)) },
	func(r *Rng, h int) Sx { return L(A("ae"), I(h)) },
	func(r *Rng, h int) Sx { return L(A("sp"), S("id"), S(fmt.Sprint(h))) },
	func(r *Rng, h int) Sx { return L(A("rr")) },
	func(r *Rng, h int) Sx { return L(A("rq")) },
	func(r *Rng, h int) Sx { return wst([]int{201, 404, 500}[r.Intn(3)]) },
	func(r *Rng, h int) Sx { return wwr("body") },
	func(r *Rng, h int) Sx { return L(A("abort")) },
	func(r *Rng, h int) Sx { return L(A("abs"), I(403)) },
	func(r *Rng, h int) Sx { return L(A("w"), L(A("fl"))) },
	func(r *Rng, h int) Sx {
		return L(A("w"), L(A("he"), SB([]byte("failed")), I([]int{500, 404, 418}[r.Intn(3)])))
	},
	func(r *Rng, h int) Sx { return L(A("w"), L(A("hd"), S("X-K"), S(fmt.Sprint(h)))) },
}

func c10Gen(r *Rng, tier string, i int) Sx {
	var hs []Sx
	// handler 1 is the first global middleware: it snapshots the context it is given
	hs = append(hs, L(I(1), L(L(A("snap")), L(A("isab")), L(A("next")))))
	nRoutes := r.Range(2, 4)
	var stmts []Sx
	noGlobal := r.Chance(1, 6)
	if !noGlobal {
		stmts = append(stmts, L(A("use"), I(1)))
	} else {
		// no global middleware, but a custom NotFound chain of several handlers (a slice the router keeps): requests that
		// are not found alternate with matched ones
		hs = append(hs, L(I(30), L(L(A("snap")), L(A("isab")), L(A("next")))), L(I(31), L(ev(310), L(A("next")))), L(I(32), L(wst(404), wwr("custom-404"))))
		stmts = append(stmts, L(A("nf"), I(30), I(31), I(32)))
	}
	var paths []string
	for k := 0; k < nRoutes; k++ {
		mw := 10 + k
		main := 100 + k
		var mwOps, mainOps []Sx
		mwOps = append(mwOps, ev(mw*10))
		for n := r.Intn(3); n > 0; n-- {
			mwOps = append(mwOps, c10Mut[r.Intn(len(c10Mut))](r, mw))
		}
		mwOps = append(mwOps, L(A("next")))
		for n := r.Intn(2); n > 0; n-- {
			mwOps = append(mwOps, c10Mut[r.Intn(len(c10Mut))](r, mw))
		}
		mainOps = append(mainOps, ev(main*10))
		for n := r.Intn(4); n > 0; n-- {
			mainOps = append(mainOps, c10Mut[r.Intn(len(c10Mut))](r, main))
		}
		if r.Chance(1, 24) { // the handler takes over the connection (outside the writer model: judged by the twin oracle only)
			mainOps = append(mainOps, L(A("hijack")))
		}
		if r.Chance(1, 6) {
			mainOps = append(mainOps, L(A("panic"), I(main)))
		} else if r.Chance(1, 6) { // the handler installs a chain of its own (SetHandlers) that the application keeps
			mainOps = append(mainOps, L(A("sh")))
		}
		hs = append(hs, L(I(mw), LS(mwOps)), L(I(main), LS(mainOps)))
		p := fmt.Sprintf("/r%d", k)
		paths = append(paths, p)
		stmts = append(stmts, L(A("route"), SL([]string{"GET"}), S(p), I(main), L(I(mw)), L(), S(fmt.Sprintf("n%d", k))))
	}
	opts := []Sx{L(A("twin"))}
	if r.Chance(1, 2) {
		opts = append(opts, L(A("na")))
		if r.Chance(1, 2) { // a custom NotAllowed handler that looks at the allowed methods and edits the list it was handed
			hs = append(hs, L(I(40), L(ev(400), L(A("snap")), wst(405), L(A("mal")))))
			stmts = append(stmts, L(A("nal"), I(40)))
		}
	}
	if r.Chance(2, 3) {
		opts = append(opts, L(A("onpanic"), L(wst(500))))
	}
	// a third of the histories also have a dynamic route, sometimes behind the route cache: parameters come from matching
	if r.Chance(1, 3) {
		mw, main := 20, 120
		hs = append(hs, L(I(mw), L(ev(mw*10), L(A("next")))),
			L(I(main), LS([]Sx{ev(main * 10), L(A("snap")), c10Mut[r.Intn(len(c10Mut))](r, main), L(A("sp"), S("id"), S("changed")), L(A("sp"), S("extra"), S("x"))})))
		if r.Chance(1, 3) { // a dynamic route without variables: its (empty) parameter map also goes through the cache
			stmts = append(stmts, L(A("route"), SL([]string{"GET"}), S("/o[.html]"), I(main), L(I(mw)), L(), S("dyn")))
			paths = append(paths, "/o", "/o", "/o.html")
		} else {
			stmts = append(stmts, L(A("route"), SL([]string{"GET"}), S("/d/{id}"), I(main), L(I(mw)), L(), S("dyn")))
			paths = append(paths, "/d/1", "/d/1", "/d/2")
		}
		if r.Chance(2, 3) {
			opts = append(opts, L(A("cache"), I(r.Intn(3))))
		}
	}
	if r.Chance(1, 3) {
		opts = append(opts, L(A("onerror"), L(wst(500))))
	}
	var reqs []Sx
	for n := r.Range(3, 8); n > 0; n-- {
		k := r.Intn(8)
		if noGlobal && k >= 4 {
			k = 0
		}
		switch k {
		case 0:
			reqs = append(reqs, L(S("GET"), S("/none"), L()))
		case 1:
			reqs = append(reqs, L(S("POST"), S(paths[r.Intn(len(paths))]), L()))
		default:
			reqs = append(reqs, L(S("GET"), S(paths[r.Intn(len(paths))]), L()))
		}
	}
	return L(A("rp"), LS(opts), LS(stmts), LS(hs), LS(reqs))
}

func c10Classify(c, obs Sx) []string {
	s := c.String()
	var labs []string
	for _, k := range []string{"(sd ", "(ae ", "(sp ", "(rr)", "(rq)", "(abort)", "(abs ", "(panic ", "(fl)"} {
		if strings.Contains(s, k) {
			labs = append(labs, "mut:"+strings.Trim(k, "( )"))
		}
	}
	if rpLastReuse > 0 {
		labs = append(labs, "nt:context-reused")
		labs = append(labs, fmt.Sprintf("reused-requests=%d", rpLastReuse))
	}
	return labs
}

func init() {
	props["C09"] = &Prop{Gen: c09Gen, Exec: rpExec, Classify: c09Classify}
	props["C10"] = &Prop{Gen: c10Gen, Exec: rpExec, Classify: c10Classify}
}
