package main

import (
	"bytes"
	"encoding/json"
	"encoding/xml"
	"errors"
	"fmt"
	"math"
	"mime/multipart"
	"net/http"
	"net/http/httptest"
	"net/url"
	"reflect"
	"strings"

	"github.com/gookit/rux"
	"github.com/gookit/rux/pkg/binding"
	"github.com/gookit/rux/pkg/handlers"
	"github.com/gookit/validate"
)

// C18: binding picks its source from the request and round-trips data.
// (src 'method 'ctype)                 every source carries a different name: which one arrives?
//     obs: (src <query|form|multipart|json|xml|err>)
// (rt fmt vkind seed)                   encode a generated value in fmt, bind it back
//     obs: (rt ok|diff|err|panic)
// (mal fmt 'body)                       malformed input: error, never a panic
//     obs: (mal err|ok|panic)
// (val enabled valid fmt)               validation: a successful bind implies the struct passed validation
//     obs: (val ok|err|panic)

type c18User struct {
	Name  string `json:"name" form:"name" query:"name" xml:"name"`
	Extra string `json:"extra" form:"extra" query:"extra" xml:"extra"` // only ever present in the query string
}

type c18Val struct {
	XMLName xml.Name `json:"-" form:"-" xml:"val"`
	ID      int      `json:"id" form:"id" query:"id" xml:"id"`
	Name    string   `json:"name" form:"name" query:"name" xml:"name"`
	Ok      bool     `json:"ok" form:"ok" query:"ok" xml:"ok"`
	Tags    []string `json:"tags" form:"tags" query:"tags" xml:"tags"`
	Score   int64    `json:"score" form:"score" query:"score" xml:"score"`
}

type c18Checked struct {
	Name string `json:"name" form:"name" query:"name" xml:"name" validate:"required|minLen:3"`
	Age  int    `json:"age" form:"age" query:"age" xml:"age" validate:"min:1"`
}

// the outer type carries no rule tags: they are on the nested struct
type c18Nested struct {
	Title string       `json:"title"`
	Inner c18Checked   `json:"inner"`
	List  []c18Checked `json:"list"`
}

// no validate / filter tags: the rules are the application's own validator's (c18OwnValidator)
type c18Untagged struct {
	Name string `json:"name" form:"name" query:"name" xml:"name"`
	Age  int    `json:"age" form:"age" query:"age" xml:"age"`
}

type c18OwnValidator struct{}

func (c18OwnValidator) Validate(obj any) error {
	if p, ok := obj.(*c18Untagged); ok && (len(p.Name) < 3 || p.Age < 1) {
		return errors.New("c18: name too short or age below 1")
	}
	return nil
}

// no tags either: the rules are declared in code (gookit/validate's ConfigValidation hook)
type c18Configured struct {
	Name string `json:"name" form:"name" query:"name" xml:"name"`
	Age  int    `json:"age" form:"age" query:"age" xml:"age"`
}

func (c18Configured) ConfigValidation(v *validate.Validation) {
	v.StringRule("Name", "required|minLen:3")
	v.StringRule("Age", "min:1")
}

var c18Strings = []string{"", "a", "héllo wörld", "a&b=c", "x;y", "1,2", "<tag>", "\"q\"", "tab\there", "日本", "a+b c", "%41", "line\nbreak", " a ", "\tb\n", "true", "null",
	// bodies longer than the usual peek / buffer sizes (512, 4096)
	strings.Repeat("long text 0123456789 ", 30), strings.Repeat("0123456789abcdef", 300)}

func c18MakeVal(r *Rng) c18Val {
	v := c18Val{ID: r.Intn(2000) - 1000, Name: r.Pick(c18Strings), Ok: r.Bool(), Score: int64(r.Next() >> 20)}
	if r.Chance(1, 6) { // the ends of the int64 range and the first integer a float64 cannot hold
		v.Score = []int64{math.MinInt64, -1, 1<<53 + 1, math.MaxInt64}[r.Intn(4)]
	}
	for k := r.Intn(4); k > 0; k-- {
		v.Tags = append(v.Tags, r.Pick(c18Strings)) // blank elements included
	}
	return v
}

func c18Multipart(fields url.Values) (string, *bytes.Buffer) {
	var buf bytes.Buffer
	mw := multipart.NewWriter(&buf)
	if len(fields)%2 == 0 { // a boundary as browsers send it (mixed case); the default one is lower-case hex
		_ = mw.SetBoundary("----WebKitFormBoundary7MA4YWxkTrZu0gW")
	}
	for k, vs := range fields {
		for _, v := range vs {
			_ = mw.WriteField(k, v)
		}
	}
	_ = mw.Close()
	return mw.FormDataContentType(), &buf
}

var c18CTypes = []string{"application/json; profile=\"https://example.com/schemas/xml\"", "text/xml; note=/json", "application/xml; v=\"/json\"",
	"", "application/json", "application/json; charset=utf-8", "application/x-www-form-urlencoded", "application/x-www-form-urlencoded; charset=UTF-8",
	"multipart/form-data", "application/xml", "text/xml", "text/xml; charset=utf-8", "text/plain", "application/octet-stream", "text/html", "application/jsonx",
	"text/plain; a=/json", "application/vnd.api+json", "application/ld+json", "image/png", "application/x-json", "json", "application/yaml",
	// xml-looking types that are not documented ones, and other spellings of the documented ones
	"application/atom+xml", "application/x-xml", "application/xhtml+xml", "xml", "application/json ;charset=utf-8", " application/json", "application/xml;q=1", "application/json;", "text/xml ; x=1"}

func c18Gen(r *Rng, tier string, i int) Sx {
	switch i % 4 {
	case 0:
		m := r.Pick(rtMethods)
		if r.Chance(1, 8) { // method names are compared as they are: only POST, PUT and PATCH (upper case) have a body
			m = r.Pick([]string{"post", "Put", "PROPFIND", "PATCHX"})
		}
		return L(A("src"), S(m), S(r.Pick(c18CTypes)))
	case 1:
		return L(A("rt"), A(r.Pick([]string{"json", "xml", "form", "query", "multipart"})), I(int(r.Next()%1000000)))
	case 2:
		bodies := []string{"", "{", "{\"id\":\"x\"}", "<val><id>x</id>", "id=abc&ok=maybe", "%zz", "{\"tags\":5}", "[1,2", "<a></b>", "id=1&id=2&tags[=x", "null", "{\"id\":1e99}", "\xff\xfe",
			"<val><id>1</id></vals>", "<val a=b><id>1</id></val>", "<val><name>&nbsp;</name></val>", "<val><name>a & b</name></val>", "<val><id>1</ID></val>",
			"<val><id>1</id><name>x</val></name>", "<val checked><id>1</id></val>", "{\"id\":1,}", "{'id':1}", "{\"id\":1} trailing", "id=1;ok=%zz", "id=&ok=true", "id=&name=x", "score="}
		return L(A("mal"), A(r.Pick([]string{"json", "xml", "form", "query"})), SB([]byte(r.Pick(bodies))))
	default:
		// the validator is switched by a sequence of Disable (d) / Reset (r) calls: it is on iff the last call is not Disable
		enabled := r.Bool()
		toggles := ""
		for k := r.Intn(4); k > 0; k-- {
			toggles += r.Pick([]string{"d", "r"})
		}
		if enabled {
			toggles += r.Pick([]string{"", "r"})
			if strings.HasSuffix(toggles, "d") {
				toggles += "r"
			}
		} else {
			toggles += "d"
		}
		return L(A("val"), B(enabled), B(r.Bool()), A(r.Pick([]string{"json", "xml", "form", "query", "multipart"})), A("t"+toggles), A(r.Pick([]string{"plain", "plain", "samename", "custom", "config", "nested"})))
	}
}

// a request with a body also carries a query string with other values for the same fields: the body alone is bound
const c18Noise = "?id=424242&name=from-query&tags=from-query&ok=true&score=7"

func c18Req(fmtName string, v any, values url.Values) *http.Request {
	switch fmtName {
	case "json":
		b, _ := json.Marshal(v)
		req := httptest.NewRequest("POST", "/x"+c18Noise, bytes.NewReader(b))
		req.Header.Set("Content-Type", "application/json")
		return req
	case "xml":
		b, _ := xml.Marshal(v)
		req := httptest.NewRequest("PUT", "/x"+c18Noise, bytes.NewReader(b))
		req.Header.Set("Content-Type", "application/xml")
		return req
	case "form":
		req := httptest.NewRequest("PATCH", "/x"+c18Noise, strings.NewReader(values.Encode()))
		req.Header.Set("Content-Type", "application/x-www-form-urlencoded")
		return req
	case "multipart":
		ct, buf := c18Multipart(values)
		req := httptest.NewRequest("POST", "/x"+c18Noise, buf)
		req.Header.Set("Content-Type", ct)
		return req
	default: // query
		return httptest.NewRequest("GET", "/x?"+values.Encode(), nil)
	}
}

func c18Values(v c18Val) url.Values {
	vs := url.Values{}
	vs.Set("id", fmt.Sprint(v.ID))
	vs.Set("name", v.Name)
	vs.Set("ok", fmt.Sprint(v.Ok))
	vs.Set("score", fmt.Sprint(v.Score))
	for _, t := range v.Tags {
		vs.Add("tags", t)
	}
	return vs
}

// c18Auto binds through one of the three entry points of automatic binding (which one depends only on the case):
// binding.Auto, Context.Bind, Context.AutoBind
func c18Auto(req *http.Request, obj any, k int) error {
	std := false
	for _, m := range rtMethods {
		std = std || m == req.Method
	}
	if k%3 == 0 || !std { // (a router has no route for a method name such as "post": those go to binding.Auto directly)
		return binding.Auto(req, obj)
	}
	// for JSON and XML bodies also the explicit entry points (they bind the body and call the validator like Auto does)
	// (only for requests with a body: for the other methods Auto binds the query string whatever the Content-Type)
	explicit := 0
	if req.Method == "POST" || req.Method == "PUT" || req.Method == "PATCH" {
		switch req.Header.Get("Content-Type") {
		case "application/json":
			explicit = 1
		case "application/xml":
			explicit = 2
		}
	}
	var err error
	ran := false
	r := rux.New()
	if k%5 == 2 { // the shipped request logger in front (its output is discarded, see main)
		r.Use(handlers.RequestLogger())
	}
	r.Any(req.URL.Path, func(c *rux.Context) {
		ran = true
		switch {
		case explicit == 1 && k%7 == 3:
			err = c.BindJSON(obj)
		case explicit == 1 && k%7 == 4:
			err = c.ShouldBind(obj, binding.JSON)
		case explicit == 2 && k%7 == 3:
			err = c.BindXML(obj)
		case explicit == 2 && k%7 == 4:
			err = c.ShouldBind(obj, binding.XML)
		case explicit != 0 && k%7 == 5:
			func() {
				defer func() {
					if e := recover(); e != nil {
						err = fmt.Errorf("MustBind: %v", e)
					}
				}()
				if explicit == 1 {
					c.MustBind(obj, binding.JSON)
				} else {
					c.MustBind(obj, binding.XML)
				}
			}()
		case k%3 == 1:
			err = c.Bind(obj)
		default:
			err = c.AutoBind(obj)
		}
	})
	r.ServeHTTP(httptest.NewRecorder(), req)
	if !ran {
		panic("c18: the binding handler was not reached")
	}
	return err
}

// two distinct struct types whose printed name (%T) is the same "main.Req": one without rules, one with rules
func c18BindPlainReq(req *http.Request, k int) error {
	type Req struct {
		Name string `json:"name" form:"name" query:"name" xml:"name"`
		Age  int    `json:"age" form:"age" query:"age" xml:"age"`
	}
	var v Req
	return c18Auto(req, &v, k)
}

func c18BindCheckedReq(req *http.Request, k int) error {
	type Req struct {
		Name string `json:"name" form:"name" query:"name" xml:"name" validate:"required|minLen:3"`
		Age  int    `json:"age" form:"age" query:"age" xml:"age" validate:"min:1"`
	}
	var v Req
	return c18Auto(req, &v, k)
}

func c18Exec(c Sx) (out Sx) {
	head := c.Head()
	defer func() {
		if e := recover(); e != nil {
			if s, ok := e.(string); ok && strings.HasPrefix(s, "c18:") {
				panic(e)
			}
			out = L(A(head), A("panic"))
		}
	}()
	binding.ResetValidator()
	switch head {
	case "src":
		m, ct := c.List[1].Str(), c.List[2].Str()
		// one request that carries a different name in every source the content type could select
		// (the body is the one the MEDIA TYPE asks for: the text before the first ';')
		var body *bytes.Buffer
		mt := ct
		if k := strings.IndexByte(ct, ';'); k >= 0 {
			mt = ct[:k]
		}
		mt = strings.TrimSpace(mt)
		switch {
		case strings.HasSuffix(mt, "/x-www-form-urlencoded"):
			body = bytes.NewBufferString("name=form")
		case strings.HasSuffix(mt, "/form-data"):
			var ctm string
			ctm, body = c18Multipart(url.Values{"name": {"multipart"}})
			ct = ctm
		case strings.HasSuffix(mt, "/json"):
			body = bytes.NewBufferString(`{"name":"json"}`)
		case strings.HasSuffix(mt, "/xml"):
			body = bytes.NewBufferString(`<c18User><name>xml</name></c18User>`)
		default:
			// an unknown type: the body is what a wrongly chosen binder would accept
			if strings.Contains(mt, "xml") {
				body = bytes.NewBufferString(`<c18User><name>xml</name></c18User>`)
			} else {
				body = bytes.NewBufferString(`{"name":"json"}`)
			}
		}
		req := httptest.NewRequest(m, "/x?name=query&extra=q", body)
		if ct != "" {
			req.Header.Set("Content-Type", ct)
		}
		var u c18User
		if err := c18Auto(req, &u, len(c.String())); err != nil {
			return L(A("src"), A("err"))
		}
		if u.Name == "" {
			return L(A("src"), A("empty"))
		}
		if u.Name != "query" && u.Extra != "" {
			return L(A("src"), A(u.Name+"+query-leak"))
		}
		return L(A("src"), A(u.Name))
	case "rt":
		r := NewRng(uint64(c.List[2].Int()))
		v := c18MakeVal(r)
		fm := c.List[1].Sym()
		req := c18Req(fm, v, c18Values(v))
		var got c18Val
		if err := c18Auto(req, &got, c.List[2].Int()); err != nil { // (the entry point varies with the case's seed)
			return L(A("rt"), A("err"))
		}
		got.XMLName, v.XMLName = xml.Name{}, xml.Name{}
		if len(got.Tags) == 0 && len(v.Tags) == 0 {
			got.Tags, v.Tags = nil, nil
		}
		if reflect.DeepEqual(got, v) {
			return L(A("rt"), A("ok"))
		}
		return L(A("rt"), A("diff"))
	case "mal":
		fm, body := c.List[1].Sym(), c.List[2].Bytes()
		var req *http.Request
		switch fm {
		case "json":
			req = httptest.NewRequest("POST", "/x", bytes.NewReader(body))
			req.Header.Set("Content-Type", "application/json")
		case "xml":
			req = httptest.NewRequest("POST", "/x", bytes.NewReader(body))
			req.Header.Set("Content-Type", "text/xml")
		case "form":
			req = httptest.NewRequest("POST", "/x", bytes.NewReader(body))
			req.Header.Set("Content-Type", "application/x-www-form-urlencoded")
		default:
			req = httptest.NewRequest("GET", "/x", nil)
			req.URL.RawQuery = string(body)
		}
		var got c18Val
		if err := c18Auto(req, &got, len(c.String())); err != nil {
			return L(A("mal"), A("err"))
		}
		return L(A("mal"), A("ok"))
	case "val":
		enabled, valid, fm := c.List[1].Bool(), c.List[2].Bool(), c.List[3].Sym()
		v := c18Checked{Name: "bobby", Age: 30}
		if !valid {
			v = c18Checked{Name: "", Age: 0}
		}
		defer binding.ResetValidator()
		if len(c.List) > 4 {
			for _, t := range c.List[4].Atom[1:] {
				if t == 'd' {
					binding.DisableValidator()
				} else {
					binding.ResetValidator()
				}
			}
		} else if !enabled {
			binding.DisableValidator()
		}
		vs := url.Values{}
		if valid {
			vs.Set("name", v.Name)
			vs.Set("age", fmt.Sprint(v.Age))
		}
		var req *http.Request
		switch fm {
		case "json":
			b, _ := json.Marshal(v)
			req = httptest.NewRequest("POST", "/x", bytes.NewReader(b))
			req.Header.Set("Content-Type", "application/json")
		case "xml":
			b, _ := xml.Marshal(v)
			req = httptest.NewRequest("POST", "/x", bytes.NewReader(b))
			req.Header.Set("Content-Type", "application/xml")
		case "form":
			req = httptest.NewRequest("POST", "/x", strings.NewReader(vs.Encode()))
			req.Header.Set("Content-Type", "application/x-www-form-urlencoded")
		case "multipart":
			ct, buf := c18Multipart(vs)
			req = httptest.NewRequest("POST", "/x", buf)
			req.Header.Set("Content-Type", ct)
		default:
			req = httptest.NewRequest("GET", "/x?"+vs.Encode(), nil)
		}
		if len(c.List) > 5 && c.List[5].Atom == "nested" {
			// the rules sit on a nested struct only (the outer type has no rule tag of its own); sent as JSON
			body, _ := json.Marshal(map[string]any{"title": "t", "inner": map[string]any{"name": v.Name, "age": v.Age}, "list": []map[string]any{{"name": "okname", "age": 3}}})
			jr := httptest.NewRequest("POST", "/x", bytes.NewReader(body))
			jr.Header.Set("Content-Type", "application/json")
			var got c18Nested
			if err := c18Auto(jr, &got, len(c.String())); err != nil {
				return L(A("val"), A("err"))
			}
			return L(A("val"), A("ok"))
		}
		if len(c.List) > 5 && (c.List[5].Atom == "custom" || c.List[5].Atom == "config") {
			// the rules do not come from struct tags: a validator of the application's own installed in binding.Validator
			// (custom), or the default validator with rules declared in code by the type's ConfigValidation hook (config)
			if fm == "xml" { // these types have no XMLName: use the query form
				req = httptest.NewRequest("GET", "/x?"+vs.Encode(), nil)
			}
			var err error
			if c.List[5].Atom == "custom" {
				if enabled {
					binding.Validator = c18OwnValidator{}
				}
				var got c18Untagged
				err = c18Auto(req, &got, len(c.String()))
			} else {
				var got c18Configured
				err = c18Auto(req, &got, len(c.String()))
			}
			if err != nil {
				return L(A("val"), A("err"))
			}
			return L(A("val"), A("ok"))
		}
		if len(c.List) > 5 && c.List[5].Atom == "samename" {
			// a rule-less type of the same printed name is bound first; the struct with rules is still validated
			if fm == "json" {
				plain := httptest.NewRequest("POST", "/x", strings.NewReader(`{"name":"","age":0}`))
				plain.Header.Set("Content-Type", "application/json")
				_ = c18BindPlainReq(plain, len(c.String()))
			} else {
				_ = c18BindPlainReq(httptest.NewRequest("GET", "/x?name=&age=0", nil), len(c.String()))
			}
			if fm == "xml" { // the local types have no XMLName: use the query form for the checked bind
				req = httptest.NewRequest("GET", "/x?"+vs.Encode(), nil)
			}
			if err := c18BindCheckedReq(req, len(c.String())); err != nil {
				return L(A("val"), A("err"))
			}
			return L(A("val"), A("ok"))
		}
		var got c18Checked
		if err := c18Auto(req, &got, len(c.String())); err != nil {
			return L(A("val"), A("err"))
		}
		return L(A("val"), A("ok"))
	}
	panic("c18: bad case")
}

func c18Classify(c, obs Sx) []string {
	labs := []string{c.Head(), c.Head() + "=" + obs.List[1].Atom}
	if c.Head() == "src" {
		switch c.List[1].Str() {
		case "POST", "PUT", "PATCH":
			labs = append(labs, "nt:body-method")
		}
	}
	if c.Head() == "rt" {
		labs = append(labs, "nt:roundtrip")
	}
	return labs
}

func init() {
	props["C18"] = &Prop{Gen: c18Gen, Exec: c18Exec, Classify: c18Classify}
}
