package main

import (
	"encoding/xml"
	"errors"
	"fmt"
	"net/http"
	"net/http/httptest"
	"os"
	"runtime"
	"strconv"
	"strings"
	"sync"
	"sync/atomic"

	"github.com/gookit/rux"
)

type stressDoc struct {
	XMLName xml.Name `xml:"doc"`
	ID      string   `xml:"id"`
	Pad     string   `xml:"pad"`
}

// ruxh stress -seed N -iters K : 8 goroutines fire mixed static / dynamic / 404 / 405 / HEAD requests at several router
// shapes; every response must be the one the request gets alone. Built with -race by bin/check: the race detector's
// reports (GORACE log_path) are inspected afterwards.
func stressMain(args []string) {
	seed, iters := uint64(1), 3000
	for i := 0; i+1 < len(args); i += 2 {
		switch args[i] {
		case "-seed":
			v, _ := strconv.Atoi(args[i+1])
			seed = uint64(v)
		case "-iters":
			iters, _ = strconv.Atoi(args[i+1])
		}
	}
	wrong := int64(0)
	total := int64(0)
	var firstWrong atomic.Value
	for shape := 0; shape < 6; shape++ {
		var opts []func(*rux.Router)
		if shape%2 == 1 {
			opts = append(opts, rux.CachingWithNum(uint16(shape)))
		}
		opts = append(opts, rux.HandleMethodNotAllowed)
		r := rux.New(opts...)
		// global middleware in several Use calls (spare capacity), each tags the response
		for k := 0; k < shape%4; k++ {
			k := k
			r.Use(func(c *rux.Context) { c.Set(fmt.Sprint("g", k), k); c.Next() })
		}
		type probe struct{ m, p, want string }
		var probes []probe
		for k := 0; k < 4; k++ {
			k := k
			r.GET(fmt.Sprintf("/s%d", k), func(c *rux.Context) { c.Text(200, fmt.Sprintf("static%d", k)) })
			r.GET(fmt.Sprintf("/d%d/{id}", k), func(c *rux.Context) { c.Text(200, fmt.Sprintf("dyn%d:%s", k, c.Param("id"))) },
				func(c *rux.Context) { c.Next() })
			probes = append(probes, probe{"GET", fmt.Sprintf("/s%d", k), fmt.Sprintf("200:static%d", k)})
			for id := 0; id < 3; id++ {
				probes = append(probes, probe{"GET", fmt.Sprintf("/d%d/%d", k, id), fmt.Sprintf("200:dyn%d:%d", k, id)})
			}
		}
		// a handler that keeps a Copy of its context for work that outlives the request (the documented use of Copy)
		var bg sync.WaitGroup
		r.GET("/copy/{id}", func(c *rux.Context) {
			want := c.Param("id")
			c.AddError(errors.New("err-of-" + want)) // (no OnError hook: recording an error changes nothing about the response)
			c.Set("own", want)
			cp := c.Copy()
			bg.Add(1)
			go func() {
				defer bg.Done()
				runtime.Gosched()
				_ = cp.Handler()
				_, _ = cp.Get("g0")
				bad := ""
				if cp.Param("id") != want {
					bad = fmt.Sprintf("id=%q", cp.Param("id"))
				} else if e := cp.FirstError(); e == nil || e.Error() != "err-of-"+want {
					bad = fmt.Sprintf("first error=%v", e)
				} else if v, _ := cp.Get("own"); v != want {
					bad = fmt.Sprintf("own=%v", v)
				}
				if bad != "" {
					if atomic.AddInt64(&wrong, 1) == 1 {
						firstWrong.Store(fmt.Sprintf("shape=%d copied context of /copy/%s reports %s", shape, want, bad))
					}
				}
			}()
			c.Text(200, "copy:"+want)
		})
		for id := 0; id < 3; id++ {
			probes = append(probes, probe{"GET", fmt.Sprintf("/copy/%d", id), fmt.Sprintf("200:copy:%d", id)})
		}
		r.Group("/g", func() {
			r.GET("/in/{x}", func(c *rux.Context) { c.Text(200, "group:"+c.Param("x")) })
		}, func(c *rux.Context) { c.Next() })
		probes = append(probes, probe{"GET", "/g/in/7", "200:group:7"}, probe{"GET", "/nope", "404:404 page not found\n"},
			probe{"POST", "/s1", "405[GET]:Method not allowed\n"}, probe{"HEAD", "/d2/1", "200:dyn2:1"},
			// several 405 requests for the same paths at the same time: the allowed-method lists are per request
			probe{"POST", "/s0", "405[GET]:Method not allowed\n"}, probe{"DELETE", "/m/7", "405[GET, PATCH, POST, PUT]:Method not allowed\n"},
			probe{"OPTIONS", "/m/8", "200[GET, PATCH, POST, PUT]:"}, probe{"TRACE", "/m/7", "405[GET, PATCH, POST, PUT]:Method not allowed\n"})
		r.Add("/m/{id}", func(c *rux.Context) { c.Text(200, "multi") }, "GET", "POST", "PUT", "PATCH")
		// encoded responses (the renderers may pool their buffers): every request must get its own document
		r.GET("/j/{id}", func(c *rux.Context) {
			c.JSON(200, map[string]string{"id": c.Param("id"), "pad": strings.Repeat(c.Param("id"), 200)})
		})
		r.GET("/jp/{id}", func(c *rux.Context) {
			c.JSONP(200, "cb", []string{c.Param("id"), strings.Repeat("p"+c.Param("id"), 150)})
		})
		r.GET("/xm/{id}", func(c *rux.Context) {
			c.XML(200, stressDoc{ID: c.Param("id"), Pad: strings.Repeat(c.Param("id"), 180)})
		})
		// two overlapping routes of one bucket, registered in non-alphabetical order: the first one keeps winning
		// while the table is being listed
		r.GET("/users/{name}", func(c *rux.Context) { c.Text(200, "name:"+c.Param("name")) })
		r.GET("/users/{id:\\d+}", func(c *rux.Context) { c.Text(200, "id:"+c.Param("id")) })
		r.GET("/zeta/{b}/x", func(c *rux.Context) { c.Text(200, "zeta-b:"+c.Param("b")) })
		r.GET("/zeta/{a:[a-z]+}/x", func(c *rux.Context) { c.Text(200, "zeta-a:"+c.Param("a")) })
		probes = append(probes, probe{"GET", "/users/42", "200:name:42"}, probe{"GET", "/users/bob", "200:name:bob"}, probe{"GET", "/zeta/q/x", "200:zeta-b:q"})
		for _, id := range []string{"1", "22", "abc"} {
			for _, pre := range []string{"/j/", "/jp/", "/xm/"} {
				// what the request gets when it is alone
				w := httptest.NewRecorder()
				r.ServeHTTP(w, httptest.NewRequest("GET", pre+id, nil))
				probes = append(probes, probe{"GET", pre + id, fmt.Sprintf("%d:%s", w.Code, w.Body.String())})
			}
		}
		// hooks, custom fallback chains and handlers that panic / abort / record errors: every shape in three has them
		if shape%3 == 2 {
			r.OnPanic = func(c *rux.Context) { c.SetStatus(500); c.WriteString("recovered") }
			r.OnError = func(c *rux.Context) { c.SetHeader("X-Errors", fmt.Sprint(len(c.Errors))) }
			r.NotFound(func(c *rux.Context) { c.Next() }, func(c *rux.Context) { c.Text(404, "custom-404:"+c.Req.URL.Path) })
			r.NotAllowed(func(c *rux.Context) { c.Text(405, "custom-405") })
		}
		r.GET("/pn/{id}", func(c *rux.Context) {
			if shape%3 == 2 {
				panic("boom-" + c.Param("id"))
			}
			c.Text(200, "no-panic:"+c.Param("id"))
		})
		r.GET("/ab/{id}", func(c *rux.Context) { c.Text(200, "not-reached") }, func(c *rux.Context) { c.AbortWithStatus(403, "denied-"+c.Param("id")) })
		r.GET("/er/{id}", func(c *rux.Context) {
			c.AddError(errors.New(c.Param("id")))
			c.Text(200, "err:"+c.FirstError().Error())
		})
		for _, id := range []string{"1", "2"} {
			probes = append(probes, probe{"GET", "/pn/" + id, ""}, probe{"GET", "/ab/" + id, ""}, probe{"GET", "/er/" + id, ""})
		}
		// what every request gets when it is alone (the fixed expectations above must agree with it)
		for k, p := range probes {
			w := httptest.NewRecorder()
			r.ServeHTTP(w, httptest.NewRequest(p.m, p.p, nil))
			solo := fmt.Sprintf("%d:%s", w.Code, w.Body.String())
			if al := w.Header().Get("Allow"); al != "" {
				solo = fmt.Sprintf("%d[%s]:%s", w.Code, al, w.Body.String())
			}
			if p.want != "" && p.want != solo && shape%3 != 2 {
				atomic.AddInt64(&wrong, 1)
				firstWrong.Store(fmt.Sprintf("shape=%d %s %s alone got=%q want=%q", shape, p.m, p.p, solo, p.want))
			}
			probes[k].want = solo
		}
		// the read-only inspection API is used while requests are served (a debug endpoint, a metrics scraper)
		stop := make(chan struct{})
		var insp sync.WaitGroup
		insp.Add(1)
		go func() {
			defer insp.Done()
			for {
				select {
				case <-stop:
					return
				default:
				}
				_ = r.String()
				_ = r.Routes()
				r.IterateRoutes(func(*rux.Route) {})
				_ = r.NamedRoutes()
				runtime.Gosched()
			}
		}()
		var wg sync.WaitGroup
		for g := 0; g < 8; g++ {
			g := g
			wg.Add(1)
			go func() {
				defer wg.Done()
				rng := NewRng(seed*1000 + uint64(shape*10+g))
				for n := 0; n < iters; n++ {
					p := probes[rng.Intn(len(probes))]
					w := httptest.NewRecorder()
					req := httptest.NewRequest(p.m, p.p, nil)
					func() {
						defer func() { _ = recover() }()
						r.ServeHTTP(w, req)
					}()
					got := fmt.Sprintf("%d:%s", w.Code, w.Body.String())
					if al := w.Header().Get("Allow"); al != "" {
						got = fmt.Sprintf("%d[%s]:%s", w.Code, al, w.Body.String())
					}
					atomic.AddInt64(&total, 1)
					if got != p.want {
						if atomic.AddInt64(&wrong, 1) == 1 {
							firstWrong.Store(fmt.Sprintf("shape=%d %s %s got=%q want=%q", shape, p.m, p.p, got, p.want))
						}
					}
				}
			}()
		}
		wg.Wait()
		close(stop)
		insp.Wait()
		bg.Wait()
	}
	fw, _ := firstWrong.Load().(string)
	fmt.Printf("stress total=%d wrong=%d first=%s\n", total, wrong, fw)
	_ = http.StatusOK
	if wrong > 0 {
		os.Exit(3)
	}
}
