package main

import (
	"fmt"
	"net/http"
	"net/http/httptest"
	"net/url"
	"sort"
	"strconv"
	"strings"

	"github.com/gookit/rux"
)

// C15: a URL built for a named route is routed back to it.
// (build (def ...) i style ((k v) ...) ((k v) ...))   def = (('M ...) 'path nilh) as in rt; style: m | kv | b
//     obs: ((built 'path (q (k v) ...)) (match <res>) (srv who <params>)) | (panic)
// (names (op ...) 'name)        op: (addnamed 'n 'path) | (newnamed 'n 'path) | (namedto 'n 'path) | (namedto-attached 'n 'path) | (rename k 'n)
//     obs: (route 'path) | (none)

var c15Vals = map[string][]string{}

func c15Gen(r *Rng, tier string, i int) Sx {
	if i%6 == 5 {
		names := []string{"a", "b", "home"}
		var ops []Sx
		for k := r.Range(1, 6); k > 0; k-- {
			if len(ops) > 0 && r.Chance(1, 4) {
				ops = append(ops, L(A("rename"), I(r.Intn(4)), S(r.Pick([]string{"a", "b", "home", "legacy", " "}))))
				continue
			}
			kind := r.Pick([]string{"addnamed", "newnamed", "namedto", "namedto-attached"})
			ops = append(ops, L(A(kind), S(r.Pick(names)), S(fmt.Sprintf("/p%d/%s", k, r.Pick([]string{"x", "{id}", "y/"})))))
		}
		return L(A("names"), LS(ops), S(r.Pick(names)))
	}
	g := newRtG(r)
	// tables of named routes without optional parts
	var defs []Sx
	var pats []*rtPat
	n := r.Range(1, 5)
	for k := 0; k < n; k++ {
		var pat *rtPat
		for {
			pat = g.pattern()
			dup := false
			seenN := map[string]bool{}
			for _, seg := range pat.req {
				for _, q := range seg {
					if q.v != nil {
						if seenN[q.name] {
							dup = true
						}
						seenN[q.name] = true
					}
				}
			}
			if len(pat.opt) == 0 && !dup {
				break
			}
		}
		ms := g.methods()
		if r.Chance(1, 4) { // static
			pat = &rtPat{req: [][]rtPart{{{lit: g.pool[r.Intn(len(g.pool))]}}, {{lit: "s"}}}}
		}
		defs = append(defs, L(SL(ms), S(pat.text()), B(false)))
		pats = append(pats, pat)
	}
	idx := r.Intn(n)
	pat := pats[idx]
	var vals []Sx
	special := []string{"a b", "é", "100%", "a%20b", "rate%25", "c%2b%2B", "a?b", "x#y", "q&r", "a;b", "..", "bob ", " x", "{b}", "a/", "%zz", "go[1.22]", "matrix[0", "[draft] x", "a]b", "[", "[]"}
	for _, seg := range pat.req {
		for _, p := range seg {
			if p.v == nil {
				continue
			}
			v := p.v.good[r.Intn(len(p.v.good))]
			if p.v.re == "" || p.v.re == ".+" || p.v.name == "all" || p.v.name == "any" {
				if r.Chance(1, 3) {
					v = special[r.Intn(len(special))]
				}
			}
			if r.Chance(1, 12) && len(p.v.bad) > 0 {
				v = p.v.bad[r.Intn(len(p.v.bad))]
			}
			vals = append(vals, L(S("{"+p.name+"}"), S(v)))
		}
	}
	var extra []Sx
	usedK := map[string]bool{}
	for k := r.Intn(3); k > 0; k-- {
		// also keys that are a prefix / a suffix / the bare name of one of the route's variables: still query arguments
		key := r.Pick([]string{"page", "q", "sort", "v", "a", "al", "an", "nu", "v1", "all", "id", "1"})
		if usedK[key] {
			continue
		}
		usedK[key] = true
		extra = append(extra, L(S(key), S(r.Pick([]string{"1", "a b", "x&y", "é"}))))
	}
	style := r.Pick([]string{"m", "kv", "b"})
	if r.Chance(1, 4) { // named routes registered inside a group: the built URL carries the group prefix
		return L(A("build"), LS(defs), I(idx), A(style), LS(vals), LS(extra), S(r.Pick([]string{"/api/v1", "/g", "adm/"})))
	}
	return L(A("build"), LS(defs), I(idx), A(style), LS(vals), LS(extra))
}

func c15Exec(c Sx) (out Sx) {
	defer func() {
		if e := recover(); e != nil {
			if s, ok := e.(string); ok && strings.HasPrefix(s, "c15:") {
				panic(e)
			}
			out = L(A("panic"))
		}
	}()
	switch c.Head() {
	case "names":
		r := rux.New()
		h := func(c *rux.Context) {}
		var created []*rux.Route
		for _, op := range c.List[1].Lst() {
			if op.Head() == "rename" { // an existing route gets a further name
				if len(created) == 0 {
					panic("c15: rename before any route")
				}
				created[op.List[1].Int()%len(created)].NamedTo(op.List[2].Str(), r)
				continue
			}
			n, p := op.List[1].Str(), op.List[2].Str()
			switch op.Head() {
			case "addnamed":
				created = append(created, r.AddNamed(n, p, h))
			case "newnamed":
				created = append(created, r.AddRoute(rux.NewNamedRoute(n, p, h)))
			case "namedto":
				rt := rux.NewRoute(p, h)
				rt.NamedTo(n, r)
				created = append(created, rt)
			case "namedto-attached":
				rt := r.Add(p, h)
				rt.NamedTo(n, r)
				created = append(created, rt)
			default:
				panic("c15: bad op")
			}
		}
		rt := r.GetRoute(c.List[2].Str())
		if rt == nil {
			return L(A("none"))
		}
		return L(A("route"), S(rt.Path()))
	case "build":
		fake := L(A("rt"), L(), c.List[1], L())
		if len(c.List) > 6 { // the table is registered inside Group(prefix)
			fake = L(A("rt"), L(L(A("group"), c.List[6])), c.List[1], L())
		}
		rr := rtBuild(fake, false)
		idx := c.List[2].Int()
		name := fmt.Sprintf("r%d", idx)
		if rr.regs[idx].Atom != "ok" {
			return L(A("regpanic"))
		}
		vals, extra := c.List[4].Lst(), c.List[5].Lst()
		var u = func() string { return "" }
		_ = u
		m := rux.M{}
		var kv []any
		seen := map[string]bool{}
		for _, p := range append(append([]Sx{}, vals...), extra...) {
			k := p.List[0].Str()
			if seen[k] {
				panic("c15: duplicate argument key")
			}
			seen[k] = true
			// values are not only strings: a value that is the canonical spelling of an integer is passed as an int
			var val any = p.List[1].Str()
			if n, err := strconv.Atoi(p.List[1].Str()); err == nil && strconv.Itoa(n) == p.List[1].Str() {
				if n%2 == 0 {
					val = n
				} else {
					val = int64(n)
				}
			}
			m[k] = val
			kv = append(kv, k, val)
		}
		var built interface {
			String() string
		}
		var path, rawq string
		switch c.List[3].Sym() {
		case "m":
			uu := rr.r.BuildURL(name, m)
			path, rawq, built = uu.Path, uu.RawQuery, uu
		case "kv":
			if len(kv) == 0 {
				uu := rr.r.BuildURL(name)
				path, rawq, built = uu.Path, uu.RawQuery, uu
			} else {
				uu := rr.r.BuildURL(name, kv...)
				path, rawq, built = uu.Path, uu.RawQuery, uu
			}
		case "b":
			b := rux.NewBuildRequestURL()
			pm := rux.M{}
			for _, p := range vals {
				pm[p.List[0].Str()] = p.List[1].Str()
			}
			b.Params(pm)
			// query arguments of the builder style: url.Values, every key with two values (both must arrive, in order)
			uv := url.Values{}
			for _, p := range extra {
				uv[p.List[0].Str()] = []string{p.List[1].Str(), p.List[1].Str() + "~2"}
			}
			if len(uv) > 0 {
				b.Queries(uv)
			}
			// the same builder has been used for the other routes of the table before: a builder may be reused
			for j := range rr.regs {
				if j != idx && rr.regs[j].Atom == "ok" {
					func() {
						defer func() { _ = recover() }()
						if o := rr.r.GetRoute(fmt.Sprintf("r%d", j)); o != nil {
							o.ToURL(b)
						}
					}()
				}
			}
			uu := rr.r.GetRoute(name).ToURL(b)
			path, rawq, built = uu.Path, uu.RawQuery, uu
		}
		// building the same URL again gives the same URL (nothing is remembered on the route or in the router)
		if c.List[3].Sym() != "b" {
			var again interface{ String() string }
			if c.List[3].Sym() == "kv" && len(kv) > 0 {
				again = rr.r.BuildURL(name, kv...)
			} else {
				again = rr.r.BuildURL(name, m)
			}
			if again.String() != built.String() {
				return L(L(A("built"), A("second-build-differs"), S(built.String()), S(again.String())), L(A("match"), A("none")), L(A("srv"), A("skipped")))
			}
		}
		// decoded query pairs
		var q []Sx
		if rawq != "" {
			req0 := httptest.NewRequest("GET", "/?"+rawq, nil)
			vs := req0.URL.Query()
			var keys []string
			for k := range vs {
				keys = append(keys, k)
			}
			sort.Strings(keys)
			for _, k := range keys {
				for _, v := range vs[k] {
					q = append(q, L(S(k), S(v)))
				}
			}
		}
		method := "GET"
		ms := c.List[1].List[idx].List[0].Strs()
		if len(ms) > 0 {
			method = strings.ToUpper(strings.TrimSpace(ms[0]))
		}
		res := rr.match(method, path)
		// through a real request line: parse the URL string back
		srv := L(A("srv"), A("skipped"))
		if req, err := http.NewRequest(method, "http://h"+built.String(), nil); err == nil {
			rtCur = &rtServed{who: "none", params: A("nil")}
			w := newRecWriter(nil)
			rr.r.ServeHTTP(w, req)
			srv = L(A("srv"), A(rtCur.who), rtCur.params)
		}
		return L(L(A("built"), S(path), LS(append([]Sx{A("q")}, q...))), L(A("match"), res), srv)
	}
	panic("c15: bad case")
}

func c15Classify(c, obs Sx) []string {
	labs := []string{c.Head()}
	if c.Head() == "build" {
		labs = append(labs, "style="+c.List[3].Atom)
		if len(c.List[4].Lst()) > 0 {
			labs = append(labs, "nt:dynamic-route")
		}
		if strings.Contains(obs.String(), "(found ") {
			labs = append(labs, "routed-back")
		}
	}
	return labs
}

func init() {
	props["C15"] = &Prop{Gen: c15Gen, Exec: c15Exec, Classify: c15Classify}
}
