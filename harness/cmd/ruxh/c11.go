package main

import (
	"fmt"
	"net/http"
	"net/http/httptest"
	"net/url"
	"strings"

	"github.com/gookit/rux"
)

// C11: registration and lookup normalise identically.
// case: (c11 strict enc (prefix ...) reg decoded escaped [dyn] [cache])
//   dyn  : registered as reg + "/{id}", requested as the path + "/7"
//   tail : (with dyn) requested as the path + "/7/"
//   icpt : the router is built with InterceptAll(decoded) and asked for "/zz" instead: every request is answered as the intercept
//          path would be (a blank one switches the option off)
//   cache: the router has its route cache switched on, the canonical spelling is requested first (so that a dynamic route is
//          already cached when the spelling under test arrives) and every lookup is made twice; all of them must agree
// obs : ((path P) (match t|f) (serve t|f)) | (panic)

var c11Alpha = []string{"/", "/", "/", " ", "\t", ".", "a", "b", "%2F", "%20", " ", "a/b", "//"}

func c11Str(r *Rng, maxLen int, escapes bool) string {
	n := r.Intn(maxLen + 1)
	var sb strings.Builder
	for i := 0; i < n; i++ {
		t := c11Alpha[r.Intn(len(c11Alpha))]
		if !escapes && strings.HasPrefix(t, "%") {
			t = "a"
		}
		sb.WriteString(t)
	}
	return sb.String()
}

func c11Mk(strict, enc bool, prefixes []string, reg, raw string) Sx {
	dec, err := url.PathUnescape(raw)
	if err != nil {
		dec = raw
	}
	u := &url.URL{Path: dec, RawPath: raw}
	return L(A("c11"), B(strict), B(enc), SL(prefixes), S(reg), S(dec), S(u.EscapedPath()))
}

func c11Gen(r *Rng, tier string, i int) Sx {
	strict, enc := r.Bool(), r.Chance(1, 3)
	var prefixes []string
	for d := r.Intn(4); d > 0 && r.Chance(2, 3); d-- {
		prefixes = append(prefixes, c11Str(r, 4, false))
	}
	// a registered path may hold a literal '%xx' text: it is then reached by the request whose DECODED path spells it
	// ("/a%252Fb"), not by the request whose escaped text happens to look like it ("/a%2Fb" is "/a/b")
	reg := c11Str(r, 7, r.Chance(1, 4))
	var raw string
	switch r.Intn(10) {
	case 0, 1, 2, 3, 4: // a spelling of the registered path: mostly-valid stream
		full := strings.Join(prefixes, "/") + "/" + reg
		raw = c11Mutate(r, full)
	case 5, 6:
		raw = c11Mutate(r, reg)
	default:
		raw = c11Str(r, 8, true)
	}
	if r.Chance(1, 12) { // long paths (buffer sizes 64, 128, 256, 1024)
		pad := strings.Repeat(r.Pick([]string{"a", "/", "a/", " "}), r.Pick2([]int{63, 64, 127, 128, 255, 256, 1024}))
		if r.Bool() {
			reg, raw = reg+pad, raw+pad
		} else {
			reg, raw = pad+reg, pad+raw
		}
	}
	c := c11Mk(strict, enc, prefixes, reg, raw)
	if r.Chance(1, 5) && !strings.ContainsAny(reg+raw+strings.Join(prefixes, ""), "{}[]") {
		// the same for a DYNAMIC route: registered as reg + "/{id}", requested as the path + "/7"
		c.List = append(c.List, A("dyn"))
		if r.Chance(1, 3) { // ... and as the path + "/7/": the trailing slash of a dynamic request
			c.List = append(c.List, A("tail"))
		}
	}
	if r.Chance(1, 4) {
		c.List = append(c.List, A("cache"))
	}
	if r.Chance(1, 8) {
		c.List = append(c.List, A("icpt"))
	}
	return c
}

// c11Mutate returns another spelling (or a near miss) of p
func c11Mutate(r *Rng, p string) string {
	for k := r.Intn(4); k > 0; k-- {
		switch r.Intn(8) {
		case 0:
			p = " " + p
		case 1:
			p = p + " "
		case 2:
			p = "/" + p
		case 3:
			p = p + "/"
		case 4:
			p = strings.TrimLeft(p, "/")
		case 5:
			p = strings.TrimRight(p, "/")
		case 6:
			p = strings.Replace(p, "//", "/", 1)
		case 7:
			if len(p) > 0 {
				j := r.Intn(len(p))
				p = p[:j] + c11Alpha[r.Intn(len(c11Alpha))] + p[j:]
			}
		}
	}
	return p
}

func c11Exec(c Sx) (obs Sx) {
	xs := c.Lst()
	strict, enc := xs[1].Bool(), xs[2].Bool()
	prefixes := xs[3].Strs()
	reg, dec, esc := xs[4].Str(), xs[5].Str(), xs[6].Str()
	if strings.ContainsAny(reg+strings.Join(prefixes, ""), "{}[]") {
		panic("c11: dynamic pattern characters are outside this property's cases")
	}
	dyn, cache, tail, icpt := false, false, false, false
	for _, t := range xs[7:] {
		switch t.Atom {
		case "dyn":
			dyn = true
		case "cache":
			cache = true
		case "tail":
			tail = true
		case "icpt":
			icpt = true
		default:
			panic("c11: unknown flavour " + t.String())
		}
	}
	if dyn {
		reg, dec, esc = reg+"/{id}", dec+"/7", esc+"/7"
		if tail {
			dec, esc = dec+"/", esc+"/"
		}
	}
	u := &url.URL{Path: dec, RawPath: esc}
	if u.EscapedPath() != esc {
		// keep the case self-consistent: EscapedPath must be the string the model is told
		u.RawPath = ""
		if u.EscapedPath() != esc {
			panic("c11: inconsistent decoded/escaped pair")
		}
	}
	defer func() {
		if e := recover(); e != nil {
			obs = L(A("panic"))
		}
	}()
	var opts []func(*rux.Router)
	if strict {
		opts = append(opts, rux.StrictLastSlash)
	}
	if enc {
		opts = append(opts, rux.UseEncodedPath)
	}
	if cache {
		if len(c.String())%3 == 0 {
			opts = append(opts, rux.CachingWithNum(2))
		} else {
			opts = append(opts, rux.EnableCaching)
		}
	}
	if icpt {
		opts = append(opts, rux.InterceptAll(dec))
		dec, esc = "/zz", "/zz"
		u = &url.URL{Path: dec}
	}
	r := rux.New(opts...)
	var rt *rux.Route
	var nest func(i int)
	nest = func(i int) {
		if i == len(prefixes) {
			h := func(c *rux.Context) { c.SetStatus(200) }
			switch len(c.String()) % 4 { // the ways of registering a route all normalise alike
			case 0:
				rt = r.GET(reg, h)
			case 1:
				rt = r.AddNamed("n", reg, h, "GET", "POST")
			case 2:
				rt = r.AddRoute(rux.NewNamedRoute("n", reg, h, "GET"))
			default:
				rt = rux.NewRoute(reg, h, "GET")
				rt.AttachTo(r)
			}
			return
		}
		r.Group(prefixes[i], func() { nest(i + 1) })
	}
	nest(0)
	if cache {
		// the canonical spelling of an instance of the route first: a dynamic route is then in the cache under its normal form
		r.Match("GET", strings.Replace(rt.Path(), "{id}", "7", 1))
	}
	// a cached match is a copy of the route: it is the registered route when it carries its path, name and handler
	same := func(g *rux.Route, ps rux.Params) bool {
		if g == nil {
			return false
		}
		if g != rt && !(cache && dyn && g.Path() == rt.Path() && g.Name() == rt.Name() && g.HandlerName() == rt.HandlerName()) {
			return false
		}
		return !dyn || (len(ps) == 1 && ps["id"] == "7")
	}
	g1, ps1, _ := r.Match("GET", dec)
	got := same(g1, ps1)
	// a HEAD lookup of a GET-only route goes through the same normalisation (HEAD falls back to GET)
	g2, ps2, _ := r.Match("HEAD", dec)
	gotHead := same(g2, ps2)
	if (g1 != nil) != got || (g2 != nil) != gotHead {
		// the only route of the router was found, but as something else than itself with id = 7
		return L(L(A("path"), S(rt.Path())), L(A("match"), A("another-route-or-params")), L(A("serve"), A("f")))
	}
	// RequestURI is what the client sent (here: absolute-form, with a query); the router must go by URL, not by RequestURI
	req := &http.Request{Method: "GET", URL: u, Header: http.Header{}, Proto: "HTTP/1.1", ProtoMajor: 1, ProtoMinor: 1,
		RequestURI: "http://h.example/other/" + esc + "?x=1"}
	w := httptest.NewRecorder()
	r.ServeHTTP(w, req)
	if cache {
		g3, ps3, _ := r.Match("GET", dec)
		g4, ps4, _ := r.Match("HEAD", dec)
		w2 := httptest.NewRecorder()
		r.ServeHTTP(w2, req)
		if same(g3, ps3) != got || (g3 != nil) != got || same(g4, ps4) != gotHead || (g4 != nil) != gotHead || w2.Code != w.Code {
			return L(L(A("path"), S(rt.Path())), L(A("match"), A("repeat-differs")), L(A("serve"), B(w.Code == 200)))
		}
	}
	if got != gotHead {
		return L(L(A("path"), S(rt.Path())), L(A("match"), A("head-lookup-differs")), L(A("serve"), B(w.Code == 200)))
	}
	return L(L(A("path"), S(rt.Path())), L(A("match"), B(got)), L(A("serve"), B(w.Code == 200)))
}

func c11Classify(c, obs Sx) []string {
	xs := c.Lst()
	labs := []string{"strict=" + xs[1].Atom, "enc=" + xs[2].Atom, fmt.Sprintf("groups=%d", len(xs[3].Lst()))}
	for _, t := range xs[7:] {
		labs = append(labs, "flavour="+t.Atom)
	}
	if obs.IsL && len(obs.List) == 3 {
		m, s := obs.List[1].List[1].Atom, obs.List[2].List[1].Atom
		labs = append(labs, "match="+m, "serve="+s)
		if xs[5].Atom != xs[6].Atom {
			labs = append(labs, "escaped!=decoded")
		}
		if m == "t" && xs[4].Str() != xs[5].Str() {
			labs = append(labs, "nt:hit-with-different-spelling")
		}
		if m != s {
			labs = append(labs, "nt:match!=serve(encoded path)")
		}
	}
	return labs
}

// exhaustive: every string of length <= 5 over {/, space, a, ., tab} as registered and as requested path
func c11Exhaustive(emit func(Sx)) {
	alpha := []string{"/", " ", "a", ".", "\t"}
	var all []string
	var rec func(p string, d int)
	rec = func(p string, d int) {
		all = append(all, p)
		if d == 0 {
			return
		}
		for _, a := range alpha {
			rec(p+a, d-1)
		}
	}
	rec("", 5)
	for _, s := range all {
		for _, strict := range []bool{false, true} {
			emit(c11Mk(strict, false, nil, s, s))
			emit(c11Mk(strict, false, nil, "/a", s))
			emit(c11Mk(strict, false, []string{"a"}, s, "/a/"+s))
			if len(s) <= 3 { // a dynamic route under every short spelling, cold and from the route cache, with and without "/" after the value
				for _, fl := range [][]string{{"dyn"}, {"dyn", "tail"}, {"dyn", "cache"}, {"dyn", "tail", "cache"}} {
					for _, c := range []Sx{c11Mk(strict, false, nil, s, s), c11Mk(strict, false, nil, "/a", s)} {
						for _, f := range fl {
							c.List = append(c.List, A(f))
						}
						emit(c)
					}
				}
			}
		}
	}
}

func init() {
	props["C11"] = &Prop{Gen: c11Gen, Exec: c11Exec, Classify: c11Classify, Exhaustive: c11Exhaustive}
}
