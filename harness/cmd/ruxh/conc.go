package main

import (
	"context"
	"fmt"
	"net/http"
	"net/url"
	"strings"
	"time"

	"github.com/gookit/rux"
)

// C03: controlled scheduler. Every request runs in its own goroutine; handlers yield to the scheduler at (yield) ops;
// the scheduler resumes one request at a time following the schedule, so each interleaving is reproduced exactly.
//
// case: (conc (opt ...) (stmt ...) ((id (op ...)) ...) (('M 'path) ...) (tid ...))     opts/stmts/ops as in rp.go (+ (cache n), (yield), (params))
// obs : ((reqs (req (trace ...) (log ...) (esc ...)) ...) (solo (req ...) ...))
// solo = the same request served alone, as the first request of a freshly built identical router.

// how long the scheduler waits for a request before it declares the case stuck: generous at first (no false alarm on a
// loaded machine), short once a first case was found stuck (the run is failing anyway)
var concStuckWait = 30 * time.Second

type concThread struct {
	resume chan struct{}
	event  chan bool // true = parked at a yield, false = finished
}

func (t *concThread) park() {
	t.event <- true
	<-t.resume
}

func concBuild(c Sx) *rpEnv {
	xs := c.Lst()
	var opts []func(*rux.Router)
	var onPanic []Sx
	hasPanic := false
	for _, o := range xs[1].Lst() {
		switch o.Head() {
		case "na":
			opts = append(opts, rux.HandleMethodNotAllowed)
		case "strict":
			opts = append(opts, rux.StrictLastSlash)
		case "cache":
			opts = append(opts, rux.CachingWithNum(uint16(o.List[1].Int())))
		case "onpanic":
			onPanic, hasPanic = o.List[1].Lst(), true
		default:
			panic("conc: bad option " + o.String())
		}
	}
	env := &rpEnv{r: rux.New(opts...), hs: map[int]rux.HandlerFunc{}}
	if hasPanic {
		env.r.OnPanic = rpHandler(onPanic)
	}
	for _, h := range xs[3].Lst() {
		env.hs[h.List[0].Int()] = rpHandler(h.List[1].Lst())
	}
	env.stmts(xs[2].Lst())
	return env
}

func concServe(env *rpEnv, rq Sx, th *concThread) Sx {
	w := newRecWriter(nil)
	rec := &rpRecorder{thread: th, router: env.r}
	req := &http.Request{Method: rq.List[0].Str(), URL: &url.URL{Path: rq.List[1].Str()}, Header: http.Header{}, Proto: "HTTP/1.1", ProtoMajor: 1, ProtoMinor: 1}
	req = req.WithContext(context.WithValue(context.Background(), rpKey{}, rec))
	rec.req = req
	esc := func() (esc Sx) {
		esc = A("none")
		defer func() {
			if e := recover(); e != nil {
				if s, ok := e.(string); ok && (strings.HasPrefix(s, "rp:") || strings.HasPrefix(s, "conc:")) {
					panic(e)
				}
				esc = dvalSx(e)
			}
		}()
		env.r.ServeHTTP(w, req)
		return
	}()
	return L(A("req"), LS(append([]Sx{A("trace")}, rec.trace...)), LS(append([]Sx{A("log")}, w.log...)), L(A("esc"), esc))
}

func concExec(c Sx) Sx {
	xs := c.Lst()
	if len(xs) != 6 {
		panic("conc: bad case")
	}
	env := concBuild(c)
	reqs := xs[4].Lst()
	n := len(reqs)
	threads := make([]*concThread, n)
	results := make([]Sx, n)
	done := make([]bool, n)
	for i := range reqs {
		i := i
		threads[i] = &concThread{resume: make(chan struct{}), event: make(chan bool)}
		go func() {
			<-threads[i].resume
			results[i] = concServe(env, reqs[i], threads[i])
			threads[i].event <- false
		}()
	}
	// a request that ends up parking or finishing on behalf of another one (its context was handed to two
	// requests at once) leaves the scheduler waiting: that is reported as (stuck), not as a harness failure
	stuck := false
	step := func(i int) {
		if i < 0 || i >= n || done[i] || stuck {
			return
		}
		select {
		case threads[i].resume <- struct{}{}:
		case <-time.After(concStuckWait):
			stuck = true
			concStuckWait = 500 * time.Millisecond
			return
		}
		select {
		case parked := <-threads[i].event:
			if !parked {
				done[i] = true
			}
		case <-time.After(concStuckWait):
			stuck = true
			concStuckWait = 500 * time.Millisecond
		}
	}
	for _, t := range xs[5].Lst() {
		step(t.Int())
	}
	for i := 0; i < n; i++ {
		for !done[i] && !stuck {
			step(i)
		}
	}
	if stuck {
		return L(L(A("stuck")), L(A("solo")))
	}
	out := []Sx{A("reqs")}
	out = append(out, results...)
	solo := []Sx{A("solo")}
	for _, rq := range reqs {
		solo = append(solo, concServe(concBuild(c), rq, nil))
	}
	return L(LS(out), LS(solo))
}

// ---- generator: router shapes from the property's quantifier ----
func c03Gen(r *Rng, tier string, i int) Sx {
	var hs []Sx
	id := 0
	yieldy := func(h int, last bool) []Sx {
		ops := []Sx{L(A("yield")), ev(h * 10), L(A("params"))}
		if r.Chance(1, 5) { // a handler writes into its own Params: request-local
			ops = append(ops, L(A("sp"), S("k"), S(fmt.Sprintf("v%d", h))), L(A("yield")), L(A("params")))
		}
		if r.Chance(1, 4) {
			ops = append(ops, wwr(fmt.Sprintf("h%d;", h)))
		}
		if !last {
			ops = append(ops, L(A("yield")), L(A("next")), L(A("yield")))
		}
		ops = append(ops, ev(h*10+1), L(A("yield")))
		if r.Chance(1, 4) { // what the request sees of its own context after other requests have run
			ops = append(ops, L(A("snap")), L(A("isab")))
		}
		return ops
	}
	mw := func() Sx {
		id++
		hs = append(hs, L(I(id), LS(yieldy(id, false))))
		return I(id)
	}
	var stmts []Sx
	// 0..4 global middleware added in one or several Use calls: several calls leave spare capacity in the slice
	ng := r.Intn(5)
	for ng > 0 {
		k := r.Range(1, ng)
		var ids []Sx
		for j := 0; j < k; j++ {
			ids = append(ids, mw())
		}
		stmts = append(stmts, LS(append([]Sx{A("use")}, ids...)))
		ng -= k
	}
	type rt struct{ m, p string }
	var probes []rt
	nRoutes := r.Range(2, 4)
	for k := 0; k < nRoutes; k++ {
		main := 100 + k
		hs = append(hs, L(I(main), LS(append(yieldy(main, true), wwr(fmt.Sprintf("main%d", main))))))
		var rmw []Sx
		for j := r.Intn(3); j > 0; j-- {
			rmw = append(rmw, mw())
		}
		path := fmt.Sprintf("/s%d", k)
		probe := path
		switch r.Intn(5) {
		case 0, 1: // dynamic route
			path = fmt.Sprintf("/d%d/{id}", k)
			probe = fmt.Sprintf("/d%d/%d", k, r.Intn(3))
		case 2: // dynamic route without variables (optional tail only)
			path = fmt.Sprintf("/o%d[.html]", k)
			probe = fmt.Sprintf("/o%d", k) + r.Pick([]string{"", ".html"})
		}
		route := L(A("route"), SL([]string{"GET"}), S(path), I(main), LS(rmw), L(), S(""))
		if r.Chance(1, 3) {
			var gm []Sx
			for j := r.Intn(3); j > 0; j-- {
				gm = append(gm, mw())
			}
			stmts = append(stmts, L(A("group"), S(fmt.Sprintf("/g%d", k)), LS(gm), L(route)))
			probe = fmt.Sprintf("/g%d", k) + probe
		} else {
			stmts = append(stmts, route)
		}
		probes = append(probes, rt{"GET", probe})
	}
	probes = append(probes, rt{"GET", "/missing"}, rt{"POST", probes[0].p}, rt{"HEAD", probes[0].p})
	var opts []Sx
	if r.Chance(1, 2) {
		opts = append(opts, L(A("cache"), I(r.Intn(3))))
	}
	if r.Chance(1, 2) {
		opts = append(opts, L(A("na")))
	}
	nreq := r.Range(2, 3)
	var reqs []Sx
	var sched []Sx
	if r.Chance(1, 5) { // a recovered panic first, then overlapping requests
		hs = append(hs, L(I(190), L(L(A("yield")), ev(1900), L(A("sd"), S("k"), I(7)), L(A("ae"), I(3)), L(A("abort")), L(A("panic"), I(190)))))
		stmts = append(stmts, L(A("route"), SL([]string{"GET"}), S("/boom"), I(190), L(), L(), S("")))
		if r.Bool() { // with a hook the panic is contained; without one it escapes ServeHTTP - either way later requests are unaffected
			opts = append(opts, L(A("onpanic"), L(ev(7777), L(A("w"), L(A("st"), I(500))), wwr("rec"))))
		}
		nreq = 3
		reqs = append(reqs, L(S("GET"), S("/boom")))
		for k := 0; k < 12; k++ {
			sched = append(sched, I(0))
		}
	}
	for k := len(reqs); k < nreq; k++ {
		p := probes[r.Intn(len(probes))]
		if r.Chance(1, 3) && k > 0 { // same route as the previous request
			reqs = append(reqs, reqs[k-1])
			continue
		}
		reqs = append(reqs, L(S(p.m), S(p.p)))
	}
	for k := r.Range(4, 40); k > 0; k-- {
		sched = append(sched, I(r.Intn(nreq)))
	}
	return L(A("conc"), LS(opts), LS(stmts), LS(hs), LS(reqs), LS(sched))
}

func c03Classify(c, obs Sx) []string {
	s := c.String()
	var labs []string
	if strings.Contains(s, "(cache ") {
		labs = append(labs, "cache")
	}
	if strings.Count(s, "(use ") >= 2 {
		labs = append(labs, "nt:several-use-calls")
	}
	if strings.Contains(s, "7b.69.64.7d") {
		labs = append(labs, "dynamic-route")
	}
	labs = append(labs, fmt.Sprintf("requests=%d", len(c.Lst()[4].Lst())))
	return labs
}

// exhaustive: 2 requests on a router whose global slice has spare capacity, every schedule of length <= 6 over {0,1}
func c03Exhaustive(emit func(Sx)) {
	base := func(sched []Sx) Sx {
		hs := []Sx{
			L(I(1), L(L(A("yield")), ev(10), L(A("next")), ev(11))), L(I(2), L(ev(20), L(A("next")), ev(21))), L(I(3), L(ev(30), L(A("yield")), L(A("next")), ev(31))),
			L(I(100), L(L(A("yield")), ev(1000), wwr("A"))), L(I(101), L(L(A("yield")), ev(1010), wwr("B"))),
		}
		stmts := []Sx{L(A("use"), I(1)), L(A("use"), I(2)), L(A("use"), I(3)),
			L(A("route"), SL([]string{"GET"}), S("/a"), I(100), L(), L(), S("")), L(A("route"), SL([]string{"GET"}), S("/b/{id}"), I(101), L(), L(), S(""))}
		reqs := []Sx{L(S("GET"), S("/a")), L(S("GET"), S("/b/7"))}
		return L(A("conc"), L(L(A("cache"), I(1))), LS(stmts), LS(hs), LS(reqs), LS(sched))
	}
	var rec func(p []Sx, d int)
	rec = func(p []Sx, d int) {
		cp := make([]Sx, len(p))
		copy(cp, p)
		emit(base(cp))
		if d == 0 {
			return
		}
		rec(append(p, I(0)), d-1)
		rec(append(p, I(1)), d-1)
	}
	rec(nil, 6)
}

func init() {
	props["C03"] = &Prop{Gen: c03Gen, Exec: concExec, Classify: c03Classify, Exhaustive: c03Exhaustive}
}
