package main

import (
	"fmt"
	"strings"
)

// ---------------- C06: fallback ladder ----------------
func c06Gen(r *Rng, tier string, i int) Sx {
	g := newRtG(r)
	t := g.table(r.Range(1, 7))
	var opts []Sx
	if r.Chance(1, 4) {
		opts = append(opts, L(A("strict")))
	}
	na := r.Chance(2, 3)
	if na {
		opts = append(opts, L(A("na")))
	}
	fb := r.Chance(1, 2)
	if fb {
		opts = append(opts, L(A("fb")))
	}
	if r.Chance(1, 3) {
		opts = append(opts, L(A("cache"), I(r.Intn(4))))
	}
	if r.Chance(1, 3) {
		opts = append(opts, L(A("nf")))
	}
	if r.Chance(1, 3) {
		opts = append(opts, L(A("nal")))
	}
	defs := t.defs
	// "/*" fallback routes for some methods (registered per method or for all)
	if r.Chance(2, 3) {
		switch r.Intn(3) {
		case 0:
			defs = append(defs, L(SL(rtMethods), S("/*"), B(false)))
		case 1:
			defs = append(defs, L(SL([]string{"GET"}), S("/*"), B(false)))
		default:
			defs = append(defs, L(SL([]string{r.Pick(rtMethods), r.Pick(rtMethods)}), S("/*"), B(false)))
		}
	}
	intercept := ""
	if r.Chance(1, 4) {
		intercept = g.probePath(t)
		if r.Bool() {
			intercept = r.Pick([]string{intercept + "/", " " + intercept, strings.TrimPrefix(intercept, "/")})
		}
		if strings.TrimSpace(intercept) != "" {
			opts = append(opts, L(A("intercept"), S(intercept)))
		} else if r.Bool() { // a blank argument switches nothing on
			opts = append(opts, L(A("intercept"), S(r.Pick([]string{" ", "", "\t"}))))
			intercept = ""
		}
	}
	var qs []Sx
	for k := 0; k < 14; k++ {
		m := g.probeMethod(t)
		switch r.Intn(8) {
		case 0:
			m = "HEAD"
		case 1:
			m = "OPTIONS"
		case 2:
			m = r.Pick([]string{"PROPFIND", "get", "", "GE"})
		}
		kind := "m"
		if r.Chance(1, 2) && m != "" && !strings.ContainsAny(m, " ") {
			kind = "s"
		}
		qs = append(qs, L(A(kind), S(m), S(g.probePath(t))))
	}
	if r.Chance(1, 6) {
		// very long paths of the same length that differ in the middle only: one is served by a dynamic route (and cached, when
		// caching is on), the other has no route of its own
		d, a, b := rtLongTwin(r, false)
		defs = append(defs, d)
		hasCache := false
		for _, o := range opts {
			if o.Head() == "cache" {
				hasCache = true
			}
		}
		if !hasCache {
			opts = append(opts, L(A("cache"), I(r.Range(1, 4))))
		}
		for _, m := range []string{"GET", "GET", "POST", "HEAD", "OPTIONS"} {
			qs = append(qs, L(A(r.Pick([]string{"m", "s"})), S(m), S(a)), L(A(r.Pick([]string{"m", "s"})), S(m), S(b)))
		}
	}
	if intercept == "" {
		opts, qs = rtGroup(r, opts, qs)
	}
	// options are applied in the order listed: the order must not matter
	for k := len(opts) - 1; k > 0; k-- {
		j := r.Intn(k + 1)
		opts[k], opts[j] = opts[j], opts[k]
	}
	return L(A("rt"), LS(opts), LS(defs), LS(qs))
}

// ---------------- C07: cache transparency over histories ----------------
func c07Gen(r *Rng, tier string, i int) Sx {
	g := newRtG(r)
	t := g.table(r.Range(1, 7))
	caps := []int{0, 1, 2, 3, 1000, 9, 16}
	opts := []Sx{L(A("cache"), I(caps[r.Intn(len(caps))]))}
	if r.Chance(1, 6) { // overlapping routes whose method sets differ: a method-specific route before a route for all methods
		lit := g.pool[0]
		first := r.Pick([]string{"POST", "PUT", "GET"})
		t.defs = append([]Sx{L(SL([]string{first}), S("/"+lit+"/{id:\\d+}"), B(false)), L(SL(rtMethods), S("/"+lit+"/{slug}"), B(false))}, t.defs...)
		t.pats = append([]*rtPat{nil, nil}, t.pats...)
		t.paths = append([]string{"/" + lit + "/12", "/" + lit + "/ab"}, t.paths...)
		t.meths = append([][]string{{first, "GET"}, rtMethods}, t.meths...)
	}
	if r.Chance(1, 2) {
		opts = append(opts, L(A("na")))
	}
	if r.Chance(1, 4) {
		opts = append(opts, L(A("fb")))
	}
	if r.Chance(1, 5) {
		opts = append(opts, L(A("strict")))
	}
	// very long paths that share a long prefix (cache keys must be the whole method+path)
	if r.Chance(1, 8) {
		long := "/assets/" + strings.Repeat("deep/", 26)
		t.defs = append(t.defs, L(SL([]string{"GET"}), S("/assets/{file:.+}"), B(false)))
		t.pats = append(t.pats, nil, nil)
		t.paths = append(t.paths, long+"a.css", long+"b.css")
		t.meths = append(t.meths, []string{"GET"}, []string{"GET"})
		t.defs = append(t.defs, L(SL([]string{"GET"}), S("/zz9/{never}"), B(false)))
	}
	// "/*" fallback routes for some methods only: their answers must not leak to other methods through the cache
	if r.Chance(1, 4) {
		ms := []string{r.Pick([]string{"GET", "POST", "PUT"})}
		if r.Bool() {
			ms = append(ms, r.Pick(rtMethods))
		}
		t.defs = append(t.defs, L(SL(ms), S("/*"), B(false)))
		t.pats = append(t.pats, nil)
		t.paths = append(t.paths, r.Pick([]string{"/pages/two", "/zz", "/a/b/c/d"}))
		t.meths = append(t.meths, append(ms, "HEAD", "POST"))
		hasFb := false
		for _, o := range opts {
			if o.Head() == "fb" {
				hasFb = true
			}
		}
		if !hasFb {
			opts = append(opts, L(A("fb")))
		}
	}
	// a pool of 2..8 URLs, drawn with repetition so that hits, misses and evictions all occur
	type url struct{ m, p string }
	var pool []url
	for k := r.Range(2, 8); k > 0; k-- {
		m := g.probeMethod(t)
		if r.Chance(1, 6) {
			m = "HEAD"
		}
		pool = append(pool, url{m, g.probePath(t)})
	}
	var qs []Sx
	for k := r.Range(20, 60); k > 0; k-- {
		u := pool[r.Intn(len(pool))]
		kind := "m"
		if r.Chance(1, 3) && u.m != "" {
			kind = "s"
		}
		qs = append(qs, L(A(kind), S(u.m), S(u.p)))
	}
	opts, qs = rtGroup(r, opts, qs)
	return L(A("rt"), LS(opts), LS(t.defs), LS(qs))
}

func c07Classify(c, obs Sx) []string {
	labs := rtClassify(c, obs)
	// count cache hits/evictions from the key snapshots
	if obs.IsL && len(obs.List) == 2 {
		prev := ""
		evict, hitRepeat := false, false
		seen := map[string]bool{}
		for _, q := range obs.List[1].List[1:] {
			if q.Head() != "m" || len(q.List) < 4 {
				continue
			}
			ks := q.List[3].String()
			if seen[ks] && ks != "()" {
				hitRepeat = true
			}
			seen[ks] = true
			if prev != "" && len(ks) <= len(prev) && ks != prev && ks != "()" {
				evict = true
			}
			prev = ks
		}
		if evict {
			labs = append(labs, "eviction")
		}
		if hitRepeat {
			labs = append(labs, "repeat")
		}
		if evict && hitRepeat {
			labs = append(labs, "nt:eviction+repeat")
		}
	}
	return labs
}

// ---------------- C13: malformed definitions, hostile lookups ----------------
var c13BadPatterns = []string{
	"/u/{id:(\\d+)}", "/u/{id:(?:a)(b)}", "/a(b)[c]", "/x[/y]/z", "/x[/y", "/x]/y[", "/{a", "/a}", "/{}", "/{a:}", "/{a:[}",
	"/{a:(}", "/{a:x)}", "/{a:*}", "/a[[b]]", "/a[b]]", "/{a:\\d+}[/{b:(x)}]", "/p/{a}/(v1|v2)", "/{n}/(a|b)", "/a(?:b", "/(",
	"/{a:[z-a]}", "/{a:x{3,1}}", "/{a:\\}", "/{ a : \\d+ }", "/{a:b}{c}", "/{a}-{b}", "/[x]", "[/x]", "/a.{ext:(?:js|css)}",
	"/{a:.+\\.(?:css|js)}", "/a[.html]", "/{all}", "/files/{f:.*}", "/{a:x|y}", "/{a:[^/]+}", "/{id:[0-9]{1,3}}", "/*", "/a*", "/a+b",
	"/" + strings.Repeat("seg", 24) + "/{id}", "/" + strings.Repeat("x", 130) + "/{a}/{b}", "/" + strings.Repeat("ab", 40),
	// an optional part in the middle AND one that closes the path (brackets balanced, last character ']')
	"/a[/b]/c[/d]", "/x[y][z]", "/blog[/{category}]/{id}[.html]", "/m[/n]/o[/p[/q]]", "/[a]b[c]", "/a[/{b}]/{c}[/{d}]",
}
var c13BadMethods = []string{"DEL", "P", "OPT", "", " ", "get", " post ", "GET,POST", "FOO", "PATCH", "GETX", "TRACE", "po\u017ft", "option\u017f", "G\u00cbT", "\u017f", "connect\u0131"}
var c13HostilePaths = []string{"", " ", "  ", "\t", "/", "//", "///", "/ /", " /", "/ ", "\t/\n", " // ", "/\xff", "\xfe\xff", "/a\x00b", "/%zz", strings.Repeat("/a", 40), "/u/ab", "/u/12",
	"/p/x/v1", "/x/a", "/a.js", "/a.html", "/a", "/ab", "/x", "/x/y", "/x/y/z", " /u/1 ", "/u/1/", "/files/a/b", "/é/ü", "/a b", "/{a}", "/[x]",
	"/" + strings.Repeat("seg", 24) + "/7", "/" + strings.Repeat("seg", 23) + "/7", "/" + strings.Repeat("x", 130) + "/1/2", "/" + strings.Repeat("x", 129) + "/1/2", "/" + strings.Repeat("y", 300) + "/z"}
var c13HostileMethods = []string{"GET", "get", "", " ", "HEAD", "OPTIONS", "G/ET", "GET/", "\xff", "PUT"}

// handler-count cases (executor rp.go): group + variadic + later middleware around the limit of 63 and around
// the int8 / uint8 wrap points
var c13Counts = []int{0, 1, 30, 61, 62, 63, 64, 65, 100, 126, 127, 128, 129, 191, 192, 255, 256, 257, 300, 318, 319, 400}

func c13LimitCase(r *Rng) Sx {
	total := c13Counts[r.Intn(len(c13Counts))]
	a := r.Intn(total + 1)
	b := a + r.Intn(total-a+1)
	ids := func(n int) []Sx {
		out := make([]Sx, n)
		for k := range out {
			out[k] = I(1)
		}
		return out
	}
	if r.Chance(1, 3) { // everything on the route itself
		a = 0
	}
	pre := r.Chance(1, 3)
	if pre && r.Bool() { // group part and route part both below the limit, only their sum reaches it; nothing added later
		total = []int{63, 64, 70, 100, 120, 62, 40}[r.Intn(7)]
		lo, hi := total-62, 62
		if lo < 1 {
			lo = 1
		}
		if hi > total-1 {
			hi = total - 1
		}
		a = r.Range(lo, hi)
		b = total
	}
	route := L(A("route"), SL([]string{"GET"}), S("/x"), I(2), LS(ids(b-a)), LS(ids(total-b)), S(""))
	if pre { // the route carries its middleware when it is added to the group
		route.List = append(route.List, A("pre"))
	}
	var stmts []Sx
	if a > 0 {
		stmts = append(stmts, L(A("group"), S("/g"), LS(ids(a)), L(route)))
	} else {
		stmts = append(stmts, route)
	}
	hs := []Sx{L(I(1), L(L(A("next")))), L(I(2), L(ev(20)))}
	return L(A("rp"), L(), LS(stmts), LS(hs), L())
}

func c13Gen(r *Rng, tier string, i int) Sx {
	if i%8 == 7 {
		return c13LimitCase(r)
	}
	g := newRtG(r)
	var defs []Sx
	if r.Chance(1, 2) {
		t := g.table(r.Range(0, 3))
		defs = append(defs, t.defs...)
	}
	for k := r.Range(0, 4); k > 0; k-- {
		ms := []string{"GET"}
		if r.Chance(1, 3) {
			ms = []string{r.Pick(c13BadMethods)}
			if r.Bool() {
				ms = append(ms, "GET")
			}
		}
		p := r.Pick(c13BadPatterns)
		if r.Chance(1, 6) {
			p = rtMutate(r, p)
		}
		defs = append(defs, L(SL(ms), S(p), B(r.Chance(1, 12))))
	}
	var opts []Sx
	for _, o := range []string{"strict", "na", "fb"} {
		if r.Chance(1, 3) {
			opts = append(opts, L(A(o)))
		}
	}
	if r.Chance(1, 2) {
		opts = append(opts, L(A("cache"), I(r.Intn(3))))
	}
	if r.Chance(1, 8) {
		opts = append(opts, L(A("intercept"), S(r.Pick([]string{" ", "/u/ab", "a", "/a/"}))))
	}
	if r.Chance(1, 5) {
		opts = append(opts, L(A("lateopt")))
	}
	if r.Chance(1, 5) {
		opts = append(opts, L(A("direct")))
	}
	if r.Chance(1, 6) { // the definitions are registered inside a group: prefix and path together form the pattern
		opts = append(opts, L(A("group"), S(r.Pick([]string{"/g", "/a[", "/u/{id:(\\d+)}", "/g/{gid}", "/x]", "/{a", "/p(q)", " ", "/G/"}))))
	}
	var qs []Sx
	for k := 0; k < 12; k++ {
		m := r.Pick(c13HostileMethods)
		p := r.Pick(c13HostilePaths)
		kind := "m"
		if r.Chance(1, 4) && strings.TrimSpace(m) != "" && !strings.ContainsAny(m, "/\xff ") {
			kind = "s"
		}
		qs = append(qs, L(A(kind), S(m), S(p)))
	}
	return L(A("rt"), LS(opts), LS(defs), LS(qs))
}

func c13Exec(c Sx) Sx {
	if c.Head() == "rp" {
		o := rpExec(c)
		if o.Head() == "regpanic" {
			return L(A("reg"), A("panic"))
		}
		return L(A("reg"), A("ok"))
	}
	return rtExecFor("C13")(c)
}

func c13Classify(c, obs Sx) []string {
	var labs []string
	if c.Head() == "rp" {
		return []string{"handler-count-case", "nt:handler-count"}
	}
	o := obs.String()
	if strings.Contains(o, "panic") && strings.Contains(o, "(reg") {
		nOK := strings.Count(strings.SplitN(o, "(panics", 2)[0], "ok")
		nP := strings.Count(strings.SplitN(o, "(panics", 2)[0], "panic")
		labs = append(labs, fmt.Sprintf("accepted=%d", nOK), fmt.Sprintf("rejected=%d", nP))
		if nOK > 0 && nP > 0 {
			labs = append(labs, "nt:accepted+rejected")
		}
	}
	if strings.Contains(c.String(), "(cache") && len(c.Lst()[2].Lst()) == 0 {
		labs = append(labs, "caching-without-routes")
	}
	return labs
}

// ---------------- C14 router part ----------------
func init() {
	props["C06"] = &Prop{Gen: c06Gen, Exec: rtExecFor("C06"), Classify: rtClassify}
	props["C07"] = &Prop{Gen: c07Gen, Exec: rtExecFor("C07"), Classify: c07Classify}
	props["C13"] = &Prop{Gen: c13Gen, Exec: c13Exec, Classify: c13Classify}
	c14rGen = func(r *Rng, tier string, i int) Sx {
		c := c07Gen(r, tier, i)
		if r.Chance(1, 3) {
			c = c14rLate(r, c)
		}
		return c
	}
	c14rExec = rtExecFor("C14")
	c14rClassify = func(c, obs Sx) []string {
		o := obs.String()
		labs := []string{"router-history"}
		if strings.Contains(c.String(), "(a (") {
			labs = append(labs, "route-registered-between-lookups")
		}
		if strings.Contains(o, "(keys (") && strings.Contains(c.String(), "(cache ") && !strings.Contains(c.String(), "(cache 0)") {
			labs = append(labs, "nt:router-cache-populated")
		}
		return labs
	}
}

// c14rLate: a router that keeps growing while it serves. One or two more dynamic routes are registered between two lookups
// of the history (the cache is left alone by a registration: a key stored before is still there, in the same position), and
// the lookups that follow include their paths. Small capacities, so that entries stored before the registration are evicted
// after it.
func c14rLate(r *Rng, c Sx) Sx {
	xs := c.Lst()
	opts := xs[1].Lst()
	for k, o := range opts {
		if o.Head() == "cache" && r.Chance(2, 3) {
			opts[k] = L(A("cache"), I(r.Range(1, 3)))
		}
	}
	qs := append([]Sx{}, xs[3].Lst()...)
	n := r.Range(1, 2)
	for k := 0; k < n && len(qs) >= 4; k++ {
		at := r.Range(2, len(qs)-1)
		lit := fmt.Sprintf("late%d", k)
		def := L(A("a"), SL([]string{"GET"}), S("/"+lit+"/{id}"), B(false))
		if k == 1 && at > 0 && qs[at-1].Head() != "a" {
			// ... or a STATIC route for a path that has just been looked up (and possibly cached as a dynamic match): the
			// exact static route answers from now on
			def = L(A("a"), SL([]string{"GET"}), qs[at-1].List[2], B(false))
		}
		var rest []Sx
		for j, q := range qs[at:] {
			rest = append(rest, q)
			if j%3 == 1 {
				rest = append(rest, L(A("m"), S("GET"), S(fmt.Sprintf("/%s/%d", lit, r.Intn(2)))))
			}
		}
		qs = append(append(append([]Sx{}, qs[:at]...), def), rest...)
	}
	return L(A("rt"), LS(opts), xs[2], LS(qs))
}

// rtLongTwin: a dynamic route and two request paths of the same (large) length that share a long head and a long tail. With
// both=true both paths are served by the route (with different values), otherwise only the first one is
func rtLongTwin(r *Rng, both bool) (def Sx, a, b string) {
	n := r.Pick2([]int{70, 100, 130, 200, 300})
	head := strings.Repeat("a", n/2)
	tail := strings.Repeat("a", n-n/2-1)
	mid := "9"
	if both {
		mid = "b"
	}
	return L(SL([]string{"GET", "DELETE"}), S("/lt/{v:[a-z]+}/end"), B(false)), "/lt/" + head + "a" + tail + "/end", "/lt/" + head + mid + tail + "/end"
}
