package main

import (
	"fmt"
	"net/http"
	"net/url"
	"sort"
	"strconv"
	"strings"

	"github.com/gookit/rux"
)

// rt: "route table + lookups" executor shared by C01, C02, C06, C07, C13 and the router part of C14.
//
// case : (rt (opt ...) (def ...) (query ...))
// opt  : (strict) (na) (fb) (cache N) (intercept 'path) (nf) (nal) (lateopt) (group 'prefix)      nf/nal = custom NotFound/NotAllowed handlers
// def  : (('M ...) 'path nilh)           raw arguments of Router.Add; route i gets the name "r<i>"
// query: (m 'M 'path)                    Router.Match(M, path)
//        (s 'M 'path)                    Router.ServeHTTP with method M and URL path
// obs  : ((reg ok|panic ...) (qs <q> ...))
//   q for m : (m <res> <twin-res> (keys ...))      res = (found i <params>) | (fb i) | (na (M ...)) | (nf) | (panic)
//   q for s : (s <status> <who> <params> 'allow <twin-status> <twin-who>)   who = i | nf | na | none
//   params  = nil | ((k v) ...) sorted by key
// The twin is the same router built without caching.

type rtServed struct {
	mw     bool // the route's own middleware has run
	who    string
	params Sx
	data   string
}

var rtCur *rtServed

func paramsSx(ps rux.Params) Sx {
	if ps == nil {
		return A("nil")
	}
	var keys []string
	for k := range ps {
		keys = append(keys, k)
	}
	sort.Strings(keys)
	var out []Sx
	for _, k := range keys {
		out = append(out, L(S(k), S(ps[k])))
	}
	return LS(out)
}

type rtRouter struct {
	rpath  map[int]string // Route.Path() / Methods() of the registered routes (a match must report the same)
	rmeths map[int]string
	meths  []Sx
	decoy  *rux.Router
	r      *rux.Router
	regs   []Sx
	byName map[string]int
}

func rtBuild(c Sx, caching bool) *rtRouter {
	xs := c.Lst()
	var opts, later []func(*rux.Router)
	customNF, customNA, lateOpt := false, false, false
	groupPrefix, inGroup := "", false
	var gvars [][2]string
	direct := false
	for _, o := range xs[1].Lst() {
		switch o.Head() {
		case "strict":
			opts = append(opts, rux.StrictLastSlash)
		case "na":
			opts = append(opts, rux.HandleMethodNotAllowed)
		case "fb":
			opts = append(opts, rux.HandleFallbackRoute)
		case "cache":
			if caching {
				// the three spellings of "cache with capacity n"; which one is used depends only on the case
				n := uint16(o.List[1].Int())
				if n == 1000 && len(xs[2].Lst())%2 == 0 { // the default capacity: EnableCaching alone
					opts = append(opts, rux.EnableCaching)
					break
				}
				switch (o.List[1].Int() + len(xs[2].Lst())) % 4 {
				case 0:
					opts = append(opts, rux.CachingWithNum(n))
				case 1:
					opts = append(opts, rux.EnableCaching, rux.MaxNumCaches(n))
				case 2:
					opts = append(opts, rux.MaxNumCaches(n), rux.EnableCaching)
				default:
					// in two steps: New(EnableCaching), then WithOptions(MaxNumCaches(n)) on the still empty router
					opts = append(opts, rux.EnableCaching)
					later = append(later, rux.MaxNumCaches(n))
				}
			}
		case "intercept":
			opts = append(opts, rux.InterceptAll(o.List[1].Str()))
		case "nf":
			customNF = true
		case "nal":
			customNA = true
		case "lateopt":
			lateOpt = true
		case "group":
			groupPrefix, inGroup = o.List[1].Str(), true
		case "enc": // requests are matched on the escaped form of their path
			opts = append(opts, rux.UseEncodedPath)
		case "direct": // the option functions are applied by calling them with the (still empty) router
			direct = true
		case "gvar":
			gvars = append(gvars, [2]string{o.List[1].Str(), o.List[2].Str()})
			if len(o.List) > 3 {
				// the variable had another definition before, and another router of the process registered the very same
				// path texts under it
				rux.SetGlobalVar(o.List[1].Str(), o.List[3].Str())
				old := rux.New()
				for _, d := range xs[2].Lst() {
					func() {
						defer func() { _ = recover() }()
						old.Add(d.List[1].Str(), func(*rux.Context) {}, d.List[0].Strs()...)
					}()
				}
			}
		default:
			panic("rt: bad option " + o.String())
		}
	}
	rr := &rtRouter{byName: map[string]int{}, rpath: map[int]string{}, rmeths: map[int]string{}}
	if direct {
		rr.r = rux.New()
		for _, o := range opts {
			o(rr.r)
		}
	} else {
		rr.r = rux.New(opts...)
	}
	// global path variables defined by the application after the router exists and before its routes are added
	// (the table is package-level state: rtExec removes the names again)
	for _, gv := range gvars {
		rux.SetGlobalVar(gv[0], gv[1])
	}
	if len(later) > 0 && direct {
		for _, o := range later {
			o(rr.r)
		}
	} else if len(later) > 0 {
		rr.r.WithOptions(later...)
	}
	if caching {
		// a second router configured with the very same option values (one option list used for two routers): it has
		// its own routes, and its lookups must not influence this router
		rr.decoy = rux.New(opts...)
		rr.decoy.Any("/{decoyall:.*}", func(c *rux.Context) { c.SetStatus(299) })
	}
	installFallbacks := func() {
		if customNF {
			rr.r.NotFound(func(c *rux.Context) { rtCur.who = "nf"; c.SetStatus(404) })
		}
		if customNA {
			rr.r.NotAllowed(func(c *rux.Context) {
				rtCur.who = "na"
				al, _ := c.SafeGet(rux.CTXAllowedMethods).([]string)
				al = append([]string{}, al...)
				sort.Strings(al)
				rtCur.data = strings.Join(al, ", ")
				c.SetStatus(405)
			})
		}
	}
	if len(xs[2].Lst())%2 == 0 { // before the routes, or after them
		installFallbacks()
	}
	register := func(body func()) { body() }
	if inGroup { // all definitions are registered inside one group
		register = func(body func()) {
			defer func() { _ = recover() }()
			rr.r.Group(groupPrefix, body)
		}
	}
	register(func() {
		for i, d := range xs[2].Lst() {
			ok, ms := rr.addDef(i, d)
			if ok {
				rr.meths = append(rr.meths, ms)
				rr.regs = append(rr.regs, A("ok"))
			} else {
				rr.regs = append(rr.regs, A("panic"))
			}
		}
	})
	if len(xs[2].Lst())%2 == 1 {
		installFallbacks()
	}
	rr.regs = append(rr.regs, rr.meths...)
	if lateOpt { // options may only be applied while the router has no routes
		ok := func() (ok bool) {
			defer func() {
				if e := recover(); e != nil {
					ok = false
				}
			}()
			rr.r.WithOptions(func(*rux.Router) {})
			return true
		}()
		if ok {
			rr.regs = append(rr.regs, A("lateopt-ok"))
		} else {
			rr.regs = append(rr.regs, A("lateopt-panic"))
		}
	}
	return rr
}

// addDef registers definition d ((methods) 'path nil-handler?) as route number i
func (rr *rtRouter) addDef(i int, d Sx) (ok bool, meths Sx) {
	name := fmt.Sprintf("r%d", i)
	rr.byName[name] = i
	var h rux.HandlerFunc
	withMW := i%2 == 1 // every second route has a middleware of its own: it must have run before the main handler
	if !d.List[2].Bool() {
		h = func(c *rux.Context) {
			rtCur.who = fmt.Sprint(i)
			if withMW && !rtCur.mw {
				rtCur.who = fmt.Sprintf("%d-without-its-middleware", i)
			}
			rtCur.params = paramsSx(c.Params)
			// the accessors agree with the map
			for k, v := range c.Params {
				if c.Param(k) != v || !c.Params.Has(k) || c.Params.String(k) != v {
					rtCur.params = L(A("param-accessors-disagree"), S(k), S(v), S(c.Param(k)))
				}
			}
			if c.Params.Has("no-such-variable") || c.Param("no-such-variable") != "" {
				rtCur.params = L(A("param-accessors-disagree"), S("no-such-variable"))
			}
			c.SetStatus(200)
		}
	}
	mw := func(c *rux.Context) { rtCur.mw = true; c.Next() }
	defer func() {
		if e := recover(); e != nil {
			ok = false
		}
	}()
	ms := d.List[0].Strs()
	var rt *rux.Route
	if len(ms) == 1 && i%3 == 1 && h != nil && rpShortcut(rr.r, ms[0]) != nil {
		// the per-method shortcut, named afterwards: the same registration
		if withMW {
			rt = rpShortcut(rr.r, ms[0])(d.List[1].Str(), h, mw)
		} else {
			rt = rpShortcut(rr.r, ms[0])(d.List[1].Str(), h)
		}
		rt.NamedTo(name, rr.r)
	} else {
		rt = rr.r.AddNamed(name, d.List[1].Str(), h, ms...)
		if withMW {
			rt.Use(mw)
		}
	}
	rr.rpath[i], rr.rmeths[i] = rt.Path(), strings.Join(rt.Methods(), ",")
	// the method names the route is stored under
	return true, L(A("meths"), I(i), SL(rt.Methods()))
}

func (rr *rtRouter) match(m, p string) (res Sx) {
	if rr.decoy != nil {
		func() {
			defer func() { _ = recover() }()
			rr.decoy.Match(m, p)
		}()
	}
	defer func() {
		if e := recover(); e != nil {
			res = L(A("panic"))
		}
	}()
	rt, ps, alm := rr.r.Match(m, p)
	if rt != nil {
		i, ok := rr.byName[rt.Name()]
		if !ok {
			return L(A("found"), A("unknown"), paramsSx(ps))
		}
		if rt.Path() != rr.rpath[i] || strings.Join(rt.Methods(), ",") != rr.rmeths[i] || len(rt.Handlers()) != map[bool]int{true: 1, false: 0}[i%2 == 1 && rt.Handler() != nil] {
			return L(A("found"), A("matched-route-differs-from-the-registered-one"), S(rt.Path()), S(strings.Join(rt.Methods(), ",")), I(len(rt.Handlers())))
		}
		// a fallback hit is reported by QuickMatch as the "/*" route with nil params and nil allowed methods;
		// it is told apart from a direct static hit of "/*" by the request path
		return L(A("found"), I(i), paramsSx(ps))
	}
	if len(alm) > 0 {
		al := append([]string{}, alm...)
		sort.Strings(al)
		return L(A("na"), SL(al))
	}
	return L(A("nf"))
}

func (rr *rtRouter) serve(m, p string) (status int, who string, params Sx, allow string, panicked bool) {
	rtCur = &rtServed{who: "none", params: A("nil")}
	w := newRecWriter(nil)
	req := &http.Request{Method: m, URL: &url.URL{Path: p}, Header: http.Header{}, Proto: "HTTP/1.1", ProtoMajor: 1, ProtoMinor: 1}
	func() {
		defer func() {
			if e := recover(); e != nil {
				panicked = true
			}
		}()
		rr.r.ServeHTTP(w, req)
	}()
	allow = w.hdr.Get("Allow")
	if rtCur.who == "na" {
		allow = rtCur.data
	}
	if rtCur.who == "none" && !panicked { // the default answers have their documented bodies
		want := map[int]string{404: "404 page not found\n", 405: "Method not allowed\n", 200: ""}[w.code]
		if string(w.body) != want {
			rtCur.who = "default-answer-with-another-body"
		}
	}
	return w.code, rtCur.who, rtCur.params, allow, panicked
}

func rtExec(c Sx) Sx {
	xs := c.Lst()
	if len(xs) != 4 {
		panic("rt: bad case")
	}
	main := rtBuild(c, true)
	twin := rtBuild(c, false)
	for _, o := range xs[1].Lst() {
		if o.Head() == "gvar" {
			defer delete(rux.GetGlobalVars(), o.List[1].Str())
		}
	}
	var qs []Sx
	next := len(xs[2].Lst())
	for k, q := range xs[3].Lst() {
		if q.Head() == "a" { // a route registered on the running router, between two lookups
			ok, _ := main.addDef(next, LS(q.List[1:]))
			twin.addDef(next, LS(q.List[1:]))
			next++
			res := "panic"
			if ok {
				res = "ok"
			}
			qs = append(qs, L(A("a"), A(res)))
			continue
		}
		m, p := q.List[1].Str(), q.List[2].Str()
		// the read-only inspection API is used between lookups: it must not disturb the tables
		switch k % 4 {
		case 1:
			_ = main.r.Routes()
			_ = twin.r.Routes()
		case 2:
			_ = main.r.String()
			main.r.IterateRoutes(func(*rux.Route) {})
			_ = main.r.NamedRoutes()
		case 3:
			_ = main.r.GetRoute("r0")
			_ = main.r.Handlers()
		}
		switch q.Head() {
		case "m":
			res := main.match(m, p)
			tres := twin.match(m, p)
			keys, has := main.r.VerifCacheKeys()
			ks := A("nocache")
			if has {
				ks = SL(keys)
			}
			qs = append(qs, L(A("m"), res, tres, ks))
		case "s":
			st, who, ps, allow, pk := main.serve(m, p)
			tst, twho, _, _, tpk := twin.serve(m, p)
			if pk {
				who = "panic"
			}
			if tpk {
				twho = "panic"
			}
			qs = append(qs, L(A("s"), I(st), A(who), ps, S(allow), I(tst), A(twho)))
		default:
			panic("rt: bad query " + q.String())
		}
	}
	return L(LS(append([]Sx{A("reg")}, main.regs...)), LS(append([]Sx{A("qs")}, qs...)))
}

// ---- projections: each property compares only the observables it talks about ----
func rtProject(id string, obs Sx) Sx {
	if !obs.IsL || len(obs.List) != 2 {
		return obs
	}
	reg, qs := obs.List[0], obs.List[1]
	var out []Sx
	for _, q := range qs.List[1:] {
		switch id {
		case "C01": // selection only
			if q.Head() == "m" {
				r := q.List[1]
				if r.Head() == "found" {
					out = append(out, L(A("sel"), r.List[1]))
				} else {
					out = append(out, L(A("sel"), A(r.Head())))
				}
			} else if q.Head() == "s" { // a served request: who ran (a route number, or nobody)
				who := q.List[2].Atom
				if _, err := strconv.Atoi(who); err != nil {
					who = map[string]string{"none": "nf", "nf": "nf", "panic": "panic"}[who]
					if who == "" {
						who = q.List[2].Atom
					}
				}
				out = append(out, L(A("sel"), A(who)))
			}
		case "C14": // cache contents only
			if q.Head() == "m" {
				out = append(out, L(A("keys"), q.List[3]))
			}
		case "C06": // full resolution, no twin, no cache keys
			if q.Head() == "m" {
				out = append(out, L(A("m"), q.List[1]))
			} else {
				out = append(out, L(A("s"), q.List[1], q.List[2], q.List[4]))
			}
		default:
			out = append(out, q)
		}
	}
	if id == "C13" {
		// registration outcome + whether any lookup panicked
		var ps []Sx
		for _, q := range qs.List[1:] {
			s := q.String()
			ps = append(ps, B(strings.Contains(s, "(panic)") || strings.Contains(s, " panic ")))
		}
		return L(reg, LS(append([]Sx{A("panics")}, ps...)))
	}
	if id == "C01" || id == "C14" {
		return L(reg, LS(append([]Sx{A("qs")}, out...)))
	}
	return L(reg, LS(append([]Sx{A("qs")}, out...)))
}

func rtExecFor(id string) func(Sx) Sx {
	return func(c Sx) Sx { return rtProject(id, rtExec(c)) }
}
