package main

import (
	"fmt"
	"strings"
)

// generators of "registration program + requests" cases for C04, C05, C12 (executor: rp.go)

type rpGen struct {
	r        *Rng
	nextMW   int  // next middleware id (1..)
	nextRt   int  // next route number
	hs       []Sx // handler table
	reqs     []Sx // requests
	routeIx  int  // index of the next registered route (registration order)
	mwBody   func(g *rpGen, id int) []Sx
	depthMax int
	lists    [][]Sx
	dynamic  bool // some routes are dynamic ("/r7/{id}")
	clean    bool // only clean spellings of prefixes and paths (strict mode keeps a trailing slash significant)
}

func ev(n int) Sx { return L(A("ev"), I(n)) }

// default middleware: enter, Next, leave
func mwOnce(g *rpGen, id int) []Sx { return []Sx{ev(id * 10), L(A("next")), ev(id*10 + 1)} }

func (g *rpGen) newMW() Sx {
	id := g.nextMW
	g.nextMW++
	g.hs = append(g.hs, L(I(id), LS(g.mwBody(g, id))))
	return I(id)
}

func (g *rpGen) mws(max int) []Sx {
	// sometimes the very list used before is used again (a caller spreading one slice into several calls)
	if len(g.lists) > 0 && max >= 2 && g.r.Chance(1, 6) {
		return g.lists[g.r.Intn(len(g.lists))]
	}
	out := g.mws0(max)
	if len(out) >= 2 {
		g.lists = append(g.lists, out)
	}
	return out
}

func (g *rpGen) mws0(max int) []Sx {
	var out []Sx
	for n := g.r.Intn(max + 1); n > 0; n-- {
		out = append(out, g.newMW())
	}
	return out
}

var rpPrefixForms = []string{"/g%d", "g%d", "/g%d/", "/g%d", "/G%d", "/Api%d"}

// block generates statements; pfx is the normalised prefix of the enclosing groups
func (g *rpGen) block(depth int, pfx string, n int) []Sx {
	var ss []Sx
	for i := 0; i < n; i++ {
		switch k := g.r.Intn(10); {
		case k < 2:
			if m := g.mws(2); len(m) > 0 {
				ss = append(ss, LS(append([]Sx{A("use")}, m...)))
			}
		case k == 8 && g.r.Chance(1, 2):
			ss = append(ss, g.resource(pfx))
		case k == 9 && depth == 0 && g.depthMax >= 2 && g.r.Chance(1, 3):
			ss = append(ss, g.spareCapacity(pfx))
		case k < 4 && depth < g.depthMax:
			gi := g.r.Intn(4) + 1 + depth*4
			form := rpPrefixForms[g.r.Intn(len(rpPrefixForms))]
			name := fmt.Sprintf(form, gi)
			if g.clean {
				form, name = "/g%d", fmt.Sprintf("/g%d", gi)
			}
			sub := pfx + "/" + strings.Trim(fmt.Sprintf(form, gi), "/")
			if !g.clean && g.r.Chance(1, 8) { // a prefix of two segments, or (with dynamic routes) one that ends in a variable
				if g.dynamic && g.r.Bool() {
					name, sub = fmt.Sprintf("/g%d/{gid}", gi), fmt.Sprintf("%s/g%d/%d", pfx, gi, 40+g.r.Intn(3))
				} else {
					name, sub = fmt.Sprintf("/g%d/v%d", gi, gi%3), fmt.Sprintf("%s/g%d/v%d", pfx, gi, gi%3)
				}
			}
			if depth > 0 && pfx != "" && g.r.Chance(1, 5) && !strings.HasSuffix(name, "/") {
				// a prefix text that already occurs in the enclosing prefix: the same segment again, or a leading part of it
				segs := strings.Split(strings.TrimPrefix(pfx, "/"), "/")
				seg := segs[g.r.Intn(len(segs))]
				if len(seg) > 2 && g.r.Bool() {
					seg = seg[:len(seg)-1]
				}
				if seg != "" {
					name, sub = "/"+seg, pfx+"/"+seg
				}
			}
			if depth == 0 && g.r.Chance(1, 8) { // a top-level group with a root prefix
				name, sub = g.r.Pick([]string{"", "/"}), pfx
			}
			body := g.block(depth+1, sub, g.r.Range(0, 3))
			grp := L(A("group"), S(name), LS(g.mws(2)), LS(body))
			if g.r.Chance(1, 4) { // the same scope through Router.Controller
				grp.List = append(grp.List, A("ctl"))
			}
			ss = append(ss, grp)
		default:
			ss = append(ss, g.route(pfx))
		}
	}
	return ss
}

// a REST resource registered in the current scope (Router.Resource): in the case text it is the group and the named route
// that Resource stands for, so the model needs no new statement
func (g *rpGen) resource(pfx string) Sx {
	g.nextRt++
	k := g.nextRt
	mainID := 100 + k
	g.hs = append(g.hs, L(I(mainID), L(ev(mainID*10))))
	base, sub := g.r.Pick([]string{"/", "", "/"}), pfx
	if g.r.Chance(1, 3) {
		gi := 90 + g.r.Intn(5)
		base, sub = fmt.Sprintf("/g%d/", gi), fmt.Sprintf("%s/g%d", pfx, gi)
	}
	kind, rpath, name, req := "rsi", "/", "rsi_index", sub+"/rsi"
	if g.dynamic && g.r.Bool() {
		kind, rpath, name, req = "rss", "{id}/", "rss_show", sub+"/rss/"+fmt.Sprint(g.r.Intn(3))
	}
	var later []Sx
	if g.r.Chance(1, 3) {
		later = g.mws(2)
	}
	rt := L(A("route"), SL([]string{"GET"}), S(rpath), I(mainID), L(), LS(later), S(name))
	g.reqs = append(g.reqs, L(S("GET"), S(req), L()))
	g.routeIx++
	return L(A("group"), S(base+kind), LS(g.mws(2)), L(rt), A("res"))
}

// aliasing scenario: a group whose middleware slice gets spare capacity (argument + Use + Use), a sub-group that appends into
// it and registers routes with and without middleware of their own, then a sibling sub-group / a further Use that appends again
func (g *rpGen) spareCapacity(pfx string) Sx {
	gi := 70 + g.r.Intn(9)
	p := fmt.Sprintf("%s/g%d", pfx, gi)
	var body []Sx
	for k := g.r.Range(1, 3); k > 0; k-- {
		body = append(body, L(A("use"), g.newMW()))
	}
	sub := func(n int) Sx {
		sp := fmt.Sprintf("%s/n%d", p, n)
		var b []Sx
		for k := g.r.Range(1, 2); k > 0; k-- {
			b = append(b, g.routeKind(sp, g.r.Intn(3) == 0))
		}
		return L(A("group"), S(fmt.Sprintf("/n%d", n)), LS([]Sx{g.newMW()}), LS(b))
	}
	body = append(body, sub(1))
	if g.r.Bool() {
		body = append(body, L(A("use"), g.newMW()))
	}
	body = append(body, sub(2), g.routeKind(p, false))
	return L(A("group"), S(fmt.Sprintf("/g%d", gi)), LS([]Sx{g.newMW()}), LS(body))
}

// routeKind: a route under the normalised prefix pfx, with or without middleware of its own
func (g *rpGen) routeKind(pfx string, own bool) Sx {
	g.nextRt++
	k := g.nextRt
	mainID := 100 + k
	g.hs = append(g.hs, L(I(mainID), L(ev(mainID*10))))
	path := fmt.Sprintf("/r%d", k)
	var mws []Sx
	if own {
		mws = []Sx{g.newMW()}
	}
	g.reqs = append(g.reqs, L(S("GET"), S(pfx+path), L()))
	g.routeIx++
	return L(A("route"), SL([]string{"GET"}), S(path), I(mainID), LS(mws), L(), S(""))
}

func (g *rpGen) route(pfx string) Sx {
	g.nextRt++
	k := g.nextRt
	mainID := 100 + k
	g.hs = append(g.hs, L(I(mainID), L(ev(mainID*10))))
	path := fmt.Sprintf("/r%d", k)
	reg := path
	switch g.r.Intn(5) {
	case 0:
		reg = fmt.Sprintf("r%d", k)
	case 1:
		if !g.clean {
			reg = path + "/"
		}
	}
	if pfx != "" && g.r.Chance(1, 10) { // a route path that repeats the prefix of its own groups is still prefixed
		reg, path = pfx+path, pfx+path
	}
	reqPath := pfx + path
	if g.dynamic && g.r.Chance(1, 4) { // a dynamic route (it goes through the route cache when caching is on)
		if g.r.Chance(1, 3) && !strings.HasSuffix(reg, "/") {
			// an optional tail: the route is also reached without it (the shortest matching path is the static start itself)
			reg = reg + g.r.Pick([]string{"[/{id}]", "[.html]"})
			if g.r.Bool() {
				reqPath += map[bool]string{true: "/7", false: ".html"}[strings.HasSuffix(reg, "{id}]")]
			}
		} else {
			reg, reqPath = reg+"/{id}", reqPath+"/"+fmt.Sprint(g.r.Intn(3))
			reg = strings.Replace(reg, "//{id}", "/{id}", 1)
		}
	}
	var later []Sx
	if g.r.Chance(1, 3) {
		later = g.mws(2)
	}
	// the methods of the route: mostly GET; sometimes another single method (the verb shortcuts), two methods, or all nine
	meths := []string{"GET"}
	switch g.r.Intn(10) {
	case 0:
		meths = []string{g.r.Pick(rtMethods)}
	case 1:
		meths = []string{"GET", "POST"}
	case 2:
		meths = []string{"PUT", "PATCH", "DELETE"}
	case 3:
		meths = append([]string{}, rtMethods...)
	}
	reqMethod := meths[g.r.Intn(len(meths))]
	s := L(A("route"), SL(meths), S(reg), I(mainID), LS(g.mws(2)), LS(later), S(""))
	if len(meths) == len(rtMethods) && len(later) == 0 && g.r.Bool() {
		s.List = append(s.List, A("any")) // Router.Any(path, main, mw...)
		g.reqs = append(g.reqs, L(S(reqMethod), S(reqPath), L()))
		g.routeIx++
		return s
	}
	switch g.r.Intn(8) {
	case 0: // the route carries its middleware when it is added (NewRoute().Use() then AddRoute / AttachTo)
		s.List = append(s.List, A("pre"))
	case 1:
		s.List = append(s.List, A("attach"))
	case 2, 3: // r.GET(path, main, mw...)
		s.List = append(s.List, A("short"))
	}
	g.reqs = append(g.reqs, L(S(reqMethod), S(reqPath), L()))
	if reqMethod == "GET" && g.r.Chance(1, 6) { // a HEAD request is answered by the GET route, with the same chain
		g.reqs = append(g.reqs, L(S("HEAD"), S(reqPath), L()))
	}
	g.routeIx++
	return s
}

func (g *rpGen) finish(opts []Sx, stmts []Sx) Sx {
	return L(A("rp"), LS(opts), LS(stmts), LS(g.hs), LS(g.reqs))
}

// ---------------- C12 ----------------
func c12Gen(r *Rng, tier string, i int) Sx {
	strict := r.Chance(1, 4)
	g := &rpGen{r: r, nextMW: 1, mwBody: mwOnce, depthMax: r.Range(0, 5), clean: strict, dynamic: r.Chance(1, 3)}
	stmts := g.block(0, "", r.Range(1, 6))
	if g.routeIx == 0 {
		stmts = append(stmts, g.route(""))
	}
	var opts []Sx
	if strict {
		opts = append(opts, L(A("strict")))
	}
	if g.dynamic && r.Bool() { // with the route cache: every request twice (the second one is served from the cached copy)
		opts = append(opts, L(A("cache"), I(r.Range(0, 4))))
		g.reqs = append(g.reqs, g.reqs...)
	}
	return g.finish(opts, stmts)
}

func rpClassify(c, obs Sx) []string {
	var labs []string
	xs := c.Lst()
	depth, groups, uses, routes := 0, 0, 0, 0
	var walk func(ss []Sx, d int)
	walk = func(ss []Sx, d int) {
		if d > depth {
			depth = d
		}
		for _, s := range ss {
			switch s.Head() {
			case "group":
				groups++
				walk(s.List[3].Lst(), d+1)
			case "use":
				uses++
			case "route":
				routes++
			}
		}
	}
	walk(xs[2].Lst(), 0)
	labs = append(labs, fmt.Sprintf("depth=%d", depth))
	if groups >= 2 {
		labs = append(labs, "groups>=2")
	}
	if uses > 0 {
		labs = append(labs, "use")
	}
	if groups >= 1 && routes >= 2 {
		labs = append(labs, "nt:group+routes")
	}
	s := obs.String()
	if strings.Contains(s, "regpanic") {
		labs = append(labs, "regpanic")
	}
	if strings.Contains(s, "(esc (p") {
		labs = append(labs, "escaped-panic")
	}
	return labs
}

// ---------------- C04 ----------------
// handler behaviours: no Next / once / twice, extra events
func c04Body(g *rpGen, id int) []Sx {
	ops := []Sx{ev(id * 10)}
	switch g.r.Intn(8) {
	case 0, 1: // does not call Next: the rest follows automatically
		if g.r.Bool() {
			ops = append(ops, ev(id*10+1))
		}
	case 2: // twice
		ops = append(ops, L(A("next")), ev(id*10+1), L(A("next")), ev(id*10+2))
	default:
		if g.r.Chance(1, 4) {
			ops = append(ops, ev(id*10+3))
		}
		ops = append(ops, L(A("next")), ev(id*10+1))
	}
	return ops
}

// a chain longer than the per-route limit: global middleware on top of large group and route chains (64..110 handlers);
// most handlers do not call Next (the chain advances by itself), a few outer ones do
func c04Long(r *Rng) Sx {
	nNext := r.Intn(4)
	g := &rpGen{r: r, nextMW: 1, depthMax: 1}
	g.mwBody = func(g *rpGen, id int) []Sx {
		if id <= nNext {
			return []Sx{ev(id * 10), L(A("next")), ev(id*10 + 1)}
		}
		if g.r.Chance(1, 5) {
			return []Sx{ev(id * 10), ev(id*10 + 1)}
		}
		return []Sx{ev(id * 10)}
	}
	many := func(n int) []Sx {
		var out []Sx
		for k := 0; k < n; k++ {
			out = append(out, g.newMW())
		}
		return out
	}
	ng := r.Range(3, 48)
	if r.Chance(1, 6) { // Router.Use has no limit: with the 62 middleware a route may have, the chain reaches 128 and more
		ng = r.Range(60, 90)
	}
	gm := r.Range(0, 30)
	rm := r.Range(64-ng-gm, 61-gm)
	if rm < 0 {
		rm = 0
	}
	var stmts []Sx
	for ng > 0 { // several Use calls
		k := r.Range(1, ng)
		stmts = append(stmts, LS(append([]Sx{A("use")}, many(k)...)))
		ng -= k
	}
	g.hs = append(g.hs, L(I(900), L(ev(9000))))
	route := L(A("route"), SL([]string{"GET"}), S("/long"), I(900), LS(many(rm)), L(), S(""))
	if gm > 0 {
		stmts = append(stmts, L(A("group"), S("/g"), LS(many(gm)), L(route)))
		g.reqs = append(g.reqs, L(S("GET"), S("/g/long"), L()))
	} else {
		stmts = append(stmts, route)
		g.reqs = append(g.reqs, L(S("GET"), S("/long"), L()))
	}
	g.reqs = append(g.reqs, L(S("GET"), S("/nope"), L()))
	return g.finish(nil, stmts)
}

func c04Gen(r *Rng, tier string, i int) Sx {
	if i%16 == 15 {
		return c04Long(r)
	}
	g := &rpGen{r: r, nextMW: 1, mwBody: c04Body, depthMax: r.Range(0, 4), dynamic: r.Chance(1, 3)}
	stmts := g.block(0, "", r.Range(1, 5))
	if g.routeIx == 0 {
		stmts = append(stmts, g.route(""))
	}
	// Use after the routes: global middleware added later still applies
	if r.Chance(1, 2) {
		if m := g.mws(2); len(m) > 0 {
			stmts = append(stmts, LS(append([]Sx{A("use")}, m...)))
		}
	}
	var opts []Sx
	na := r.Chance(1, 2)
	if na {
		opts = append(opts, L(A("na")))
	}
	// custom fallback handlers (they are chains too: may call Next), installed at any point of the program,
	// in particular before a later top-level Use
	insertAt := func(st Sx) {
		k := r.Intn(len(stmts) + 1)
		stmts = append(stmts[:k], append([]Sx{st}, stmts[k:]...)...)
	}
	if r.Chance(1, 3) {
		insertAt(LS(append([]Sx{A("nf")}, g.mwsFallback(404)...)))
	}
	if na && r.Chance(1, 3) {
		insertAt(LS(append([]Sx{A("nal")}, g.mwsFallback(405)...)))
	}
	if r.Chance(1, 8) { // HandleFallbackRoute: a "/*" route (for some or all methods, with middleware) takes what nothing else matches
		opts = append(opts, L(A("fb")))
		g.nextRt++
		id := 100 + g.nextRt
		g.hs = append(g.hs, L(I(id), L(ev(id*10))))
		ms := append([]string{}, rtMethods...)
		if r.Bool() {
			ms = []string{"GET", "HEAD"}
		}
		insertAt(L(A("route"), SL(ms), S("/*"), I(id), LS(g.mws(2)), L(), S("")))
		g.reqs = append(g.reqs, L(S("GET"), S("/zz/unmatched/deep"), L()), L(S("DELETE"), S("/zz/unmatched"), L()))
	}
	// 404 and 405 probes
	g.reqs = append(g.reqs, L(S("GET"), S("/zz/none"), L()))
	if r.Chance(1, 3) { // paths nobody expects (control characters, as a decoded %09 / %00 / %7F gives them): global middleware still runs
		g.reqs = append(g.reqs, L(S("GET"), S(r.Pick([]string{"/zz/no\tne", "/no\x00such/page", "/\x7f", "/zz/\r\n"})), L()))
	}
	if len(g.reqs) > 1 {
		first := g.reqs[0]
		if na {
			g.reqs = append(g.reqs, L(S("POST"), first.List[1], L()))
			if r.Chance(1, 3) {
				g.reqs = append(g.reqs, L(S("OPTIONS"), first.List[1], L()))
			}
		} else {
			g.reqs = append(g.reqs, L(S("POST"), first.List[1], L()))
		}
	}
	c := g.finish(opts, stmts)
	if r.Chance(1, 6) && len(g.reqs) > 0 {
		// late phase: global middleware added AFTER requests were served (possibly from the route cache), then the same requests again
		opts = append(opts, L(A("cache"), I(r.Intn(4))))
		var late []Sx
		for k := r.Range(1, 2); k > 0; k-- {
			late = append(late, L(A("use"), g.newMW()))
		}
		c = g.finish(opts, stmts)
		c.List = append(c.List, L(A("late"), LS(late), LS(g.reqs)))
	}
	return c
}

func (g *rpGen) mwsFallback(code int) []Sx {
	var out []Sx
	n := g.r.Range(1, 2)
	for k := 0; k < n; k++ {
		id := g.nextMW
		g.nextMW++
		ops := []Sx{ev(id * 10)}
		if k == n-1 {
			ops = append(ops, L(A("w"), L(A("st"), I(code))), L(A("w"), L(A("wr"), SB([]byte("fb")))))
		} else {
			ops = append(ops, L(A("next")), ev(id*10+1))
		}
		g.hs = append(g.hs, L(I(id), LS(ops)))
		out = append(out, I(id))
	}
	return out
}

// ---------------- C05 ----------------
// one route behind n-1 middleware (global / group / route), an aborting handler at a chosen position
// an abort, then a panic that escapes ServeHTTP (no hook), then further requests on the same router: the abort state of the
// first request must not be visible to them
func c05AfterPanic(r *Rng) Sx {
	kind := []Sx{L(A("abort")), L(A("abortthen")), L(A("abs"), I(403))}[r.Intn(3)]
	hs := []Sx{
		L(I(1), L(ev(10), L(A("isab")), L(A("next")), L(A("isab")), ev(11))),
		L(I(2), L(ev(20), L(A("next")), L(A("panic"), I(4)))),
		L(I(90), L(ev(900), ev(9090), kind, L(A("isab")))),
		L(I(3), L(ev(30), L(A("isab")), L(A("next")), ev(31))),
		L(I(91), L(ev(910), L(A("isab")))),
	}
	stmts := []Sx{L(A("use"), I(1)),
		L(A("route"), SL([]string{"GET"}), S("/x"), I(90), L(I(2)), L(), S("")),
		L(A("route"), SL([]string{"GET"}), S("/y"), I(91), L(I(3)), L(), S(""))}
	reqs := []Sx{L(S("GET"), S("/x"), L()), L(S("GET"), S("/y"), L())}
	for k := r.Intn(3); k > 0; k-- {
		reqs = append(reqs, L(S("GET"), S(r.Pick([]string{"/x", "/y", "/none"})), L()))
	}
	return L(A("rp"), L(), LS(stmts), LS(hs), LS(reqs))
}

func c05Gen(r *Rng, tier string, i int) Sx {
	if i%20 == 19 {
		return c05AfterPanic(r)
	}
	if i%20 == 18 {
		return c05Limit(r)
	}
	n := r.Range(1, 12)
	switch r.Intn(10) {
	case 0:
		n = r.Range(13, 40)
	case 1:
		n = r.Range(41, 63)
	}
	return c05Make(r, n, r.Intn(n), r.Intn(6), r.Intn(3), true)
}

// c05Limit: group + route middleware at and just over the limit of the abort sentinel (63 handlers), through every way of
// adding a route: beyond the limit the registration must be refused (a handler at index 63 would start "aborted")
func c05Limit(r *Rng) Sx {
	total := r.Pick2([]int{61, 62, 63, 64, 70}) // middleware of group + route (the main handler comes on top)
	ng := r.Range(1, total-1)
	var hs, grp, own []Sx
	for k := 1; k <= total; k++ {
		ops := []Sx{ev(k * 10), L(A("next"))}
		if k == total/2 {
			ops = []Sx{ev(k * 10), L(A("abort")), L(A("next"))}
		}
		hs = append(hs, L(I(k), LS(ops)))
		if k <= ng {
			grp = append(grp, I(k))
		} else {
			own = append(own, I(k))
		}
	}
	hs = append(hs, L(I(900), L(ev(9000), L(A("isab")))))
	route := L(A("route"), SL([]string{"GET"}), S("/x"), I(900), LS(own), L(), S(""))
	switch r.Intn(4) {
	case 0:
		route.List = append(route.List, A("pre"))
	case 1:
		route.List = append(route.List, A("attach"))
	case 2:
		route.List = append(route.List, A("short"))
	}
	return L(A("rp"), L(), L(L(A("group"), S("/g"), LS(grp), L(route))), LS(hs), L(L(S("GET"), S("/g/x"), L())))
}

// n = chain length (incl. main), pos = aborting handler, kind = abort flavour, when = before/after/without Next
func c05Make(r *Rng, n, pos, kind, when int, isab bool) Sx {
	var hs []Sx
	ids := make([]int, n)
	for k := 0; k < n; k++ {
		ids[k] = k + 1
	}
	ids[n-1] = 90 // main (middleware ids are 1..62)
	abortOps := func(id int) []Sx {
		marker := ev(9000 + id)
		switch kind {
		case 0:
			return []Sx{marker, L(A("abort"))}
		case 1:
			return []Sx{marker, L(A("abortthen"))}
		case 2:
			return []Sx{marker, L(A("abs"), I([]int{401, 403, 500, 204}[r.Intn(4)]))}
		case 4: // two aborts in one handler: the later AbortWithStatus still decides the status
			return []Sx{marker, L(A("abort")), L(A("abs"), I([]int{401, 503}[r.Intn(2)]))}
		case 5: // AbortWithStatus with a message (an error page, then the abort)
			return []Sx{marker, L(A("absm"), I([]int{401, 403, 500, 404}[r.Intn(4)]))}
		default:
			return []Sx{marker, L(A("abs"), I(403)), L(A("w"), L(A("st"), I(418)))}
		}
	}
	for k := 0; k < n; k++ {
		id := ids[k]
		ops := []Sx{ev(id * 10)}
		last := k == n-1
		if isab && r.Chance(1, 3) {
			ops = append(ops, L(A("isab")))
		}
		if k == pos {
			switch {
			case when == 0 || last: // abort before Next (and call Next afterwards anyway, sometimes)
				ops = append(ops, abortOps(id)...)
				if isab {
					ops = append(ops, L(A("isab")))
				}
				if !last && r.Bool() {
					ops = append(ops, L(A("next")))
				}
				ops = append(ops, ev(id*10+1))
			case when == 1: // after Next
				ops = append(ops, L(A("next")))
				ops = append(ops, abortOps(id)...)
				ops = append(ops, ev(id*10+1))
			default: // without Next
				ops = append(ops, abortOps(id)...)
				ops = append(ops, ev(id*10+1))
			}
		} else {
			callsNext := !last && r.Chance(3, 4)
			if r.Chance(1, 6) {
				ops = append(ops, L(A("w"), L(A("st"), I([]int{202, 201}[r.Intn(2)]))))
			}
			if r.Chance(1, 8) { // an error is recorded (no OnError handler is installed): it changes nothing about the abort
				ops = append(ops, L(A("ae"), I(id)))
			}
			if callsNext {
				ops = append(ops, L(A("next")))
			}
			if isab && r.Chance(1, 3) {
				ops = append(ops, L(A("isab")))
			}
			if callsNext && k < pos && r.Chance(1, 8) { // a resumed outer handler aborts again, with a status
				ops = append(ops, L(A("abs"), I([]int{503, 409}[r.Intn(2)])))
			}
			if r.Chance(1, 6) {
				ops = append(ops, L(A("w"), L(A("wr"), SB([]byte("x")))))
			}
			if r.Chance(1, 5) { // a provisional status, recorded but not committed
				ops = append(ops, L(A("w"), L(A("st"), I([]int{202, 201, 404}[r.Intn(3)]))))
			}
			ops = append(ops, ev(id*10+1))
		}
		hs = append(hs, L(I(id), LS(ops)))
	}
	// distribute the n-1 middleware over global / group / route
	mw := ids[:n-1]
	a := r.Intn(len(mw) + 1)
	b := a + r.Intn(len(mw)-a+1)
	toSx := func(xs []int) []Sx {
		var out []Sx
		for _, x := range xs {
			out = append(out, I(x))
		}
		return out
	}
	var stmts []Sx
	if a > 0 {
		stmts = append(stmts, LS(append([]Sx{A("use")}, toSx(mw[:a])...)))
	}
	route := L(A("route"), SL([]string{"GET"}), S("/x"), I(90), LS(toSx(mw[b:])), L(), S(""))
	if b > a {
		stmts = append(stmts, L(A("group"), S("/g"), LS(toSx(mw[a:b])), L(route)))
	} else {
		stmts = append(stmts, L(A("group"), S("/g"), L(), L(route)))
	}
	reqs := []Sx{L(S("GET"), S("/g/x"), L())}
	return L(A("rp"), L(), LS(stmts), LS(hs), LS(reqs))
}

func c05Classify(c, obs Sx) []string {
	xs := c.Lst()
	n := len(xs[3].Lst())
	var labs []string
	switch {
	case n <= 12:
		labs = append(labs, "len<=12")
	case n <= 40:
		labs = append(labs, "len<=40")
	default:
		labs = append(labs, "len<=63")
	}
	s := c.String()
	if strings.Contains(s, "(abs ") {
		labs = append(labs, "abort-with-status")
	}
	if strings.Contains(s, "(abort)") || strings.Contains(s, "(abortthen)") {
		labs = append(labs, "abort")
	}
	if strings.Contains(s, "(isab)") {
		labs = append(labs, "isab-samples")
	}
	if n >= 2 {
		labs = append(labs, "nt:abort-in-chain>=2")
	}
	if strings.Contains(obs.String(), "(esc (p") {
		labs = append(labs, "escaped-panic")
	}
	return labs
}

// exhaustive: every chain length 1..63 x every position of the aborting handler x before/after/without Next (plain Abort)
func c05Exhaustive(emit func(Sx)) {
	r := NewRng(12345)
	for n := 1; n <= 63; n++ {
		for pos := 0; pos < n; pos++ {
			for when := 0; when < 3; when++ {
				emit(c05Make(r.Fork(), n, pos, 0, when, n <= 31))
			}
		}
	}
}

func init() {
	props["C12"] = &Prop{Gen: c12Gen, Exec: rpExec, Classify: rpClassify}
	props["C04"] = &Prop{Gen: c04Gen, Exec: rpExec, Classify: rpClassify}
	props["C05"] = &Prop{Gen: c05Gen, Exec: rpExec, Classify: c05Classify, Exhaustive: c05Exhaustive}
}
