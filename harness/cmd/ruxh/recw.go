package main

import (
	"bufio"
	"io"
	"net"
	"net/http"
)

// recWriter is a recording http.ResponseWriter + http.Flusher whose Write can be scripted to
// accept only a prefix (short write with io.ErrShortWrite).
type recWriter struct {
	hdr    http.Header
	script []int
	log    []Sx
	body   []byte
	code   int
	nWH    int
	// header snapshot at the first WriteHeader
	snap http.Header
}

func newRecWriter(script []int) *recWriter {
	return &recWriter{hdr: http.Header{}, script: script}
}

func (w *recWriter) Header() http.Header { return w.hdr }

// ReadFrom makes the recording writer an io.ReaderFrom, like net/http's own response writer: data copied this way is
// recorded as one write (rux's writer has no ReadFrom of its own, so this is only reached if it delegates to it)
func (w *recWriter) ReadFrom(r io.Reader) (int64, error) {
	b, err := io.ReadAll(r)
	n, _ := w.Write(b)
	return int64(n), err
}

// WriteString makes the recording writer an io.StringWriter, like net/http's own response writer (rux's writer is none,
// so this is only reached if it delegates to it)
func (w *recWriter) WriteString(s string) (int, error) { return w.Write([]byte(s)) }

// Hijack makes the recording writer an http.Hijacker (no real connection is involved)
func (w *recWriter) Hijack() (net.Conn, *bufio.ReadWriter, error) {
	w.log = append(w.log, L(A("hijacked")))
	return nil, nil, nil
}

func (w *recWriter) WriteHeader(code int) {
	if w.nWH == 0 {
		w.code = code
		w.snap = w.hdr.Clone()
	}
	w.nWH++
	w.log = append(w.log, L(A("wh"), I(code)))
}

func (w *recWriter) Write(b []byte) (int, error) {
	n := len(b)
	var err error
	if len(w.script) > 0 {
		if w.script[0] < n {
			n = w.script[0]
			err = io.ErrShortWrite
		}
		w.script = w.script[1:]
	}
	w.body = append(w.body, b[:n]...)
	w.log = append(w.log, L(A("w"), SB(b[:n])))
	return n, err
}

func (w *recWriter) Flush() { w.log = append(w.log, L(A("f"))) }
