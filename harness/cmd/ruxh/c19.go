package main

import (
	"bytes"
	"crypto/md5"
	"encoding/json"
	"encoding/xml"
	"fmt"
	"io"
	"net/http"
	"net/url"
	"reflect"
	"strings"
	"testing/iotest"

	"github.com/gookit/rux"
	"github.com/gookit/rux/pkg/render"
)

// C19: response helpers emit the given status, content type and a decodable body.
// (h helper status vk preset)      helper: text html json jsonbytes jsonp xml blob stream nocontent redirect httperror
//     obs: (h status 'content-type <'body | (dec ok|diff|err) | (enc-error)> nerr)
// (auto 'accept vk preset)         render.Auto
//     obs: (auto 'content-type <dec> err?)

type c19Item struct {
	XMLName xml.Name `json:"-" xml:"item"`
	ID      int      `json:"id" xml:"id"`
	Title   string   `json:"title" xml:"title"`
	Tags    []string `json:"tags" xml:"tags"`
}

var c19Strs = []string{"hello", "<b>bold</b> & more", "héllo wörld ✓", "tab\tand\nnewline", "", "quote\"s' and \\", " sep", "a=b&c=d", "a\xffb\x00c", strings.Repeat("z", 70000)}

// JSONP callbacks (the case's value number picks one)
var c19Cbs = []string{"cb", "a.b", "$x", "f_1"}

func c19Value(vk int) any {
	switch vk % 6 {
	case 0:
		return c19Strs[(vk/6)%len(c19Strs)]
	case 1:
		return map[string]any{"a": 1, "s": c19Strs[(vk/6)%len(c19Strs)], "n": map[string]any{"deep": []any{1, "x", true, nil}}}
	case 2:
		return c19Item{ID: vk, Title: c19Strs[(vk/6)%len(c19Strs)], Tags: []string{"x", "<y>"}}
	case 3:
		return []byte(c19Strs[(vk/6)%len(c19Strs)])
	case 4:
		return map[string]any{"bad": make(chan int)} // cannot be encoded
	default:
		return []int{1, 2, 3}
	}
}

// c19Enc: can the value be encoded (oracle input of the model: the encoders are assumed, not modelled)
func c19Enc(vk int) (bool, bool) {
	v := c19Value(vk)
	_, ej := json.Marshal(v)
	_, ex := xml.Marshal(v)
	return ej == nil, ex == nil
}

var c19Helpers = []string{"htmlstring", "text", "html", "json", "jsonbytes", "jsonp", "xml", "blob", "stream", "nocontent", "redirect", "httperror", "streamerr", "xmlindent"}
var c19Renderers = []string{"text", "plain", "textbytes", "html", "htmlbytes", "blob", "json", "jsonindented", "jsonp", "xml", "xmlpretty"}
var c19Statuses = []int{200, 201, 202, 400, 404, 500, 0, 302, 307, 299, 499, 520, 599, 204, 304, 101, 200, 200}
var c19Accepts = []string{"", "application/json", "text/xml, application/json", "text/plain, application/json", "application/xml", "text/xml", "text/html, text/plain",
	"image/png", "image/png, text/plain;q=0.5", "*/*", "application/json;q=0.9, text/plain", " text/plain , application/xml", "text/html", ",,application/xml", "application/xml, text/html",
	"text/csv;q=0.9, application/json", "*/*;q=0.1, text/xml", "image/png;q=1;level=2 , text/plain;q=0.5", "text/csv; q=0.9,text/html;q=0.8, application/json",
	"application/json ;q=0.9", "text/csv, application/xml\t; q=0.5, text/plain", "text/plain ; charset=utf-8",
	"a/b, c/d, e/f, g/h, i/j, application/json", "a/1,a/2,a/3,a/4,a/5,a/6,a/7,a/8,a/9,a/10, text/xml, application/json", "TEXT/PLAIN, application/json"}

func c19Gen(r *Rng, tier string, i int) Sx {
	preset := A("none")
	if r.Chance(1, 3) {
		preset = S(r.Pick([]string{"application/custom", "text/csv; charset=utf-8", "text/csv", "text/event-stream", "text/javascript", "text/xml", "text/x-json", "TEXT/plain"}))
	}
	vk := r.Intn(60)
	encj, encx := c19Enc(vk)
	if i%4 == 3 {
		return L(A("auto"), S(r.Pick(c19Accepts)), I(vk), preset, B(encj), B(encx))
	}
	if i%4 == 2 {
		return L(A("rdr"), A(r.Pick(c19Renderers)), I(vk), preset, B(encj), B(encx))
	}
	h := L(A("h"), A(r.Pick(c19Helpers)), I(c19Statuses[r.Intn(len(c19Statuses))]), I(vk), preset, B(encj), B(encx))
	if r.Chance(1, 4) { // an earlier handler has recorded another status (nothing written yet): the helper's status wins
		h.List = append(h.List, I(r.Pick2([]int{500, 404, 204, 201, 401, 200})))
	}
	return h
}

var c19CurCb = "cb"

func c19Decoded(helper string, v any, body []byte) Sx {
	switch helper {
	case "json", "jsonp":
		b := body
		if helper == "jsonp" {
			s := string(body)
			cb := c19CurCb
			if !strings.HasPrefix(s, cb+"(") || !strings.HasSuffix(s, ");") {
				return L(A("dec"), A("diff"))
			}
			b = []byte(s[len(cb)+1 : len(s)-2])
		}
		var got, want any
		if err := json.Unmarshal(b, &got); err != nil {
			return L(A("dec"), A("err"))
		}
		wb, err := json.Marshal(v)
		if err != nil {
			return L(A("dec"), A("err"))
		}
		_ = json.Unmarshal(wb, &want)
		if reflect.DeepEqual(got, want) {
			return L(A("dec"), A("ok"))
		}
		return L(A("dec"), A("diff"))
	case "xml":
		it, ok := v.(c19Item)
		if !ok {
			return L(A("dec"), A("na"))
		}
		var got c19Item
		if err := xml.Unmarshal(body, &got); err != nil {
			return L(A("dec"), A("err"))
		}
		// (the reference goes through the codec too: encoding/xml replaces bytes that are not valid UTF-8)
		var want c19Item
		if wb, err := xml.Marshal(it); err != nil || xml.Unmarshal(wb, &want) != nil {
			return L(A("dec"), A("err"))
		}
		got.XMLName, want.XMLName = xml.Name{}, xml.Name{}
		if reflect.DeepEqual(got, want) {
			return L(A("dec"), A("ok"))
		}
		return L(A("dec"), A("diff"))
	}
	return c19Body(body)
}

// c19Body: a long body is reported by its length and digest
func c19Body(b []byte) Sx {
	if len(b) > 2048 {
		return L(A("long"), I(len(b)), A(fmt.Sprintf("%x", md5.Sum(b))))
	}
	return SB(b)
}

func c19Exec(c Sx) (out Sx) {
	defer func() {
		if e := recover(); e != nil {
			if s, ok := e.(string); ok && strings.HasPrefix(s, "c19:") {
				panic(e)
			}
			out = L(A(c.Head()), A("panic"))
		}
	}()
	switch c.Head() {
	case "h":
		helper, status, vk := c.List[1].Sym(), c.List[2].Int(), c.List[3].Int()
		c19CurCb = c19Cbs[vk%4]
		v := c19Value(vk)
		if ej, ex := c19Enc(vk); B(ej).Atom != c.List[5].Atom || B(ex).Atom != c.List[6].Atom {
			panic("c19: inconsistent encodability oracle")
		}
		str := c19Strs[vk%len(c19Strs)]
		nerr := 0
		r := rux.New()
		r.POST("/x", func(ctx *rux.Context) {
			if c.List[4].Atom != "none" {
				ctx.SetHeader("Content-Type", c.List[4].Str())
			}
			if len(c.List) > 7 {
				ctx.SetStatus(c.List[7].Int())
			}
			switch helper {
			case "text":
				ctx.Text(status, str)
			case "html":
				ctx.HTML(status, []byte(str))
			case "htmlstring":
				ctx.HTMLString(status, str)
			case "json":
				ctx.JSON(status, v)
			case "jsonbytes":
				ctx.JSONBytes(status, []byte(str))
			case "jsonp":
				ctx.JSONP(status, c19Cbs[vk%4], v)
			case "xml":
				ctx.XML(status, v)
			case "blob":
				ctx.Blob(status, "application/x-blob", []byte(str))
			case "stream":
				// readers of every legal shape: with WriteTo, plain, data together with io.EOF, one byte at a time
				var rd io.Reader = bytes.NewReader([]byte(str))
				switch vk % 5 {
				case 4: // a strings.Reader: its WriteTo goes through io.WriteString
					rd = strings.NewReader(str)
				case 1:
					rd = struct{ io.Reader }{bytes.NewReader([]byte(str))}
				case 2:
					rd = iotest.DataErrReader(struct{ io.Reader }{bytes.NewReader([]byte(str))})
				case 3:
					rd = iotest.OneByteReader(struct{ io.Reader }{bytes.NewReader([]byte(str))})
				}
				ctx.Stream(status, "application/x-stream", rd)
			case "streamerr": // the reader fails after delivering its data: the failure goes to the error list
				ctx.Stream(status, "application/x-stream", io.MultiReader(bytes.NewReader([]byte(str)), iotest.ErrReader(io.ErrUnexpectedEOF)))
			case "xmlindent":
				ctx.XML(status, v, "  ")
			case "nocontent":
				ctx.NoContent()
			case "redirect":
				if status >= 300 && status < 400 {
					ctx.Redirect("/to", status)
				} else {
					ctx.Redirect("/to")
				}
			case "httperror":
				ctx.HTTPError(str, status)
			default:
				panic("c19: bad helper")
			}
			nerr = len(ctx.Errors)
		})
		w := newRecWriter(nil)
		req := &http.Request{Method: "POST", URL: &url.URL{Path: "/x"}, Header: http.Header{}, Proto: "HTTP/1.1", ProtoMajor: 1, ProtoMinor: 1}
		r.ServeHTTP(w, req)
		ct := w.snap.Get("Content-Type")
		var body Sx
		switch helper {
		case "json", "jsonp", "xml", "xmlindent":
			if nerr > 0 {
				body = L(A("enc-error"))
			} else {
				body = c19Decoded(strings.TrimSuffix(helper, "indent"), v, w.body)
			}
		default:
			body = c19Body(w.body)
		}
		if w.nWH != 1 { // a helper commits the header once
			return L(A("h"), L(A("header-commits"), I(w.nWH)), S(ct), body, I(nerr), S(w.snap.Get("Location")))
		}
		return L(A("h"), I(w.code), S(ct), body, I(nerr), S(w.snap.Get("Location")))
	case "rdr":
		name, vk := c.List[1].Sym(), c.List[2].Int()
		c19CurCb = c19Cbs[vk%4]
		v := c19Value(vk)
		if ej, ex := c19Enc(vk); B(ej).Atom != c.List[4].Atom || B(ex).Atom != c.List[5].Atom {
			panic("c19: inconsistent encodability oracle")
		}
		str := c19Strs[vk%len(c19Strs)]
		w := newRecWriter(nil)
		if c.List[3].Atom != "none" {
			w.hdr.Set("Content-Type", c.List[3].Str())
		}
		var err error
		switch name {
		case "text":
			err = render.Text(w, str)
		case "plain":
			err = render.Plain(w, str)
		case "textbytes":
			err = render.TextBytes(w, []byte(str))
		case "html":
			err = render.HTML(w, str)
		case "htmlbytes":
			err = render.HTMLBytes(w, []byte(str))
		case "blob":
			err = render.Blob(w, "application/x-blob", []byte(str))
		case "json":
			err = render.JSON(w, v)
		case "jsonindented":
			if vk%2 == 0 {
				err = render.JSONIndented(w, v)
			} else {
				err = render.NewJSONIndented().Render(w, v)
			}
		case "jsonp":
			err = render.JSONP(c19Cbs[vk%4], v, w)
		case "xml":
			err = render.XML(w, v)
		case "xmlpretty":
			err = render.XMLPretty(w, v)
		default:
			panic("c19: bad renderer")
		}
		var body Sx
		switch name {
		case "json", "jsonindented", "jsonp", "xml", "xmlpretty":
			if err != nil {
				body = L(A("enc-error"))
			} else {
				kind := map[string]string{"json": "json", "jsonindented": "json", "jsonp": "jsonp", "xml": "xml", "xmlpretty": "xml"}[name]
				body = c19Decoded(kind, v, w.body)
			}
		default:
			body = c19Body(w.body)
		}
		return L(A("rdr"), S(w.hdr.Get("Content-Type")), body, B(err != nil))
	case "auto":
		accept, vk := c.List[1].Str(), c.List[2].Int()
		v := c19Value(vk)
		if ej, ex := c19Enc(vk); B(ej).Atom != c.List[4].Atom || B(ex).Atom != c.List[5].Atom {
			panic("c19: inconsistent encodability oracle")
		}
		w := newRecWriter(nil)
		if c.List[3].Atom != "none" {
			w.hdr.Set("Content-Type", c.List[3].Str())
		}
		req := &http.Request{Method: "GET", URL: &url.URL{Path: "/x"}, Header: http.Header{}}
		if accept != "" {
			req.Header.Set("Accept", accept)
		}
		err := render.Auto(w, req, v)
		kind := "none"
		body := string(w.body)
		switch {
		case len(w.body) == 0:
			kind = "empty"
		case strings.HasPrefix(body, xml.Header):
			kind = "xml"
		case func() bool { var x any; return json.Unmarshal(w.body, &x) == nil }():
			kind = "json"
		default:
			kind = "text"
		}
		return L(A("auto"), S(w.hdr.Get("Content-Type")), A(kind), B(err != nil))
	}
	panic("c19: bad case")
}

func c19Classify(c, obs Sx) []string {
	labs := []string{c.Head()}
	if c.Head() == "rdr" {
		labs = append(labs, "renderer="+c.List[1].Atom)
		if c.List[3].Atom != "none" {
			labs = append(labs, "nt:preset-content-type")
		}
	} else if c.Head() == "h" {
		labs = append(labs, "helper="+c.List[1].Atom)
		if c.List[4].Atom != "none" {
			labs = append(labs, "nt:preset-content-type")
		}
	} else {
		labs = append(labs, "nt:negotiation")
	}
	if strings.Contains(obs.String(), "enc-error") {
		labs = append(labs, "encode-error")
	}
	return labs
}

func init() {
	props["C19"] = &Prop{Gen: c19Gen, Exec: c19Exec, Classify: c19Classify}
}
