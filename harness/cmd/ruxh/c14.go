package main

import (
	"fmt"

	"github.com/gookit/rux"
)

// C14 (a): histories of Set/Get/Has/Delete/Len against rux.NewCachedRoutes.
// case: (c14 <cap> ((s k v) (g k) (h k) (d k) (l) ...))
// obs : ((<res> (<keys in recency order>)) ...)   res = u | none | (v n) | t | f | (n len)

var c14Routes []*rux.Route
var c14RouteIdx = map[*rux.Route]int{}

func c14Route(v int) *rux.Route {
	for len(c14Routes) <= v {
		rt := rux.NewRoute(fmt.Sprint("/v", len(c14Routes)), func(c *rux.Context) {})
		c14RouteIdx[rt] = len(c14Routes)
		c14Routes = append(c14Routes, rt)
	}
	return c14Routes[v]
}

var c14Keys = []string{"a", "b", "c", "GET/u/1", "GET/u/2", "POST/u/1", "", "é", "a/b"}

func c14Gen(r *Rng, tier string, i int) Sx {
	if i%300 == 299 { // a large cache filled past its capacity, in order: the oldest keys go, one by one
		cap := r.Pick2([]int{100, 255, 256, 1000})
		var ops []Sx
		for k := 0; k < cap+20; k++ {
			ops = append(ops, L(A("s"), S(fmt.Sprintf("GET/k/%d", k)), I(k%50)))
			if k%97 == 5 {
				ops = append(ops, L(A("g"), S(fmt.Sprintf("GET/k/%d", k/2))))
			}
		}
		ops = append(ops, L(A("l")), L(A("h"), S("GET/k/0")), L(A("h"), S(fmt.Sprintf("GET/k/%d", cap+19))), L(A("g"), S("GET/k/21")))
		return L(A("c14"), I(cap), LS(ops))
	}
	cap := r.Intn(5)
	if r.Chance(1, 20) {
		cap = r.Range(5, 9)
	}
	nk := r.Range(2, 6)
	off := r.Intn(len(c14Keys))
	nops := r.Range(1, 60)
	if i%10 == 0 {
		nops = r.Range(1, 8)
	}
	ops := make([]Sx, 0, nops)
	for j := 0; j < nops; j++ {
		k := S(c14Keys[(off+r.Intn(nk))%len(c14Keys)])
		switch r.Intn(10) {
		case 0, 1, 2, 3:
			ops = append(ops, L(A("s"), k, I(r.Intn(50))))
		case 4, 5, 6:
			ops = append(ops, L(A("g"), k))
		case 7:
			ops = append(ops, L(A("h"), k))
		case 8:
			ops = append(ops, L(A("d"), k))
		default:
			ops = append(ops, L(A("l")))
		}
	}
	return L(A("c14"), I(cap), LS(ops))
}

func c14Exec(c Sx) Sx {
	if c.Head() == "rt" {
		return c14rExec(c)
	}
	xs := c.Lst()
	cap := xs[1].Int()
	cache := rux.NewCachedRoutes(cap)
	var out []Sx
	for _, op := range xs[2].Lst() {
		var res Sx
		switch op.Head() {
		case "s":
			res = A("u")
			if !cache.Set(op.List[1].Str(), c14Route(op.List[2].Int())) { // Set reports true, always
				res = A("set-reports-false")
			}
		case "g":
			rt, ok := cache.Get(op.List[1].Str())
			if ok {
				res = L(A("v"), I(c14RouteIdx[rt]))
			} else {
				res = A("none")
			}
		case "h":
			res = B(cache.Has(op.List[1].Str()))
		case "d":
			res = B(cache.Delete(op.List[1].Str()))
		case "l":
			res = L(A("n"), I(cache.Len()))
		default:
			panic("c14: bad op " + op.String())
		}
		out = append(out, L(res, SL(cache.VerifKeys())))
	}
	return LS(out)
}

func c14Classify(c, obs Sx) []string {
	if c.Head() == "rt" {
		return c14rClassify(c, obs)
	}
	xs := c.Lst()
	cap := xs[1].Int()
	labs := []string{fmt.Sprintf("cap=%d", cap)}
	ops := xs[2].Lst()
	switch {
	case len(ops) <= 8:
		labs = append(labs, "len<=8")
	case len(ops) <= 30:
		labs = append(labs, "len<=30")
	default:
		labs = append(labs, "len>30")
	}
	evict, hit, del := false, false, false
	prevLen := 0
	if obs.IsL {
		for i, o := range obs.List {
			if !o.IsL || len(o.List) != 2 {
				continue
			}
			keys := o.List[1]
			n := 0
			if keys.IsL {
				n = len(keys.List)
			}
			if i < len(ops) {
				switch ops[i].Head() {
				case "s":
					if n == prevLen && prevLen == cap && cap > 0 && o.List[0].Atom == "u" {
						// either replace or evict: a new key into a full cache keeps the length
						evict = true
					}
				case "g", "h":
					if o.List[0].IsL || o.List[0].Atom == "t" {
						hit = true
					}
				case "d":
					if o.List[0].Atom == "t" {
						del = true
					}
				}
			}
			prevLen = n
		}
	}
	if evict {
		labs = append(labs, "full-set")
	}
	if hit {
		labs = append(labs, "hit")
	}
	if del {
		labs = append(labs, "delete-hit")
	}
	if evict && hit {
		labs = append(labs, "nt:full-set+hit")
	}
	return labs
}

// exhaustive small scope: all histories of length <= 5 over 2 keys x cap <= 2 (ops: set v0/v1, get, has, del, len)
func c14Exhaustive(emit func(Sx)) {
	keys := []string{"a", "b"}
	var alphabet []Sx
	for _, k := range keys {
		alphabet = append(alphabet, L(A("s"), S(k), I(0)), L(A("s"), S(k), I(1)), L(A("g"), S(k)), L(A("d"), S(k)))
	}
	alphabet = append(alphabet, L(A("h"), S("a")), L(A("l")))
	var rec func(prefix []Sx, depth int)
	for cap := 0; cap <= 2; cap++ {
		rec = func(prefix []Sx, depth int) {
			if len(prefix) > 0 {
				ops := make([]Sx, len(prefix))
				copy(ops, prefix)
				emit(L(A("c14"), I(cap), LS(ops)))
			}
			if depth == 0 {
				return
			}
			for _, a := range alphabet {
				rec(append(prefix, a), depth-1)
			}
		}
		rec(nil, 4)
	}
}

func init() {
	props["C14"] = &Prop{Gen: c14GenMixed, Exec: c14Exec, Classify: c14Classify, Exhaustive: c14Exhaustive}
}

func c14GenMixed(r *Rng, tier string, i int) Sx {
	// router-level histories (part b) are added in c14r.go
	if c14rGen != nil && i%3 == 2 {
		return c14rGen(r, tier, i)
	}
	return c14Gen(r, tier, i)
}

var c14rGen func(r *Rng, tier string, i int) Sx
var c14rExec = func(c Sx) Sx { panic("c14r not built") }
var c14rClassify = func(c, obs Sx) []string { return nil }
