package main

// Rng is splitmix64; every random choice of the harness derives from one seed.
type Rng struct{ s uint64 }

func NewRng(seed uint64) *Rng { return &Rng{s: seed} }

func (r *Rng) Next() uint64 {
	r.s += 0x9e3779b97f4a7c15
	z := r.s
	z = (z ^ (z >> 30)) * 0xbf58476d1ce4e5b9
	z = (z ^ (z >> 27)) * 0x94d049bb133111eb
	return z ^ (z >> 31)
}

// Intn returns a value in [0, n).
func (r *Rng) Intn(n int) int {
	if n <= 0 {
		return 0
	}
	return int(r.Next() % uint64(n))
}

// Range returns a value in [lo, hi].
func (r *Rng) Range(lo, hi int) int { return lo + r.Intn(hi-lo+1) }

func (r *Rng) Bool() bool { return r.Next()&1 == 1 }

// Chance is true with probability num/den.
func (r *Rng) Chance(num, den int) bool { return r.Intn(den) < num }

func (r *Rng) Pick(xs []string) string { return xs[r.Intn(len(xs))] }

// Fork derives an independent generator (one per case, so a case replays alone).
func (r *Rng) Fork() *Rng { return NewRng(r.Next()) }

// Pick2 picks one of the ints
func (r *Rng) Pick2(xs []int) int { return xs[r.Intn(len(xs))] }
