package main

import (
	"fmt"
	"strconv"
	"strings"
	"unicode/utf8"
)

// Sx is the tiny S-expression format shared with the OCaml driver.
type Sx struct {
	Atom string
	List []Sx
	IsL  bool
}

func A(s string) Sx { return Sx{Atom: s} }
func I(i int) Sx    { return Sx{Atom: strconv.Itoa(i)} }
func B(b bool) Sx {
	if b {
		return A("t")
	}
	return A("f")
}
func L(xs ...Sx) Sx { return Sx{List: xs, IsL: true} }
func LS(xs []Sx) Sx { return Sx{List: xs, IsL: true} }

// S encodes a Go string as a code point atom; invalid UTF-8 bytes b become 0x110000+b.
func S(s string) Sx {
	var sb strings.Builder
	sb.WriteByte('\'')
	first := true
	for i := 0; i < len(s); {
		r, n := utf8.DecodeRuneInString(s[i:])
		cp := int(r)
		if r == utf8.RuneError && n == 1 {
			cp = 0x110000 + int(s[i])
		}
		if !first {
			sb.WriteByte('.')
		}
		first = false
		sb.WriteString(strconv.FormatInt(int64(cp), 16))
		i += n
	}
	return A(sb.String())
}

func SL(ss []string) Sx {
	xs := make([]Sx, len(ss))
	for i, s := range ss {
		xs[i] = S(s)
	}
	return LS(xs)
}

func (x Sx) String() string {
	var sb strings.Builder
	x.write(&sb)
	return sb.String()
}

func (x Sx) write(sb *strings.Builder) {
	if !x.IsL {
		sb.WriteString(x.Atom)
		return
	}
	sb.WriteByte('(')
	for i, y := range x.List {
		if i > 0 {
			sb.WriteByte(' ')
		}
		y.write(sb)
	}
	sb.WriteByte(')')
}

// Str decodes a string atom.
func (x Sx) Str() string {
	if x.IsL || len(x.Atom) == 0 || x.Atom[0] != '\'' {
		panic(fmt.Sprintf("sx: string atom expected, got %s", x.String()))
	}
	if len(x.Atom) == 1 {
		return ""
	}
	var out []byte
	for _, h := range strings.Split(x.Atom[1:], ".") {
		v, err := strconv.ParseInt(h, 16, 64)
		if err != nil {
			panic("sx: bad string atom " + x.Atom)
		}
		if v >= 0x110000 {
			out = append(out, byte(v-0x110000))
		} else {
			out = utf8.AppendRune(out, rune(v))
		}
	}
	return string(out)
}

func (x Sx) Int() int {
	if x.IsL {
		panic("sx: int expected, got " + x.String())
	}
	v, err := strconv.Atoi(x.Atom)
	if err != nil {
		panic("sx: int expected, got " + x.Atom)
	}
	return v
}

func (x Sx) Sym() string {
	if x.IsL {
		panic("sx: symbol expected, got " + x.String())
	}
	return x.Atom
}

func (x Sx) Bool() bool { return x.Sym() == "t" }

func (x Sx) Lst() []Sx {
	if !x.IsL {
		panic("sx: list expected, got " + x.Atom)
	}
	return x.List
}

func (x Sx) Strs() []string {
	var out []string
	for _, y := range x.Lst() {
		out = append(out, y.Str())
	}
	return out
}

// Head returns the leading symbol of a list form.
func (x Sx) Head() string {
	if !x.IsL || len(x.List) == 0 {
		return ""
	}
	return x.List[0].Atom
}

func ParseSx(s string) (Sx, error) {
	p := &sxParser{s: s}
	x, err := p.item()
	if err != nil {
		return Sx{}, err
	}
	p.skip()
	if p.pos != len(p.s) {
		return Sx{}, fmt.Errorf("sx: trailing input")
	}
	return x, nil
}

type sxParser struct {
	s   string
	pos int
}

func (p *sxParser) skip() {
	for p.pos < len(p.s) && (p.s[p.pos] == ' ' || p.s[p.pos] == '\t' || p.s[p.pos] == '\n' || p.s[p.pos] == '\r') {
		p.pos++
	}
}

func (p *sxParser) item() (Sx, error) {
	p.skip()
	if p.pos >= len(p.s) {
		return Sx{}, fmt.Errorf("sx: unexpected end")
	}
	if p.s[p.pos] == '(' {
		p.pos++
		xs := []Sx{}
		for {
			p.skip()
			if p.pos >= len(p.s) {
				return Sx{}, fmt.Errorf("sx: missing )")
			}
			if p.s[p.pos] == ')' {
				p.pos++
				return LS(xs), nil
			}
			y, err := p.item()
			if err != nil {
				return Sx{}, err
			}
			xs = append(xs, y)
		}
	}
	if p.s[p.pos] == ')' {
		return Sx{}, fmt.Errorf("sx: unexpected )")
	}
	st := p.pos
	for p.pos < len(p.s) && !strings.ContainsRune(" ()\t\n\r", rune(p.s[p.pos])) {
		p.pos++
	}
	return A(p.s[st:p.pos]), nil
}

// SB encodes a byte string byte by byte (used where the model counts bytes, e.g. response bodies).
func SB(b []byte) Sx {
	var sb strings.Builder
	sb.WriteByte('\'')
	for i, c := range b {
		if i > 0 {
			sb.WriteByte('.')
		}
		sb.WriteString(strconv.FormatInt(int64(c), 16))
	}
	return A(sb.String())
}

// Bytes decodes an atom written by SB.
func (x Sx) Bytes() []byte {
	if x.IsL || len(x.Atom) == 0 || x.Atom[0] != '\'' {
		panic(fmt.Sprintf("sx: byte string atom expected, got %s", x.String()))
	}
	if len(x.Atom) == 1 {
		return []byte{}
	}
	var out []byte
	for _, h := range strings.Split(x.Atom[1:], ".") {
		v, err := strconv.ParseInt(h, 16, 64)
		if err != nil || v > 255 {
			panic("sx: bad byte string atom " + x.Atom)
		}
		out = append(out, byte(v))
	}
	return out
}
