package main

import (
	"fmt"
	"net/http"
	"net/url"
	"reflect"
	"sort"
	"strings"

	"github.com/gookit/rux"
)

// C16: Resource registers exactly the REST table.
// case: (c16 mask uses 'base strict kind 'res (('M 'path) ...))   kind: ptr | val | ptrint | ptrptr | badsig
// obs : ((routes (name (M ...) path nh) ...) (probes <who> ...)) | (regpanic)
//   who: (hit a (mw ...)) | (status code 'allow)

var c16Cur struct {
	hit int
	mws []int
}

func c16Hit(a int) { c16Cur.hit = a }

var c16ActionNames = []string{"Index", "Create", "Store", "Show", "Edit", "Update", "Delete"}

// c16MW is the one middleware factory of the application: group, resource and per-action middleware are all made by it
// (closures of one func literal: they differ in what they captured, not in their code)
//
//go:noinline
func c16MW(id int) rux.HandlerFunc {
	return func(c *rux.Context) { c16Cur.mws = append(c16Cur.mws, id) }
}

// Uses(): per-action middleware plus a key that is no action. The shape varies with the case (c16UsesMode):
// 0: one middleware for four of the actions; 1: two middleware (in order) for those four; 2: one for each of the seven
var c16UsesMode int

func c16Uses() map[string][]rux.HandlerFunc {
	m := map[string][]rux.HandlerFunc{}
	acts := []int{0, 3, 4, 6}
	if c16UsesMode == 2 {
		acts = []int{0, 1, 2, 3, 4, 5, 6}
	}
	for _, i := range acts {
		m[c16ActionNames[i]] = []rux.HandlerFunc{c16MW(i)}
		if c16UsesMode == 1 {
			m[c16ActionNames[i]] = append(m[c16ActionNames[i]], c16MW(20+i))
		}
	}
	m["Other"] = []rux.HandlerFunc{c16MW(99)}
	return m
}

// controllers with action-named methods of the wrong signature: only the well-typed ones are actions
type CtlBad1 struct{}

func (c *CtlBad1) Index(ctx *rux.Context)  { c16Hit(0) }
func (c *CtlBad1) Delete(id int) error     { return nil }
func (c *CtlBad1) Update(ctx *rux.Context) { c16Hit(5) }

type CtlBad2 struct{}

func (c *CtlBad2) Show(ctx *rux.Context)          { c16Hit(3) }
func (c *CtlBad2) Store(s string)                 {}
func (c *CtlBad2) Edit(ctx *rux.Context) error    { return nil }
func (c *CtlBad2) Create(ctx *rux.Context)        { c16Hit(1) }
func (c *CtlBad2) Delete(ctx *rux.Context, x int) {}

// a controller with more exported func(*Context) methods than the seven actions: only the actions become routes
type CtlExtra struct{}

func (c *CtlExtra) Index(ctx *rux.Context)   { c16Hit(0) }
func (c *CtlExtra) Show(ctx *rux.Context)    { c16Hit(3) }
func (c *CtlExtra) Search(ctx *rux.Context)  { c16Hit(100) }
func (c *CtlExtra) Export(ctx *rux.Context)  { c16Hit(101) }
func (c *CtlExtra) Options(ctx *rux.Context) { c16Hit(102) }
func (c *CtlExtra) AddRoutes(r *rux.Router)  { r.GET("/leak", func(*rux.Context) { c16Hit(103) }) }

var c16Bad = map[string]struct {
	ctl  any
	mask int
}{
	"ctlbad1":  {&CtlBad1{}, 1<<0 | 1<<5},
	"ctlbad2":  {&CtlBad2{}, 1<<3 | 1<<1},
	"ctlextra": {&CtlExtra{}, 1<<0 | 1<<3},
}

func c16Gen(r *Rng, tier string, i int) Sx {
	mask := r.Intn(128)
	if tier == "quick" {
		mask = (i*37 + r.Intn(3)) % 128
	}
	uses := r.Bool()
	base := r.Pick([]string{"/", "/api/", "", "/v1/admin/", "api", "/a.b/", "/API/v1/", "/Orgs/", "/v1.2/", "/api/v1.0/", "v2.", "/u/{uid}/", "/{org}/", "/t/{tid:\\d+}/x/"})
	strict := r.Chance(1, 6)
	kind := "ptr"
	if r.Chance(1, 15) {
		kind = r.Pick([]string{"val", "ptrint", "ptrptr"})
	}
	res := fmt.Sprintf("ctl%03d", mask)
	if uses {
		res = fmt.Sprintf("ctu%03d", mask)
	}
	if kind == "val" {
		mask = []int{0, 5, 127}[r.Intn(3)]
		uses = false
		res = fmt.Sprintf("ctl%03d", mask)
	}
	if kind == "ptr" && r.Chance(1, 12) {
		kind = "badsig"
		res = r.Pick([]string{"ctlbad1", "ctlbad2", "ctlextra"})
		mask = c16Bad[res].mask
		uses = false
	}
	ng, nm := 0, 0
	if r.Chance(1, 3) {
		ng, nm = r.Range(1, 3), r.Intn(3)
	}
	// where the resource lives: base path + resource name, as a group prefix ("/api/" + "ctl005" -> "/api/ctl005", "api" + "ctl005" -> "/apictl005")
	g := "/" + strings.Trim(base+res, "/")
	// (a base path may hold variables - a resource nested under another one: the probes instantiate them)
	g = strings.NewReplacer("{uid}", "u1", "{org}", "acme", "{tid:\\d+}", "42").Replace(g)
	g0 := g
	gp := "/g" // the prefix of the enclosing group (when there is one): sometimes the root
	if ng > 0 && r.Chance(1, 4) {
		gp = r.Pick([]string{"/", ""})
	}
	if ng > 0 && gp == "/g" {
		g = "/g" + g
	}
	paths := []string{g, g + "/", g + "/create", g + "/7", g + "/7/edit", g + "/create/edit", g + "/7/x", g + "/x/y/z", "/", g + "x", g + "/search", g + "/leak", "/leak",
		// (with StrictLastSlash the routes of the non-index actions end in a slash: /res/create/, /res/{id}/, /res/{id}/edit/)
		g + "/create/", g + "/7/", g + "/7/edit/"}
	// the same controller registered a second time under another base path (its route names are then taken over)
	twice := kind == "ptr" && r.Chance(1, 5)
	if twice {
		g2 := "/zz" + g0
		if ng > 0 && gp == "/g" {
			g2 = "/g" + g2
		}
		paths = append(paths, g2, g2+"/create", g2+"/7", g2+"/7/edit")
	}
	var probes []Sx
	for _, p := range paths {
		for _, m := range rtMethods {
			if m == "GET" || r.Chance(1, 3) {
				probes = append(probes, L(S(m), S(p)))
			}
		}
	}
	return L(A("c16"), I(mask), B(uses), S(base), B(strict), A(kind), S(res), LS(probes), I(ng), I(nm), B(twice), I(r.Intn(3)), S(gp))
}

func c16Exec(c Sx) (out Sx) {
	mask, uses, base, strict, kind := c.List[1].Int(), c.List[2].Bool(), c.List[3].Str(), c.List[4].Bool(), c.List[5].Sym()
	opts := []func(*rux.Router){rux.HandleMethodNotAllowed}
	if strict {
		opts = append(opts, rux.StrictLastSlash)
	}
	r := rux.New(opts...)
	var ctl any
	switch kind {
	case "ptr":
		if uses {
			ctl = c16CtlsU[mask]
		} else {
			ctl = c16Ctls[mask]
		}
	case "badsig":
		ctl = c16Bad[c.List[6].Str()].ctl
	case "val":
		ctl = c16Vals[mask]
	case "ptrint":
		ctl = new(int)
	case "ptrptr": // a pointer to a pointer to a struct is not a pointer to a struct
		inner := c16Ctls[mask]
		pp := reflect.New(reflect.TypeOf(inner))
		pp.Elem().Set(reflect.ValueOf(inner))
		ctl = pp.Interface()
	}
	if ctl == nil {
		panic("c16: no such controller")
	}
	want := strings.ToLower(strings.TrimPrefix(fmt.Sprintf("%T", ctl), "*main."))
	want = strings.TrimPrefix(want, "main.")
	if kind != "ptrint" && kind != "ptrptr" && want != c.List[6].Str() {
		panic("c16: resource name in the case does not match the controller type")
	}
	panicked := func() (p bool) {
		defer func() {
			if e := recover(); e != nil {
				p = true
			}
		}()
		ng, nm := 0, 0
		if len(c.List) >= 10 {
			ng, nm = c.List[8].Int(), c.List[9].Int()
		}
		mk := c16MW
		var gm, rm []rux.HandlerFunc
		for k := 0; k < ng; k++ {
			gm = append(gm, mk(50+k))
		}
		for k := 0; k < nm; k++ {
			rm = append(rm, mk(60+k))
		}
		twice := len(c.List) >= 11 && c.List[10].Bool()
		c16UsesMode = 0
		if len(c.List) >= 12 {
			c16UsesMode = c.List[11].Int()
		}
		second := "/zz/" + strings.TrimLeft(base, "/")
		if ng > 0 {
			// group middleware added through Use inside the group: the slice grows by append
			gp := "/g"
			if len(c.List) >= 13 {
				gp = c.List[12].Str()
			}
			r.Group(gp, func() {
				for _, h := range gm {
					r.Use(h)
				}
				r.Resource(base, ctl, rm...)
				if twice {
					r.Resource(second, ctl, rm...)
				}
			})
		} else {
			r.Resource(base, ctl, rm...)
			if twice {
				r.Resource(second, ctl, rm...)
			}
		}
		return false
	}()
	if panicked {
		return L(A("regpanic"))
	}
	infos := r.Routes()
	// a route registered for two methods is listed once per table entry: canonicalise by name
	seen := map[string]bool{}
	var names []string
	byName := map[string]rux.RouteInfo{}
	for _, ri := range infos {
		k := ri.Name + "\x00" + ri.Path
		if !seen[k] {
			seen[k] = true
			names = append(names, k)
			byName[k] = ri
		}
	}
	sort.Strings(names)
	routes := []Sx{A("routes")}
	for _, n := range names {
		ri := byName[n]
		ms := append([]string{}, ri.Methods...)
		sort.Strings(ms)
		routes = append(routes, L(S(ri.Name), SL(ms), S(ri.Path), I(ri.HandlerNum)))
	}
	// every name must also be in NamedRoutes, and nothing else
	var nn []string
	for n := range r.NamedRoutes() {
		nn = append(nn, n)
	}
	sort.Strings(nn)
	routes = append(routes, L(A("named"), SL(nn)))
	probes := []Sx{A("probes")}
	for _, p := range c.List[7].Lst() {
		c16Cur.hit, c16Cur.mws = -1, nil
		w := newRecWriter(nil)
		req := &http.Request{Method: p.List[0].Str(), URL: &url.URL{Path: p.List[1].Str()}, Header: http.Header{}, Proto: "HTTP/1.1", ProtoMajor: 1, ProtoMinor: 1}
		r.ServeHTTP(w, req)
		if c16Cur.hit >= 0 {
			var ms []Sx
			for _, m := range c16Cur.mws {
				ms = append(ms, I(m))
			}
			probes = append(probes, L(A("hit"), I(c16Cur.hit), LS(ms)))
		} else {
			probes = append(probes, L(A("status"), I(w.code), S(w.hdr.Get("Allow"))))
		}
	}
	return L(LS(routes), LS(probes))
}

func c16Classify(c, obs Sx) []string {
	labs := []string{"kind=" + c.List[5].Atom}
	if c.List[2].Bool() {
		labs = append(labs, "uses")
	}
	mask := c.List[1].Int()
	n := 0
	for i := 0; i < 7; i++ {
		if mask>>i&1 == 1 {
			n++
		}
	}
	labs = append(labs, fmt.Sprintf("actions=%d", n))
	if n >= 2 && c.List[5].Atom == "ptr" {
		labs = append(labs, "nt:>=2-actions")
	}
	return labs
}

// exhaustive: all 128 subsets x with/without Uses x two base paths
func c16Exhaustive(emit func(Sx)) {
	r := NewRng(99)
	for mask := 0; mask < 128; mask++ {
		for _, uses := range []bool{false, true} {
			for _, base := range []string{"/", "/api/"} {
				c := c16Gen(r.Fork(), "thorough", 0)
				res := fmt.Sprintf("ctl%03d", mask)
				if uses {
					res = fmt.Sprintf("ctu%03d", mask)
				}
				g := "/" + strings.Trim(base+res, "/")
				var probes []Sx
				for _, p := range []string{g, g + "/", g + "/create", g + "/7", g + "/7/edit", g + "/create/edit", g + "/7/x", g + "x"} {
					for _, m := range rtMethods {
						probes = append(probes, L(S(m), S(p)))
					}
				}
				_ = c
				emit(L(A("c16"), I(mask), B(uses), S(base), B(false), A("ptr"), S(res), LS(probes), I(0), I(0)))
			}
		}
	}
}

func init() {
	props["C16"] = &Prop{Gen: c16Gen, Exec: c16Exec, Classify: c16Classify, Exhaustive: c16Exhaustive}
}
