package main

import (
	"net/http"
	"net/url"
	"os"
	"path"
	"path/filepath"
	"strings"
	"sync"

	"github.com/gookit/rux"
)

// C17: static file handlers never serve outside their root.
// (clean 'p)              obs: (clean 'path.Clean("/"+p))
// (get kind 'rawpath)     kind: dir | files | fs | one | dir2 | files2 ; obs: (get status <(in 'rel) | (in2 'rel) | (out 'name) | (other n)>)
// dir2 / files2 are a second StaticDir / StaticFiles registration of the same router over ANOTHER root that holds files with
// the same relative names: each registration must answer from its own root only

var c17Once sync.Once
var c17Root string
var c17In = map[string]string{}  // content -> relative path under the root
var c17Out = map[string]string{} // content -> name of a file outside the root
var c17In2 = map[string]string{} // content -> relative path under the second root
var c17Router, c17RouterEnc *rux.Router

func c17Setup() {
	c17Once.Do(func() {
		base, err := filepath.Abs("c17tree")
		if err != nil {
			panic(err)
		}
		_ = os.RemoveAll(base)
		in := map[string]string{
			"a.css": "A-CSS", "app.js": "APP-JS", "index.html": "INDEX-HTML", "sub/page.html": "SUB-PAGE", "sub/x.css": "SUB-CSS",
			"readme.md": "README-MD", "chart.js/index.html": "CHART-INDEX", "chart.js/private.md": "CHART-PRIV", ".hidden": "HIDDEN-FILE",
			"theme.css/data.txt": "THEME-DATA",
			// names that end in the letters of an allowed extension without being that extension
			"src/theme.scss": "THEME-SCSS", "nodejs": "NODEJS", "src/worker.mjs": "WORKER-MJS", "keys_js": "KEYS-JS", "a.xcss": "A-XCSS",
			// ... and names whose extension only BEGINS like an allowed one
			"app.js.map": "APP-JS-MAP", "data.json": "DATA-JSON", "view.jsx": "VIEW-JSX", "a.css.bak": "A-CSS-BAK", "site.cssx": "SITE-CSSX",
		}
		out := map[string]string{"secret.txt": "TOP-SECRET", "pub-private/key.txt": "PRIVATE-KEY", "pub.bak/a.css": "BAK-CSS", "pubx": "PUBX", "secret.js": "SECRET-JS", "secret.css": "SECRET-CSS",
			"admin/index.html": "ADMIN-INDEX", "index.html": "OUTSIDE-INDEX", "pub-private/x.js": "PRIVATE-JS", "pub.bak/css/b.css": "BAK-CSS-B"}
		c17Root = filepath.Join(base, "pub")
		for rel, content := range in {
			p := filepath.Join(c17Root, rel)
			_ = os.MkdirAll(filepath.Dir(p), 0o755)
			_ = os.WriteFile(p, []byte(content), 0o644)
			c17In[content] = rel
		}
		for rel, content := range out {
			p := filepath.Join(base, rel)
			_ = os.MkdirAll(filepath.Dir(p), 0o755)
			_ = os.WriteFile(p, []byte(content), 0o644)
			c17Out[content] = rel
		}
		root2 := filepath.Join(base, "pub2")
		for _, rel := range []string{"a.css", "app.js", "sub/x.css", "sub/page.html", "readme.md", "index.html", "nodejs", "only2.js"} {
			p := filepath.Join(root2, rel)
			_ = os.MkdirAll(filepath.Dir(p), 0o755)
			content := "SECOND-ROOT:" + rel
			_ = os.WriteFile(p, []byte(content), 0o644)
			c17In2[content] = rel
		}
		// (a small route cache in front: the file handlers sit behind dynamic routes, so their matches are cached and evicted)
		r := rux.New(rux.CachingWithNum(2))
		r.StaticDir("/static2", root2)
		r.StaticFiles("/assets2", root2, "css|js")
		r.StaticDir("/static", c17Root)
		r.StaticFiles("/assets", c17Root, "css|js")
		r.StaticFS("/fs", http.Dir(c17Root))
		r.StaticFile("/one", filepath.Join(c17Root, "a.css"))
		// the same handlers registered inside a group
		r.Group("/grp", func() {
			r.StaticFiles("/assets", c17Root, "css|js")
			r.StaticDir("/static", c17Root)
		})
		// a mount whose prefix has a path variable of its own (a theme): two variables in the route, "theme" and "file"
		r.StaticFiles("/{theme}/assets", c17Root, "css|js")
		c17Router = r
		_ = r.String() // (the route table has been listed, as a debug endpoint or a start-up log does)
		// ... and on a router that matches on the escaped path (the captured value is then the escaped text)
		re := rux.New(rux.UseEncodedPath)
		re.StaticDir("/static", c17Root)
		re.StaticFiles("/assets", c17Root, "css|js")
		re.StaticFS("/fs", http.Dir(c17Root))
		c17RouterEnc = re
	})
}

var c17Segs = []string{"..", ".", "", "a.css", "app.js", "sub", "x.css", "page.html", "readme.md", "chart.js", "index.html", "private.md", "secret.txt",
	"pub-private", "key.txt", "pub.bak", "%2e%2e", "%2E%2E", "..%2f", "%2f", "\\", "..\\", "%00", "a.css.", "a.css%20", "pub", "pubx", ".hidden", "theme.css", "data.txt", "...", "%5c", "secret.js", "%2e", "nodejs", "%252e%252e", "..%252f", "%252f", "%25%32%65", "theme.scss", "src", "keys_js"}

func c17Gen(r *Rng, tier string, i int) Sx {
	var segs []string
	for k := r.Range(0, 6); k > 0; k-- {
		segs = append(segs, c17Segs[r.Intn(len(c17Segs))])
	}
	p := strings.Join(segs, "/")
	if r.Chance(1, 4) {
		p = p + "/"
	}
	if i%5 == 4 {
		if u, err := url.PathUnescape(p); err == nil {
			p = u
		}
		return L(A("clean"), S(p))
	}
	kind := []string{"dir", "files", "fs", "one", "dir", "files", "dir2", "files2", "gdir", "gfiles", "dire", "filese", "fse"}[r.Intn(13)]
	if r.Chance(1, 2) {
		// mostly-valid stream: a real file or directory, re-spelled with cancelling dot-dot pairs, "./", "//", a trailing slash,
		// or an escape towards a sibling of the root
		valid := []string{"a.css", "app.js", "sub/x.css", "sub/page.html", "index.html", "readme.md", "chart.js", "chart.js/", "chart.js/index.html",
			"chart.js/private.md", "theme.css/", "theme.css/data.txt", "sub", "sub/", ".hidden", "", "src/theme.scss", "nodejs", "src/worker.mjs", "keys_js", "a.xcss",
			"app.js.map", "data.json", "view.jsx", "a.css.bak", "site.cssx"}
		p = valid[r.Intn(len(valid))]
		for k := r.Intn(3); k > 0; k-- {
			switch r.Intn(10) {
			case 7:
				p = r.Pick([]string{"%252e%252e/secret.txt", "sub/..%252f..%252fsecret.txt", "%252e%252e/pub-private/key.txt", "../admin/index.html", "%2e%2e/admin/index.html", "../index.html", "sub/../../admin/index.html", "../pub.bak/a.css", "../pub-private/x.js",
					"../pub.bak/css/b.css", "%2e%2e/pub.bak/a.css", "./../secret.js", "sub//../../secret.js", "%2e/%2e%2e/secret.css", "././../../secret.js", ".//..//secret.css"})
			case 8:
				p = "./" + p + "/../../secret.js"
			case 9:
				p = "sub//" + p
			case 0:
				p = "sub/../" + p
			case 1:
				p = "./" + p
			case 2:
				p = "/" + p
			case 3:
				p = "x/y/../../" + p
			case 4:
				p = "../pub/" + p
			case 5:
				p = "%2e%2e/pub-private/key.txt"
			case 6:
				p = "../pub-private/key.txt"
			}
		}
	}
	if r.Chance(1, 6) {
		// what reaches the file server must be the very text the route's pattern accepted: a captured value that is cut
		// (at a control character, or at some length) may end in another extension
		hidden := r.Pick([]string{"readme.md", "sub/page.html", "index.html", ".hidden", "src/theme.scss", "nodejs", "chart.js/private.md"})
		switch r.Intn(3) {
		case 0:
			p = hidden + r.Pick([]string{"%0D", "%0A", "%00", "%09", "%20", ";", "%3F", "%23", "%0D%0A", "%5C"}) + r.Pick([]string{".js", ".css"})
		default:
			// the hidden name ends exactly at a round length of the captured value
			limit := r.Pick2([]int{64, 127, 128, 255, 256, 512, 1024})
			pad := limit - len(hidden)
			p = strings.Repeat("./", pad/2) + strings.Repeat("/", pad%2) + hidden + r.Pick([]string{".js", ".css"})
		}
		return L(A("get"), A("files"), S("/"+p))
	}
	if r.Chance(1, 12) { // the themed mount: "/<theme>/assets/<file>", also with the name of a file of the root as theme
		theme := r.Pick([]string{"dark", "readme.md", "nodejs", ".hidden", "a.css", "sub"})
		file := r.Pick([]string{"a.css", "app.js", "sub/x.css", "readme.md", "nodejs", "x.css", "../secret.js"})
		return L(A("get"), A("tfiles"), S("/"+file), S(theme))
	}
	if other, ok := map[string]string{"dir": "dir2", "files": "files2", "dir2": "dir", "files2": "files"}[kind]; ok && r.Bool() {
		// the same relative path has just been served by the registration over the other root
		return L(A("get"), A(kind), S("/"+p), A(other))
	}
	return L(A("get"), A(kind), S("/"+p))
}

func c17Exec(c Sx) Sx {
	c17Setup()
	switch c.Head() {
	case "clean":
		return L(A("clean"), S(path.Clean("/"+c.List[1].Str())))
	case "get":
		kind, raw := c.List[1].Sym(), c.List[2].Str()
		prefixes := map[string]string{"dir": "/static", "files": "/assets", "fs": "/fs", "one": "/one", "dir2": "/static2", "files2": "/assets2",
			"gdir": "/grp/static", "gfiles": "/grp/assets", "dire": "/static", "filese": "/assets", "fse": "/fs", "tfiles": "/dark/assets"}
		router := c17Router
		if strings.HasSuffix(kind, "e") && kind != "one" {
			router = c17RouterEnc
		}
		prefix := prefixes[kind]
		if prefix == "" {
			panic("c17: bad kind")
		}
		if kind == "tfiles" && len(c.List) > 3 {
			prefix = "/" + c.List[3].Str() + "/assets"
		} else if len(c.List) > 3 { // first the same path through the other registration
			if pu, err := url.Parse("http://h" + prefixes[c.List[3].Sym()] + raw); err == nil {
				func() {
					defer func() { _ = recover() }()
					c17Router.ServeHTTP(newRecWriter(nil), &http.Request{Method: "GET", URL: pu, Header: http.Header{}, Proto: "HTTP/1.1", ProtoMajor: 1, ProtoMinor: 1, Host: "h"})
				}()
			}
		}
		full := prefix + raw
		if kind == "one" && raw == "/" {
			full = prefix
		}
		var u *url.URL
		if pu, err := url.Parse("http://h" + full); err == nil {
			u = pu
		} else {
			u = &url.URL{Scheme: "http", Host: "h", Path: full}
		}
		req := &http.Request{Method: "GET", URL: u, Header: http.Header{}, Proto: "HTTP/1.1", ProtoMajor: 1, ProtoMinor: 1, Host: "h"}
		w := newRecWriter(nil)
		func() {
			defer func() {
				if e := recover(); e != nil {
					w.code = 599
				}
			}()
			router.ServeHTTP(w, req)
		}()
		code := w.code
		if code == 0 {
			code = 200
		}
		body := string(w.body)
		id := L(A("other"), I(len(body)))
		if rel, ok := c17In[body]; ok {
			id = L(A("in"), S(rel))
		} else if rel, ok := c17In2[body]; ok {
			id = L(A("in2"), S(rel))
		} else if rel, ok := c17Out[body]; ok {
			id = L(A("out"), S(rel))
		} else {
			for content, rel := range c17Out {
				if strings.Contains(body, content) {
					id = L(A("out"), S(rel))
				}
			}
		}
		return L(A("get"), I(code), id)
	}
	panic("c17: bad case")
}

func c17Classify(c, obs Sx) []string {
	labs := []string{c.Head()}
	if c.Head() == "get" {
		labs = append(labs, "kind="+c.List[1].Atom, "status="+obs.List[1].Atom)
		if strings.Contains(c.List[2].String(), "2e.2e") || strings.Contains(c.List[2].String(), "25.32") {
			labs = append(labs, "nt:dotdot-or-encoded")
		}
		if obs.List[1].Atom == "200" {
			labs = append(labs, "served-200")
		}
	}
	return labs
}

func init() {
	props["C17"] = &Prop{Gen: c17Gen, Exec: c17Exec, Classify: c17Classify}
}
