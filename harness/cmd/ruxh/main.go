// ruxh — harness of the rux verification: generates cases for a property, runs
// the implementation (package rux built from /repo with -tags verif) on them and
// prints projected, canonicalised observables.
//
//	ruxh run  <prop> -seed N -n COUNT [-pre file] -cases out -impl out -stats out
//	ruxh exec <prop> -in cases -impl out
//	ruxh consts
package main

import (
	"bufio"
	"encoding/json"
	"flag"
	"fmt"
	"io"
	"os"
	"sort"
	"strings"

	"github.com/gookit/color"
)

// Prop is what the harness needs for one property.
type Prop struct {
	// Gen produces one case; tier is "quick" or "thorough"; i is the case index.
	Gen func(r *Rng, tier string, i int) Sx
	// Exec runs the implementation on a case and returns the observation.
	Exec func(c Sx) Sx
	// Classify returns labels describing the case/observation (for the evidence
	// distribution); a label starting with "nt:" marks the case non-trivial.
	Classify func(c, obs Sx) []string
	// Exhaustive, when set, enumerates a finite space completely (thorough tier).
	Exhaustive func(emit func(Sx))
}

var props = map[string]*Prop{}

func safeExec(p *Prop, c Sx) (obs Sx) {
	defer func() {
		if e := recover(); e != nil {
			obs = L(A("harness-panic"), A(sanitize(fmt.Sprint(e))))
		}
	}()
	return p.Exec(c)
}

func safeClassify(p *Prop, c, obs Sx) (labs []string) {
	defer func() {
		if e := recover(); e != nil {
			labs = []string{"classify-panic"}
		}
	}()
	return p.Classify(c, obs)
}

func sanitize(s string) string {
	s = strings.Map(func(r rune) rune {
		if r == ' ' || r == '(' || r == ')' || r == '\n' || r == '\t' || r == '\r' {
			return '_'
		}
		return r
	}, s)
	if len(s) > 120 {
		s = s[:120]
	}
	return s
}

func main() {
	if len(os.Args) < 2 {
		fmt.Fprintln(os.Stderr, "usage: ruxh run|exec|consts ...")
		os.Exit(2)
	}
	color.SetOutput(io.Discard) // pkg/handlers' console logger prints through gookit/color
	switch os.Args[1] {
	case "consts":
		dumpConsts()
		return
	case "stress":
		stressMain(os.Args[2:])
		return
	case "run", "exec":
	default:
		fmt.Fprintln(os.Stderr, "unknown command", os.Args[1])
		os.Exit(2)
	}
	if len(os.Args) < 3 {
		fmt.Fprintln(os.Stderr, "property id required")
		os.Exit(2)
	}
	id := os.Args[2]
	p, ok := props[id]
	if !ok {
		fmt.Fprintln(os.Stderr, "no harness for property", id)
		os.Exit(2)
	}
	fs := flag.NewFlagSet("ruxh", flag.ExitOnError)
	seed := fs.Uint64("seed", 1, "seed")
	n := fs.Int("n", 100, "number of generated cases")
	tier := fs.String("tier", "quick", "tier")
	pre := fs.String("pre", "", "file of cases to run first")
	in := fs.String("in", "", "cases to execute (exec)")
	casesOut := fs.String("cases", "cases.txt", "cases output")
	implOut := fs.String("impl", "impl.txt", "observations output")
	statsOut := fs.String("stats", "", "stats output (json)")
	exh := fs.Bool("exhaustive", false, "also enumerate the property's finite small scope")
	_ = fs.Parse(os.Args[3:])

	var cases []Sx
	readCases := func(path string) {
		f, err := os.Open(path)
		if err != nil {
			fmt.Fprintln(os.Stderr, err)
			os.Exit(2)
		}
		defer f.Close()
		sc := bufio.NewScanner(f)
		sc.Buffer(make([]byte, 1<<20), 1<<28)
		for sc.Scan() {
			line := strings.TrimSpace(sc.Text())
			if line == "" || strings.HasPrefix(line, "#") {
				continue
			}
			x, err := ParseSx(line)
			if err != nil {
				fmt.Fprintln(os.Stderr, "bad case:", err)
				os.Exit(2)
			}
			cases = append(cases, x)
		}
	}
	nPre := 0
	if os.Args[1] == "exec" {
		readCases(*in)
	} else {
		if *pre != "" {
			readCases(*pre)
			nPre = len(cases)
		}
		root := NewRng(*seed*0x100000001b3 + 0xcbf29ce484222325)
		for i := 0; i < *n; i++ {
			cases = append(cases, p.Gen(root.Fork(), *tier, i))
		}
		if *exh && p.Exhaustive != nil {
			p.Exhaustive(func(c Sx) { cases = append(cases, c) })
		}
	}

	cf, _ := os.Create(*casesOut)
	imf, _ := os.Create(*implOut)
	cw, iw := bufio.NewWriterSize(cf, 1<<20), bufio.NewWriterSize(imf, 1<<20)
	dist := map[string]int{}
	distinct := map[string]bool{}
	nontrivial := map[string]bool{}
	for _, c := range cases {
		obs := safeExec(p, c)
		cs := c.String()
		fmt.Fprintln(cw, cs)
		fmt.Fprintln(iw, obs.String())
		distinct[cs] = true
		if p.Classify != nil {
			for _, lab := range safeClassify(p, c, obs) {
				dist[lab]++
				if strings.HasPrefix(lab, "nt:") {
					nontrivial[cs] = true
				}
			}
		}
	}
	cw.Flush()
	iw.Flush()
	cf.Close()
	imf.Close()
	if *statsOut != "" {
		keys := make([]string, 0, len(dist))
		for k := range dist {
			keys = append(keys, k)
		}
		sort.Strings(keys)
		st := map[string]any{
			"cases": len(cases), "corpus_cases": nPre, "distinct": len(distinct),
			"distinct_nontrivial": len(nontrivial), "distribution": dist,
		}
		b, _ := json.MarshalIndent(st, "", " ")
		_ = os.WriteFile(*statsOut, b, 0o644)
	}
}
