package main

import (
	"fmt"
	"sort"

	"github.com/gookit/rux"
)

// dumpConsts prints the constants the Coq model depends on, as one sexp per line,
// in the same format `driver consts` prints the model's constants.
func dumpConsts() {
	c := rux.VerifGetConsts()
	fmt.Println(L(A("abort-index"), I(c.AbortIndex)).String())
	fmt.Println(L(A("any-methods"), SL(c.AnyMethods)).String())
	fmt.Println(L(A("any-match"), S(c.AnyMatch)).String())
	var names []string
	for k := range c.RESTFulActions {
		names = append(names, k)
	}
	sort.Strings(names)
	var acts []Sx
	for _, k := range names {
		acts = append(acts, L(S(k), SL(c.RESTFulActions[k])))
	}
	fmt.Println(L(A("rest-actions"), LS(acts)).String())
	names = names[:0]
	for k := range c.GlobalVars {
		names = append(names, k)
	}
	sort.Strings(names)
	var gv []Sx
	for _, k := range names {
		gv = append(gv, L(S(k), S(c.GlobalVars[k])))
	}
	fmt.Println(L(A("global-vars"), LS(gv)).String())
	fmt.Println(L(A("context-fields"), SL(c.ContextFields)).String())
	fmt.Println(L(A("route-fields"), SL(c.RouteFields)).String())
	fmt.Println(L(A("router-fields"), SL(c.RouterFields)).String())
}
