package main

import (
	"bytes"
	"fmt"
	"io"
	"net/http"
	"net/url"
	"strings"

	"github.com/gookit/rux"
)

// C08: exactly one header commit, status before body.
// case: (c08 (script n ...) (((pre ops) (post ops)) ...))   handler i runs pre, Next, post;
//       ((pre ops) () stdK) = a net/http handler behind adaptor K (WrapHTTPHandlerFunc, WrapHTTPHandler, HTTPHandlerFunc, HTTPHandler, WrapHF, WrapH)
// ops : (st z) (hd k v) (wr bytes) (fl) (he msg code) (rd url code) (ob)
// obs : ((log (wh c)|(w bytes)|(f) ...) (obs (status length) ...)) | (panic)

var c08Codes = []int{-1, 0, 100, 200, 200, 201, 204, 301, 404, 404, 500, 599}
var c08Bytes = []string{"", "a", "hello", "x\n", "0123456789", "é", "<b>", strings.Repeat("0123456789abcdef", 40), strings.Repeat("z", 5000)}

func c08Op(r *Rng) Sx {
	if r.Chance(1, 12) {
		return L(A("cp"), SB([]byte(r.Pick(c08Bytes))))
	}
	switch r.Intn(12) {
	case 0, 1, 2:
		return L(A("st"), I(c08Codes[r.Intn(len(c08Codes))]))
	case 3:
		return L(A("hd"), S("X-K"), S(r.Pick(c08Bytes)))
	case 4, 5, 6:
		return L(A("wr"), SB([]byte(r.Pick(c08Bytes))))
	case 7, 8:
		return L(A("fl"))
	case 9:
		return L(A("he"), SB([]byte(r.Pick(c08Bytes))), I(c08Codes[2+r.Intn(len(c08Codes)-2)]))
	case 10:
		return L(A("rd"), S("/to"), I([]int{301, 302, 307}[r.Intn(3)]))
	default:
		return L(A("ob"))
	}
}

func c08Gen(r *Rng, tier string, i int) Sx {
	nh := r.Range(1, 4)
	total := r.Intn(13)
	if i%7 == 0 {
		total = r.Intn(3)
	}
	hs := make([][2][]Sx, nh)
	for k := 0; k < total; k++ {
		h := r.Intn(nh)
		side := r.Intn(2)
		if h == nh-1 {
			side = 0
		}
		hs[h][side] = append(hs[h][side], c08Op(r))
	}
	// AbortWithStatus where it cannot skip anything: in the last handler, or after Next in an outer one
	if r.Chance(1, 5) {
		h := r.Intn(nh)
		side := 1
		if h == nh-1 {
			side = 0
		}
		k := r.Intn(len(hs[h][side]) + 1)
		ab := L(A("ab"), I(c08Codes[r.Intn(len(c08Codes))]))
		hs[h][side] = append(hs[h][side][:k], append([]Sx{ab}, hs[h][side][k:]...)...)
	}
	var script []Sx
	for k := r.Intn(4); k > 0; k-- {
		script = append(script, I(r.Pick2([]int{0, 1, 2, 3, 4, 5, 0, 1, 2, 3, 4, 5, 600, 639, 4999})))
	}
	var hl []Sx
	for _, h := range hs {
		std := len(h[1]) == 0 && r.Chance(1, 5)
		for _, op := range h[0] {
			if op.Head() == "ob" || op.Head() == "ab" {
				std = false
			}
		}
		if std {
			hl = append(hl, L(LS(h[0]), L(), A(fmt.Sprintf("std%d", r.Intn(6)))))
			continue
		}
		hl = append(hl, L(LS(h[0]), LS(h[1])))
	}
	return L(A("c08"), LS(script), LS(hl))
}

func wopRun(c *rux.Context, op Sx, obs *[]Sx) {
	switch op.Head() {
	case "st":
		if n := op.List[1].Int(); (n+len(*obs))%2 == 0 {
			c.SetStatus(n)
		} else {
			c.SetStatusCode(n) // its alias
		}
	case "hd":
		c.SetHeader(op.List[1].Str(), op.List[2].Str())
	case "wr":
		// the ways a handler writes bytes: the writer itself, the Context helpers, io.WriteString (which prefers an
		// io.StringWriter when the writer is one); a zero-length write is a write too (it commits the header)
		b := op.List[1].Bytes()
		switch (len(b) + len(*obs) + int(c.Length()+1)) % 4 {
		case 0:
			_, _ = c.Resp.Write(b)
		case 1: // (the Context helpers panic on a short write - after the write has happened: swallowed here)
			func() { defer func() { _ = recover() }(); c.WriteBytes(b) }()
		case 2:
			func() { defer func() { _ = recover() }(); c.WriteString(string(b)) }()
		default:
			_, _ = io.WriteString(c.Resp, string(b))
		}
	case "fl":
		// through the Flusher interface, or through net/http's ResponseController (which prefers FlushError / Unwrap)
		if (int(c.Length())+len(*obs))%2 == 0 {
			c.Resp.(http.Flusher).Flush()
		} else {
			_ = http.NewResponseController(c.Resp).Flush()
		}
	case "he":
		http.Error(c.Resp, string(op.List[1].Bytes()), op.List[2].Int())
	case "rd":
		http.Redirect(c.Resp, c.Req, op.List[1].Str(), op.List[2].Int())
	case "ob":
		*obs = append(*obs, L(I(c.StatusCode()), I(c.Length())))
	case "cp": // io.Copy from a plain reader (what Stream / http.ServeContent do)
		_, _ = io.Copy(c.Resp, struct{ io.Reader }{bytes.NewReader(op.List[1].Bytes())})
	case "ab": // AbortWithStatus without a message: records the status like SetStatus (used where no handler is left to skip)
		c.AbortWithStatus(op.List[1].Int())
	default:
		panic("bad writer op " + op.String())
	}
}

func wopRunStd(w http.ResponseWriter, rq *http.Request, op Sx) {
	switch op.Head() {
	case "st":
		w.WriteHeader(op.List[1].Int())
	case "hd":
		w.Header().Set(op.List[1].Str(), op.List[2].Str())
	case "wr":
		if b := op.List[1].Bytes(); len(b)%2 == 1 {
			_, _ = io.WriteString(w, string(b))
		} else {
			_, _ = w.Write(b)
		}
	case "fl":
		w.(http.Flusher).Flush()
	case "he":
		http.Error(w, string(op.List[1].Bytes()), op.List[2].Int())
	case "rd":
		http.Redirect(w, rq, op.List[1].Str(), op.List[2].Int())
	case "cp":
		_, _ = io.Copy(w, struct{ io.Reader }{bytes.NewReader(op.List[1].Bytes())})
	default:
		panic("bad std writer op " + op.String())
	}
}

func c08Exec(c Sx) (out Sx) {
	xs := c.Lst()
	var script []int
	for _, s := range xs[1].Lst() {
		script = append(script, s.Int())
	}
	hs := xs[2].Lst()
	if len(hs) == 0 {
		panic("c08: no handler")
	}
	var obs []Sx
	mk := func(h Sx, last bool) rux.HandlerFunc {
		pre, post := h.Lst()[0].Lst(), h.Lst()[1].Lst()
		if last && len(post) > 0 {
			panic("c08: main handler has no post part")
		}
		if len(h.Lst()) > 2 { // a net/http handler behind one of the adaptors: it writes through the http.ResponseWriter it is given
			hf := func(w http.ResponseWriter, rq *http.Request) {
				for _, op := range pre {
					wopRunStd(w, rq, op)
				}
			}
			switch h.Lst()[2].Atom {
			case "std0":
				return rux.WrapHTTPHandlerFunc(hf)
			case "std1":
				return rux.WrapHTTPHandler(http.HandlerFunc(hf))
			case "std2":
				return rux.HTTPHandlerFunc(hf)
			case "std3":
				return rux.HTTPHandler(http.HandlerFunc(hf))
			case "std4":
				return rux.WrapHF(hf)
			default:
				return rux.WrapH(http.HandlerFunc(hf))
			}
		}
		return func(c *rux.Context) {
			for _, op := range pre {
				wopRun(c, op, &obs)
			}
			if !last {
				c.Next()
			}
			for _, op := range post {
				wopRun(c, op, &obs)
			}
		}
	}
	r := rux.New()
	var mws []rux.HandlerFunc
	for i, h := range hs[:len(hs)-1] {
		if i == 0 {
			r.Use(mk(h, false))
		} else {
			mws = append(mws, mk(h, false))
		}
	}
	r.POST("/x", mk(hs[len(hs)-1], true), mws...)
	w := newRecWriter(script)
	req := &http.Request{Method: "POST", URL: &url.URL{Path: "/x"}, Header: http.Header{}, Proto: "HTTP/1.1", ProtoMajor: 1, ProtoMinor: 1}
	defer func() {
		if e := recover(); e != nil {
			out = L(A("panic"), A(sanitize(fmt.Sprint(e))))
		}
	}()
	r.ServeHTTP(w, req)
	return L(LS(append([]Sx{A("log")}, w.log...)), LS(append([]Sx{A("obs")}, obs...)))
}

func c08Classify(c, obs Sx) []string {
	var labs []string
	xs := c.Lst()
	nops, nst, nwr, nfl := 0, 0, 0, 0
	stAfterCommit := false
	committed := false
	// flattened order is not needed for the labels
	for _, h := range xs[2].Lst() {
		for _, part := range h.Lst() {
			for _, op := range part.Lst() {
				nops++
				switch op.Head() {
				case "st", "rd":
					nst++
					if committed {
						stAfterCommit = true
					}
				case "wr", "he":
					nwr++
					committed = true
				case "fl":
					nfl++
					committed = true
				}
			}
		}
	}
	labs = append(labs, fmt.Sprintf("handlers=%d", len(xs[2].Lst())))
	if nops == 0 {
		labs = append(labs, "no-ops")
	}
	if len(xs[1].Lst()) > 0 && nwr > 0 {
		labs = append(labs, "short-write-script")
	}
	if nfl > 0 {
		labs = append(labs, "flush")
	}
	if nst > 0 && (nwr > 0 || nfl > 0) {
		labs = append(labs, "nt:status+commit")
	}
	if stAfterCommit {
		labs = append(labs, "status-after-commit")
	}
	return labs
}

// exhaustive: all op sequences of length <= 4 over a 7-op alphabet, in one handler
func c08Exhaustive(emit func(Sx)) {
	alpha := []Sx{L(A("st"), I(404)), L(A("st"), I(0)), L(A("st"), I(201)), L(A("wr"), SB([]byte("ab"))), L(A("fl")), L(A("he"), SB([]byte("e")), I(500)), L(A("ob"))}
	var rec func(p []Sx, d int)
	rec = func(p []Sx, d int) {
		ops := make([]Sx, len(p))
		copy(ops, p)
		emit(L(A("c08"), L(I(1)), L(L(LS(ops), L()))))
		if d == 0 {
			return
		}
		for _, a := range alpha {
			rec(append(p, a), d-1)
		}
	}
	rec(nil, 4)
}

func init() {
	props["C08"] = &Prop{Gen: c08Gen, Exec: c08Exec, Classify: c08Classify, Exhaustive: c08Exhaustive}
}
