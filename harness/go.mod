module ruxverif

go 1.19

require (
	github.com/gookit/color v1.5.4
	github.com/gookit/rux v0.0.0
	github.com/gookit/validate v1.5.4
)

require (
	github.com/gookit/filter v1.2.2 // indirect
	github.com/gookit/goutil v0.6.18 // indirect
	github.com/monoculum/formam v3.5.5+incompatible // indirect
	github.com/xo/terminfo v0.0.0-20220910002029-abceb7e1c41e // indirect
	golang.org/x/sync v0.10.0 // indirect
	golang.org/x/text v0.21.0 // indirect
)

replace github.com/gookit/rux => /repo
