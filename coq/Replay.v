(* Replay.v — boolean equalities used by the in-Coq replay of sampled cases (thorough tier): the harness writes
   a file of (input, expected model output) pairs, and `vm_compute` inside Coq must reproduce every expected
   output. This cross-checks the extraction + OCaml driver path against evaluation by the kernel's VM. *)
From Rux Require Import Base Str Norm Cache Writer.
Open Scope Z_scope.

Fixpoint list_eqb {A} (eq : A -> A -> bool) (a b : list A) : bool :=
  match a, b with
  | [], [] => true
  | x :: a', y :: b' => eq x y && list_eqb eq a' b'
  | _, _ => false
  end.
Definition opt_eqb {A} (eq : A -> A -> bool) (a b : option A) : bool :=
  match a, b with Some x, Some y => eq x y | None, None => true | _, _ => false end.

(* C11 *)
Definition c11_out (st enc : bool) (gs : list str) (reg dec esc : str) : option (str * bool * bool) :=
  match reg_path st gs reg with
  | Panic => None
  | Ok p =>
      let hit q := match format_path st q with Ok k => str_eqb k p | Panic => false end in
      Some (p, hit dec, hit (request_path enc dec esc))
  end.
Definition c11_eqb (a b : option (str * bool * bool)) : bool :=
  opt_eqb (fun '(p1, m1, s1) '(p2, m2, s2) => str_eqb p1 p2 && Bool.eqb m1 m2 && Bool.eqb s1 s2) a b.

(* C14 *)
Definition cres_eqb (a b : cres N) : bool :=
  match a, b with
  | RUnit, RUnit => true
  | RVal x, RVal y => opt_eqb N.eqb x y
  | RBool x, RBool y => Bool.eqb x y
  | RNat x, RNat y => Nat.eqb x y
  | _, _ => false
  end.
Definition c14_eqb (a b : list (cres N * list str)) : bool :=
  list_eqb (fun '(r1, k1) '(r2, k2) => cres_eqb r1 r2 && list_eqb str_eqb k1 k2) a b.
Definition c14_out (cap : nat) (ops : list (cop N)) := irun N (inew N cap) ops.

(* C08 *)
Definition wev_eqb (a b : wev) : bool :=
  match a, b with WH x, WH y => Z.eqb x y | W x, W y => str_eqb x y | F, F => true | _, _ => false end.
Definition c08_out (sc : list nat) (ops : list wop) : list wev * list (Z * Z) :=
  let w := wrequest sc ops in (log w, obs w).
Definition c08_eqb (a b : list wev * list (Z * Z)) : bool :=
  list_eqb wev_eqb (fst a) (fst b) && list_eqb (fun '(s1, l1) '(s2, l2) => Z.eqb s1 s2 && Z.eqb l1 l2) (snd a) (snd b).

Definition count_false (l : list bool) : nat := List.length (filter negb l).
