(* CopyCtx.v — a copied context keeps its own errors.
   Go (context.go): Copy() does ctx := *c, a shallow copy: the slice header of Errors (array, len, cap) is shared with the pooled
   context c; after the repair "Context.Copy copies the errors of the context" it is followed by
       ctx.Errors = append([]error(nil), c.Errors...)
   The pooled context is used again by the following requests: Reset() does c.Errors = c.Errors[:0] (same backing array, same
   capacity), AddError(e) does c.Errors = append(c.Errors, e).
   The slice heap is the one of Conc.v (errors are numbers, as handler ids are there); the nil slice is RegHeap.nil_slice.
   Not modelled: the other fields of the context, the data race itself (the theorem gives what excludes it: after the repair
   no operation on the pooled context writes into, or re-slices, the array the copy reads). *)
From Rux Require Import Base Conc ConcFacts RegHeap RegHeapFacts.

(* Copy(): the errors of the copy. fixed = false: the slice header of the pooled context (same array);
   fixed = true: append([]error(nil), c.Errors...) - appending nothing to nil gives nil, otherwise a fresh array
   (g = the spare capacity that the growth policy gives it) *)
Definition copy_ctx (fixed : bool) (g : nat) (h : heap) (e : slice) : heap * slice :=
  if fixed then append g h nil_slice (slice_elems h e) else (h, e).

(* the operations of later requests on the pooled context *)
Inductive pool_ctx_op := PReset | PAddError (v : nat).

(* gp = growth policy of append: the spare capacity of the fresh array, from the slice that is appended to *)
Definition pool_ctx_step (gp : slice -> nat) (st : heap * slice) (o : pool_ctx_op) : heap * slice :=
  let '(h, e) := st in
  match o with
  | PReset => (h, {| s_arr := s_arr e; s_len := 0; s_cap := s_cap e |})
  | PAddError v => append (gp e) h e [v]
  end.
Definition run_pool_ctx (gp : slice -> nat) (ops : list pool_ctx_op) (st : heap * slice) : heap * slice :=
  fold_left (pool_ctx_step gp) ops st.

(* ---------- the repaired code ---------- *)
(* what the copy relies on: its array a exists, holds A, and the pooled context's slice is in another array *)
Definition separated (a : nat) (A : list nat) (st : heap * slice) : Prop :=
  a < List.length (fst st) /\ arr_get (fst st) a = A /\ s_arr (snd st) <> a.

Lemma pool_ctx_step_separated gp a A st o : separated a A st -> separated a A (pool_ctx_step gp st o).
Proof.
  destruct st as [h e]. intros (Ha & HA & Hne). cbn [fst snd] in *.
  destruct o as [|v]; cbn [pool_ctx_step]; unfold separated.
  - repeat split; cbn [fst snd s_arr]; auto.
  - unfold append. destruct (Nat.leb (s_len e + List.length [v]) (s_cap e)); cbn [fst snd s_arr].
    + split; [rewrite upd_nth_length; exact Ha|]. split; [|exact Hne].
      unfold arr_get. rewrite nth_upd_nth_neq by auto. exact HA.
    + split; [rewrite app_length; cbn [List.length]; lia|]. split; [|lia].
      rewrite arr_get_app by exact Ha. exact HA.
Qed.

Lemma run_pool_ctx_separated gp a A ops : forall st, separated a A st -> separated a A (run_pool_ctx gp ops st).
Proof.
  induction ops as [|o ops IH]; intros st Hs; cbn [run_pool_ctx fold_left]; auto.
  apply IH. apply pool_ctx_step_separated. exact Hs.
Qed.

Lemma slice_elems_nonempty_lt h e : slice_elems h e <> [] -> s_arr e < List.length h.
Proof.
  intros Hne. destruct (Nat.lt_ge_cases (s_arr e) (List.length h)) as [L|L]; auto.
  exfalso. apply Hne. unfold slice_elems. rewrite arr_get_overflow by exact L. apply firstn_nil.
Qed.

(* the copy holds the errors of the context when it is taken ... *)
Lemma copy_ctx_fixed_elems g h e :
  slice_elems (fst (copy_ctx true g h e)) (snd (copy_ctx true g h e)) = slice_elems h e.
Proof.
  cbn [copy_ctx]. unfold append. cbn [nil_slice s_len s_cap s_arr Nat.add].
  destruct (slice_elems h e) as [|x xs] eqn:E; cbn [List.length Nat.leb fst snd].
  - reflexivity.
  - unfold slice_elems at 1. cbn [s_len s_arr]. rewrite arr_get_new.
    unfold slice_elems. cbn [nil_slice s_len firstn app].
    f_equal. apply firstn_app_exact.
Qed.

(* ... and keeps them, whatever the later requests do with the pooled context.
   No well-formedness hypothesis is needed: when the context has no errors the copy is the nil slice, and when it has some
   its array exists in the heap, so that the fresh array of the copy is a different one. *)
Theorem copy_keeps_errors_fixed : forall (g : nat) (gp : slice -> nat) (h : heap) (e : slice) (ops : list pool_ctx_op),
  let '(h1, cp) := copy_ctx true g h e in
  let '(h', e') := run_pool_ctx gp ops (h1, e) in
  slice_elems h' cp = slice_elems h e.
Proof.
  intros g gp h e ops.
  pose proof (copy_ctx_fixed_elems g h e) as Hcp.
  destruct (copy_ctx true g h e) as [h1 cp] eqn:Ec. cbn [fst snd] in Hcp.
  destruct (run_pool_ctx gp ops (h1, e)) as [h' e'] eqn:Er.
  cbn [copy_ctx] in Ec. unfold append in Ec. cbn [nil_slice s_len s_cap s_arr Nat.add] in Ec.
  destruct (slice_elems h e) as [|x xs] eqn:E; cbn [List.length Nat.leb] in Ec; injection Ec as Eh1 Ecp.
  - (* no errors: the copy is nil *)
    subst cp. reflexivity.
  - assert (Hlt: s_arr e < List.length h) by (apply slice_elems_nonempty_lt; rewrite E; discriminate).
    assert (Hs: separated (List.length h) (arr_get h1 (List.length h)) (h1, e)).
    { subst h1. unfold separated. cbn [fst snd]. split; [rewrite app_length; cbn [List.length]; lia|]. split; [reflexivity|lia]. }
    apply (run_pool_ctx_separated gp _ _ ops) in Hs. rewrite Er in Hs. destruct Hs as (_ & HA & _). cbn [fst] in HA.
    rewrite <- Hcp. unfold slice_elems. subst cp. cbn [s_arr s_len]. rewrite HA. reflexivity.
Qed.

(* the same with the heap and the pooled slice of the end state projected out *)
Corollary copy_keeps_errors_fixed' g gp h e ops :
  slice_elems (fst (run_pool_ctx gp ops (fst (copy_ctx true g h e), e))) (snd (copy_ctx true g h e)) = slice_elems h e.
Proof.
  pose proof (copy_keeps_errors_fixed g gp h e ops) as H.
  destruct (copy_ctx true g h e) as [h1 cp]. cbn [fst snd]. destruct (run_pool_ctx gp ops (h1, e)) as [h' e']. exact H.
Qed.

(* ---------- the code before the repair ---------- *)
(* request 1 records the error 7 on a new context and takes a copy; the context goes back to the pool; request 2 gets it
   (Reset) and records the error 9: the copy of request 1 now holds 9 *)
Definition legacy_start : heap * slice := run_pool_ctx (fun _ => 0) [PAddError 7] ([], nil_slice).
Definition legacy_later : list pool_ctx_op := [PReset; PAddError 9].

Theorem copy_keeps_errors_legacy_refuted : exists g gp h e ops,
  let '(h1, cp) := copy_ctx false g h e in
  let '(h', e') := run_pool_ctx gp ops (h1, e) in
  slice_elems h e = [7] /\ slice_elems h' cp = [9].
Proof.
  exists 0, (fun _ => 0), (fst legacy_start), (snd legacy_start), legacy_later. vm_compute. split; reflexivity.
Qed.

(* the same history after the repair (an instance of the theorem) *)
Example copy_keeps_errors_fixed_example :
  let '(h1, cp) := copy_ctx true 0 (fst legacy_start) (snd legacy_start) in
  let '(h', e') := run_pool_ctx (fun _ => 0) legacy_later (h1, snd legacy_start) in
  slice_elems h' cp = [7] /\ slice_elems h' e' = [9].
Proof. vm_compute. split; reflexivity. Qed.

Print Assumptions copy_ctx_fixed_elems.
Print Assumptions copy_keeps_errors_fixed.
Print Assumptions copy_keeps_errors_fixed'.
Print Assumptions copy_keeps_errors_legacy_refuted.
