(* DispatchFacts.v — context reset (C10), the writer invariant through the chain machine,
   effect-only hooks, and panic containment (C09). *)
From Rux Require Import Base Str Writer WriterFacts Chain ChainFacts Dispatch.
Open Scope Z_scope.

(* ---------------- A. Context reset (C10) ---------------- *)

Theorem init_pristine : forall sc c, ctx_init sc c = ctx_init sc fresh_ctx.
Proof. intros sc c. reflexivity. Qed.

Theorem serve_pristine : forall cfg o sc t pooled, serve cfg o sc t pooled = serve cfg o sc t fresh_ctx.
Proof. intros cfg o sc t pooled. unfold serve. rewrite (init_pristine sc pooled). reflexivity. Qed.

(* the initial context observed by the first handler is the fresh one *)
Theorem init_snapshot : forall sc c, take_snap (p_x (ctx_init sc c)) =
  {| s_data := []; s_params := []; s_nerrors := 0; s_status := 0; s_length := -1; s_resp_own := true; s_req_own := true |}.
Proof. intros sc c. reflexivity. Qed.

(* ---------------- B. Writer invariant ---------------- *)

Definition wlog_ok (w : wstate) : Prop :=
  (length w = -1 /\ count_wh (log w) = 0%nat) \/ (0 <= length w /\ count_wh (log w) = 1%nat).

Lemma count_wh_app l1 l2 : count_wh (l1 ++ l2) = (count_wh l1 + count_wh l2)%nat.
Proof. unfold count_wh. rewrite filter_app, app_length. reflexivity. Qed.
Lemma count_wh_snoc_w l b : count_wh (l ++ [W b]) = count_wh l.
Proof. rewrite count_wh_app. cbn. lia. Qed.
Lemma count_wh_snoc_f l : count_wh (l ++ [F]) = count_wh l.
Proof. rewrite count_wh_app. cbn. lia. Qed.
Lemma count_wh_snoc_wh l c : count_wh (l ++ [WH c]) = S (count_wh l).
Proof. rewrite count_wh_app. cbn. lia. Qed.

Lemma wlog_winit sc : wlog_ok (winit sc).
Proof. left. split; reflexivity. Qed.

Lemma wlog_write_header z w : wlog_ok w -> wlog_ok (write_header z w).
Proof.
  intros H. unfold write_header. destruct ((z >? 0) && negb (status w =? z)); [|exact H].
  exact H.
Qed.

Lemma wlog_ensure w : wlog_ok w -> 0 <= length (ensure w) /\ count_wh (log (ensure w)) = 1%nat.
Proof.
  intros [[Hl Hc]|[Hl Hc]].
  - destruct (ensure_uncommitted w Hl) as (_ & Hlog & _ & Hlen & _).
    rewrite Hlog, Hlen, count_wh_snoc_wh, Hc. split; [lia|reflexivity].
  - rewrite (ensure_written w (nonneg_written w Hl)). split; assumption.
Qed.

Lemma wlog_ensure_ok w : wlog_ok w -> wlog_ok (ensure w) /\ count_wh (log (ensure w)) = 1%nat.
Proof. intros H. destruct (wlog_ensure w H) as [A B]. split; [right; split; assumption|assumption]. Qed.

Lemma wlog_write b w : wlog_ok w -> wlog_ok (write b w).
Proof.
  intros H. destruct (wlog_ensure w H) as [A B]. unfold write.
  destruct (accept (script (ensure w)) b) as [acc sc]. right.
  cbn [length log]. rewrite count_wh_snoc_w. split; [lia|assumption].
Qed.

Lemma wlog_flush w : wlog_ok w -> wlog_ok (flush w).
Proof.
  intros H. destruct (wlog_ensure w H) as [A B]. unfold flush, flush_gen. right.
  cbn [length log]. rewrite count_wh_snoc_f. split; assumption.
Qed.

Lemma wlog_wstep w o : wlog_ok w -> wlog_ok (wstep w o).
Proof.
  intros H. unfold wstep. destruct o; cbn [wstep_gen].
  - apply wlog_write_header; assumption.
  - assumption.
  - apply wlog_write; assumption.
  - apply wlog_flush; assumption.
  - apply wlog_write. apply wlog_write_header; assumption.
  - apply wlog_write_header; assumption.
  - exact H.
Qed.

Lemma wlog_wrun ops : forall w, wlog_ok w -> wlog_ok (wrun ops w).
Proof.
  unfold wrun. induction ops as [|o ops IH]; intros w H; cbn [fold_left]; [assumption|].
  apply IH. apply wlog_wstep; assumption.
Qed.

Lemma wlog_apply_eff e x : wlog_ok (w x) -> wlog_ok (w (apply_eff e x)).
Proof.
  intros H. destruct e; cbn [apply_eff with_trace with_w with_data w]; try assumption.
  apply wlog_wstep; assumption.
Qed.

Lemma wlog_apply_all he : forall x, wlog_ok (w x) -> wlog_ok (w (apply_all xctx eff apply_eff he x)).
Proof.
  unfold apply_all. induction he as [|e he IH]; intros x H; cbn [fold_left]; [assumption|].
  apply IH. apply wlog_apply_eff; assumption.
Qed.

Lemma wlog_note_aborted b x : wlog_ok (w x) -> wlog_ok (w (note_aborted b x)).
Proof. intros H. exact H. Qed.

Lemma wlog_abort_status z x : wlog_ok (w x) -> wlog_ok (w (abort_status z x)).
Proof. intros H. unfold abort_status. cbn [with_w w]. apply wlog_write_header; assumption. Qed.

Definition st_w (s : st xctx eff) : wstate :=
  match s with Run c _ | Halt c | Panicked _ c => w (xs c) end.

Lemma mstep_wlog s : wlog_ok (st_w s) -> wlog_ok (st_w (mstep s)).
Proof.
  intros H. destruct s as [c k|c|p c]; [|exact H|exact H].
  destruct k as [|f k]; [exact H|].
  destruct f as [ops| |].
  - destruct ops as [|o r]; [exact H|].
    destruct o as [e| | |code| |v]; unfold mstep; cbn [step st_w set_xs set_index xs] in *.
    + apply wlog_apply_eff; assumption.
    + assumption.
    + assumption.
    + apply wlog_abort_status; assumption.
    + apply wlog_note_aborted; assumption.
    + assumption.
  - unfold mstep; cbn [step].
    destruct (index c <? len8 xctx eff c); [|exact H].
    destruct (index c <? 0); [exact H|].
    destruct (nth_error (chain c) (Z.to_nat (index c))); exact H.
  - exact H.
Qed.

Lemma mrun_wlog n : forall s, wlog_ok (st_w s) -> wlog_ok (st_w (mrun n s)).
Proof.
  induction n as [|n IH]; intros s H; unfold mrun in *; cbn [run]; [assumption|].
  apply IH. apply (mstep_wlog s H).
Qed.

(* ---------------- C. Hooks made of effects only ---------------- *)

Lemma mrun_halt n (c : ctx xctx eff) : mrun n (Halt c) = Halt c.
Proof. induction n as [|n IH]; unfold mrun in *; cbn [run step]; auto. Qed.

Lemma set_xs_id (c : ctx xctx eff) : set_xs xctx eff (xs c) c = c.
Proof. destruct c; reflexivity. Qed.

Lemma mrun_effs (he : list eff) : forall (c : ctx xctx eff) k,
  mrun (List.length he + 2 + k) (Run c [FOps (effs eff he)]) =
  Halt (set_xs xctx eff (apply_all xctx eff apply_eff he (xs c)) c).
Proof.
  induction he as [|e he IH]; intros c k.
  - cbn [List.length Nat.add effs map]. unfold mrun. cbn [run step].
    fold mrun. rewrite mrun_halt. cbn [apply_all fold_left]. rewrite set_xs_id. reflexivity.
  - cbn [List.length Nat.add effs map]. unfold mrun. cbn [run step]. fold mrun. fold (effs eff he).
    rewrite IH. reflexivity.
Qed.

Lemma run_hook_effs : forall (he : list eff) (c : ctx xctx eff) fuel, (List.length he + 2 <= fuel)%nat ->
  run_hook fuel (effs eff he) c = Halt (set_xs xctx eff (apply_all xctx eff apply_eff he (xs c)) c).
Proof.
  intros he c fuel H. unfold run_hook.
  replace fuel with (List.length he + 2 + (fuel - (List.length he + 2)))%nat by lia.
  apply mrun_effs.
Qed.

(* ---------------- D. Panic containment (C09) ---------------- *)

Lemma effs_length (he : list eff) : List.length (effs eff he) = List.length he.
Proof. unfold effs. apply map_length. Qed.

Lemma assemble_w cfg o t x : w (snd (assemble cfg o t x)) = w x.
Proof. destruct t; reflexivity. Qed.

Lemma final_commit_count x : wlog_ok (w x) -> count_wh (log (w (final_commit x))) = 1%nat.
Proof. intros H. unfold final_commit. cbn [with_w w]. exact (proj2 (wlog_ensure _ H)). Qed.

(* the recovery branch of the dispatcher with an effect-only OnPanic hook *)
Definition recover_x (p : pval) (x : xctx) : xctx := with_data (data_set k_recover (DPanic p) (data x)) x.

Lemma recover_branch he p (c : ctx xctx eff) fuel : (List.length he + 2 <= fuel)%nat ->
  match run_hook fuel (effs eff he) (set_xs xctx eff (recover_x p (xs c)) c) with
  | Halt c3 => Done (final_commit (xs c3)) (started c3)
  | Panicked p' c3 => Escaped p' (xs c3) (started c3)
  | Run _ _ => OutOfFuel
  end = Done (final_commit (apply_all xctx eff apply_eff he (recover_x p (xs c)))) (started c).
Proof. intros H. rewrite (run_hook_effs he _ fuel H). reflexivity. Qed.

Theorem panic_contained : forall cfg o t x0 he r,
  on_panic cfg = Some (effs eff he) ->
  wlog_ok (w x0) ->
  handle_request cfg o t x0 = r -> r <> OutOfFuel ->
  (exists x st, r = Done x st /\ count_wh (log (w x)) = 1%nat).
Proof.
  intros cfg o t x0 he r Hp Hw0 Hr Hne. subst r.
  unfold handle_request, handle_request_gen in *.
  pose proof (assemble_w cfg o t x0) as Haw.
  destruct (assemble cfg o t x0) as [hs x1]. cbn [snd] in Haw. cbv zeta in *.
  set (fuel := (4 * prog_size hs + 64)%nat) in *.
  assert (Hw1 : wlog_ok (st_w (mrun fuel (init xctx eff hs x1)))).
  { apply mrun_wlog. cbn [init st_w init_ctx xs]. rewrite Haw. assumption. }
  assert (Hf : (List.length he + 2 <= 4 * List.length (effs eff he) + 16 + fuel)%nat).
  { rewrite effs_length. lia. }
  rewrite Hp in *.
  destruct (mrun fuel (init xctx eff hs x1)) as [c k|c|p c].
  - exfalso. apply Hne. reflexivity.
  - cbn [st_w] in Hw1.
    destruct (on_error cfg) as [h|].
    + destruct (errors (xs c)) as [|e es].
      * eexists _, _. split; [reflexivity|]. apply final_commit_count; assumption.
      * assert (Hw2 : wlog_ok (st_w (run_hook (4 * List.length h + 16 + fuel) h c))).
        { unfold run_hook. apply mrun_wlog. exact Hw1. }
        destruct (run_hook (4 * List.length h + 16 + fuel) h c) as [c' k'|c'|p' c'].
        -- exfalso. apply Hne. reflexivity.
        -- eexists _, _. split; [reflexivity|]. apply final_commit_count; exact Hw2.
        -- cbn [st_w] in Hw2. fold (recover_x p' (xs c')) in *.
           rewrite (run_hook_effs he _ _ Hf).
           eexists _, _. split; [reflexivity|]. apply final_commit_count.
           apply wlog_apply_all. exact Hw2.
    + eexists _, _. split; [reflexivity|]. apply final_commit_count; assumption.
  - cbn [st_w] in Hw1. fold (recover_x p (xs c)) in *.
    rewrite (run_hook_effs he _ _ Hf).
    eexists _, _. split; [reflexivity|]. apply final_commit_count.
    apply wlog_apply_all. exact Hw1.
Qed.

Theorem panic_value_recorded : forall cfg o t x0 he hs x1 p c,
  on_panic cfg = Some (effs eff he) -> assemble cfg o t x0 = (hs, x1) ->
  mrun (4 * prog_size hs + 64) (init xctx eff hs x1) = Panicked p c ->
  exists st, handle_request cfg o t x0 =
    Done (final_commit (apply_all xctx eff apply_eff he (with_data (data_set k_recover (DPanic p) (data (xs c))) (xs c)))) st.
Proof.
  intros cfg o t x0 he hs x1 p c Hp Ha Hm.
  unfold handle_request, handle_request_gen. rewrite Ha. cbv zeta. rewrite Hm, Hp.
  fold (recover_x p (xs c)).
  rewrite (recover_branch he p c).
  - eexists. reflexivity.
  - rewrite effs_length. lia.
Qed.

Theorem panic_propagates : forall cfg o t x0 hs x1 p c,
  on_panic cfg = None -> assemble cfg o t x0 = (hs, x1) ->
  mrun (4 * prog_size hs + 64) (init xctx eff hs x1) = Panicked p c ->
  handle_request cfg o t x0 = Escaped p (xs c) (started c).
Proof.
  intros cfg o t x0 hs x1 p c Hp Ha Hm.
  unfold handle_request, handle_request_gen. rewrite Ha. cbv zeta. rewrite Hm, Hp. reflexivity.
Qed.
