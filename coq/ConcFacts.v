(* ConcFacts.v — facts about the interleaving models of Conc.v (property C03: concurrent requests are independent):
   (B) with fresh slices no request runs another request's handler, (C) the pool never hands one context to two requests,
   (D) no two accesses of different requests race, (A) lookups sharing the cache answer their solo answers under every schedule. *)
From Rux Require Import Base BaseFacts Str Pattern Cache CacheFacts Table TableFacts Conc.
From Coq Require Import Permutation.

(* ====================================================================== *)
(* generic list helpers                                                   *)
(* ====================================================================== *)
Lemma Forall2_nth_r {A B} (P : A -> B -> Prop) l1 l2 : Forall2 P l1 l2 ->
  forall i b, nth_error l2 i = Some b -> exists a, nth_error l1 i = Some a /\ P a b.
Proof.
  intros H. induction H as [|a0 b0 l1 l2 Hab HF IH]; intros [|i] b Hn; cbn [nth_error] in *; try discriminate.
  - inversion Hn; subst. eauto.
  - apply IH; auto.
Qed.
Lemma Forall2_nth_both {A B} (P : A -> B -> Prop) l1 l2 : Forall2 P l1 l2 ->
  forall i a b, nth_error l1 i = Some a -> nth_error l2 i = Some b -> P a b.
Proof.
  intros H i a b Ha Hb. destruct (Forall2_nth_r P l1 l2 H i b Hb) as (a' & Ha' & HP). congruence.
Qed.
Lemma Forall2_upd_nth {A B} (P : A -> B -> Prop) l1 l2 : Forall2 P l1 l2 ->
  forall i a x, nth_error l1 i = Some a -> P a x -> Forall2 P l1 (upd_nth i x l2).
Proof.
  intros H. induction H as [|a0 b0 l1 l2 Hab HF IH]; intros [|i] a x Hn HP; cbn [nth_error upd_nth] in *; try discriminate.
  - inversion Hn; subst. constructor; auto.
  - constructor; auto. eapply IH; eauto.
Qed.
Lemma Forall2_mono {A B} (P Q : A -> B -> Prop) l1 l2 :
  (forall a b, P a b -> Q a b) -> Forall2 P l1 l2 -> Forall2 Q l1 l2.
Proof. intros HPQ H. induction H; constructor; auto. Qed.

Lemma firstn_snoc_nth {A} (d : A) : forall (l : list A) n, n < List.length l -> firstn n l ++ [nth n l d] = firstn (S n) l.
Proof.
  induction l as [|x l IH]; intros n Hn; cbn [List.length] in Hn; [lia|].
  destruct n as [|n]; [reflexivity|].
  cbn [firstn nth app]. f_equal. apply IH. lia.
Qed.

(* ====================================================================== *)
(* Part B — chain assembly                                                *)
(* ====================================================================== *)
Lemma arr_get_app h ext a : a < List.length h -> arr_get (h ++ ext) a = arr_get h a.
Proof. intros H. unfold arr_get. apply app_nth1; auto. Qed.
Lemma arr_get_new h x : arr_get (h ++ [x]) (List.length h) = x.
Proof. unfold arr_get. apply nth_middle. Qed.

Section ChainB.
Variables (globals : slice) (h0 : heap).
Hypothesis Hglob : s_arr globals < List.length h0.

Definition full_chain (r0 : creq) : list nat := slice_elems h0 globals ++ c_route r0 ++ [c_main r0].

(* what is known of request r (started as r0) when the heap is h *)
Definition creq_ok (h : heap) (r0 r : creq) : Prop :=
  c_route r = c_route r0 /\ c_main r = c_main r0 /\
  match c_chain r with
  | None => True
  | Some ch => s_arr ch < List.length h /\ arr_get h (s_arr ch) = full_chain r0 /\
               s_len ch = List.length (full_chain r0) /\ c_pos r <= s_len ch /\
               c_ran r = firstn (c_pos r) (full_chain r0)
  end.

Definition creqs_inv (rs0 : list creq) (h : heap) (rs : list creq) : Prop :=
  (exists ext, h = h0 ++ ext) /\ Forall2 (creq_ok h) rs0 rs.

Lemma creq_ok_grow h x r0 r : creq_ok h r0 r -> creq_ok (h ++ [x]) r0 r.
Proof.
  intros (Hr & Hm & Hc). split; auto. split; auto.
  destruct (c_chain r) as [ch|]; auto.
  destruct Hc as (Hlt & Harr & Hlen & Hpos & Hran).
  split; [rewrite app_length; lia|]. split; [rewrite arr_get_app; auto|]. auto.
Qed.

Lemma slice_elems_ext ext : slice_elems (h0 ++ ext) globals = slice_elems h0 globals.
Proof. unfold slice_elems. rewrite arr_get_app; auto. Qed.

Lemma creq_step_inv grow rs0 h rs i r :
  creqs_inv rs0 h rs -> nth_error rs i = Some r ->
  creqs_inv rs0 (fst (creq_step true grow globals h r)) (upd_nth i (snd (creq_step true grow globals h r)) rs).
Proof.
  intros [[ext Hext] HF] Hn.
  destruct (Forall2_nth_r _ _ _ HF i r Hn) as (r0 & Hn0 & Hok).
  pose proof Hok as (Hr & Hm & Hc).
  unfold creq_step. destruct (c_chain r) as [ch|] eqn:Ech.
  - destruct Hc as (Hlt & Harr & Hlen & Hpos & Hran).
    destruct (Nat.ltb (c_pos r) (s_len ch)) eqn:Elt; cbn [fst snd].
    + apply Nat.ltb_lt in Elt. split; [eauto|].
      eapply Forall2_upd_nth; eauto.
      unfold creq_ok. cbn [c_route c_main c_chain c_pos c_ran].
      split; auto. split; auto. split; auto. split; auto. split; auto. split; [lia|].
      rewrite Harr, Hran. apply firstn_snoc_nth. lia.
    + split; [eauto|]. eapply Forall2_upd_nth; eauto.
  - unfold combine. cbn [fst snd]. split.
    + exists (ext ++ [slice_elems h globals ++ c_route r ++ [c_main r]]). rewrite Hext, <- app_assoc. reflexivity.
    + eapply Forall2_upd_nth; [|exact Hn0|].
      * eapply Forall2_mono; [|exact HF]. intros a b Hab. apply creq_ok_grow; auto.
      * unfold creq_ok. cbn [c_route c_main c_chain c_pos c_ran s_arr s_len].
        split; auto. split; auto.
        assert (Efull: slice_elems h globals ++ c_route r ++ [c_main r] = full_chain r0).
        { unfold full_chain. rewrite Hext, slice_elems_ext, Hr, Hm. reflexivity. }
        split; [rewrite app_length; cbn [List.length]; lia|].
        split; [rewrite arr_get_new; exact Efull|].
        split; [rewrite <- Efull, !app_length; reflexivity|].
        split; [lia|reflexivity].
Qed.

Lemma run_creqs_inv grow rs0 sched : forall h rs,
  creqs_inv rs0 h rs ->
  creqs_inv rs0 (fst (run_creqs true grow globals h rs sched)) (snd (run_creqs true grow globals h rs sched)).
Proof.
  induction sched as [|i rest IH]; intros h rs Hinv; cbn [run_creqs]; [exact Hinv|].
  destruct (nth_error rs i) as [r|] eqn:En; [|apply IH; auto].
  pose proof (creq_step_inv grow rs0 h rs i r Hinv En) as Hstep.
  destruct (creq_step true grow globals h r) as [h' r']. cbn [fst snd] in Hstep.
  apply IH; auto.
Qed.

Lemma creqs_inv_init rs : (forall r0, In r0 rs -> c_chain r0 = None) -> creqs_inv rs h0 rs.
Proof.
  intros Hnone. split; [exists []; rewrite app_nil_r; reflexivity|].
  induction rs as [|r rs IH]; constructor.
  - unfold creq_ok. split; auto. split; auto. rewrite (Hnone r (or_introl eq_refl)). exact I.
  - apply IH. intros r0 Hin. apply Hnone. right; auto.
Qed.
End ChainB.

Theorem fixed_chains_independent grow globals h rs sched i r :
  s_arr globals < List.length h ->
  (forall r0, In r0 rs -> c_chain r0 = None) ->
  nth_error (snd (run_creqs true grow globals h rs sched)) i = Some r -> creq_done r = true ->
  exists r0, nth_error rs i = Some r0 /\ c_ran r = slice_elems h globals ++ c_route r0 ++ [c_main r0].
Proof.
  intros Hglob Hnone Hn Hdone.
  pose proof (run_creqs_inv globals h Hglob grow rs sched h rs (creqs_inv_init globals h rs Hnone)) as [_ HF].
  destruct (Forall2_nth_r _ _ _ HF i r Hn) as (r0 & Hn0 & (Hr & Hm & Hc)).
  exists r0. split; auto.
  unfold creq_done in Hdone. destruct (c_chain r) as [ch|]; [|discriminate].
  apply Nat.leb_le in Hdone.
  destruct Hc as (Hlt & Harr & Hlen & Hpos & Hran).
  rewrite Hran. fold (full_chain globals h r0).
  replace (c_pos r) with (List.length (full_chain globals h r0)) by lia.
  apply firstn_all.
Qed.

Example legacy_chain_aliasing_refuted :
  let h := [[1; 2; 3; 0]] in let globals := {| s_arr := 0; s_len := 3; s_cap := 4 |} in
  let rs := [mk_creq [] 10; mk_creq [] 20] in
  c_ran (nth 0 (snd (run_creqs false 0 globals h rs [0; 1; 0; 0; 0; 0])) (mk_creq [] 0)) = [1; 2; 3; 20].
Proof. vm_compute. reflexivity. Qed.

(* ====================================================================== *)
(* Part C — the context pool                                              *)
(* ====================================================================== *)
Definition pool_inv (s : pool_state) : Prop :=
  NoDup (pooled s ++ in_use s) /\ (forall c, In c (pooled s ++ in_use s) -> c < next_ctx s).

Lemma pool_inv_init : pool_inv {| pooled := []; in_use := []; next_ctx := 0 |}.
Proof. split; cbn [pooled in_use app]; [constructor|intros c []]. Qed.

Lemma nth_error_take_drop {A} : forall (l : list A) i c, nth_error l i = Some c -> l = firstn i l ++ c :: skipn (S i) l.
Proof.
  induction l as [|x l IH]; intros [|i] c H; cbn [nth_error] in H; try discriminate.
  - inversion H; subst. reflexivity.
  - cbn [firstn skipn app]. f_equal. apply IH; auto.
Qed.

Lemma nodup_app_r {A} (l1 l2 : list A) : NoDup (l1 ++ l2) -> NoDup l2.
Proof. induction l1 as [|x l1 IH]; cbn [app]; auto. intros H. inversion H; subst. auto. Qed.

Lemma perm_remove_in (c : nat) : forall l, NoDup l -> In c l -> Permutation l (c :: remove Nat.eq_dec c l).
Proof.
  induction l as [|x l IH]; intros Hnd Hin; [destruct Hin|].
  inversion Hnd as [|x' l' Hnotin Hnd']; subst.
  cbn [remove]. destruct (Nat.eq_dec c x) as [E|NE].
  - subst x. rewrite notin_remove; auto.
  - destruct Hin as [E|Hin]; [congruence|].
    eapply perm_trans; [apply perm_skip; apply IH; auto|]. apply perm_swap.
Qed.

(* a step that only permutes the contexts keeps the invariant *)
Lemma pool_inv_perm s s' : pool_inv s -> Permutation (pooled s ++ in_use s) (pooled s' ++ in_use s') ->
  next_ctx s' = next_ctx s -> pool_inv s'.
Proof.
  intros [Hnd Hlt] Hp Hn. split.
  - eapply Permutation_NoDup; eauto.
  - intros c Hin. rewrite Hn. apply Hlt. eapply Permutation_in; [apply Permutation_sym; exact Hp|exact Hin].
Qed.

Theorem pool_step_inv s o : pool_inv s -> put_ok s o -> pool_inv (pool_step s o).
Proof.
  intros Hinv Hput. destruct o as [[i|]|c]; cbn [pool_step].
  - destruct (nth_error (pooled s) i) as [c|] eqn:En; [|exact Hinv].
    eapply pool_inv_perm; [exact Hinv| |reflexivity].
    cbn [pooled in_use]. rewrite (nth_error_take_drop _ _ _ En) at 1.
    rewrite <- !app_assoc. apply Permutation_app_head. cbn [app]. apply Permutation_middle.
  - destruct Hinv as [Hnd Hlt]. split; cbn [pooled in_use next_ctx].
    + eapply Permutation_NoDup; [apply Permutation_middle|]. constructor; auto.
      intros Hin. specialize (Hlt _ Hin). lia.
    + intros c Hin. apply in_app_or in Hin. destruct Hin as [Hin|[<-|Hin]]; [| lia |].
      * assert (c < next_ctx s) by (apply Hlt; apply in_or_app; auto). lia.
      * assert (c < next_ctx s) by (apply Hlt; apply in_or_app; auto). lia.
  - cbn [put_ok] in Hput. eapply pool_inv_perm; [exact Hinv| |reflexivity].
    cbn [pooled in_use app]. destruct Hinv as [Hnd _].
    eapply perm_trans; [|apply Permutation_sym; apply Permutation_middle].
    apply Permutation_app_head. apply perm_remove_in; auto.
    eapply nodup_app_r; eauto.
Qed.

Theorem pool_run_inv ops : forall s, pool_inv s ->
  (fix ok (s : pool_state) (l : list pool_op) : Prop := match l with [] => True | o :: r => put_ok s o /\ ok (pool_step s o) r end) s ops ->
  pool_inv (fold_left pool_step ops s).
Proof.
  induction ops as [|o r IH]; intros s Hinv Hok; cbn [fold_left]; [exact Hinv|].
  destruct Hok as [Hput Hok]. apply IH; [apply pool_step_inv; auto|exact Hok].
Qed.

Example legacy_double_put_refuted :
  let s := fold_left pool_step [PGet None; PPut 0; PPut 0; PGet (Some 0); PGet (Some 0)] {| pooled := []; in_use := []; next_ctx := 0 |} in
  in_use s = [0; 0].
Proof. vm_compute. reflexivity. Qed.

(* ====================================================================== *)
(* Part D — footprints                                                    *)
(* ====================================================================== *)
Theorem requests_race_free t u : t <> u ->
  forall a b, In a (request_accesses t) -> In b (request_accesses u) -> races a b = false.
Proof.
  intros Hne a b Ha Hb. apply Nat.eqb_neq in Hne.
  unfold request_accesses, acc_cache_get, acc_cache_set, acc_lookup_tables, acc_assemble, acc_handler in Ha, Hb.
  cbn [app In] in Ha, Hb.
  repeat (destruct Ha as [Ha|Ha]; [subst a|]); try contradiction;
  repeat (destruct Hb as [Hb|Hb]; [subst b|]); try contradiction;
  unfold races; cbn [a_loc a_write a_lock loc_eqb excl andb orb negb]; try rewrite Hne; reflexivity.
Qed.

Example legacy_get_race_refuted : exists a b, In a acc_cache_get_legacy /\ In b acc_cache_get_legacy /\ races a b = true.
Proof.
  exists {| a_loc := LCacheList; a_write := true; a_lock := ReadLock |}, {| a_loc := LCacheList; a_write := true; a_lock := ReadLock |}.
  unfold acc_cache_get_legacy. cbn [In]. split; [auto|]. split; [auto|reflexivity].
Qed.
Example legacy_assemble_race_refuted : exists a b, In a (acc_assemble_legacy 0) /\ In b (acc_assemble_legacy 1) /\ races a b = true.
Proof.
  exists {| a_loc := LRouterHandlers; a_write := true; a_lock := NoLock |}, {| a_loc := LRouterHandlers; a_write := true; a_lock := NoLock |}.
  unfold acc_assemble_legacy. cbn [In]. split; [auto|]. split; [auto|reflexivity].
Qed.

(* ====================================================================== *)
(* Part A — lookups sharing the cache                                     *)
(* ====================================================================== *)
(* t is a thread that was started on the lookup list qs: what it answered so far are the cache-free answers, in order;
   a thread between its Get and its Set (phase PMiss) has already seen that its key is not a static key *)
Definition thread_ok (rt : router) (qs : list (str * str)) (t : thread) : Prop :=
  exists done, qs = done ++ pending t /\ results t = map (fun '(m, p) => fst (match_ (nocache rt) m p)) done /\
               (forall m p, In (m, p) qs -> no_slash m /\ rooted p) /\
               (ph t = PMiss -> match pending t with (m, p) :: _ => assoc (m ++ p) (stable rt) = None | [] => True end).

Lemma thread_ok_same_tables rt rt' qs t : nocache rt' = nocache rt -> thread_ok rt qs t -> thread_ok rt' qs t.
Proof.
  intros E (done & Hqs & Hres & Hwf & Hph). exists done. rewrite E.
  split; auto. split; auto. split; auto.
  change (stable rt') with (stable (nocache rt')). rewrite E. exact Hph.
Qed.

Lemma thread_ok_finish rt qs t m p rest r :
  thread_ok rt qs t -> pending t = (m, p) :: rest -> fst (match_ (nocache rt) m p) = r ->
  thread_ok rt qs (finish_lookup t r).
Proof.
  intros (done & Hqs & Hres & Hwf & Hph) Hpend Hr.
  exists (done ++ [(m, p)]). unfold finish_lookup. cbn [pending ph results]. rewrite Hpend. cbn [tl].
  split; [rewrite <- app_assoc; cbn [app]; rewrite <- Hpend; exact Hqs|].
  split; [rewrite map_app, Hres; cbn [map]; rewrite Hr; reflexivity|].
  split; [exact Hwf|discriminate].
Qed.

Lemma thread_ok_to_miss rt qs t m p rest :
  thread_ok rt qs t -> pending t = (m, p) :: rest -> assoc (m ++ p) (stable rt) = None ->
  thread_ok rt qs {| pending := (m, p) :: rest; ph := PMiss; results := results t |}.
Proof.
  intros (done & Hqs & Hres & Hwf & Hph) Hpend Ha.
  exists done. cbn [pending ph results]. rewrite <- Hpend. split; auto.
Qed.

Lemma thread_step_ok rt qs t : coherent rt -> thread_ok rt qs t ->
  coherent (fst (thread_step rt t)) /\ thread_ok (fst (thread_step rt t)) qs (snd (thread_step rt t)) /\
  nocache (fst (thread_step rt t)) = nocache rt.
Proof.
  intros Hco Hok. unfold thread_step.
  destruct (pending t) as [|[m p] rest] eqn:Hpend; [cbn [fst snd]; auto|].
  assert (Hmp: no_slash m /\ rooted p).
  { destruct Hok as (done & Hqs & _ & Hwf & _). apply Hwf. rewrite Hqs, Hpend. apply in_or_app. right. left. reflexivity. }
  destruct Hmp as [Hm Hp].
  pose proof (match_nocache rt m p) as Hnc.
  destruct (ph t) eqn:Eph.
  - (* PStart *)
    destruct (assoc (m ++ p) (stable rt)) as [rid|] eqn:Ea.
    + cbn [fst snd]. split; auto. split; auto.
      eapply thread_ok_finish; eauto. rewrite Hnc. reflexivity.
    + destruct (o_caching (ropts rt)) eqn:Ec.
      * unfold aget. destruct (afind (nat * params) (m ++ p) (cache rt)) as [[rid ps]|] eqn:Ef; cbn [fst snd].
        -- apply afind_in in Ef. destruct (Hco _ _ _ Ef m p Hm Hp eq_refl) as [Hd _].
           split; [|split; [|reflexivity]].
           ++ apply coherent_set_cache; auto. intros x [<-|Hx]; auto. eapply in_aremove; eauto.
           ++ apply (thread_ok_same_tables rt); [reflexivity|].
              eapply thread_ok_finish; eauto. rewrite Hnc, Hd. reflexivity.
        -- split; [|split; [|reflexivity]].
           ++ apply coherent_set_cache; auto.
           ++ apply (thread_ok_same_tables rt); [reflexivity|]. eapply thread_ok_to_miss; eauto.
      * cbn [fst snd]. split; auto. split; auto. eapply thread_ok_to_miss; eauto.
  - (* PMiss: the static tier was consulted before *)
    assert (Ea: assoc (m ++ p) (stable rt) = None).
    { destruct Hok as (done & _ & _ & _ & Hph). specialize (Hph Eph). rewrite Hpend in Hph. exact Hph. }
    rewrite Ea in Hnc.
    destruct (dyn_match rt m p) as [|rid [ps|]| |] eqn:Ed; cbn [fst snd];
      try (split; [exact Hco|]; split; [|reflexivity]; eapply thread_ok_finish; eauto; rewrite Hnc; reflexivity).
    split; [|split; [|reflexivity]].
    + destruct (o_caching (ropts rt)); [|apply coherent_set_cache; auto].
      intros k rid' ps' Hin. cbn [cache set_cache] in Hin. apply in_aset in Hin. destruct Hin as [E|Hin].
      * inversion E; subst. intros m' p' Hm' Hp' Hk.
        destruct (key_split m' m p' p Hm' Hm Hp' Hp Hk) as [-> ->]. split; auto.
      * exact (Hco k rid' ps' Hin).
    + apply (thread_ok_same_tables rt); [reflexivity|].
      eapply thread_ok_finish; eauto. rewrite Hnc. reflexivity.
Qed.

Lemma run_sched_inv qss sched : forall rt ts,
  coherent rt -> Forall2 (thread_ok rt) qss ts ->
  coherent (fst (run_sched rt ts sched)) /\
  Forall2 (thread_ok (fst (run_sched rt ts sched))) qss (snd (run_sched rt ts sched)) /\
  nocache (fst (run_sched rt ts sched)) = nocache rt.
Proof.
  induction sched as [|i rest IH]; intros rt ts Hco HF; cbn [run_sched]; [cbn [fst snd]; auto|].
  destruct (nth_error ts i) as [t|] eqn:En; [|apply IH; auto].
  destruct (Forall2_nth_r _ _ _ HF i t En) as (qs & Hq & Hok).
  destruct (thread_step_ok rt qs t Hco Hok) as (Hco' & Hok' & Enc).
  destruct (thread_step rt t) as [rt' t']. cbn [fst snd] in Hco', Hok', Enc.
  assert (HF': Forall2 (thread_ok rt') qss (upd_nth i t' ts)).
  { eapply Forall2_upd_nth; [|exact Hq|exact Hok'].
    eapply Forall2_mono; [|exact HF]. intros a b Hab. eapply thread_ok_same_tables; eauto. }
  destruct (IH rt' (upd_nth i t' ts) Hco' HF') as (H1 & H2 & H3).
  split; auto. split; auto. congruence.
Qed.

Lemma threads_ok_init rt qss : (forall qs m p, In qs qss -> In (m, p) qs -> no_slash m /\ rooted p) ->
  Forall2 (thread_ok rt) qss (map mk_thread qss).
Proof.
  induction qss as [|qs qss IH]; intros Hwf; cbn [map]; constructor.
  - exists []. unfold mk_thread. cbn [pending ph results app map]. split; auto. split; auto.
    split; [intros m p Hin; eapply Hwf; [left; reflexivity|exact Hin]|discriminate].
  - apply IH. intros qs' m p Hin. apply Hwf. right; auto.
Qed.

Theorem lookups_independent rt qss sched :
  coherent rt -> (forall qs m p, In qs qss -> In (m, p) qs -> no_slash m /\ rooted p) ->
  let '(rt', ts') := run_sched rt (map mk_thread qss) sched in
  coherent rt' /\
  forall i t qs, nth_error ts' i = Some t -> nth_error qss i = Some qs ->
    exists done, qs = done ++ pending t /\ results t = solo_results (nocache rt) done.
Proof.
  intros Hco Hwf.
  destruct (run_sched_inv qss sched rt (map mk_thread qss) Hco (threads_ok_init rt qss Hwf)) as (Hco' & HF & Enc).
  destruct (run_sched rt (map mk_thread qss) sched) as [rt' ts']. cbn [fst snd] in Hco', HF, Enc.
  split; auto. intros i t qs Ht Hq.
  destruct (Forall2_nth_both _ _ _ HF i qs t Hq Ht) as (done & Hqs & Hres & _).
  exists done. split; auto. unfold solo_results. rewrite <- Enc. exact Hres.
Qed.

(* in particular a thread that has finished answered exactly its solo answers, for every schedule *)
Corollary finished_thread_solo rt qss sched i t qs :
  coherent rt -> (forall qs m p, In qs qss -> In (m, p) qs -> no_slash m /\ rooted p) ->
  nth_error (snd (run_sched rt (map mk_thread qss) sched)) i = Some t -> nth_error qss i = Some qs -> pending t = [] ->
  results t = solo_results (nocache rt) qs.
Proof.
  intros Hco Hwf Ht Hq Hpend.
  pose proof (lookups_independent rt qss sched Hco Hwf) as H.
  destruct (run_sched rt (map mk_thread qss) sched) as [rt' ts']. cbn [snd] in Ht.
  destruct H as [_ H]. destruct (H i t qs Ht Hq) as (done & Hqs & Hres).
  rewrite Hpend, app_nil_r in Hqs. subst done. exact Hres.
Qed.
