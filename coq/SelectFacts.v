(* SelectFacts.v — route lookup in a router built from grammar-level routes equals the documented
   selection rule spec_select (C01), and QuickMatch is the documented fallback ladder (C06). *)
From Rux Require Import Base BaseFacts Str Consts Norm NormFacts Rx RxFacts RxParse Pattern Pat PatFacts
  Cache CacheFacts Table TableFacts PatTable.

(* ====================================================================== *)
(* 0. small list facts                                                    *)
(* ====================================================================== *)

(* positions (counted from i) of the elements satisfying f *)
Fixpoint idx_filter {A} (f : A -> bool) (l : list A) (i : nat) : list nat :=
  match l with
  | [] => []
  | x :: r => if f x then i :: idx_filter f r (S i) else idx_filter f r (S i)
  end.

Lemma idx_filter_range {A} (f : A -> bool) l : forall i j, In j (idx_filter f l i) -> i <= j < i + List.length l.
Proof.
  induction l as [|x l IH]; intros i j H; cbn [idx_filter List.length] in *; [destruct H|].
  destruct (f x).
  - destruct H as [<-|H]; [lia|]. apply IH in H. lia.
  - apply IH in H. lia.
Qed.

Lemma find_idx_filter {A} (Q : nat -> bool) (f P : A -> bool) l : forall i,
  (forall j x, nth_error l j = Some x -> Q (i + j) = P x) ->
  find Q (idx_filter f l i) = find_idx (fun x => f x && P x) l i.
Proof.
  induction l as [|x l IH]; intros i HQ; cbn [idx_filter find_idx find]; [reflexivity|].
  assert (IH' : find Q (idx_filter f l (S i)) = find_idx (fun x => f x && P x) l (S i)).
  { apply IH. intros j y Hj. replace (S i + j) with (i + S j) by lia. apply HQ. exact Hj. }
  pose proof (HQ 0 x eq_refl) as H0. rewrite Nat.add_0_r in H0.
  destruct (f x); cbn [andb find].
  - rewrite H0. destruct (P x); [reflexivity|exact IH'].
  - exact IH'.
Qed.

Lemma find_idx_ext_in {A} (P Q : A -> bool) l : (forall x, In x l -> P x = Q x) ->
  forall i, find_idx P l i = find_idx Q l i.
Proof.
  induction l as [|x l IH]; intros H i; cbn [find_idx]; [reflexivity|].
  rewrite (H x) by (left; reflexivity). destruct (Q x); [reflexivity|].
  apply IH. intros y Hy. apply H. right. exact Hy.
Qed.

Lemma find_last_idx_ext_in {A} (P Q : A -> bool) l : (forall x, In x l -> P x = Q x) ->
  forall i acc, find_last_idx P l i acc = find_last_idx Q l i acc.
Proof.
  induction l as [|x l IH]; intros H i acc; cbn [find_last_idx]; [reflexivity|].
  rewrite (H x) by (left; reflexivity). apply IH. intros y Hy. apply H. right. exact Hy.
Qed.

Lemma find_idx_some {A} (f : A -> bool) l : forall i k, find_idx f l i = Some k ->
  i <= k /\ exists x, nth_error l (k - i) = Some x /\ f x = true.
Proof.
  induction l as [|x l IH]; intros i k H; cbn [find_idx] in H; [discriminate|].
  destruct (f x) eqn:E.
  - inversion H; subst k. split; [lia|]. rewrite Nat.sub_diag. exists x. auto.
  - apply IH in H. destruct H as [Hle (y & Hy & Hf)]. split; [lia|].
    replace (k - i) with (S (k - S i)) by lia. exists y. auto.
Qed.

Lemma find_idx_none {A} (f : A -> bool) l : forall i, find_idx f l i = None -> forall x, In x l -> f x = false.
Proof.
  induction l as [|x l IH]; intros i H y Hy; cbn [find_idx] in H; [destruct Hy|].
  destruct (f x) eqn:E; [discriminate|]. destruct Hy as [<-|Hy]; [exact E|]. eapply IH; eauto.
Qed.

Lemma find_last_idx_some {A} (f : A -> bool) l : forall i acc k, find_last_idx f l i acc = Some k ->
  acc = Some k \/ (i <= k /\ exists x, nth_error l (k - i) = Some x /\ f x = true).
Proof.
  induction l as [|x l IH]; intros i acc k H; cbn [find_last_idx] in H; [left; exact H|].
  apply IH in H. destruct H as [H|[Hle (y & Hy & Hf)]].
  - destruct (f x) eqn:E; [|left; exact H].
    inversion H; subst k. right. split; [lia|]. rewrite Nat.sub_diag. exists x. auto.
  - right. split; [lia|]. replace (k - i) with (S (k - S i)) by lia. exists y. auto.
Qed.

Lemma find_last_idx_none {A} (f : A -> bool) l : forall i acc, find_last_idx f l i acc = None ->
  acc = None /\ forall x, In x l -> f x = false.
Proof.
  induction l as [|x l IH]; intros i acc H; cbn [find_last_idx] in H.
  - split; [exact H|]. intros y [].
  - apply IH in H. destruct H as [Ha Hl]. destruct (f x) eqn:E; [discriminate|].
    split; [exact Ha|]. intros y [<-|Hy]; auto.
Qed.

(* ====================================================================== *)
(* 1. maps                                                                *)
(* ====================================================================== *)

Lemma assoc_map_set {A} k k' (v : A) l :
  assoc k (map_set k' v l) = if str_eqb k k' then Some v else assoc k l.
Proof.
  induction l as [|[k0 v0] l IH]; cbn [map_set assoc]; [reflexivity|].
  destruct (str_eqb_spec k' k0) as [E|NE]; cbn [assoc].
  - subst k0. destruct (str_eqb k k'); reflexivity.
  - destruct (str_eqb_spec k k0) as [E0|NE0].
    + subst k0. destruct (str_eqb_spec k k') as [E1|NE1]; [congruence|reflexivity].
    + exact IH.
Qed.

Lemma get_map_append {A} k k' (x : A) l :
  map_get_list k (map_append k' x l) = if str_eqb k k' then map_get_list k l ++ [x] else map_get_list k l.
Proof.
  unfold map_append, map_get_list at 1. rewrite assoc_map_set.
  destruct (str_eqb_spec k k') as [E|NE]; [subst k'|]; reflexivity.
Qed.

Lemma assoc_fold_set (f : str -> str) (rid : nat) k ms : forall st,
  assoc k (fold_left (fun st m => map_set (f m) rid st) ms st) =
  if existsb (fun m => str_eqb k (f m)) ms then Some rid else assoc k st.
Proof.
  induction ms as [|m ms IH]; intros st; cbn [fold_left existsb]; [reflexivity|].
  rewrite IH, assoc_map_set.
  destruct (existsb (fun m0 => str_eqb k (f m0)) ms); [rewrite orb_true_r; reflexivity|].
  rewrite orb_false_r. reflexivity.
Qed.

Lemma get_fold_append (f : str -> str) (rid : nat) k ms : forall l,
  NoDup ms -> (forall a b, f a = f b -> a = b) ->
  map_get_list k (fold_left (fun acc m => map_append (f m) rid acc) ms l) =
  map_get_list k l ++ (if existsb (fun m => str_eqb k (f m)) ms then [rid] else []).
Proof.
  induction ms as [|m ms IH]; intros l ND Hinj; cbn [fold_left existsb].
  - rewrite app_nil_r. reflexivity.
  - inversion ND as [|? ? Hnotin ND']; subst.
    rewrite IH by assumption. rewrite get_map_append.
    destruct (str_eqb_spec k (f m)) as [E|NE]; cbn [orb].
    + assert (Hnone : existsb (fun m0 => str_eqb k (f m0)) ms = false).
      { apply not_true_is_false. intros Hex. apply existsb_exists in Hex. destruct Hex as (m' & Hin & Hk).
        apply str_eqb_eq in Hk. rewrite E in Hk. apply Hinj in Hk. subst m'. contradiction. }
      rewrite Hnone, app_nil_r. reflexivity.
    + reflexivity.
Qed.

(* ====================================================================== *)
(* 2. what one registration does to the tables                            *)
(* ====================================================================== *)

(* the first-node key of a grammar-level route, as route_of computes it ("" = none) *)
Definition s_first (s : sroute) : str :=
  match s_pat s with Some p => snd (start_and_first (pat_prefix p)) | None => [] end.
Definition keyed_static (k : str) (s : sroute) : bool :=
  s_static s && existsb (fun m => str_eqb k (m ++ s_path s)) (s_methods s).
Definition keyed_reg (k : str) (s : sroute) : bool :=
  negb (s_static s) && negb (nil_b (s_first s)) && existsb (fun m => str_eqb k (m ++ s_first s)) (s_methods s).
Definition keyed_irr (k : str) (s : sroute) : bool :=
  negb (s_static s) && nil_b (s_first s) && mem k (s_methods s).

Definition one_if (b : bool) (n : nat) : list nat := if b then [n] else [].

Lemma insert_char rt s : NoDup (s_methods s) ->
  routes (insert_route rt (route_of s)) = routes rt ++ [route_of s] /\
  ropts (insert_route rt (route_of s)) = ropts rt /\
  cache (insert_route rt (route_of s)) = cache rt /\
  (forall k, assoc k (stable (insert_route rt (route_of s))) =
             if keyed_static k s then Some (List.length (routes rt)) else assoc k (stable rt)) /\
  (forall k, map_get_list k (regular (insert_route rt (route_of s))) =
             map_get_list k (regular rt) ++ one_if (keyed_reg k s) (List.length (routes rt))) /\
  (forall k, map_get_list k (irregular (insert_route rt (route_of s))) =
             map_get_list k (irregular rt) ++ one_if (keyed_irr k s) (List.length (routes rt))).
Proof.
  intros ND. unfold keyed_static, keyed_reg, keyed_irr, s_first, s_static, route_of, one_if.
  destruct (s_pat s) as [p|].
  - destruct (start_and_first (pat_prefix p)) as [st fi]. cbn [snd negb andb].
    unfold insert_route. cbn [rt_kind rt_methods rt_path rt_name].
    destruct fi as [|c fi]; unfold set_tables; cbn [routes ropts cache stable regular irregular nil_b negb andb].
    + repeat split; try (intros k; rewrite app_nil_r; reflexivity).
      intros k. apply (get_fold_append (fun m => m)); auto.
    + repeat split; try (intros k; rewrite app_nil_r; reflexivity).
      intros k. apply (get_fold_append (fun m => m ++ c :: fi)); auto.
      intros a b H. eapply app_inv_tail; eauto.
  - cbn [negb andb]. unfold insert_route. cbn [rt_kind rt_methods rt_path rt_name].
    unfold set_tables; cbn [routes ropts cache stable regular irregular].
    repeat split; try (intros k; rewrite app_nil_r; reflexivity).
    intros k. apply (assoc_fold_set (fun m => m ++ s_path s)).
Qed.

Lemma fold_char rs : forall rt, Forall (fun s => NoDup (s_methods s)) rs ->
  routes (fold_left insert_route (map route_of rs) rt) = routes rt ++ map route_of rs /\
  ropts (fold_left insert_route (map route_of rs) rt) = ropts rt /\
  cache (fold_left insert_route (map route_of rs) rt) = cache rt /\
  (forall k, assoc k (stable (fold_left insert_route (map route_of rs) rt)) =
             find_last_idx (keyed_static k) rs (List.length (routes rt)) (assoc k (stable rt))) /\
  (forall k, map_get_list k (regular (fold_left insert_route (map route_of rs) rt)) =
             map_get_list k (regular rt) ++ idx_filter (keyed_reg k) rs (List.length (routes rt))) /\
  (forall k, map_get_list k (irregular (fold_left insert_route (map route_of rs) rt)) =
             map_get_list k (irregular rt) ++ idx_filter (keyed_irr k) rs (List.length (routes rt))).
Proof.
  induction rs as [|s rs IH]; intros rt ND; cbn [map fold_left find_last_idx idx_filter].
  - rewrite app_nil_r. repeat split; intros k; rewrite ?app_nil_r; reflexivity.
  - pose proof (Forall_inv ND) as NDs. pose proof (Forall_inv_tail ND) as NDr.
    destruct (insert_char rt s NDs) as (H1 & H2 & H3 & H4 & H5 & H6).
    destruct (IH (insert_route rt (route_of s)) NDr) as (I1 & I2 & I3 & I4 & I5 & I6).
    assert (EL : List.length (routes (insert_route rt (route_of s))) = S (List.length (routes rt))).
    { rewrite H1, app_length. cbn [List.length]. lia. }
    rewrite EL in *.
    split; [rewrite I1, H1, <- app_assoc; reflexivity|].
    split; [congruence|]. split; [congruence|].
    split; [|split]; intros k.
    + rewrite I4, H4. destruct (keyed_static k s); reflexivity.
    + rewrite I5, H5, <- app_assoc. unfold one_if. destruct (keyed_reg k s); reflexivity.
    + rewrite I6, H6, <- app_assoc. unfold one_if. destruct (keyed_irr k s); reflexivity.
Qed.

(* ====================================================================== *)
(* 3. pattern-side obligations                                            *)
(* ====================================================================== *)

Record wf_sroute (s : sroute) : Prop := {
  wf_m_noslash : forall m, In m (s_methods s) -> no_slash m;
  wf_m_nodup : NoDup (s_methods s);
  wf_p_rooted : rooted (s_path s);
  wf_pat : forall p, s_pat s = Some p -> pat_ok p /\ (exists t, pat_prefix p = slash :: t)
}.

Lemma start_and_first_fst pre : fst (start_and_first pre) = [] \/ fst (start_and_first pre) = pre.
Proof.
  unfold start_and_first. destruct pre as [|a [|b t]]; auto.
  destruct (index_of slash (b :: t)) as [[|pos]|]; auto.
  destruct (Nat.eqb _ 2); auto.
Qed.

(* route_of's first node and the grammar's first segment are the same thing *)
Lemma first_seg_link p :
  match first_segment p with
  | Some f => snd (start_and_first (pat_prefix p)) = f /\ f <> []
  | None => snd (start_and_first (pat_prefix p)) = []
  end.
Proof.
  unfold first_segment, start_and_first. destruct (pat_prefix p) as [|a [|b t]]; [reflexivity|reflexivity|].
  destruct (index_of slash (b :: t)) as [[|pos]|]; try reflexivity.
  split; [destruct (Nat.eqb _ 2); reflexivity|]. cbn [firstn]. discriminate.
Qed.

Lemma first_segment_shape p f : first_segment p = Some f -> f <> [] /\ ~ In slash f.
Proof.
  unfold first_segment. destruct (pat_prefix p) as [|a tl1]; [discriminate|].
  destruct (index_of slash tl1) as [[|pos]|] eqn:Ei; try discriminate.
  intros H. inversion H; subst f. split.
  - destruct tl1 as [|b t]; [discriminate|]. cbn [firstn]. discriminate.
  - apply (index_of_firstn_skipn _ _ _ Ei).
Qed.

Lemma index_of_app_notin c f r : ~ In c f -> index_of c (f ++ c :: r) = Some (List.length f).
Proof.
  induction f as [|x f IH]; intros H; cbn [app index_of List.length].
  - rewrite N.eqb_refl. reflexivity.
  - destruct (N.eqb_spec x c) as [E|NE]; [exfalso; apply H; left; exact E|].
    rewrite IH; [reflexivity|]. intros Hin. apply H. right. exact Hin.
Qed.

Lemma first_node_shape f rest : f <> [] -> ~ In slash f -> first_node (slash :: f ++ slash :: rest) = Ok (Some f).
Proof.
  intros Hne Hni. unfold first_node. rewrite index_of_app_notin by exact Hni.
  destruct f as [|x f]; [congruence|]. cbn [List.length].
  change (S (List.length f)) with (List.length (x :: f)).
  rewrite firstn_app, firstn_all, Nat.sub_diag. cbn [firstn]. rewrite app_nil_r. reflexivity.
Qed.

(* I2: first-node key soundness *)
Lemma first_node_of_match p path f : pat_ok p -> (exists t, pat_prefix p = slash :: t) ->
  first_segment p = Some f -> pat_matches p path = true -> first_node path = Ok (Some f).
Proof.
  intros OK Hpre Hf Hm. apply (pat_matches_iff p path OK) in Hm. destruct Hm as [vs D].
  destruct (pat_den_first_segment p path vs f Hpre D Hf) as [rest ->].
  destruct (first_segment_shape p f Hf) as [Hne Hni]. apply first_node_shape; assumption.
Qed.

(* I1: prefix filter soundness *)
Lemma prefix_sound p path : pat_ok p -> pat_matches p path = true ->
  has_prefix (fst (start_and_first (pat_prefix p))) path = true.
Proof.
  intros OK Hm. apply (pat_matches_iff p path OK) in Hm. destruct Hm as [vs D].
  destruct (start_and_first_fst (pat_prefix p)) as [E|E]; rewrite E.
  - reflexivity.
  - eapply pat_den_prefix; eauto.
Qed.

Lemma route_match_of s path :
  (route_match (route_of s) path = MNo /\ s_matches s path = false) \/
  (exists ps, route_match (route_of s) path = MYes ps /\ s_matches s path = true).
Proof.
  unfold route_of, s_matches. destruct (s_pat s) as [p|].
  - destruct (start_and_first (pat_prefix p)) as [st fi]. unfold route_match. cbn [rt_kind].
    unfold match_regex, pat_matches, matches. destruct (full (pat_rx p) path) as [c|]; [|left; auto].
    pose proof (zip_params_total (List.length (pat_names p)) 0 (pat_names p) c []) as Hz.
    destruct (zip_params (List.length (pat_names p)) 0 (pat_names p) c []) as [ps|].
    + right. exists ps. auto.
    + exfalso. apply Hz; [cbn; lia|reflexivity].
  - left. auto.
Qed.

Lemma route_start_of s :
  route_start (route_of s) = match s_pat s with Some p => fst (start_and_first (pat_prefix p)) | None => [] end.
Proof.
  unfold route_of. destruct (s_pat s) as [p|]; [|reflexivity].
  destruct (start_and_first (pat_prefix p)) as [st fi]. reflexivity.
Qed.

(* scanning an id list = find over the ids *)
Definition sm (rs : list sroute) (path : str) (i : nat) : bool :=
  match nth_error rs i with Some s => s_matches s path | None => false end.

Lemma scan_char rs chk ids path : Forall wf_sroute rs -> (forall i, In i ids -> i < List.length rs) ->
  (find (sm rs path) ids = None /\ scan (map route_of rs) chk ids path = LNone) \/
  (exists i ps, find (sm rs path) ids = Some i /\ scan (map route_of rs) chk ids path = LHit i (Some ps)).
Proof.
  intros WF. induction ids as [|i rest IH]; intros Hids; cbn [scan find]; [left; auto|].
  assert (IH' := IH (fun j Hj => Hids j (or_intror Hj))). clear IH.
  rewrite nth_error_map. unfold sm at 1 3.
  destruct (nth_error rs i) as [s|] eqn:E; cbn [option_map].
  - destruct (route_match_of s path) as [[Hm Hs]|(ps & Hm & Hs)]; rewrite Hs.
    + rewrite Hm. destruct (chk && negb (has_prefix (route_start (route_of s)) path)); exact IH'.
    + assert (Hpre : has_prefix (route_start (route_of s)) path = true).
      { rewrite route_start_of. unfold s_matches in Hs. destruct (s_pat s) as [p|] eqn:Ep; [|discriminate].
        apply prefix_sound; [|exact Hs].
        rewrite Forall_forall in WF. apply (wf_pat s (WF s (nth_error_In _ _ E)) p Ep). }
      rewrite Hpre. cbn [negb]. rewrite andb_false_r, Hm. right. exists i, ps. auto.
  - exfalso. apply nth_error_None in E. specialize (Hids i (or_introl eq_refl)). lia.
Qed.

(* ====================================================================== *)
(* 4. the tables of a built router                                        *)
(* ====================================================================== *)

Lemma wf_nodup rs : Forall wf_sroute rs -> Forall (fun s => NoDup (s_methods s)) rs.
Proof. intros H. eapply Forall_impl; [|exact H]. intros s W. exact (wf_m_nodup s W). Qed.

Lemma build_char o rs : Forall wf_sroute rs ->
  routes (build o rs) = map route_of rs /\ ropts (build o rs) = o /\ cache (build o rs) = [] /\
  (forall k, assoc k (stable (build o rs)) = find_last_idx (keyed_static k) rs 0 None) /\
  (forall k, map_get_list k (regular (build o rs)) = idx_filter (keyed_reg k) rs 0) /\
  (forall k, map_get_list k (irregular (build o rs)) = idx_filter (keyed_irr k) rs 0).
Proof.
  intros WF. unfold build.
  destruct (fold_char rs (new_router o) (wf_nodup rs WF)) as (H1 & H2 & H3 & H4 & H5 & H6).
  cbn [new_router routes ropts cache stable regular irregular app List.length assoc] in *.
  repeat split; auto.
Qed.

Lemma build_routes o rs : Forall wf_sroute rs -> routes (build o rs) = map route_of rs.
Proof. intros WF. apply (build_char o rs WF). Qed.
Lemma build_opts o rs : Forall wf_sroute rs -> ropts (build o rs) = o.
Proof. intros WF. apply (build_char o rs WF). Qed.
Lemma build_cache o rs : Forall wf_sroute rs -> cache (build o rs) = [].
Proof. intros WF. apply (build_char o rs WF). Qed.

(* static tier: the last registration of the key *)
Lemma static_char o rs m p : Forall wf_sroute rs -> no_slash m -> rooted p ->
  assoc (m ++ p) (stable (build o rs)) =
  find_last_idx (fun r => s_static r && mem m (s_methods r) && str_eqb (s_path r) p) rs 0 None.
Proof.
  intros WF Hm Hp. destruct (build_char o rs WF) as (_ & _ & _ & H4 & _). rewrite H4.
  apply find_last_idx_ext_in. intros x Hx. rewrite Forall_forall in WF. pose proof (WF x Hx) as W.
  unfold keyed_static. destruct (s_static x); cbn [andb]; [|reflexivity].
  apply eq_iff_eq_true. rewrite existsb_exists, andb_true_iff, mem_in, str_eqb_eq. split.
  - intros (m' & Hin & Hk). apply str_eqb_eq in Hk.
    destruct (key_split m m' p (s_path x) Hm (wf_m_noslash x W m' Hin) Hp (wf_p_rooted x W) Hk) as [-> ->]. auto.
  - intros [Hin ->]. exists m. split; [exact Hin|apply str_eqb_refl].
Qed.

Lemma s_first_link s p : s_pat s = Some p ->
  match first_segment p with
  | Some f => s_first s = f /\ f <> []
  | None => s_first s = []
  end.
Proof. intros E. unfold s_first. rewrite E. apply first_seg_link. Qed.

Definition reg_pred (m path : str) (r : sroute) : bool :=
  negb (s_static r) && s_has_first r && mem m (s_methods r) && s_matches r path.
Definition irr_pred (m path : str) (r : sroute) : bool :=
  negb (s_static r) && negb (s_has_first r) && mem m (s_methods r) && s_matches r path.

Lemma reg_pred_key rs m path f' : Forall wf_sroute rs -> first_node path = Ok (Some f') ->
  forall x, In x rs -> keyed_reg (m ++ f') x && s_matches x path = reg_pred m path x.
Proof.
  intros WF Efn x Hx. rewrite Forall_forall in WF. pose proof (WF x Hx) as W.
  unfold keyed_reg, reg_pred, s_has_first, s_static, s_matches.
  destruct (s_pat x) as [pt|] eqn:Ep; [|reflexivity]. cbn [negb andb].
  destruct (pat_matches pt path) eqn:Em; [|rewrite !andb_false_r; reflexivity]. rewrite !andb_true_r.
  destruct (wf_pat x W pt Ep) as [OK Hpre].
  pose proof (s_first_link x pt Ep) as L. destruct (first_segment pt) as [f|] eqn:Ef.
  - destruct L as [-> Hne].
    pose proof (first_node_of_match pt path f OK Hpre Ef Em) as Hfn. rewrite Efn in Hfn. inversion Hfn; subst f'.
    destruct f as [|c f]; [congruence|]. cbn [nil_b negb andb].
    apply eq_iff_eq_true. unfold mem. rewrite !existsb_exists. split; intros (y & Hin & Hk); exists y; split; auto.
    + apply str_eqb_eq in Hk. apply app_inv_tail in Hk. subst y. apply str_eqb_refl.
    + apply str_eqb_eq in Hk. subst y. apply str_eqb_refl.
  - rewrite L. reflexivity.
Qed.

Lemma irr_pred_key rs m path : Forall wf_sroute rs ->
  forall x, In x rs -> keyed_irr m x && s_matches x path = irr_pred m path x.
Proof.
  intros WF x Hx. unfold keyed_irr, irr_pred, s_has_first, s_static, s_matches.
  destruct (s_pat x) as [pt|] eqn:Ep; [|reflexivity]. cbn [negb andb].
  pose proof (s_first_link x pt Ep) as L. destruct (first_segment pt) as [f|] eqn:Ef.
  - destruct L as [-> Hne]. destruct f as [|c f]; [congruence|]. reflexivity.
  - rewrite L. reflexivity.
Qed.

Lemma sm_nth rs path : forall j x, nth_error rs j = Some x -> sm rs path (0 + j) = s_matches x path.
Proof. intros j x H. unfold sm. cbn [Nat.add]. rewrite H. reflexivity. Qed.

Lemma idx_filter_lt {A} (f : A -> bool) l j : In j (idx_filter f l 0) -> j < List.length l.
Proof. intros H. apply idx_filter_range in H. lia. Qed.

Definition dyn_spec (rs : list sroute) (m path : str) : option nat :=
  match find_idx (reg_pred m path) rs 0 with
  | Some i => Some i
  | None => find_idx (irr_pred m path) rs 0
  end.

(* dynamic tiers *)
Lemma dyn_char o rs m path : Forall wf_sroute rs -> rooted path ->
  (dyn_spec rs m path = None /\ dyn_match (build o rs) m path = LNone) \/
  (exists i ps, dyn_spec rs m path = Some i /\ dyn_match (build o rs) m path = LHit i (Some ps)).
Proof.
  intros WF Hp. destruct (build_char o rs WF) as (HR & _ & _ & _ & H5 & H6).
  unfold dyn_match, dyn_spec. rewrite HR, H6.
  destruct (first_node path) as [fn|] eqn:Efn.
  2:{ exfalso. destruct path as [|c tl1]; [exact Hp|]. cbn [first_node] in Efn.
      destruct (index_of slash tl1) as [[|pos]|]; discriminate. }
  assert (Hreg :
    (find_idx (reg_pred m path) rs 0 = None /\
     match fn with Some f => scan (map route_of rs) true (map_get_list (m ++ f) (regular (build o rs))) path | None => LNone end = LNone) \/
    (exists i ps, find_idx (reg_pred m path) rs 0 = Some i /\
     match fn with Some f => scan (map route_of rs) true (map_get_list (m ++ f) (regular (build o rs))) path | None => LNone end = LHit i (Some ps))).
  { destruct fn as [f'|].
    - rewrite H5.
      rewrite <- (find_idx_ext_in _ _ rs (reg_pred_key rs m path f' WF Efn) 0).
      rewrite <- (find_idx_filter (sm rs path) (keyed_reg (m ++ f')) (fun x => s_matches x path) rs 0 (sm_nth rs path)).
      apply scan_char; [exact WF|]. intros i Hi. eapply idx_filter_lt; eauto.
    - left. split; [|reflexivity].
      destruct (find_idx (reg_pred m path) rs 0) as [i|] eqn:ER; [exfalso|reflexivity].
      apply find_idx_some in ER. destruct ER as [_ (x & Hx & Hf)]. apply nth_error_In in Hx.
      rewrite Forall_forall in WF. pose proof (WF x Hx) as W.
      unfold reg_pred, s_has_first, s_matches in Hf.
      destruct (s_pat x) as [pt|] eqn:Ep; [|rewrite andb_false_r in Hf; discriminate].
      destruct (first_segment pt) as [f|] eqn:Ef; [|rewrite !andb_false_r in Hf; discriminate].
      apply andb_true_iff in Hf. destruct Hf as [_ Hm].
      destruct (wf_pat x W pt Ep) as [OK Hpre].
      pose proof (first_node_of_match pt path f OK Hpre Ef Hm) as Hfn. congruence. }
  destruct Hreg as [[ER Es]|(i & ps & ER & Es)]; rewrite ER, Es.
  - rewrite <- (find_idx_ext_in _ _ rs (irr_pred_key rs m path WF) 0).
    rewrite <- (find_idx_filter (sm rs path) (keyed_irr m) (fun x => s_matches x path) rs 0 (sm_nth rs path)).
    apply scan_char; [exact WF|]. intros i Hi. eapply idx_filter_lt; eauto.
  - right. exists i, ps. auto.
Qed.

Lemma spec_select_unfold rs m path :
  spec_select rs m path =
  match find_last_idx (fun r => s_static r && mem m (s_methods r) && str_eqb (s_path r) path) rs 0 None with
  | Some i => Some i
  | None => dyn_spec rs m path
  end.
Proof. reflexivity. Qed.

(* the working form: a lookup in a built, non-caching router answers exactly what the rule selects, and nothing else happens *)
Lemma lookup_cases o rs m p : o_caching o = false -> Forall wf_sroute rs -> no_slash m -> rooted p ->
  (spec_select rs m p = None /\ fst (match_ (build o rs) m p) = LNone) \/
  (exists i ops, spec_select rs m p = Some i /\ fst (match_ (build o rs) m p) = LHit i ops).
Proof.
  intros Hc WF Hm Hp. rewrite match_caching_off by (rewrite build_opts; assumption). cbn [fst].
  rewrite spec_select_unfold, static_char by assumption.
  destruct (find_last_idx _ rs 0 None) as [i|].
  - right. exists i, None. auto.
  - destruct (dyn_char o rs m p WF Hp) as [[E1 E2]|(i & ps & E1 & E2)]; rewrite E1, E2.
    + left. auto.
    + right. exists i, (Some ps). auto.
Qed.

(* ====================================================================== *)
(* 5. C01                                                                 *)
(* ====================================================================== *)

Theorem lookup_is_spec o rs m p :
  o_caching o = false -> Forall wf_sroute rs -> no_slash m -> rooted p ->
  sel (fst (match_ (build o rs) m p)) = spec_select rs m p.
Proof.
  intros Hc WF Hm Hp.
  destruct (lookup_cases o rs m p Hc WF Hm Hp) as [[E1 E2]|(i & ops & E1 & E2)]; rewrite E1, E2; reflexivity.
Qed.

Lemma spec_select_some rs m p i : spec_select rs m p = Some i ->
  exists r, nth_error rs i = Some r /\ mem m (s_methods r) = true /\
    match s_pat r with None => s_path r = p | Some pt => pat_matches pt p = true end.
Proof.
  rewrite spec_select_unfold. unfold dyn_spec.
  destruct (find_last_idx _ rs 0 None) as [i0|] eqn:E0.
  - intros H. inversion H; subst i0. apply find_last_idx_some in E0.
    destruct E0 as [E0|[_ (x & Hx & Hf)]]; [discriminate|]. rewrite Nat.sub_0_r in Hx.
    exists x. split; [exact Hx|].
    apply andb_true_iff in Hf. destruct Hf as [Hf Hpath]. apply andb_true_iff in Hf. destruct Hf as [Hs Hmem].
    split; [exact Hmem|]. unfold s_static in Hs. destruct (s_pat x); [discriminate|]. apply str_eqb_eq. exact Hpath.
  - destruct (find_idx (reg_pred m p) rs 0) as [i1|] eqn:E1.
    + intros H. inversion H; subst i1. apply find_idx_some in E1. destruct E1 as [_ (x & Hx & Hf)].
      rewrite Nat.sub_0_r in Hx. exists x. split; [exact Hx|].
      unfold reg_pred in Hf. apply andb_true_iff in Hf. destruct Hf as [Hf Hmt].
      apply andb_true_iff in Hf. destruct Hf as [_ Hmem]. split; [exact Hmem|].
      unfold s_matches in Hmt. destruct (s_pat x); [exact Hmt|discriminate].
    + intros E2. apply find_idx_some in E2. destruct E2 as [_ (x & Hx & Hf)].
      rewrite Nat.sub_0_r in Hx. exists x. split; [exact Hx|].
      unfold irr_pred in Hf. apply andb_true_iff in Hf. destruct Hf as [Hf Hmt].
      apply andb_true_iff in Hf. destruct Hf as [_ Hmem]. split; [exact Hmem|].
      unfold s_matches in Hmt. destruct (s_pat x); [exact Hmt|discriminate].
Qed.

Lemma spec_select_none rs m p : spec_select rs m p = None ->
  forall r, In r rs -> mem m (s_methods r) = true ->
    match s_pat r with None => s_path r <> p | Some pt => pat_matches pt p = false end.
Proof.
  rewrite spec_select_unfold. unfold dyn_spec.
  destruct (find_last_idx _ rs 0 None) as [i0|] eqn:E0; [discriminate|].
  destruct (find_idx (reg_pred m p) rs 0) as [i1|] eqn:E1; [discriminate|].
  intros E2 r Hr Hmem.
  apply find_last_idx_none in E0. destruct E0 as [_ E0].
  pose proof (E0 r Hr) as F0. pose proof (find_idx_none _ _ _ E1 r Hr) as F1. pose proof (find_idx_none _ _ _ E2 r Hr) as F2.
  cbv beta in F0. unfold reg_pred in F1. unfold irr_pred in F2. unfold s_static, s_has_first, s_matches in *.
  rewrite Hmem in *. destruct (s_pat r) as [pt|].
  - cbn [negb andb] in F1, F2. destruct (first_segment pt); cbn [negb andb] in F1, F2; assumption.
  - cbn [andb] in F0. apply str_eqb_neq. exact F0.
Qed.

(* soundness: the selected route allows the method and its pattern matches the path *)
Theorem selection_sound o rs m p i : o_caching o = false -> Forall wf_sroute rs -> no_slash m -> rooted p ->
  sel (fst (match_ (build o rs) m p)) = Some i ->
  exists r, nth_error rs i = Some r /\ In m (s_methods r) /\
    (match s_pat r with None => s_path r = p | Some pt => exists vs, pat_den pt p vs end).
Proof.
  intros Hc WF Hm Hp H. rewrite lookup_is_spec in H by assumption.
  apply spec_select_some in H. destruct H as (r & Hr & Hmem & Hpat).
  exists r. split; [exact Hr|]. split; [apply mem_in; exact Hmem|].
  destruct (s_pat r) as [pt|] eqn:Ep; [|exact Hpat].
  rewrite Forall_forall in WF. pose proof (WF r (nth_error_In _ _ Hr)) as W.
  apply (pat_matches_iff pt p (proj1 (wf_pat r W pt Ep))). exact Hpat.
Qed.

(* completeness: "no route" is reported only if no registered route allows the method and matches *)
Theorem selection_complete o rs m p : o_caching o = false -> Forall wf_sroute rs -> no_slash m -> rooted p ->
  sel (fst (match_ (build o rs) m p)) = None ->
  forall r, In r rs -> In m (s_methods r) ->
    match s_pat r with None => s_path r <> p | Some pt => ~ exists vs, pat_den pt p vs end.
Proof.
  intros Hc WF Hm Hp H r Hr Hin. rewrite lookup_is_spec in H by assumption.
  pose proof (spec_select_none rs m p H r Hr (proj2 (mem_in m (s_methods r)) Hin)) as Hpat.
  destruct (s_pat r) as [pt|] eqn:Ep; [|exact Hpat].
  rewrite Forall_forall in WF. pose proof (WF r Hr) as W.
  intros Hden. apply (pat_matches_iff pt p (proj1 (wf_pat r W pt Ep))) in Hden. congruence.
Qed.

(* ====================================================================== *)
(* 6. C06: QuickMatch is the fallback ladder                              *)
(* ====================================================================== *)

Definition fallback_route (rs : list sroute) (m : str) : option nat :=
  find_last_idx (fun r => s_static r && mem m (s_methods r) && str_eqb (s_path r) fallback_suffix) rs 0 None.
Definition allowed_methods (rs : list sroute) (m p : str) : list str :=
  filter (fun m' => negb (str_eqb m' m) && match spec_select rs m' p with Some _ => true | None => false end) any_methods.
Definition ladder (o : opts) (rs : list sroute) (m path : str) : qres :=      (* path already normalised *)
  match spec_select rs m path with
  | Some i => QFound i None   (* parameters are C02's business: compare with [qsel] below *)
  | None =>
    match (if str_eqb m HEAD then spec_select rs GET path else None) with
    | Some i => QFound i None
    | None =>
      match (if o_fallback o then fallback_route rs m else None) with
      | Some i => QFallback i
      | None => if o_na o then match allowed_methods rs m path with [] => QNotFound | al => QNotAllowed al end else QNotFound
      end
    end
  end.
(* forget parameters *)
Definition qsel (q : qres) : qres := match q with QFound i _ => QFound i None | x => x end.

Lemma set_cache_id rt : set_cache rt (cache rt) = rt.
Proof. destruct rt. reflexivity. Qed.

Lemma match_off_router rt m p : o_caching (ropts rt) = false -> snd (match_ rt m p) = rt.
Proof.
  intros H. rewrite match_caching_off by exact H. cbn [snd].
  destruct (assoc (m ++ p) (stable rt)); [reflexivity|apply set_cache_id].
Qed.

(* one lookup in a built non-caching router: the answer of the rule, router unchanged *)
Lemma match_build o rs m p : o_caching o = false -> Forall wf_sroute rs -> no_slash m -> rooted p ->
  exists ops, match_ (build o rs) m p =
    (match spec_select rs m p with Some i => LHit i ops | None => LNone end, build o rs).
Proof.
  intros Hc WF Hm Hp.
  assert (Hs : snd (match_ (build o rs) m p) = build o rs).
  { apply match_off_router. rewrite build_opts; assumption. }
  destruct (lookup_cases o rs m p Hc WF Hm Hp) as [[E1 E2]|(i & ops & E1 & E2)]; rewrite E1.
  - exists None. rewrite (surjective_pairing (match_ (build o rs) m p)), E2, Hs. reflexivity.
  - exists ops. rewrite (surjective_pairing (match_ (build o rs) m p)), E2, Hs. reflexivity.
Qed.

Lemma probe_build o rs m path : o_caching o = false -> Forall wf_sroute rs -> rooted path ->
  forall ms acc, (forall x, In x ms -> no_slash x) ->
  probe_methods (build o rs) ms m path acc =
    (Ok (Some (rev acc ++
       filter (fun m' => negb (str_eqb m' m) && match spec_select rs m' path with Some _ => true | None => false end) ms)),
     build o rs).
Proof.
  intros Hc WF Hp. induction ms as [|m' rest IH]; intros acc Hms; cbn [probe_methods filter].
  - rewrite app_nil_r. reflexivity.
  - assert (Hrest : forall x, In x rest -> no_slash x) by (intros x Hx; apply Hms; right; exact Hx).
    destruct (str_eqb m' m); cbn [negb andb]; [apply IH; exact Hrest|].
    destruct (match_build o rs m' path Hc WF (Hms m' (or_introl eq_refl)) Hp) as [ops E]. rewrite E.
    destruct (spec_select rs m' path) as [i|].
    + rewrite IH by exact Hrest. cbn [rev]. rewrite <- app_assoc. reflexivity.
    + apply IH. exact Hrest.
Qed.

Lemma rooted_fallback : rooted fallback_suffix.
Proof. reflexivity. Qed.

Theorem quick_match_is_ladder o rs m p path :
  o_caching o = false -> o_intercept o = [] -> Forall wf_sroute rs -> no_slash m ->
  format_path (o_strict o) p = Ok path ->
  qsel (fst (quick_match (build o rs) m p)) = ladder o rs m path.
Proof.
  intros Hc Hint WF Hm Hfp.
  assert (Hp : rooted path).
  { rewrite format_core in Hfp. inversion Hfp. reflexivity. }
  unfold quick_match, quick_match_gen. cbv zeta. rewrite (build_opts o rs WF), Hint. cbn [nil_b]. rewrite Hfp.
  unfold ladder.
  destruct (match_build o rs m path Hc WF Hm Hp) as [ops1 E1]. rewrite E1.
  destruct (spec_select rs m path) as [i1|]; [reflexivity|].
  assert (H2 : exists ops2,
    (if str_eqb m HEAD then match_ (build o rs) GET path else (LNone, build o rs)) =
    (match (if str_eqb m HEAD then spec_select rs GET path else None) with Some i => LHit i ops2 | None => LNone end,
     build o rs)).
  { destruct (str_eqb m HEAD); [apply match_build; auto; apply no_slash_GET|]. exists None. reflexivity. }
  destruct H2 as [ops2 E2]. rewrite E2.
  destruct (if str_eqb m HEAD then spec_select rs GET path else None) as [i2|]; [reflexivity|].
  rewrite (static_char o rs m fallback_suffix WF Hm rooted_fallback). fold (fallback_route rs m).
  destruct (if o_fallback o then fallback_route rs m else None) as [i3|]; [reflexivity|].
  destruct (o_na o); [|reflexivity].
  rewrite (probe_build o rs m path Hc WF Hp any_methods [] no_slash_any). cbn [rev app].
  fold (allowed_methods rs m path). destruct (allowed_methods rs m path) as [|a al]; reflexivity.
Qed.
