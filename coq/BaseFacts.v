From Rux Require Import Base.

Lemma str_eqb_spec a b : reflect (a = b) (str_eqb a b).
Proof.
  revert b. induction a as [|x a IH]; intros [|y b]; simpl; try (constructor; congruence).
  destruct (N.eqb_spec x y); simpl.
  - destruct (IH b); constructor; congruence.
  - constructor; congruence.
Qed.
Lemma str_eqb_eq a b : str_eqb a b = true <-> a = b.
Proof. destruct (str_eqb_spec a b); split; auto; discriminate. Qed.
Lemma str_eqb_refl a : str_eqb a a = true.
Proof. apply str_eqb_eq; auto. Qed.
Lemma str_eqb_neq a b : str_eqb a b = false <-> a <> b.
Proof. destruct (str_eqb_spec a b); split; auto; try discriminate; congruence. Qed.
Lemma mem_in x l : mem x l = true <-> In x l.
Proof.
  unfold mem. rewrite existsb_exists. split.
  - intros (y & Hin & E). apply str_eqb_eq in E. subst. auto.
  - intros H. exists x. split; auto. apply str_eqb_refl.
Qed.
Lemma has_prefix_app pre s : has_prefix pre (pre ++ s) = true.
Proof. induction pre as [|a pre IH]; simpl; auto. rewrite N.eqb_refl. auto. Qed.
Lemma has_prefix_split pre s : has_prefix pre s = true -> exists t, s = pre ++ t.
Proof.
  revert s. induction pre as [|a pre IH]; intros s H; simpl in *.
  - exists s; auto.
  - destruct s as [|b s]; [discriminate|]. apply andb_true_iff in H. destruct H as [E H].
    apply N.eqb_eq in E. subst. destruct (IH _ H) as [t ->]. exists t; auto.
Qed.
