(* RegHeapFacts.v — registration on the slice heap (RegHeap.v) refines the list-level registration model (Reg.v):
   in-place appends into shared spare capacity never disturb anything that is read later. *)
From Rux Require Import Base BaseFacts Str Norm NormFacts Reg RegFacts Conc ConcFacts RegHeap.

(* ====================================================================== *)
(* list helpers                                                           *)
(* ====================================================================== *)
Lemma upd_nth_length {A} (x : A) : forall l n, List.length (upd_nth n x l) = List.length l.
Proof.
  induction l as [|y l IH]; intros [|n]; cbn [upd_nth List.length]; auto.
Qed.
Lemma nth_upd_nth_eq {A} (d x : A) : forall l n, n < List.length l -> nth n (upd_nth n x l) d = x.
Proof.
  induction l as [|y l IH]; intros [|n] H; cbn [List.length] in H; try lia; cbn [upd_nth nth]; auto.
  apply IH. lia.
Qed.
Lemma nth_upd_nth_neq {A} (d x : A) : forall l n i, i <> n -> nth i (upd_nth n x l) d = nth i l d.
Proof.
  induction l as [|y l IH]; intros [|n] [|i] H; cbn [upd_nth nth]; auto; try lia.
Qed.
Lemma upd_nth_same {A} (d : A) : forall l n, upd_nth n (nth n l d) l = l.
Proof.
  induction l as [|y l IH]; intros [|n]; cbn [upd_nth nth]; auto. f_equal. apply IH.
Qed.
Lemma firstn_S_upd_nth {A} (x : A) : forall l n, n < List.length l -> firstn (S n) (upd_nth n x l) = firstn n l ++ [x].
Proof.
  induction l as [|y l IH]; intros [|n] H; cbn [List.length] in H; try lia.
  - reflexivity.
  - cbn [upd_nth]. change (firstn (S (S n)) (y :: upd_nth n x l)) with (y :: firstn (S n) (upd_nth n x l)).
    rewrite IH by lia. reflexivity.
Qed.
Lemma firstn_app_exact {A} (l1 l2 : list A) : firstn (List.length l1) (l1 ++ l2) = l1.
Proof. induction l1 as [|x l1 IH]; cbn [List.length firstn app]; [destruct l2; reflexivity|]. f_equal. exact IH. Qed.
Lemma firstn_ext {A} (d : A) : forall n l1 l2, List.length l1 = List.length l2 ->
  (forall i, i < n -> nth i l1 d = nth i l2 d) -> firstn n l1 = firstn n l2.
Proof.
  induction n as [|n IH]; intros l1 l2 HL Hn; [reflexivity|].
  destruct l1 as [|x l1], l2 as [|y l2]; cbn [List.length] in HL; try discriminate; [reflexivity|].
  cbn [firstn]. f_equal.
  - apply (Hn 0). lia.
  - apply IH; [lia|]. intros i Hi. apply (Hn (S i)). lia.
Qed.
Lemma is_nil_len {A} (l : list A) : is_nil l = Nat.eqb (List.length l) 0.
Proof. destruct l; reflexivity. Qed.

Lemma write_at_length : forall xs l pos, List.length (write_at l pos xs) = List.length l.
Proof.
  induction xs as [|x xs IH]; intros l pos; cbn [write_at]; auto. rewrite IH. apply upd_nth_length.
Qed.
Lemma nth_write_at_out : forall xs l pos i, ~ (pos <= i < pos + List.length xs) ->
  nth i (write_at l pos xs) 0 = nth i l 0.
Proof.
  induction xs as [|x xs IH]; intros l pos i H; cbn [write_at]; auto.
  cbn [List.length] in H. rewrite IH by lia. apply nth_upd_nth_neq. lia.
Qed.
Lemma firstn_write_at : forall xs l pos, pos + List.length xs <= List.length l ->
  firstn (pos + List.length xs) (write_at l pos xs) = firstn pos l ++ xs.
Proof.
  induction xs as [|x xs IH]; intros l pos H; cbn [write_at List.length] in *.
  - rewrite Nat.add_0_r, app_nil_r. reflexivity.
  - replace (pos + S (List.length xs)) with (S pos + List.length xs) by lia.
    rewrite IH by (rewrite upd_nth_length; lia).
    rewrite firstn_S_upd_nth by lia. rewrite <- app_assoc. reflexivity.
Qed.

(* ====================================================================== *)
(* slices on a heap                                                       *)
(* ====================================================================== *)
(* a slice lies within its array *)
Definition wf (h : heap) (s : slice) : Prop := s_len s <= s_cap s /\ s_cap s <= List.length (arr_get h (s_arr s)).
(* the positions an in-place append to s may write *)
Definition wr (s : slice) (a i : nat) : Prop := a = s_arr s /\ s_len s <= i < s_cap s.
(* h' extends h: old arrays keep their size and, outside W, their contents *)
Definition hext (W : nat -> nat -> Prop) (h h' : heap) : Prop :=
  List.length h <= List.length h' /\
  forall a, a < List.length h ->
    List.length (arr_get h' a) = List.length (arr_get h a) /\
    forall i, ~ W a i -> nth i (arr_get h' a) 0 = nth i (arr_get h a) 0.
Definition noW : nat -> nat -> Prop := fun _ _ => False.
(* no position that t reads is in W *)
Definition avoids (W : nat -> nat -> Prop) (t : slice) : Prop := forall i, i < s_len t -> ~ W (s_arr t) i.
Definition nowr (c p : slice) : Prop := avoids (wr c) p.
(* the two slices do not share an array *)
Definition sep (s t : slice) : Prop := s_cap s = 0 \/ s_cap t = 0 \/ s_arr s <> s_arr t.
(* t does not use any array of h *)
Definition fresh (h : heap) (t : slice) : Prop := s_cap t = 0 \/ List.length h <= s_arr t.
(* s' is s extended in place, or lives in an array that h does not have *)
Definition shrinks (h : heap) (s s' : slice) : Prop :=
  (s_arr s' = s_arr s /\ s_cap s' = s_cap s /\ s_len s <= s_len s') \/ List.length h <= s_arr s'.

Lemma arr_get_overflow h a : List.length h <= a -> arr_get h a = [].
Proof. intros H. unfold arr_get. apply nth_overflow. exact H. Qed.
Lemma upd_nth_arr_get h a : upd_nth a (arr_get h a) h = h.
Proof. unfold arr_get. apply upd_nth_same. Qed.
Lemma wf_arr_lt h s : wf h s -> 0 < s_cap s -> s_arr s < List.length h.
Proof.
  intros [_ H] Hc. destruct (Nat.lt_ge_cases (s_arr s) (List.length h)) as [L|L]; auto.
  rewrite (arr_get_overflow _ _ L) in H. cbn [List.length] in H. lia.
Qed.
Lemma wf_len h s : wf h s -> List.length (slice_elems h s) = s_len s.
Proof. intros [H1 H2]. unfold slice_elems. apply firstn_length_le. lia. Qed.
Lemma wf_nil h : wf h nil_slice.
Proof. split; cbn [nil_slice s_len s_cap]; lia. Qed.
Lemma slice_elems_len0 h s : s_len s = 0 -> slice_elems h s = [].
Proof. intros H. unfold slice_elems. rewrite H. reflexivity. Qed.

Lemma hext_refl (W : nat -> nat -> Prop) h : hext W h h.
Proof. split; auto. Qed.
Lemma hext_trans (W W1 W2 : nat -> nat -> Prop) h h1 h2 : hext W1 h h1 -> hext W2 h1 h2 ->
  (forall a i, a < List.length h -> W1 a i -> W a i) -> (forall a i, a < List.length h -> W2 a i -> W a i) ->
  hext W h h2.
Proof.
  intros [L1 H1] [L2 H2] S1 S2. split; [lia|]. intros a Ha.
  destruct (H1 a Ha) as [E1 N1]. destruct (H2 a ltac:(lia)) as [E2 N2]. split; [congruence|].
  intros i Hi. rewrite N2, N1; auto.
Qed.
Lemma hext_weaken (W W' : nat -> nat -> Prop) h h' : hext W h h' -> (forall a i, a < List.length h -> W a i -> W' a i) -> hext W' h h'.
Proof.
  intros [L H] S. split; auto. intros a Ha. destruct (H a Ha) as [E N]. split; auto.
Qed.
Lemma hext_snoc (W : nat -> nat -> Prop) h x : hext W h (h ++ [x]).
Proof.
  split; [rewrite app_length; lia|]. intros a Ha. rewrite arr_get_app by exact Ha. auto.
Qed.

Lemma read_preserved (W : nat -> nat -> Prop) h h' t : hext W h h' -> wf h t -> avoids W t ->
  slice_elems h' t = slice_elems h t /\ wf h' t.
Proof.
  intros [L H] [W1 W2] Hav.
  destruct (Nat.eq_dec (s_cap t) 0) as [Z|NZ].
  - split; [rewrite !slice_elems_len0 by lia; reflexivity|]. split; lia.
  - assert (Ha: s_arr t < List.length h) by (apply wf_arr_lt; [split; auto|lia]).
    destruct (H _ Ha) as [E N]. split; [|split; lia].
    unfold slice_elems. apply (firstn_ext 0); auto.
Qed.

Lemma sep_sym s t : sep s t -> sep t s.
Proof. unfold sep. intros [H|[H|H]]; auto. Qed.
Lemma sep_nowr h s t : sep s t -> wf h t -> nowr s t.
Proof.
  intros Hs [W1 _] i Hi [Ha Hr]. destruct Hs as [H|[H|H]]; lia.
Qed.
Lemma nowr_self c : nowr c c.
Proof. intros i Hi [_ Hr]. lia. Qed.
Lemma sep_fresh h p t : wf h p -> fresh h t -> sep p t.
Proof.
  intros Hw [Hf|Hf]; [right; left; exact Hf|].
  destruct (Nat.eq_dec (s_cap p) 0) as [Z|NZ]; [left; exact Z|].
  right; right. assert (s_arr p < List.length h) by (apply wf_arr_lt; [auto|lia]). lia.
Qed.
Lemma sep_shrinks_r h p s s' : wf h p -> sep p s -> shrinks h s s' -> sep p s'.
Proof.
  intros Hw Hs [(Ea & Ec & _)|Hf].
  - unfold sep in *. rewrite Ea, Ec. exact Hs.
  - apply (sep_fresh h); auto. right. exact Hf.
Qed.
Lemma sep_shrinks_l h t s s' : wf h t -> sep s t -> shrinks h s s' -> sep s' t.
Proof. intros Hw Hs Hsh. apply sep_sym. eapply sep_shrinks_r; eauto. apply sep_sym. exact Hs. Qed.
Lemma nowr_shrinks h p c c' : wf h p -> nowr c p -> shrinks h c c' -> nowr c' p.
Proof.
  intros Hw Hn [(Ea & Ec & El)|Hf] i Hi [Ha Hr].
  - apply (Hn i Hi). split; [congruence|lia].
  - assert (s_arr p < List.length h) by (apply wf_arr_lt; [auto|destruct Hw; lia]). lia.
Qed.
Lemma shrinks_le h h1 s s' : List.length h <= List.length h1 -> shrinks h1 s s' -> shrinks h s s'.
Proof. intros L [H|H]; [left; exact H|right; lia]. Qed.
Lemma shrinks_refl h s : shrinks h s s.
Proof. left. auto. Qed.
Lemma fresh_shrinks h h1 s s' : List.length h <= List.length h1 -> fresh h s -> shrinks h1 s s' -> fresh h s'.
Proof.
  intros L Hf [(Ea & Ec & _)|H]; [|right; lia]. unfold fresh in *. rewrite Ea, Ec. exact Hf.
Qed.
Lemma fresh_wr h s a i : fresh h s -> a < List.length h -> wr s a i -> False.
Proof. intros [Hf|Hf] Ha [E Hr]; lia. Qed.
Lemma avoids_noW t : avoids noW t.
Proof. intros i _ H. exact H. Qed.

(* ---------- the heap operations ---------- *)
Lemma alloc_spec extra h (xs : list nat) h' m : alloc_args extra h xs = (h', m) ->
  slice_elems h' m = xs /\ wf h' m /\ fresh h m /\ hext noW h h' /\ s_len m = List.length xs.
Proof.
  unfold alloc_args. destruct xs as [|x xs]; intros E; inversion E; subst; clear E.
  - split; [reflexivity|]. split; [apply wf_nil|]. split; [left; reflexivity|]. split; [apply hext_refl|reflexivity].
  - set (l := x :: xs).
    split; [unfold slice_elems; cbn [s_arr s_len]; rewrite arr_get_new; exact (firstn_app_exact l (repeat 0 extra))|].
    split; [split; cbn [s_arr s_len s_cap]; [lia|rewrite arr_get_new; change (List.length l + extra <= List.length (l ++ repeat 0 extra)); rewrite app_length, repeat_length; lia]|].
    split; [right; cbn [s_arr]; lia|]. split; [apply hext_snoc|reflexivity].
Qed.

Lemma append_spec grow h s xs h' s' : wf h s -> append grow h s xs = (h', s') ->
  slice_elems h' s' = slice_elems h s ++ xs /\ wf h' s' /\ hext (wr s) h h' /\ shrinks h s s' /\
  s_len s' = s_len s + List.length xs.
Proof.
  intros Hw. pose proof Hw as [W1 W2]. unfold append.
  destruct (Nat.leb (s_len s + List.length xs) (s_cap s)) eqn:El; intros E; inversion E; subst; clear E.
  - apply Nat.leb_le in El. destruct xs as [|x xs].
    + cbn [write_at List.length]. rewrite upd_nth_arr_get.
      rewrite Nat.add_0_r, app_nil_r.
      split; [reflexivity|]. split; [split; cbn [s_arr s_len s_cap]; lia|]. split; [apply hext_refl|].
      split; [left; cbn [s_arr s_len s_cap]; lia|reflexivity].
    + set (l := x :: xs) in *. assert (Hl: 0 < List.length l) by (cbn [l List.length]; lia).
      assert (Ha: s_arr s < List.length h) by (apply wf_arr_lt; [auto|lia]).
      assert (Eg: arr_get (upd_nth (s_arr s) (write_at (arr_get h (s_arr s)) (s_len s) l) h) (s_arr s)
                  = write_at (arr_get h (s_arr s)) (s_len s) l).
      { unfold arr_get at 1. apply nth_upd_nth_eq. exact Ha. }
      split; [unfold slice_elems; cbn [s_arr s_len]; rewrite Eg; apply firstn_write_at; lia|].
      split; [split; cbn [s_arr s_len s_cap]; [lia|rewrite Eg, write_at_length; lia]|].
      split; [|split; [left; cbn [s_arr s_len s_cap]; lia|reflexivity]].
      split; [rewrite upd_nth_length; lia|]. intros a Ha'.
      destruct (Nat.eq_dec a (s_arr s)) as [->|NE].
      * rewrite Eg. split; [apply write_at_length|]. intros i Hi. apply nth_write_at_out.
        intros Hr. apply Hi. split; [reflexivity|lia].
      * unfold arr_get. rewrite nth_upd_nth_neq by exact NE. auto.
  - apply Nat.leb_gt in El.
    split; [unfold slice_elems at 1; cbn [s_arr s_len]; rewrite arr_get_new, app_assoc;
            rewrite <- (wf_len h s Hw) at 1; rewrite <- app_length; apply firstn_app_exact|].
    split; [split; cbn [s_arr s_len s_cap]; [lia|rewrite arr_get_new, !app_length, repeat_length, (wf_len h s Hw); lia]|].
    split; [apply hext_snoc|]. split; [right; cbn [s_arr]; lia|reflexivity].
Qed.

Lemma combine_spec h a b h' s' : combine h a b = (h', s') ->
  slice_elems h' s' = a ++ b /\ wf h' s' /\ fresh h s' /\ hext noW h h' /\ s_len s' = List.length a + List.length b.
Proof.
  unfold combine. intros E; inversion E; subst; clear E.
  split; [unfold slice_elems; cbn [s_arr s_len]; rewrite arr_get_new, <- app_length; apply firstn_all|].
  split; [split; cbn [s_arr s_len s_cap]; [lia|rewrite arr_get_new, app_length; lia]|].
  split; [right; cbn [s_arr]; lia|]. split; [apply hext_snoc|reflexivity].
Qed.

(* ====================================================================== *)
(* the invariant                                                          *)
(* ====================================================================== *)
(* the slices that are only read once they are stored: not-found / not-allowed chains and the routes' chains *)
Definition ro_slices (hs : hstate) : list slice := h_noroute hs :: h_noallowed hs :: map hr_handlers (h_routes hs).
(* saved: the group slices saved by the enclosing Group calls (prevHandlers), innermost first *)
Definition old_slices (saved : list slice) (hs : hstate) : list slice :=
  h_globals hs :: hg_handlers hs :: saved ++ ro_slices hs.

Record inv (saved : list slice) (hs : hstate) : Prop := {
  i_wf : forall t, In t (old_slices saved hs) -> wf (h_heap hs) t;
  (* the globals, and every current or saved group slice, share no array with a stored chain *)
  i_g_ro : forall t, In t (ro_slices hs) -> sep (h_globals hs) t;
  i_c_ro : forall w t, In w (hg_handlers hs :: saved) -> In t (ro_slices hs) -> sep w t;
  (* the globals share no array with a group slice *)
  i_g_c : forall w, In w (hg_handlers hs :: saved) -> sep (h_globals hs) w;
  (* a saved group slice may share the array of the current one, but then it ends before the current one does:
     an append to the current group slice writes none of the positions a saved slice reads *)
  i_nowr : forall p, In p saved -> nowr (hg_handlers hs) p }.

(* everything a statement may overwrite: spare capacity of the current group slice and of the globals *)
Definition Wall (hs : hstate) : nat -> nat -> Prop := fun a i => wr (hg_handlers hs) a i \/ wr (h_globals hs) a i.

Lemma in_old saved hs t : In t (old_slices saved hs) <->
  h_globals hs = t \/ hg_handlers hs = t \/ In t saved \/ In t (ro_slices hs).
Proof. unfold old_slices. cbn [In]. rewrite in_app_iff. tauto. Qed.
Lemma old_g saved hs : In (h_globals hs) (old_slices saved hs).
Proof. apply in_old. auto. Qed.
Lemma old_c saved hs : In (hg_handlers hs) (old_slices saved hs).
Proof. apply in_old. auto. Qed.
Lemma old_saved saved hs p : In p saved -> In p (old_slices saved hs).
Proof. intros H. apply in_old. auto. Qed.
Lemma old_ro saved hs t : In t (ro_slices hs) -> In t (old_slices saved hs).
Proof. intros H. apply in_old. auto. Qed.
Lemma old_cs saved hs w : In w (hg_handlers hs :: saved) -> In w (old_slices saved hs).
Proof. intros [<-|H]; [apply old_c|apply old_saved; exact H]. Qed.
#[local] Hint Resolve old_g old_c old_saved old_ro old_cs in_eq in_cons : hdb.

Lemma inv_avoids saved hs t : inv saved hs -> In t (old_slices saved hs) -> avoids (Wall hs) t.
Proof.
  intros Hi Ht. pose proof (i_wf _ _ Hi t Ht) as Hw. apply in_old in Ht.
  assert (A1: nowr (hg_handlers hs) t).
  { destruct Ht as [<-|[<-|[Ht|Ht]]].
    - eapply sep_nowr; [apply sep_sym; apply (i_g_c _ _ Hi); apply in_eq|exact Hw].
    - apply nowr_self.
    - apply (i_nowr _ _ Hi). exact Ht.
    - eapply sep_nowr; [apply (i_c_ro _ _ Hi); [apply in_eq|exact Ht]|exact Hw]. }
  assert (A2: nowr (h_globals hs) t).
  { destruct Ht as [<-|[<-|[Ht|Ht]]].
    - apply nowr_self.
    - eapply sep_nowr; [apply (i_g_c _ _ Hi); apply in_eq|exact Hw].
    - eapply sep_nowr; [apply (i_g_c _ _ Hi); apply in_cons; exact Ht|exact Hw].
    - eapply sep_nowr; [apply (i_g_ro _ _ Hi); exact Ht|exact Hw]. }
  intros i Hlt [H|H]; [exact (A1 i Hlt H)|exact (A2 i Hlt H)].
Qed.

Lemma inv_frame saved hs h' : inv saved hs -> hext (Wall hs) (h_heap hs) h' ->
  forall t, In t (old_slices saved hs) -> slice_elems h' t = slice_elems (h_heap hs) t /\ wf h' t.
Proof.
  intros Hi X t Ht. eapply read_preserved; [exact X|apply (i_wf _ _ Hi); exact Ht|apply (inv_avoids saved); auto].
Qed.

Lemma frame_abs saved hs h' :
  (forall t, In t (old_slices saved hs) -> slice_elems h' t = slice_elems (h_heap hs) t /\ wf h' t) ->
  slice_elems h' (hg_handlers hs) = g_handlers (abs hs) /\
  slice_elems h' (h_globals hs) = r_globals (abs hs) /\
  map (abs_route h') (h_routes hs) = r_routes (abs hs) /\
  slice_elems h' (h_noroute hs) = r_noroute (abs hs) /\
  slice_elems h' (h_noallowed hs) = r_noallowed (abs hs).
Proof.
  intros Fr. cbn [abs g_handlers r_globals r_routes r_noroute r_noallowed].
  split; [apply Fr; auto with hdb|]. split; [apply Fr; auto with hdb|].
  split; [|split; apply Fr; apply old_ro; cbn [ro_slices In]; auto].
  apply map_ext_in. intros r Hr. unfold abs_route. f_equal.
  apply Fr. apply old_ro. cbn [ro_slices]. right. right. apply in_map. exact Hr.
Qed.

(* what a statement establishes *)
Definition sim (saved : list slice) (hs : hstate) (o : outcome rstate) (ho : outcome hstate) : Prop :=
  match o, ho with
  | Ok st', Ok hs' => abs hs' = st' /\ inv saved hs' /\
      forall p, In p saved -> slice_elems (h_heap hs') p = slice_elems (h_heap hs) p
  | Panic, Panic => True
  | _, _ => False
  end.

(* ---------- Router.Use ---------- *)
Lemma sim_use grow extra mws saved hs : inv saved hs ->
  sim saved hs (Ok (exec_use mws (abs hs))) (Ok (hexec_use grow extra mws hs)).
Proof.
  intros Hi. unfold hexec_use, exec_use.
  destruct (alloc_args extra (h_heap hs) mws) as [h1 m] eqn:Ea.
  destruct (alloc_spec _ _ _ _ _ Ea) as (Em & Wm & Fm & Xm & Lm). rewrite Em.
  assert (Fr1: forall t, In t (old_slices saved hs) -> slice_elems h1 t = slice_elems (h_heap hs) t /\ wf h1 t).
  { apply (inv_frame _ _ _ Hi). eapply hext_weaken; [exact Xm|]. intros a i _ []. }
  change (g_prefix (abs hs)) with (hg_prefix hs).
  destruct (is_nil (hg_prefix hs)) eqn:Ep.
  - (* top level: the globals *)
    destruct (append grow h1 (h_globals hs) mws) as [h2 g'] eqn:Eap.
    destruct (append_spec _ _ _ _ _ _ (proj2 (Fr1 _ (old_g saved hs))) Eap) as (Eg & Wg & Xg & Sg & Lg).
    assert (X: hext (Wall hs) (h_heap hs) h2).
    { eapply hext_trans; [exact Xm|exact Xg|intros a i _ []|intros a i _ H; right; exact H]. }
    pose proof (inv_frame _ _ _ Hi X) as Fr.
    destruct (frame_abs _ _ _ Fr) as (A1 & A2 & A3 & A4 & A5).
    cbn [sim]. split; [|split].
    + unfold abs. cbn [h_heap hg_prefix hg_handlers h_globals h_routes h_noroute h_noallowed].
      rewrite A1, A3, A4, A5, Eg, (proj1 (Fr1 _ (old_g saved hs))). reflexivity.
    + constructor; cbn [h_heap hg_prefix hg_handlers h_globals h_routes h_noroute h_noallowed];
        change (ro_slices _) with (ro_slices hs).
      * intros t Ht. apply in_old in Ht. cbn [h_globals hg_handlers] in Ht. change (ro_slices _) with (ro_slices hs) in Ht.
        destruct Ht as [<-|[<-|[Ht|Ht]]]; [exact Wg|apply Fr; auto with hdb..].
      * intros t Ht. eapply sep_shrinks_l; [apply Fr1; apply old_ro; exact Ht|apply (i_g_ro _ _ Hi); exact Ht|exact Sg].
      * apply (i_c_ro _ _ Hi).
      * intros w Hw. eapply sep_shrinks_l; [apply Fr1; apply old_cs; exact Hw|apply (i_g_c _ _ Hi); exact Hw|exact Sg].
      * apply (i_nowr _ _ Hi).
    + intros p Hp. apply Fr. auto with hdb.
  - (* inside a group: the current group slice *)
    destruct (append grow h1 (hg_handlers hs) mws) as [h2 c'] eqn:Eap.
    destruct (append_spec _ _ _ _ _ _ (proj2 (Fr1 _ (old_c saved hs))) Eap) as (Eg & Wg & Xg & Sg & Lg).
    assert (X: hext (Wall hs) (h_heap hs) h2).
    { eapply hext_trans; [exact Xm|exact Xg|intros a i _ []|intros a i _ H; left; exact H]. }
    pose proof (inv_frame _ _ _ Hi X) as Fr.
    destruct (frame_abs _ _ _ Fr) as (A1 & A2 & A3 & A4 & A5).
    cbn [sim]. split; [|split].
    + unfold abs, set_scope. cbn [h_heap hg_prefix hg_handlers h_globals h_routes h_noroute h_noallowed].
      rewrite A2, A3, A4, A5, Eg, (proj1 (Fr1 _ (old_c saved hs))). reflexivity.
    + constructor; cbn [h_heap hg_prefix hg_handlers h_globals h_routes h_noroute h_noallowed];
        change (ro_slices _) with (ro_slices hs).
      * intros t Ht. apply in_old in Ht. cbn [h_globals hg_handlers] in Ht. change (ro_slices _) with (ro_slices hs) in Ht.
        destruct Ht as [<-|[<-|[Ht|Ht]]]; [apply Fr; auto with hdb|exact Wg|apply Fr; auto with hdb..].
      * apply (i_g_ro _ _ Hi).
      * intros w t [<-|Hw] Ht.
        -- eapply sep_shrinks_l; [apply Fr1; apply old_ro; exact Ht|apply (i_c_ro _ _ Hi); [apply in_eq|exact Ht]|exact Sg].
        -- apply (i_c_ro _ _ Hi); [apply in_cons; exact Hw|exact Ht].
      * intros w [<-|Hw].
        -- eapply sep_shrinks_r; [apply Fr1; apply old_g|apply (i_g_c _ _ Hi); apply in_eq|exact Sg].
        -- apply (i_g_c _ _ Hi). apply in_cons. exact Hw.
      * intros p Hp. eapply nowr_shrinks; [apply Fr1; apply old_saved; exact Hp|apply (i_nowr _ _ Hi); exact Hp|exact Sg].
    + intros p Hp. apply Fr. auto with hdb.
Qed.

(* ---------- statements that allocate but write nothing that exists: a new stored chain ---------- *)
(* the heap grows by arrays that nothing old uses; descriptors of globals and group slices stay; every stored chain
   is an old one or the new slice s, which is fresh *)
Lemma inv_add_ro saved hs hs' s :
  inv saved hs -> hext noW (h_heap hs) (h_heap hs') ->
  hg_handlers hs' = hg_handlers hs -> h_globals hs' = h_globals hs ->
  (forall t, In t (ro_slices hs') -> In t (ro_slices hs) \/ t = s) ->
  fresh (h_heap hs) s -> wf (h_heap hs') s ->
  inv saved hs' /\ forall t, In t (old_slices saved hs) -> slice_elems (h_heap hs') t = slice_elems (h_heap hs) t /\ wf (h_heap hs') t.
Proof.
  intros Hi X Ec Eg Hro Hf Hw.
  assert (Fr: forall t, In t (old_slices saved hs) -> slice_elems (h_heap hs') t = slice_elems (h_heap hs) t /\ wf (h_heap hs') t).
  { apply (inv_frame _ _ _ Hi). eapply hext_weaken; [exact X|]. intros a i _ []. }
  split; [|exact Fr].
  constructor; rewrite ?Ec, ?Eg.
  - intros t Ht. apply in_old in Ht. rewrite Ec, Eg in Ht.
    destruct Ht as [<-|[<-|[Ht|Ht]]]; [apply Fr; auto with hdb..|].
    destruct (Hro _ Ht) as [Ht'| ->]; [apply Fr; auto with hdb|exact Hw].
  - intros t Ht. destruct (Hro _ Ht) as [Ht'| ->]; [apply (i_g_ro _ _ Hi); exact Ht'|].
    eapply sep_fresh; [apply (i_wf _ _ Hi); apply old_g|exact Hf].
  - intros w t Hw' Ht. destruct (Hro _ Ht) as [Ht'| ->]; [apply (i_c_ro _ _ Hi); auto|].
    eapply sep_fresh; [apply (i_wf _ _ Hi); apply old_cs; exact Hw'|exact Hf].
  - apply (i_g_c _ _ Hi).
  - apply (i_nowr _ _ Hi).
Qed.

Lemma sim_notfound fixed grow extra strict l saved hs : inv saved hs ->
  sim saved hs (exec_stmt strict (SNotFound l) (abs hs)) (hexec_stmt fixed grow extra strict (SNotFound l) hs).
Proof.
  intros Hi. cbn [exec_stmt hexec_stmt].
  destruct (alloc_args extra (h_heap hs) l) as [h1 m] eqn:Ea.
  destruct (alloc_spec _ _ _ _ _ Ea) as (Em & Wm & Fm & Xm & Lm).
  match goal with |- sim _ _ _ (Ok ?x) => set (hs' := x) end.
  destruct (inv_add_ro saved hs hs' m Hi Xm eq_refl eq_refl) as [Hi' Fr]; [|exact Fm|exact Wm|].
  { intros t Ht. cbn [ro_slices hs' h_noroute h_noallowed h_routes In] in Ht.
    destruct Ht as [<-|[<-|Ht]]; [right; reflexivity|left; cbn [ro_slices In]; auto..]. }
  cbn [sim]. split; [|split; [exact Hi'|intros p Hp; apply Fr; auto with hdb]].
  destruct (frame_abs _ _ _ Fr) as (A1 & A2 & A3 & A4 & A5).
  unfold abs. cbn [hs' h_heap hg_prefix hg_handlers h_globals h_routes h_noroute h_noallowed] in *.
  rewrite A1, A2, A3, A5, Em. reflexivity.
Qed.
Lemma sim_notallowed fixed grow extra strict l saved hs : inv saved hs ->
  sim saved hs (exec_stmt strict (SNotAllowed l) (abs hs)) (hexec_stmt fixed grow extra strict (SNotAllowed l) hs).
Proof.
  intros Hi. cbn [exec_stmt hexec_stmt].
  destruct (alloc_args extra (h_heap hs) l) as [h1 m] eqn:Ea.
  destruct (alloc_spec _ _ _ _ _ Ea) as (Em & Wm & Fm & Xm & Lm).
  match goal with |- sim _ _ _ (Ok ?x) => set (hs' := x) end.
  destruct (inv_add_ro saved hs hs' m Hi Xm eq_refl eq_refl) as [Hi' Fr]; [|exact Fm|exact Wm|].
  { intros t Ht. cbn [ro_slices hs' h_noroute h_noallowed h_routes In] in Ht.
    destruct Ht as [<-|[<-|Ht]]; [left; cbn [ro_slices In]; auto|right; reflexivity|left; cbn [ro_slices In]; auto]. }
  cbn [sim]. split; [|split; [exact Hi'|intros p Hp; apply Fr; auto with hdb]].
  destruct (frame_abs _ _ _ Fr) as (A1 & A2 & A3 & A4 & A5).
  unfold abs. cbn [hs' h_heap hg_prefix hg_handlers h_globals h_routes h_noroute h_noallowed] in *.
  rewrite A1, A2, A3, A4, Em. reflexivity.
Qed.

(* ---------- registering a route ---------- *)
(* Route.Use on a slice that no old array backs: the same verdict as the list-level check, nothing old is written *)
Lemma hroute_use_spec grow extra h0 h s mws : wf h s -> fresh h0 s -> hext noW h0 h ->
  match route_use (slice_elems h s) mws, hroute_use grow extra h s mws with
  | Ok l, Ok (h', s') => slice_elems h' s' = l /\ wf h' s' /\ fresh h0 s' /\ hext noW h0 h'
  | Panic, Panic => True
  | _, _ => False
  end.
Proof.
  intros Hw Hf X0. unfold route_use, hroute_use, hid.
  destruct (alloc_args extra h mws) as [h1 m] eqn:Ea.
  destruct (alloc_spec _ _ _ _ _ Ea) as (Em & Wm & Fm & Xm & Lm).
  rewrite (wf_len h s Hw), Lm, Em.
  match goal with |- context [Nat.leb limit ?x] => destruct (Nat.leb limit x) end; [exact I|].
  destruct (read_preserved _ _ _ _ Xm Hw (avoids_noW s)) as [E1 W1].
  destruct (append grow h1 s mws) as [h2 s'] eqn:Eap.
  destruct (append_spec _ _ _ _ _ _ W1 Eap) as (Eg & Wg & Xg & Sg & Lg).
  split; [rewrite Eg, E1; reflexivity|]. split; [exact Wg|].
  assert (L01: List.length h0 <= List.length h1) by (destruct X0, Xm; lia).
  split; [eapply fresh_shrinks; [exact L01|exact Hf|exact Sg]|].
  assert (X12: hext (wr s) h h2).
  { eapply hext_trans; [exact Xm|exact Xg|intros a i _ []|intros a i _ H; exact H]. }
  eapply hext_trans; [exact X0|exact X12|intros a i _ H; exact H|].
  intros a i Ha H. eapply fresh_wr; [exact Hf|exact Ha|exact H].
Qed.

Lemma hgroup_info_spec strict saved hs P : inv saved hs ->
  match group_info strict (abs hs) P, hgroup_info true strict hs P with
  | Ok (path, l), Ok (path', (h1, s)) =>
      path' = path /\ slice_elems h1 s = l /\ wf h1 s /\ fresh (h_heap hs) s /\ hext noW (h_heap hs) h1
  | Panic, Panic => True
  | _, _ => False
  end.
Proof.
  intros Hi. unfold group_info, hgroup_info, hid. cbn [abs g_prefix g_handlers].
  destruct (format_path strict (simple_fmt_path P)) as [p1|]; cbn [bind]; [|exact I].
  destruct (if is_nil (hg_prefix hs) then Ok p1 else format_path strict (hg_prefix hs ++ p1)) as [p2|]; cbn [bind]; [|exact I].
  pose proof (i_wf _ _ Hi _ (old_c saved hs)) as Hw.
  rewrite is_nil_len, (wf_len _ _ Hw).
  destruct (Nat.eqb (s_len (hg_handlers hs)) 0) eqn:E0.
  - split; [reflexivity|]. split; [reflexivity|]. split; [apply wf_nil|]. split; [left; reflexivity|apply hext_refl].
  - unfold hcombine. destruct (combine (h_heap hs) (slice_elems (h_heap hs) (hg_handlers hs)) (slice_elems (h_heap hs) nil_slice)) as [h1 s] eqn:Ec.
    destruct (combine_spec _ _ _ _ _ Ec) as (Es & Ws & Fs & Xs & Ls).
    rewrite Ls, (wf_len _ _ Hw). cbn [slice_elems nil_slice s_len firstn List.length]. rewrite Nat.add_0_r.
    destruct (Nat.leb limit (s_len (hg_handlers hs))); [exact I|].
    split; [reflexivity|]. split; [|auto].
    rewrite Es. cbn [slice_elems nil_slice s_len firstn]. apply app_nil_r.
Qed.

Lemma sim_route grow extra strict meths P main var later name saved hs : inv saved hs ->
  sim saved hs (exec_route strict meths P main var later name (abs hs))
               (hexec_route true grow extra strict meths P main var later name hs).
Proof.
  intros Hi. unfold exec_route, hexec_route.
  pose proof (hgroup_info_spec strict saved hs P Hi) as Hgi.
  destruct (group_info strict (abs hs) P) as [[path l]|]; destruct (hgroup_info true strict hs P) as [[path' [h1 s0]]|];
    cbn [bind]; try (exfalso; exact Hgi); [|exact I].
  destruct Hgi as (-> & E0 & W0 & F0 & X0).
  pose proof (hroute_use_spec grow extra (h_heap hs) h1 s0 var W0 F0 X0) as H1. rewrite E0 in H1.
  destruct (route_use l var) as [l1|]; destruct (hroute_use grow extra h1 s0 var) as [[h2 s1]|];
    cbn [bind]; try (exfalso; exact H1); [|exact I].
  destruct H1 as (E1 & W1 & F1 & X1).
  pose proof (hroute_use_spec grow extra (h_heap hs) h2 s1 later W1 F1 X1) as H2. rewrite E1 in H2.
  destruct (route_use l1 later) as [l2|]; destruct (hroute_use grow extra h2 s1 later) as [[h3 s2]|];
    cbn [bind]; try (exfalso; exact H2); [|exact I].
  destruct H2 as (E2 & W2 & F2 & X2).
  match goal with |- sim _ _ _ (Ok ?x) => set (hs' := x) end.
  destruct (inv_add_ro saved hs hs' s2 Hi X2 eq_refl eq_refl) as [Hi' Fr]; [|exact F2|exact W2|].
  { intros t Ht. cbn [ro_slices hs' hadd_route h_noroute h_noallowed h_routes In] in Ht.
    destruct Ht as [<-|[<-|Ht]]; [left; cbn [ro_slices In]; auto..|].
    rewrite map_app in Ht. apply in_app_or in Ht.
    destruct Ht as [Ht|[<-|[]]]; [left; cbn [ro_slices In]; auto|right; reflexivity]. }
  cbn [sim]. split; [|split; [exact Hi'|intros p Hp; apply Fr; auto with hdb]].
  destruct (frame_abs _ _ _ Fr) as (A1 & A2 & A3 & A4 & A5).
  unfold abs, add_route. cbn [hs' hadd_route h_heap hg_prefix hg_handlers h_globals h_routes h_noroute h_noallowed] in *.
  rewrite map_app, A1, A2, A3, A4, A5. cbn [map]. unfold abs_route. cbn [hr_methods hr_path hr_handlers hr_main hr_name].
  rewrite E2. reflexivity.
Qed.

(* ---------- Group ---------- *)
Lemma group_enter_spec grow h h1 prev m h2 cur :
  hext noW h h1 -> wf h1 prev -> wf h1 m -> fresh h m ->
  hgroup_enter grow h1 prev m = (h2, cur) ->
  slice_elems h2 cur = slice_elems h1 prev ++ slice_elems h1 m /\ wf h2 cur /\ hext (wr prev) h h2 /\ shrinks h prev cur.
Proof.
  intros X Wp Wm Fm. unfold hgroup_enter.
  destruct (Nat.ltb 0 (s_len m)) eqn:Lm.
  - apply Nat.ltb_lt in Lm. destruct (Nat.ltb 0 (s_len prev)) eqn:Lp.
    + intros Eap. destruct (append_spec _ _ _ _ _ _ Wp Eap) as (Eg & Wg & Xg & Sg & Lg).
      split; [exact Eg|]. split; [exact Wg|]. split.
      * eapply hext_trans; [exact X|exact Xg|intros a i _ []|intros a i _ H; exact H].
      * eapply shrinks_le; [|exact Sg]. destruct X; lia.
    + apply Nat.ltb_ge in Lp. intros E; inversion E; subst.
      split; [rewrite (slice_elems_len0 h2 prev) by lia; reflexivity|]. split; [exact Wm|]. split.
      * eapply hext_weaken; [exact X|intros a i _ []].
      * right. destruct Fm as [Z|G]; [destruct Wm; lia|exact G].
  - apply Nat.ltb_ge in Lm. intros E; inversion E; subst.
    split; [rewrite (slice_elems_len0 h2 m) by lia; rewrite app_nil_r; reflexivity|]. split; [exact Wp|]. split.
    + eapply hext_weaken; [exact X|intros a i _ []].
    + apply shrinks_refl.
Qed.

Lemma hexec_stmt_group fixed grow extra strict p mws body hs :
  hexec_stmt fixed grow extra strict (SGroup p mws body) hs =
  match format_path strict p with
  | Panic => Panic
  | Ok p' =>
    let prev := hg_handlers hs in
    let '(h1, m) := alloc_args extra (h_heap hs) mws in
    let '(h2, cur) := hgroup_enter grow h1 prev m in
    match hexec_block fixed grow extra strict body
            {| h_heap := h2; hg_prefix := hg_prefix hs ++ p'; hg_handlers := cur; h_globals := h_globals hs;
               h_routes := h_routes hs; h_noroute := h_noroute hs; h_noallowed := h_noallowed hs |} with
    | Panic => Panic
    | Ok hs2 => Ok (hset_scope (hg_prefix hs) prev hs2)
    end
  end.
Proof. reflexivity. Qed.

Section Sim.
Variables (grow extra : nat) (strict : bool).

Definition stmt_sim (s : stmt) : Prop := forall saved hs, inv saved hs ->
  sim saved hs (exec_stmt strict s (abs hs)) (hexec_stmt true grow extra strict s hs).
Definition block_sim (ss : list stmt) : Prop := forall saved hs, inv saved hs ->
  sim saved hs (exec_block strict ss (abs hs)) (hexec_block true grow extra strict ss hs).

Lemma block_sim_nil : block_sim [].
Proof.
  intros saved hs Hi. unfold exec_block, hexec_block. cbn [run_block hrun_block sim].
  split; [reflexivity|]. split; [exact Hi|reflexivity].
Qed.
Lemma block_sim_cons x r : stmt_sim x -> block_sim r -> block_sim (x :: r).
Proof.
  intros Hx Hr saved hs Hi.
  change (sim saved hs
    (match exec_stmt strict x (abs hs) with Ok st' => exec_block strict r st' | Panic => Panic end)
    (match hexec_stmt true grow extra strict x hs with Ok hs' => hexec_block true grow extra strict r hs' | Panic => Panic end)).
  specialize (Hx saved hs Hi).
  destruct (exec_stmt strict x (abs hs)) as [st1|]; destruct (hexec_stmt true grow extra strict x hs) as [hs1|];
    try (exfalso; exact Hx); [|exact I].
  destruct Hx as (E1 & Hi1 & S1). subst st1. specialize (Hr saved hs1 Hi1).
  destruct (exec_block strict r (abs hs1)) as [st2|]; destruct (hexec_block true grow extra strict r hs1) as [hs2|];
    try (exfalso; exact Hr); [|exact I].
  destruct Hr as (E2 & Hi2 & S2). split; [exact E2|]. split; [exact Hi2|].
  intros p Hp. rewrite (S2 p Hp). apply S1. exact Hp.
Qed.

Lemma stmt_sim_group p mws body : block_sim body -> stmt_sim (SGroup p mws body).
Proof.
  intros IH saved hs Hi. rewrite exec_stmt_group, hexec_stmt_group.
  destruct (format_path strict p) as [p'|]; [|exact I].
  cbv zeta.
  destruct (alloc_args extra (h_heap hs) mws) as [h1 m] eqn:Ea.
  destruct (alloc_spec _ _ _ _ _ Ea) as (Em & Wm & Fm & Xm & Lm).
  assert (Fr1: forall t, In t (old_slices saved hs) -> slice_elems h1 t = slice_elems (h_heap hs) t /\ wf h1 t).
  { apply (inv_frame _ _ _ Hi). eapply hext_weaken; [exact Xm|]. intros a i _ []. }
  destruct (hgroup_enter grow h1 (hg_handlers hs) m) as [h2 cur] eqn:Ee.
  destruct (group_enter_spec _ _ _ _ _ _ _ Xm (proj2 (Fr1 _ (old_c saved hs))) Wm Fm Ee) as (Ec & Wc & Xc & Sc).
  rewrite Em, (proj1 (Fr1 _ (old_c saved hs))) in Ec.
  assert (X: hext (Wall hs) (h_heap hs) h2) by (eapply hext_weaken; [exact Xc|intros a i _ H; left; exact H]).
  pose proof (inv_frame _ _ _ Hi X) as Fr.
  destruct (frame_abs _ _ _ Fr) as (A1 & A2 & A3 & A4 & A5).
  match goal with |- context [hexec_block _ _ _ _ _ ?x] => set (hs1 := x) end.
  assert (Hi1: inv (hg_handlers hs :: saved) hs1).
  { constructor; cbn [hs1 h_heap hg_prefix hg_handlers h_globals h_routes h_noroute h_noallowed];
      change (ro_slices hs1) with (ro_slices hs).
    - intros t Ht. apply in_old in Ht. cbn [hs1 h_globals hg_handlers] in Ht. change (ro_slices hs1) with (ro_slices hs) in Ht.
      destruct Ht as [<-|[<-|[[<-|Ht]|Ht]]]; [apply Fr; auto with hdb|exact Wc|apply Fr; auto with hdb..].
    - apply (i_g_ro _ _ Hi).
    - intros w t [<-|Hw] Ht.
      + eapply sep_shrinks_l; [apply (i_wf _ _ Hi); apply old_ro; exact Ht|apply (i_c_ro _ _ Hi); [apply in_eq|exact Ht]|exact Sc].
      + apply (i_c_ro _ _ Hi); auto.
    - intros w [<-|Hw].
      + eapply sep_shrinks_r; [apply (i_wf _ _ Hi); apply old_g|apply (i_g_c _ _ Hi); apply in_eq|exact Sc].
      + apply (i_g_c _ _ Hi); exact Hw.
    - intros q [<-|Hq].
      + eapply nowr_shrinks; [apply (i_wf _ _ Hi); apply old_c|apply nowr_self|exact Sc].
      + eapply nowr_shrinks; [apply (i_wf _ _ Hi); auto with hdb|apply (i_nowr _ _ Hi); exact Hq|exact Sc]. }
  assert (Ea1: abs hs1 = set_scope (g_prefix (abs hs) ++ p') (g_handlers (abs hs) ++ mws) (abs hs)).
  { unfold abs at 1, set_scope. cbn [hs1 h_heap hg_prefix hg_handlers h_globals h_routes h_noroute h_noallowed].
    rewrite A2, A3, A4, A5, Ec. reflexivity. }
  rewrite <- Ea1.
  specialize (IH _ hs1 Hi1).
  destruct (exec_block strict body (abs hs1)) as [st2|]; destruct (hexec_block true grow extra strict body hs1) as [hs2|];
    try (exfalso; exact IH); [|exact I].
  destruct IH as (E2 & Hi2 & S2). cbn [sim]. split; [|split].
  - subst st2. unfold abs, set_scope, hset_scope. cbn [h_heap hg_prefix hg_handlers h_globals h_routes h_noroute h_noallowed g_prefix g_handlers r_globals r_routes r_noroute r_noallowed].
    rewrite (S2 _ (in_eq _ _)). cbn [hs1 h_heap]. rewrite (proj1 (Fr _ (old_c saved hs))). reflexivity.
  - constructor; unfold hset_scope; cbn [h_heap hg_prefix hg_handlers h_globals h_routes h_noroute h_noallowed];
      change (ro_slices _) with (ro_slices hs2).
    + intros t Ht. apply in_old in Ht. cbn [h_globals hg_handlers] in Ht. change (ro_slices _) with (ro_slices hs2) in Ht.
      destruct Ht as [<-|[<-|[Ht|Ht]]]; apply (i_wf _ _ Hi2); auto with hdb.
    + apply (i_g_ro _ _ Hi2).
    + intros w t Hw Ht. apply (i_c_ro _ _ Hi2); [apply in_cons; exact Hw|exact Ht].
    + intros w Hw. apply (i_g_c _ _ Hi2). apply in_cons. exact Hw.
    + apply (i_nowr _ _ Hi).
  - intros q Hq. unfold hset_scope. cbn [h_heap]. rewrite (S2 _ (in_cons _ _ _ Hq)). cbn [hs1 h_heap]. apply Fr. auto with hdb.
Qed.

Lemma sim_all : (forall s, stmt_sim s) /\ (forall ss, block_sim ss).
Proof.
  assert (HS: forall s, stmt_sim s).
  { apply (stmt_ind2 stmt_sim block_sim).
    - intros m saved hs Hi. cbn [exec_stmt hexec_stmt]. apply sim_use. exact Hi.
    - intros p m body IH. apply stmt_sim_group. exact IH.
    - intros a b c d e f saved hs Hi. cbn [exec_stmt hexec_stmt]. apply sim_route. exact Hi.
    - intros l saved hs Hi. apply sim_notfound. exact Hi.
    - intros l saved hs Hi. apply sim_notallowed. exact Hi.
    - apply block_sim_nil.
    - intros x r Hx Hr. apply block_sim_cons; auto. }
  split; [exact HS|].
  induction ss as [|x r IH]; [apply block_sim_nil|apply block_sim_cons; auto].
Qed.
End Sim.

(* ====================================================================== *)
(* the refinement theorems                                                *)
(* ====================================================================== *)
Lemma inv_init : inv [] hinit.
Proof.
  constructor.
  - intros t Ht. cbn [old_slices ro_slices hinit h_globals hg_handlers h_noroute h_noallowed h_routes map app In] in Ht.
    assert (E: t = nil_slice) by (repeat (destruct Ht as [<-|Ht]; auto); contradiction).
    subst t. apply wf_nil.
  - intros t _. left. reflexivity.
  - intros w t Hw _. cbn [hinit hg_handlers In] in Hw. destruct Hw as [<-|[]]. left. reflexivity.
  - intros w _. left. reflexivity.
  - intros p [].
Qed.
Lemma abs_init : abs hinit = rinit.
Proof. reflexivity. Qed.

(* from every start state that satisfies the invariant (saved = the group slices the enclosing Group calls will restore):
   the heap-level run succeeds exactly when the list-level run does, ends in a state that abstracts to the list-level
   result and satisfies the invariant again, and every saved group slice still reads what it read before *)
Theorem hexec_refines_gen grow extra strict ss saved hs : inv saved hs ->
  (forall st', exec_block strict ss (abs hs) = Ok st' ->
     exists hs', hexec_block true grow extra strict ss hs = Ok hs' /\ abs hs' = st' /\ inv saved hs' /\
       forall p, In p saved -> slice_elems (h_heap hs') p = slice_elems (h_heap hs) p) /\
  (exec_block strict ss (abs hs) = Panic -> hexec_block true grow extra strict ss hs = Panic).
Proof.
  intros Hi. pose proof (proj2 (sim_all grow extra strict) ss saved hs Hi) as H.
  destruct (exec_block strict ss (abs hs)) as [st1|]; destruct (hexec_block true grow extra strict ss hs) as [hs1|];
    try (exfalso; exact H).
  - split; [|discriminate]. intros st' E. inversion E; subst st'. exists hs1.
    destruct H as (H1 & H2 & H3). auto.
  - split; [discriminate|reflexivity].
Qed.
Theorem hexec_stmt_refines_gen grow extra strict s saved hs : inv saved hs ->
  (forall st', exec_stmt strict s (abs hs) = Ok st' ->
     exists hs', hexec_stmt true grow extra strict s hs = Ok hs' /\ abs hs' = st' /\ inv saved hs' /\
       forall p, In p saved -> slice_elems (h_heap hs') p = slice_elems (h_heap hs) p) /\
  (exec_stmt strict s (abs hs) = Panic -> hexec_stmt true grow extra strict s hs = Panic).
Proof.
  intros Hi. pose proof (proj1 (sim_all grow extra strict) s saved hs Hi) as H.
  destruct (exec_stmt strict s (abs hs)) as [st1|]; destruct (hexec_stmt true grow extra strict s hs) as [hs1|];
    try (exfalso; exact H).
  - split; [|discriminate]. intros st' E. inversion E; subst st'. exists hs1.
    destruct H as (H1 & H2 & H3). auto.
  - split; [discriminate|reflexivity].
Qed.

(* 1. whole programs: for every growth policy of append and every spare capacity of the callers' argument slices *)
Theorem hexec_refines grow extra strict ss :
  (forall st', exec_block strict ss rinit = Ok st' ->
     exists hs', hexec_block true grow extra strict ss hinit = Ok hs' /\ abs hs' = st') /\
  (exec_block strict ss rinit = Panic -> hexec_block true grow extra strict ss hinit = Panic).
Proof.
  destruct (hexec_refines_gen grow extra strict ss [] hinit inv_init) as [H1 H2]. rewrite abs_init in *.
  split; [|exact H2]. intros st' E. destruct (H1 st' E) as (hs' & E1 & E2 & _). exists hs'. auto.
Qed.
(* and conversely: what the heap-level run yields is what the list-level run yields *)
Corollary hexec_refines_conv grow extra strict ss hs' :
  hexec_block true grow extra strict ss hinit = Ok hs' -> exec_block strict ss rinit = Ok (abs hs').
Proof.
  intros E. destruct (hexec_refines grow extra strict ss) as [H1 H2].
  destruct (exec_block strict ss rinit) as [st'|].
  - destruct (H1 st' eq_refl) as (hs1 & E1 & E2). congruence.
  - rewrite (H2 eq_refl) in E. discriminate.
Qed.

(* 2. the handlers read from the heap for every registered route are the lexically scoped ones *)
Corollary hexec_routes_den grow extra strict ss st' : exec_block strict ss rinit = Ok st' ->
  exists hs', hexec_block true grow extra strict ss hinit = Ok hs' /\
    map (abs_route (h_heap hs')) (h_routes hs') = den_block strict [] [] ss /\
    hg_prefix hs' = [] /\ slice_elems (h_heap hs') (hg_handlers hs') = [].
Proof.
  intros E. destruct (hexec_refines grow extra strict ss) as [H1 _]. destruct (H1 st' E) as (hs' & E1 & E2).
  exists hs'. split; [exact E1|]. destruct (program_routes strict ss st' E) as (R & P & G).
  subst st'. cbn [abs r_routes g_prefix g_handlers] in R, P, G. auto.
Qed.
Corollary hexec_routes_den_heap grow extra strict ss hs' : hexec_block true grow extra strict ss hinit = Ok hs' ->
  map (abs_route (h_heap hs')) (h_routes hs') = den_block strict [] [] ss.
Proof.
  intros E. apply hexec_refines_conv in E. destruct (program_routes strict ss _ E) as (R & _). exact R.
Qed.

(* 3. the legacy combineHandlers (old returned uncopied when new is empty): the group slice gets spare capacity from two
   Use calls inside the group; both routes then share its array and the second route's Use overwrites the first's *)
Definition alias_prog : list stmt :=
  [SGroup [47; 103]%N []
     [SUse [1]; SUse [2];
      SRoute [] [47; 97]%N 100 [10] [] [];
      SRoute [] [47; 98]%N 101 [20] [] []]].
Example legacy_aliasing_refuted :
  match hexec_block false 2 0 true alias_prog hinit, exec_block true alias_prog rinit with
  | Ok hs', Ok st' =>
      map r_handlers (r_routes st') = [[1; 2; 10]; [1; 2; 20]] /\
      map r_handlers (r_routes (abs hs')) = [[1; 2; 20]; [1; 2; 20]]
  | _, _ => False
  end.
Proof. vm_compute. split; reflexivity. Qed.
Example legacy_aliasing_refuted_neq :
  exists hs' st', hexec_block false 2 0 true alias_prog hinit = Ok hs' /\ exec_block true alias_prog rinit = Ok st' /\
    r_routes (abs hs') <> r_routes st'.
Proof.
  pose proof legacy_aliasing_refuted as H.
  destruct (hexec_block false 2 0 true alias_prog hinit) as [hs'|]; [|contradiction].
  destruct (exec_block true alias_prog rinit) as [st'|]; [|contradiction].
  exists hs', st'. split; [reflexivity|]. split; [reflexivity|]. destruct H as [H1 H2]. intros E. rewrite E, H1 in H2. discriminate.
Qed.
(* the same program under the current code *)
Example fixed_no_aliasing_example :
  match hexec_block true 2 0 true alias_prog hinit with
  | Ok hs' => map r_handlers (r_routes (abs hs')) = [[1; 2; 10]; [1; 2; 20]]
  | Panic => False
  end.
Proof. vm_compute. reflexivity. Qed.

Print Assumptions hexec_refines_gen.
Print Assumptions hexec_stmt_refines_gen.
Print Assumptions hexec_refines.
Print Assumptions hexec_refines_conv.
Print Assumptions hexec_routes_den.
Print Assumptions hexec_routes_den_heap.
Print Assumptions legacy_aliasing_refuted.
Print Assumptions legacy_aliasing_refuted_neq.
Print Assumptions fixed_no_aliasing_example.
