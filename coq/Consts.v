(* Consts.v — constants of package rux the models depend on. The harness dumps the
   same constants from the built package on every run and bin/check compares them. *)
From Coq Require Import String Ascii.
From Rux Require Import Base.

Definition s (x : string) : str := map (fun a => N.of_nat (nat_of_ascii a)) (list_ascii_of_string x).

Definition abort_index : Z := 63.

Definition GET : str := Eval vm_compute in s "GET".       Definition POST : str := Eval vm_compute in s "POST".     Definition PUT : str := Eval vm_compute in s "PUT".
Definition PATCH : str := Eval vm_compute in s "PATCH".   Definition DELETE : str := Eval vm_compute in s "DELETE". Definition OPTIONS : str := Eval vm_compute in s "OPTIONS".
Definition HEAD : str := Eval vm_compute in s "HEAD".     Definition CONNECT : str := Eval vm_compute in s "CONNECT". Definition TRACE : str := Eval vm_compute in s "TRACE".
(* rux.go: anyMethods, in this order (the order findAllowedMethods probes) *)
Definition any_methods : list str := [GET; POST; PUT; PATCH; DELETE; OPTIONS; HEAD; CONNECT; TRACE].

Definition any_match : str := Eval vm_compute in s "[^/]+".
(* utils.go: globalVars (sorted by name) *)
Definition global_vars : list (str * str) := Eval vm_compute in
  [(s "all", s ".*"); (s "any", s "[^/]+"); (s "num", s "[1-9][0-9]*")].

(* rux.go: RESTFulActions (sorted by action name) *)
Definition rest_actions : list (str * list str) := Eval vm_compute in
  [(s "Create", [GET]); (s "Delete", [DELETE]); (s "Edit", [GET]); (s "Index", [GET]);
   (s "Show", [GET]); (s "Store", [POST]); (s "Update", [PUT; PATCH])].
