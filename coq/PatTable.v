(* PatTable.v — registration of routes given by the documented grammar (Pat.v) into the router tables
   (Table.v), i.e. the AST-level twin of Table.reg_route: same tiers, same keys, same start/first rule,
   compiled expression = pat_rx. C01/C06 are proved about routers built this way; the string-level
   front end (Pattern.compile_dyn + RxParse) is tied to it by the executable link check [link_ok]
   that the correspondence run evaluates on every generated pattern, and by the probes. *)
From Rux Require Import Base Str Consts Norm Rx RxParse Pattern Pat Cache Table.

(* the insertion part of appendRoute *)
Definition insert_route (rt : router) (r : route) : router :=
  let rid := List.length (routes rt) in
  let nm := match rt_name r with [] => named rt | n => map_set n rid (named rt) end in
  let ms := rt_methods r in
  let cnt := (counter rt + List.length ms)%nat in
  match rt_kind r with
  | KStatic =>
      set_tables rt cnt (routes rt ++ [r])
        (fold_left (fun st m => map_set (m ++ rt_path r) rid st) ms (stable rt)) (regular rt) (irregular rt) nm
  | KDyn _ [] _ _ =>
      set_tables rt cnt (routes rt ++ [r]) (stable rt) (regular rt)
        (fold_left (fun ir m => map_append m rid ir) ms (irregular rt)) nm
  | KDyn _ f _ _ =>
      set_tables rt cnt (routes rt ++ [r]) (stable rt)
        (fold_left (fun rg m => map_append (m ++ f) rid rg) ms (regular rt)) (irregular rt) nm
  end.

(* a grammar-level route as a table route *)
Definition route_of (s : sroute) : route :=
  match s_pat s with
  | None => {| rt_methods := s_methods s; rt_path := s_path s; rt_kind := KStatic; rt_name := [] |}
  | Some p =>
      let '(st, fi) := start_and_first (pat_prefix p) in
      {| rt_methods := s_methods s; rt_path := s_path s;
         rt_kind := KDyn st fi (CRx (pat_rx p) (List.length (pat_names p))) (pat_names p); rt_name := [] |}
  end.

Definition build (o : opts) (rs : list sroute) : router := fold_left insert_route (map route_of rs) (new_router o).

(* projection of a lookup result to the selected route *)
Definition sel (r : lres) : option nat := match r with LHit i _ => Some i | _ => None end.

(* ---- executable link between the string-level compiler and the grammar-level one ---- *)
Definition str_list_eqb (a b : list str) : bool :=
  Nat.eqb (List.length a) (List.length b) && forallb (fun '(x, y) => str_eqb x y) (combine a b).
(* for a dynamic pattern text: both front ends accept it and agree on start, first node and variable names *)
Definition link_ok (path : str) : bool :=
  match parse_pat path, compile_dyn path with
  | Some p, Ok d =>
      let '(st, fi) := start_and_first (pat_prefix p) in
      str_eqb st (d_start d) && str_eqb fi (d_first d) && str_list_eqb (pat_names p) (d_names d)
  | None, _ => true          (* outside the grammar: nothing to link *)
  | Some _, Panic => false
  end.
