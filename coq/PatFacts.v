(* PatFacts.v — meaning of route patterns: the regex a pattern compiles to matches exactly the paths of
   the declarative pattern semantics, and the reported parameters are the values of the variables
   (C01 "only if"/"if" halves for a single pattern, C02); prefix / first-segment obligations I1, I2. *)
From Rux Require Import Base BaseFacts Str Rx RxFacts Pattern Pat.

(* ---------- 1. declarative meaning of a pattern ---------- *)
(* literals verbatim, each variable a word of its regex; vs = the values of the variables in order *)
Inductive items_den : list item -> str -> list str -> Prop :=
| ID_nil : items_den [] [] []
| ID_lit s r t vs : items_den r t vs -> items_den (Lit s :: r) (s ++ t) vs
| ID_var n re r v t vs : den re v -> items_den r t vs -> items_den (Var n re :: r) (v ++ t) (v :: vs).
(* optional levels: a prefix-closed choice; absent levels contribute no text and the value "" for each of their variables *)
Inductive opts_den : list (list item) -> str -> list str -> Prop :=
| OD_absent os : opts_den os [] (map (fun _ => []) (flat_map item_names os))
| OD_present o os s1 v1 s2 v2 : items_den o s1 v1 -> opts_den os s2 v2 -> opts_den (o :: os) (s1 ++ s2) (v1 ++ v2).
Definition pat_den (p : pat) (path : str) (vs : list str) : Prop :=
  exists s1 v1 s2 v2, path = s1 ++ s2 /\ vs = v1 ++ v2 /\ items_den (p_req p) s1 v1 /\ opts_den (p_opts p) s2 v2.

(* ---------- 2. soundness of matching and of the reported parameters ---------- *)
Fixpoint no_grp (r : rx) : bool :=
  match r with
  | Grp _ _ => false
  | Cat a b | Alt a b => no_grp a && no_grp b
  | Star a => no_grp a
  | _ => true
  end.
Definition items_ok (its : list item) := forall n re, In (Var n re) its -> no_grp re = true.
Definition pat_ok (p : pat) := items_ok (p_req p) /\ Forall items_ok (p_opts p).

(* small inversion lemmas *)
Lemma denc_cat_inv a b s c c2 : denc (Cat a b) s c c2 ->
  exists s1 s2 c1, s = s1 ++ s2 /\ denc a s1 c c1 /\ denc b s2 c1 c2.
Proof. intros H. inversion H; subst. eauto 8. Qed.
Lemma denc_alt_inv a b s c c' : denc (Alt a b) s c c' -> denc a s c c' \/ denc b s c c'.
Proof. intros H. inversion H; subst; auto. Qed.
Lemma denc_grp_inv i a s c c' : denc (Grp i a) s c c' -> exists c1, denc a s c c1 /\ c' = (i, s) :: c1.
Proof. intros H. inversion H; subst. eauto. Qed.
Lemma denc_chr_inv x s c c' : denc (Chr x) s c c' -> s = [x] /\ c' = c.
Proof. intros H. inversion H; subst. auto. Qed.
Lemma denc_eps_inv s c c' : denc Eps s c c' -> s = [] /\ c' = c.
Proof. intros H. inversion H; subst. auto. Qed.

Lemma denc_lit l s c c' : denc (lit_rx l) s c c' -> s = l /\ c' = c.
Proof.
  revert s c c'. induction l as [|x l IH]; intros s c c' H; cbn [lit_rx] in H.
  - apply denc_eps_inv in H. auto.
  - apply denc_cat_inv in H. destruct H as (s1 & s2 & c1 & -> & Ha & Hb).
    apply denc_chr_inv in Ha. destruct Ha as [-> ->]. apply IH in Hb. destruct Hb as [-> ->]. auto.
Qed.

Lemma denc_no_grp r s c c' : no_grp r = true -> denc r s c c' -> c' = c.
Proof.
  intros N H. induction H as [c|x c|x c Hx|neg rs x c Hx|a b s1 s2 c c1 c2 Ha IHa Hb IHb|a b s c c1 Ha IHa
                             |a b s c c1 Hb IHb|a c|a s1 s2 c c1 c2 Ha IHa Hs IHs|i a s c c1 Ha IHa];
    cbn [no_grp] in N; auto.
  - apply andb_true_iff in N. destruct N as [Na Nb]. rewrite (IHb Nb), (IHa Na). reflexivity.
  - apply andb_true_iff in N. destruct N as [Na Nb]. auto.
  - apply andb_true_iff in N. destruct N as [Na Nb]. auto.
  - rewrite (IHs N), (IHa N). reflexivity.
  - discriminate.
Qed.

(* captures pushed by an item list starting at group index i: most recent first *)
Fixpoint push (i : nat) (vs : list str) (c : caps) : caps :=
  match vs with [] => c | v :: r => push (S i) r ((i, v) :: c) end.

Lemma items_ok_tl it its : items_ok (it :: its) -> items_ok its.
Proof. intros OK n re Hin. apply (OK n re). right. exact Hin. Qed.

Lemma items_caps its : items_ok its -> forall i s c c', denc (fst (items_rx its i)) s c c' ->
  exists vs, items_den its s vs /\ c' = push i vs c /\ snd (items_rx its i) = i + List.length vs
             /\ List.length vs = List.length (item_names its).
Proof.
  induction its as [|it its IH]; intros OK i s c c' H.
  - cbn [items_rx fst] in H. apply denc_eps_inv in H. destruct H as [-> ->].
    exists []. cbn. repeat split; auto. constructor.
  - pose proof (items_ok_tl _ _ OK) as OK'. destruct it as [l|n re].
    + cbn [items_rx] in *. destruct (items_rx its i) as [x j] eqn:E. cbn [fst snd] in *.
      apply denc_cat_inv in H. destruct H as (s1 & s2 & c1 & -> & Ha & Hb).
      apply denc_lit in Ha. destruct Ha as [-> ->].
      specialize (IH OK' i s2 c c'). rewrite E in IH. cbn [fst snd] in IH.
      destruct (IH Hb) as (vs & D & C & J & L).
      exists vs. repeat split; auto. constructor; auto.
    + cbn [items_rx] in *. destruct (items_rx its (S i)) as [x j] eqn:E. cbn [fst snd] in *.
      apply denc_cat_inv in H. destruct H as (s1 & s2 & c1 & -> & Ha & Hb).
      apply denc_grp_inv in Ha. destruct Ha as (c0 & Hre & ->).
      assert (E0 : c0 = c). { eapply denc_no_grp; [|exact Hre]. apply (OK n re). left. reflexivity. }
      subst c0.
      specialize (IH OK' (S i) s2 ((i, s1) :: c) c'). rewrite E in IH. cbn [fst snd] in IH.
      destruct (IH Hb) as (vs & D & C & J & L).
      exists (s1 :: vs). repeat split.
      * constructor; auto. eapply denc_den; eauto.
      * exact C.
      * cbn [List.length]. lia.
      * cbn [List.length]. unfold item_names in *. cbn [flat_map app List.length]. rewrite L. reflexivity.
Qed.

Lemma push_app vs1 : forall vs2 i c, push i (vs1 ++ vs2) c = push (i + List.length vs1) vs2 (push i vs1 c).
Proof.
  induction vs1 as [|v vs1 IH]; intros vs2 i c; cbn [app push List.length].
  - rewrite Nat.add_0_r. reflexivity.
  - rewrite IH. replace (S i + List.length vs1) with (i + S (List.length vs1)) by lia. reflexivity.
Qed.

Lemma nth_map_nil {A} (l : list A) j : nth j (map (fun _ => @nil ch) l) [] = [].
Proof. revert j. induction l as [|x l IH]; intros [|j]; cbn [map nth]; auto. Qed.

Lemma opts_caps os : Forall items_ok os -> forall i s c c', denc (fst (opts_rx os i)) s c c' ->
  exists vs k, opts_den os s vs /\ c' = push i (firstn k vs) c /\ k <= List.length vs
               /\ (forall j, k <= j -> nth j vs [] = []) /\ List.length vs = List.length (flat_map item_names os).
Proof.
  induction os as [|o os IH]; intros OK i s c c' H.
  - cbn [opts_rx fst] in H. apply denc_eps_inv in H. destruct H as [-> ->].
    exists [], 0. split; [apply (OD_absent [])|]. repeat split; auto.
    intros j _. destruct j; reflexivity.
  - pose proof (Forall_inv OK) as OKo. pose proof (Forall_inv_tail OK) as OKos.
    cbn [opts_rx] in H. destruct (items_rx o i) as [a j] eqn:Ea. destruct (opts_rx os j) as [b k0] eqn:Eb.
    cbn [fst] in H. unfold Opt in H. apply denc_alt_inv in H. destruct H as [H|H].
    + apply denc_cat_inv in H. destruct H as (s1 & s2 & c1 & -> & Ha & Hb).
      pose proof (items_caps o OKo i s1 c c1) as IC. rewrite Ea in IC. cbn [fst snd] in IC.
      destruct (IC Ha) as (vs1 & D1 & C1 & J1 & L1).
      pose proof (IH OKos j s2 c1 c') as IO. rewrite Eb in IO. cbn [fst] in IO.
      destruct (IO Hb) as (vs2 & k2 & D2 & C2 & K2 & Z2 & L2).
      exists (vs1 ++ vs2), (List.length vs1 + k2). split; [|split; [|split; [|split]]].
      * apply OD_present; auto.
      * rewrite firstn_app_2, push_app. rewrite <- C1, <- J1. exact C2.
      * rewrite app_length. lia.
      * intros m Hm. rewrite app_nth2 by lia. apply Z2. lia.
      * cbn [flat_map]. rewrite !app_length. lia.
    + apply denc_eps_inv in H. destruct H as [-> ->].
      exists (map (fun _ => []) (flat_map item_names (o :: os))), 0. split; [|split; [|split; [|split]]].
      * apply OD_absent.
      * reflexivity.
      * lia.
      * intros m _. apply nth_map_nil.
      * apply map_length.
Qed.

(* reading captures back *)
Lemma cap_get_push vs : forall i c j,
  cap_get j (push i vs c) = if (i <=? j) && (j <? i + List.length vs) then nth (j - i) vs [] else cap_get j c.
Proof.
  induction vs as [|v vs IH]; intros i c j; cbn [push List.length].
  - replace ((i <=? j) && (j <? i + 0)) with false; [reflexivity|].
    symmetry. apply andb_false_iff. destruct (Nat.leb_spec i j); [right|left; reflexivity].
    apply Nat.ltb_ge. lia.
  - rewrite IH. cbn [cap_get].
    destruct (Nat.leb_spec (S i) j) as [H1|H1]; destruct (Nat.ltb_spec j (S i + List.length vs)) as [H2|H2];
      cbn [andb].
    + destruct (Nat.leb_spec i j) as [H3|H3]; [|lia]. destruct (Nat.ltb_spec j (i + S (List.length vs))) as [H4|H4]; [|lia].
      cbn [andb]. replace (j - i) with (S (j - S i)) by lia. reflexivity.
    + destruct (Nat.eqb_spec j i) as [E|E]; [lia|].
      destruct (Nat.ltb_spec j (i + S (List.length vs))) as [H4|H4]; [lia|]. rewrite andb_false_r. reflexivity.
    + destruct (Nat.eqb_spec j i) as [E|E].
      * subst j. rewrite Nat.leb_refl. destruct (Nat.ltb_spec i (i + S (List.length vs))) as [H4|H4]; [|lia].
        cbn [andb]. rewrite Nat.sub_diag. reflexivity.
      * destruct (Nat.leb_spec i j) as [H3|H3]; [lia|]. reflexivity.
    + destruct (Nat.eqb_spec j i) as [E|E]; [lia|].
      destruct (Nat.leb_spec i j) as [H3|H3]; [lia|]. reflexivity.
Qed.

Lemma cap_get_push0 vs j : cap_get j (push 0 vs []) = nth j vs [].
Proof.
  rewrite cap_get_push. cbn [Nat.leb andb Nat.add cap_get]. rewrite Nat.sub_0_r.
  destruct (Nat.ltb_spec j (List.length vs)) as [H|H]; [reflexivity|].
  symmetry. apply nth_overflow. exact H.
Qed.

Lemma nth_firstn_lt {A} (l : list A) d : forall k j, j < k -> nth j (firstn k l) d = nth j l d.
Proof.
  induction l as [|x l IH]; intros k j H.
  - rewrite firstn_nil. reflexivity.
  - destruct k as [|k]; [lia|]. cbn [firstn]. destruct j as [|j]; cbn [nth]; [reflexivity|]. apply IH. lia.
Qed.

Lemma pat_rx_unfold p : pat_rx p = Cat (fst (items_rx (p_req p) 0)) (fst (opts_rx (p_opts p) (snd (items_rx (p_req p) 0)))).
Proof.
  unfold pat_rx. destruct (items_rx (p_req p) 0) as [a j]. cbn [fst snd]. destruct (opts_rx (p_opts p) j) as [b k].
  reflexivity.
Qed.

Theorem pat_match_sound p path c : pat_ok p -> full (pat_rx p) path = Some c ->
  exists vs, pat_den p path vs /\ List.length vs = List.length (pat_names p) /\
             forall i, i < List.length vs -> cap_get i c = nth i vs [].
Proof.
  intros [OKr OKo] H. apply full_caps in H. rewrite pat_rx_unfold in H.
  apply denc_cat_inv in H. destruct H as (s1 & s2 & c1 & -> & Ha & Hb).
  destruct (items_caps _ OKr 0 s1 [] c1 Ha) as (vs1 & D1 & C1 & J1 & L1).
  rewrite J1 in Hb. cbn [Nat.add] in Hb.
  destruct (opts_caps _ OKo _ s2 c1 c Hb) as (vs2 & k & D2 & C2 & K2 & Z2 & L2).
  exists (vs1 ++ vs2). split; [|split].
  - exists s1, vs1, s2, vs2. repeat split; auto.
  - unfold pat_names. rewrite !app_length. lia.
  - intros i Hi.
    assert (Ec : c = push 0 (vs1 ++ firstn k vs2) []).
    { rewrite push_app. cbn [Nat.add]. rewrite <- C1. exact C2. }
    rewrite Ec, cap_get_push0.
    destruct (Nat.lt_ge_cases i (List.length vs1)) as [Hlt|Hge].
    + rewrite !app_nth1 by exact Hlt. reflexivity.
    + rewrite !app_nth2 by lia.
      destruct (Nat.lt_ge_cases (i - List.length vs1) k) as [Hk|Hk].
      * apply nth_firstn_lt. exact Hk.
      * rewrite (Z2 _ Hk). apply nth_overflow. rewrite firstn_length. lia.
Qed.

(* the parameter map *)
Lemma assoc_param_put_same k v d : assoc k (param_put k v d) = Some v.
Proof.
  induction d as [|[k' v'] d IH]; cbn [param_put assoc].
  - rewrite str_eqb_refl. reflexivity.
  - destruct (str_eqb k k') eqn:E; cbn [assoc].
    + rewrite str_eqb_refl. reflexivity.
    + rewrite E. exact IH.
Qed.
Lemma assoc_param_put_other k k0 v d : k <> k0 -> assoc k (param_put k0 v d) = assoc k d.
Proof.
  intros Hne. induction d as [|[k' v'] d IH]; cbn [param_put assoc].
  - apply str_eqb_neq in Hne. rewrite Hne. reflexivity.
  - destruct (str_eqb_spec k0 k') as [E|E]; cbn [assoc].
    + subst k'. apply str_eqb_neq in Hne. rewrite Hne. reflexivity.
    + destruct (str_eqb k k'); [reflexivity|exact IH].
Qed.

Lemma zip_params_assoc names c : NoDup names -> forall g i acc ps,
  zip_params g i names c acc = Some ps ->
  forall m n, nth_error names m = Some n ->
    assoc n ps = if (i <=? m) && (m <? i + g) then Some (cap_get m c) else assoc n acc.
Proof.
  intros ND. induction g as [|g IH]; intros i acc ps H m n Hm; cbn [zip_params] in H.
  - inversion H; subst ps. replace ((i <=? m) && (m <? i + 0)) with false; [reflexivity|].
    symmetry. apply andb_false_iff. destruct (Nat.leb_spec i m); [right|left; reflexivity]. apply Nat.ltb_ge. lia.
  - destruct (nth_error names i) as [n0|] eqn:Ei; [|discriminate].
    rewrite (IH _ _ _ H m n Hm).
    destruct (Nat.leb_spec (S i) m) as [H1|H1]; destruct (Nat.ltb_spec m (S i + g)) as [H2|H2]; cbn [andb].
    + destruct (Nat.leb_spec i m) as [H3|H3]; [|lia]. destruct (Nat.ltb_spec m (i + S g)) as [H4|H4]; [|lia]. reflexivity.
    + destruct (Nat.ltb_spec m (i + S g)) as [H4|H4]; [lia|]. rewrite andb_false_r.
      apply assoc_param_put_other. intros ->.
      assert (i = m); [|lia]. apply (proj1 (NoDup_nth_error names) ND).
      * apply nth_error_Some. congruence.
      * congruence.
    + destruct (Nat.eq_dec m i) as [E|E].
      * subst m. rewrite Nat.leb_refl. destruct (Nat.ltb_spec i (i + S g)) as [H4|H4]; [|lia]. cbn [andb].
        assert (n0 = n) by congruence. subst n0. apply assoc_param_put_same.
      * destruct (Nat.leb_spec i m) as [H3|H3]; [lia|]. cbn [andb].
        apply assoc_param_put_other. intros ->.
        assert (i = m); [|lia]. apply (proj1 (NoDup_nth_error names) ND).
        -- apply nth_error_Some. congruence.
        -- congruence.
    + destruct (Nat.leb_spec i m) as [H3|H3]; [lia|]. cbn [andb].
      apply assoc_param_put_other. intros ->.
      assert (i = m); [|lia]. apply (proj1 (NoDup_nth_error names) ND).
      * apply nth_error_Some. congruence.
      * congruence.
Qed.

(* what the handlers receive: exactly the variable names, bound to those values (for patterns whose variable names are distinct) *)
Theorem pat_params_sound p path ps : pat_ok p -> NoDup (pat_names p) -> pat_params p path = Some ps ->
  exists vs, pat_den p path vs /\ List.length vs = List.length (pat_names p) /\
    forall i n, nth_error (pat_names p) i = Some n -> assoc n ps = Some (nth i vs []).
Proof.
  intros OK ND H. unfold pat_params in H. destruct (full (pat_rx p) path) as [c|] eqn:F; [|discriminate].
  destruct (pat_match_sound p path c OK F) as (vs & D & L & G).
  exists vs. split; [exact D|]. split; [exact L|].
  intros i n Hn.
  assert (Hi : i < List.length (pat_names p)). { apply nth_error_Some. congruence. }
  rewrite (zip_params_assoc _ c ND _ _ _ _ H i n Hn). cbn [Nat.leb andb Nat.add].
  destruct (Nat.ltb_spec i (List.length (pat_names p))) as [H4|H4]; [|lia].
  rewrite G by lia. reflexivity.
Qed.

(* ---------- 3. completeness of matching ---------- *)
Lemma den_lit l : den (lit_rx l) l.
Proof.
  induction l as [|x l IH]; cbn [lit_rx].
  - constructor.
  - change (x :: l) with ([x] ++ l). constructor; [constructor|exact IH].
Qed.

Lemma items_den_rx its : forall i s vs, items_den its s vs -> den (fst (items_rx its i)) s.
Proof.
  intros i s vs H. revert i. induction H as [|l r t vs H IH|n re r v t vs Hv H IH]; intros i; cbn [items_rx].
  - constructor.
  - specialize (IH i). destruct (items_rx r i) as [x j]. cbn [fst] in *. constructor; [apply den_lit|exact IH].
  - specialize (IH (S i)). destruct (items_rx r (S i)) as [x j]. cbn [fst] in *.
    constructor; [constructor; exact Hv|exact IH].
Qed.

Lemma opts_den_rx os : forall i s vs, opts_den os s vs -> den (fst (opts_rx os i)) s.
Proof.
  intros i s vs H. revert i. induction H as [os|o os s1 v1 s2 v2 H1 H2 IH]; intros i.
  - destruct os as [|o os]; cbn [opts_rx].
    + constructor.
    + destruct (items_rx o i) as [a j]. destruct (opts_rx os j) as [b k]. cbn [fst]. apply DAltR. constructor.
  - cbn [opts_rx]. pose proof (items_den_rx o i s1 v1 H1) as Ha. destruct (items_rx o i) as [a j].
    specialize (IH j). destruct (opts_rx os j) as [b k]. cbn [fst] in *. apply DAltL. constructor; assumption.
Qed.

Theorem pat_matches_iff p path : pat_ok p -> (pat_matches p path = true <-> exists vs, pat_den p path vs).
Proof.
  intros OK. unfold pat_matches. split.
  - intros H. unfold matches in H. destruct (full (pat_rx p) path) as [c|] eqn:F; [|discriminate].
    destruct (pat_match_sound p path c OK F) as (vs & D & _). exists vs. exact D.
  - intros (vs & s1 & v1 & s2 & v2 & -> & -> & D1 & D2). apply matches_iff. rewrite pat_rx_unfold.
    constructor; [eapply items_den_rx; eauto|eapply opts_den_rx; eauto].
Qed.

(* ---------- 4. prefix and first-segment obligations (I1, I2) ---------- *)
Lemma items_den_prefix its s vs : items_den its s vs -> exists t, s = fst (lit_prefix its) ++ t.
Proof.
  induction 1 as [|l r t vs H IH|n re r v t vs Hv H IH]; cbn [lit_prefix].
  - exists []. reflexivity.
  - destruct IH as [t' ->]. destruct (lit_prefix r) as [p e]. cbn [fst]. exists t'. rewrite app_assoc. reflexivity.
  - cbn [fst app]. eexists; reflexivity.
Qed.

Theorem pat_den_prefix p path vs : pat_den p path vs -> has_prefix (pat_prefix p) path = true.
Proof.
  intros (s1 & v1 & s2 & v2 & -> & -> & D1 & D2). unfold pat_prefix.
  destruct (items_den_prefix _ _ _ D1) as [t ->]. rewrite <- app_assoc. apply has_prefix_app.
Qed.

Lemma index_of_firstn_skipn c l : forall n, index_of c l = Some n ->
  l = firstn n l ++ c :: skipn (S n) l /\ ~ In c (firstn n l).
Proof.
  induction l as [|x l IH]; intros n H; cbn [index_of] in H; [discriminate|].
  destruct (N.eqb_spec x c) as [E|E].
  - inversion H; subst. cbn. split; auto.
  - destruct (index_of c l) as [m|] eqn:Em; [|discriminate]. inversion H; subst n.
    destruct (IH m eq_refl) as [E1 E2]. cbn [firstn skipn app]. split.
    + f_equal. exact E1.
    + intros [Hin|Hin]; [congruence|auto].
Qed.

(* if the pattern begins with a complete literal first segment "/seg/", every path it matches has that first node *)
Theorem pat_den_first_segment p path vs f : (exists t, pat_prefix p = slash :: t) ->
  pat_den p path vs -> first_segment p = Some f ->
  exists rest, path = slash :: f ++ slash :: rest.
Proof.
  intros [t0 Hs] D F. apply pat_den_prefix in D. apply has_prefix_split in D. destruct D as [t ->].
  unfold first_segment in F. rewrite Hs in *.
  destruct (index_of slash t0) as [[|pos]|] eqn:Ei; try discriminate. inversion F; subst f.
  destruct (index_of_firstn_skipn _ _ _ Ei) as [E _].
  exists (skipn (S (S pos)) t0 ++ t). cbn [app]. f_equal.
  rewrite E at 1. rewrite <- app_assoc. reflexivity.
Qed.
