(* Extract.v — extraction of the executable models to OCaml (ExtrOcamlBasic only).
   Run from /verif/ocaml: coqc -Q ../coq Rux ../coq/Extract.v *)
From Rux Require Import Base Consts Cache.
Require Import ExtrOcamlBasic.
Extraction "model.ml"
  str_eqb Z.of_nat Z.to_nat
  abort_index any_methods any_match global_vars rest_actions
  inew irun arun.
