(* Extract.v — extraction of the executable models to OCaml (ExtrOcamlBasic only).
   Run from /verif/ocaml: coqc -Q ../coq Rux ../coq/Extract.v *)
From Rux Require Import Base Consts Cache Str Norm Writer Chain Dispatch Reg Rx RxParse Pattern Pat Table PatTable Gates Rest Build Static Bind Render Sys.
Require Import ExtrOcamlBasic.
Extraction "model.ml"
  str_eqb Z.of_nat Z.to_nat
  abort_index any_methods any_match global_vars rest_actions
  inew irun arun
  format_path simple_fmt_path core reg_path request_path is_fixed_path
  wrequest spec_status spec_events
  exec_block rinit den_block handle_request ctx_init fresh_ctx onion apply_all apply_eff prog sort_strs str_leb default_404 default_405 k_recover
  new_router reg_route with_options format_methods router_match quick_match match_ dyn_match route_match
  parse_pat pat_matches pat_params pat_names first_segment pat_is_static spec_select compile_dyn compile_re parse_rx full matches akeys link_ok
  basic_auth auth_prog method_override wrap_loop wrap_spec
  all_actions action_name action_methods action_path action_id route_name resource_stmts resource_guard documented_path nf
  build_path var_texts split_args placeholder subst_items map_set names_set
  sys_build sys_serve sys_target
  clean_rooted clean_stack dir_open strip_prefix ext_filter
  auto_source doc_source has_body ctx_blob ctx_no_content ctx_http_error respond render_blob render_json render_jsonp render_xml rsp_init auto_pick supported ct_text ct_html ct_json ct_jsonp ct_xml.
