(* RestLookup.v — C16 (lookups): on the table that Router.Resource registers, the ACTION that serves a request does
   not depend on the order in which the actions were registered (Go iterates a map), although the table has
   overlapping routes (GET G/create static vs GET G/{id} dynamic; GET G/{id} vs GET G/{id}/edit).

     pick, scand, dcand, pick_char, pick_perm     a general fact about spec_select: if at most one static route and at most
                                                   one dynamic route of the table allow the method and match the path, the
                                                   selected ELEMENT is the same for every permutation of the table
     rest_prefix, res_entry, res_entry_path, res_entry_wf     the documented table as printable entries
     show_matches, edit_matches                    what G/{id} and G/{id}/edit match ({id} = [^/]+)
     serves, scand_serves, dcand_serves            which requests an action can serve
     rest_lookup_order_independent(_string)        main theorem 1, grammar level and string level
     rest_lookup_table(_string), lookup_* , rest_lookup_none, rest_lookup_shape,
     rest_served_by_at_most_one                    main theorem 2: which action serves which request, and nothing else
     build_lookup_params, rest_lookup_params       the parameters reported with the hit: id = the segment x
     resource_registers_res_entries, rest_prefix_clean, resource_lookup_order_independent(_printable)
                                                   the table of res_entry IS what Router.Resource registers (Reg/Rest model)
     Examples                                      "/api/users", Show registered before and after Create, both computed *)
From Coq Require Import Permutation.
From Rux Require Import Base BaseFacts Str Consts Norm NormFacts Rx RxFacts RxParse Pattern Pat PatFacts
  Cache CacheFacts Table TableFacts PatTable RoundTrip SelectFacts TableLink Rest.

(* ================================================================================================ *)
(* 1. spec_select on tables with at most one static and at most one dynamic candidate                 *)
(* ================================================================================================ *)

(* a route is a candidate for (m, path): it allows m and its path / pattern matches *)
Definition scand (m path : str) (r : sroute) : bool := s_static r && mem m (s_methods r) && str_eqb (s_path r) path.
Definition dcand (m path : str) (r : sroute) : bool := negb (s_static r) && mem m (s_methods r) && s_matches r path.

(* the selected element of a table given as the image of a list l under f *)
Definition pick {A} (f : A -> sroute) (m path : str) (d : A) (l : list A) : option A :=
  option_map (fun i => nth i l d) (spec_select (map f l) m path).

Lemma nth_error_map_elem {A} (f : A -> sroute) (d : A) l i x : nth_error (map f l) i = Some x ->
  exists a, f a = x /\ nth i l d = a /\ In a l.
Proof.
  rewrite nth_error_map. destruct (nth_error l i) as [a|] eqn:E; [|discriminate]. cbn [option_map].
  intros H. inversion H; subst x. exists a. split; [reflexivity|]. split; [apply nth_error_nth; exact E|].
  eapply nth_error_In; exact E.
Qed.

Lemma find_last_idx_all_false {A} (p : A -> bool) l : (forall x, In x l -> p x = false) ->
  forall i, find_last_idx p l i None = None.
Proof.
  intros H i. destruct (find_last_idx p l i None) as [k|] eqn:E; [|reflexivity].
  apply find_last_idx_some in E. destruct E as [E|[_ (x & Hx & Hp)]]; [discriminate|].
  apply nth_error_In in Hx. rewrite (H x Hx) in Hp. discriminate.
Qed.

Lemma reg_pred_dcand m path r : reg_pred m path r = true -> dcand m path r = true.
Proof.
  unfold reg_pred, dcand. rewrite !andb_true_iff. intros [[[H1 _] H2] H3]. auto.
Qed.
Lemma irr_pred_dcand m path r : irr_pred m path r = true -> dcand m path r = true.
Proof.
  unfold irr_pred, dcand. rewrite !andb_true_iff. intros [[[H1 _] H2] H3]. auto.
Qed.
Lemma dcand_split m path r : dcand m path r = true -> reg_pred m path r = true \/ irr_pred m path r = true.
Proof.
  unfold reg_pred, irr_pred, dcand. rewrite !andb_true_iff. intros [[H1 H2] H3].
  destruct (s_has_first r); [left|right]; auto.
Qed.

Section Pick.
Context {A : Type} (f : A -> sroute) (m path : str) (d : A).

Definition unique_cands (l : list A) : Prop :=
  (forall x y, In x l -> In y l -> scand m path (f x) = true -> scand m path (f y) = true -> x = y) /\
  (forall x y, In x l -> In y l -> dcand m path (f x) = true -> dcand m path (f y) = true -> x = y).

(* an exact static candidate wins; otherwise the dynamic candidate *)
Lemma pick_char l a : unique_cands l ->
  (pick f m path d l = Some a <->
   In a l /\ (scand m path (f a) = true \/
              (dcand m path (f a) = true /\ forall b, In b l -> scand m path (f b) = false))).
Proof.
  intros [US UD]. unfold pick. rewrite spec_select_unfold. unfold dyn_spec. fold (scand m path).
  split.
  - destruct (find_last_idx (scand m path) (map f l) 0 None) as [i0|] eqn:E0.
    + cbn [option_map]. intros H. inversion H; subst a. clear H.
      apply find_last_idx_some in E0. destruct E0 as [E0|[_ (x & Hx & Hp)]]; [discriminate|].
      rewrite Nat.sub_0_r in Hx. destruct (nth_error_map_elem f d l i0 x Hx) as (a & <- & Ha & Hin).
      rewrite Ha. split; [exact Hin|]. left. exact Hp.
    + apply find_last_idx_none in E0. destruct E0 as [_ E0].
      assert (HS : forall b, In b l -> scand m path (f b) = false).
      { intros b Hb. apply E0. apply in_map. exact Hb. }
      destruct (find_idx (reg_pred m path) (map f l) 0) as [i1|] eqn:E1.
      * cbn [option_map]. intros H. inversion H; subst a. clear H.
        apply find_idx_some in E1. destruct E1 as [_ (x & Hx & Hp)]. rewrite Nat.sub_0_r in Hx.
        destruct (nth_error_map_elem f d l i1 x Hx) as (a & <- & Ha & Hin).
        rewrite Ha. split; [exact Hin|]. right. split; [apply reg_pred_dcand; exact Hp|exact HS].
      * destruct (find_idx (irr_pred m path) (map f l) 0) as [i2|] eqn:E2; [|discriminate].
        cbn [option_map]. intros H. inversion H; subst a. clear H.
        apply find_idx_some in E2. destruct E2 as [_ (x & Hx & Hp)]. rewrite Nat.sub_0_r in Hx.
        destruct (nth_error_map_elem f d l i2 x Hx) as (a & <- & Ha & Hin).
        rewrite Ha. split; [exact Hin|]. right. split; [apply irr_pred_dcand; exact Hp|exact HS].
  - intros [Hin [Hs|[Hd HS]]].
    + destruct (find_last_idx (scand m path) (map f l) 0 None) as [i0|] eqn:E0.
      * cbn [option_map]. f_equal.
        apply find_last_idx_some in E0. destruct E0 as [E0|[_ (x & Hx & Hp)]]; [discriminate|].
        rewrite Nat.sub_0_r in Hx. destruct (nth_error_map_elem f d l i0 x Hx) as (a' & <- & Ha & Hin').
        rewrite Ha. apply US; assumption.
      * exfalso. apply find_last_idx_none in E0. destruct E0 as [_ E0].
        rewrite (E0 (f a) (in_map f l a Hin)) in Hs. discriminate.
    + rewrite find_last_idx_all_false.
      2:{ intros x Hx. apply in_map_iff in Hx. destruct Hx as (b & <- & Hb). apply HS. exact Hb. }
      destruct (find_idx (reg_pred m path) (map f l) 0) as [i1|] eqn:E1.
      * cbn [option_map]. f_equal.
        apply find_idx_some in E1. destruct E1 as [_ (x & Hx & Hp)]. rewrite Nat.sub_0_r in Hx.
        destruct (nth_error_map_elem f d l i1 x Hx) as (a' & <- & Ha & Hin').
        rewrite Ha. apply UD; try assumption. apply reg_pred_dcand; exact Hp.
      * pose proof (find_idx_none _ _ _ E1 (f a) (in_map f l a Hin)) as Hr.
        destruct (dcand_split m path (f a) Hd) as [Hr'|Hi]; [congruence|].
        destruct (find_idx (irr_pred m path) (map f l) 0) as [i2|] eqn:E2.
        -- cbn [option_map]. f_equal.
           apply find_idx_some in E2. destruct E2 as [_ (x & Hx & Hp)]. rewrite Nat.sub_0_r in Hx.
           destruct (nth_error_map_elem f d l i2 x Hx) as (a' & <- & Ha & Hin').
           rewrite Ha. apply UD; try assumption. apply irr_pred_dcand; exact Hp.
        -- exfalso. rewrite (find_idx_none _ _ _ E2 (f a) (in_map f l a Hin)) in Hi. discriminate.
Qed.

Lemma unique_cands_perm l l' : Permutation l l' -> unique_cands l -> unique_cands l'.
Proof.
  intros P [US UD]. apply Permutation_sym in P.
  split; intros x y Hx Hy; [apply US|apply UD]; eapply Permutation_in; eauto.
Qed.

Lemma option_ext {B} (x y : option B) (P : B -> Prop) :
  (forall a, x = Some a <-> P a) -> (forall a, y = Some a <-> P a) -> x = y.
Proof.
  intros Hx Hy. destruct x as [a|].
  - symmetry. apply Hy. apply Hx. reflexivity.
  - destruct y as [b|]; [|reflexivity]. apply Hx. apply Hy. reflexivity.
Qed.

(* the general order-independence lemma: the selected route, as an element, is the same for every permutation *)
Lemma pick_perm l l' : Permutation l l' -> unique_cands l -> pick f m path d l = pick f m path d l'.
Proof.
  intros P U. pose proof (unique_cands_perm l l' P U) as U'.
  apply (option_ext _ _ (fun a => In a l /\ (scand m path (f a) = true \/
              (dcand m path (f a) = true /\ forall b, In b l -> scand m path (f b) = false)))).
  - intros a. apply pick_char. exact U.
  - intros a. rewrite (pick_char l' a U'). split.
    + intros [Hin H]. split; [eapply Permutation_in; [apply Permutation_sym; exact P|exact Hin]|].
      destruct H as [H|[H1 H2]]; [left; exact H|right]. split; [exact H1|].
      intros b Hb. apply H2. eapply Permutation_in; eauto.
    + intros [Hin H]. split; [eapply Permutation_in; eauto|].
      destruct H as [H|[H1 H2]]; [left; exact H|right]. split; [exact H1|].
      intros b Hb. apply H2. eapply Permutation_in; [apply Permutation_sym; exact P|exact Hb].
Qed.
End Pick.

(* ================================================================================================ *)
(* 2. the documented table as printable entries                                                       *)
(* ================================================================================================ *)

(* the prefix G: printable literal text (alphanumerics and / - _ .) that starts with "/" and does not end in "/" *)
Definition rest_prefix (G : str) : bool := rootedb G && forallb is_safe G && negb (last_is is_slash G).

Definition id_name : str := [105; 100]%N.                                   (* "id" *)
Definition id_item : pitem := PVar id_name VDef.                             (* {id} *)
Definition create_seg : str := slash :: to_lower (action_name ACreate).      (* "/create" *)
Definition edit_seg : str := slash :: to_lower (action_name AEdit).          (* "/edit" *)
Definition lits (s : str) : list pitem := map PChr s.
Definition show_pp (G : str) : ppat := {| pp_req := lits (G ++ [slash]) ++ [id_item]; pp_opts := [] |}.               (* G/{id} *)
Definition edit_pp (G : str) : ppat := {| pp_req := lits (G ++ [slash]) ++ id_item :: lits edit_seg; pp_opts := [] |}. (* G/{id}/edit *)

Definition res_entry (G : str) (a : action) : entry :=
  match a with
  | AIndex | ACreate | AStore => EStatic (action_methods a) (documented_path G a)
  | AEdit => EDyn (action_methods a) (edit_pp G)
  | AShow | AUpdate | ADelete => EDyn (action_methods a) (show_pp G)
  end.
Definition res_sroute (G : str) (a : action) : sroute := entry_sroute (res_entry G a).

Lemma rest_prefix_facts G : rest_prefix G = true ->
  (exists t, G = slash :: t) /\ forallb is_safe G = true /\ last_is is_slash G = false.
Proof.
  unfold rest_prefix. rewrite !andb_true_iff, negb_true_iff. intros [[H1 H2] H3]. split; [|auto].
  destruct G as [|c t]; [discriminate|]. cbn [rootedb] in H1. apply N.eqb_eq in H1. subst c. eauto.
Qed.

Lemma show_items_lits s r : show_items (lits s ++ r) = s ++ show_items r.
Proof.
  unfold show_items, showg, lits. induction s as [|c s IH]; [reflexivity|].
  cbn [map app flat_map]. rewrite IH. reflexivity.
Qed.

Lemma show_pp_text G : show_ppat (show_pp G) = G ++ slash :: id_var.
Proof.
  unfold show_ppat, flat, show_pp. cbn [pp_req pp_opts opens closers flat_map List.length repeat].
  rewrite <- app_assoc, show_items_lits, <- app_assoc. reflexivity.
Qed.
Lemma edit_pp_text G : show_ppat (edit_pp G) = G ++ slash :: id_var ++ edit_seg.
Proof.
  unfold show_ppat, flat, edit_pp. cbn [pp_req pp_opts opens closers flat_map List.length repeat].
  rewrite <- app_assoc, show_items_lits, <- app_assoc. reflexivity.
Qed.

(* the entries print as the documented paths *)
Theorem res_entry_path G a : entry_path (res_entry G a) = documented_path G a.
Proof.
  destruct a; cbn [res_entry entry_path documented_path]; try reflexivity;
    first [apply show_pp_text | apply edit_pp_text].
Qed.
Corollary res_entry_show G a p : res_entry G a = EDyn (action_methods a) p -> show_ppat p = documented_path G a.
Proof. intros H. rewrite <- res_entry_path, H. reflexivity. Qed.
Lemma res_entry_methods G a : entry_methods (res_entry G a) = action_methods a.
Proof. destruct a; reflexivity. Qed.

(* --- well-formedness --- *)
Lemma pitem_ok_lits s : forallb pitem_ok (lits s) = forallb is_safe s.
Proof. unfold lits. induction s as [|c s IH]; [reflexivity|]. cbn [map forallb pitem_ok]. rewrite IH. reflexivity. Qed.

Lemma seg_ok_lits_slash s r : forall seen, seg_ok seen (lits (s ++ [slash]) ++ r) = seg_ok false r.
Proof.
  unfold lits. induction s as [|c s IH]; intros seen; cbn [app map seg_ok].
  - rewrite N.eqb_refl. reflexivity.
  - apply IH.
Qed.

Lemma vars_lits s r : vars (lits s ++ r) = vars r.
Proof. unfold lits. rewrite vars_app, vars_chars. reflexivity. Qed.

Lemma safe_slash : is_safe slash = true.
Proof. reflexivity. Qed.

Lemma printable_pp G tail : rest_prefix G = true -> forallb pitem_ok tail = true -> seg_ok true tail = true ->
  vars tail = [] ->
  printable {| pp_req := lits (G ++ [slash]) ++ id_item :: tail; pp_opts := [] |} = true.
Proof.
  intros HG Ht Hs Hv. destruct (rest_prefix_facts G HG) as ([t ->] & Hsafe & _).
  unfold printable, all_items. cbn [pp_req pp_opts concat forallb]. rewrite app_nil_r.
  rewrite forallb_app, pitem_ok_lits, forallb_app, Hsafe.
  rewrite seg_ok_lits_slash. unfold pnames. rewrite vars_lits.
  change (vars (id_item :: tail)) with ((id_name, VDef) :: vars tail). rewrite Hv.
  cbn [forallb app starts_slash lits map seg_ok id_item negb andb]. rewrite Hs, Ht. reflexivity.
Qed.

Lemma show_pp_printable G : rest_prefix G = true -> printable (show_pp G) = true.
Proof. intros HG. apply (printable_pp G [] HG); reflexivity. Qed.
Lemma edit_pp_printable G : rest_prefix G = true -> printable (edit_pp G) = true.
Proof. intros HG. apply (printable_pp G (lits edit_seg) HG); reflexivity. Qed.

Lemma safe_fixed s : forallb is_safe s = true -> is_fixed_path s = true.
Proof.
  intros H. unfold is_fixed_path, contains_ch.
  rewrite (index_of_none lbrace s) by (apply safe_nochr; [exact H|reflexivity]).
  rewrite (index_of_none lbrack s) by (apply safe_nochr; [exact H|reflexivity]). reflexivity.
Qed.

Theorem res_entry_wf G a : rest_prefix G = true -> wf_entry (res_entry G a).
Proof.
  intros HG. unfold wf_entry, wf_entryb. rewrite res_entry_methods.
  assert (Hm : methods_ok (action_methods a) = true) by (destruct a; reflexivity). rewrite Hm. cbn [andb].
  destruct (rest_prefix_facts G HG) as ([t Et] & Hsafe & _).
  destruct a; cbn [res_entry documented_path];
    try (apply show_pp_printable; exact HG); try (apply edit_pp_printable; exact HG).
  - rewrite (safe_fixed G Hsafe). subst G. cbn [rootedb]. rewrite N.eqb_refl. reflexivity.
  - rewrite safe_fixed by (rewrite forallb_app, Hsafe; reflexivity). subst G. cbn [rootedb app]. rewrite N.eqb_refl. reflexivity.
  - rewrite (safe_fixed G Hsafe). subst G. cbn [rootedb]. rewrite N.eqb_refl. reflexivity.
Qed.

Lemma res_entries_wf G acts : rest_prefix G = true -> Forall wf_entry (map (res_entry G) acts).
Proof. intros HG. apply Forall_map. apply Forall_forall. intros a _. apply res_entry_wf. exact HG. Qed.

(* ================================================================================================ *)
(* 3. what G/{id} and G/{id}/edit match                                                               *)
(* ================================================================================================ *)

(* a path segment: non-empty, no "/" — exactly the values of {id} = [^/]+ *)
Definition seg (x : str) : Prop := x <> [] /\ ~ In slash x.

Definition not_slash : rx := Cls true [(47, 47)]%N.
Definition id_rx : rx := sre_rx (vsre id_name VDef).
Lemma id_rx_eq : id_rx = Cat (Cat not_slash (Star not_slash)) Eps.
Proof. reflexivity. Qed.

Lemma den_not_slash s : den not_slash s <-> exists c, s = [c] /\ c <> slash.
Proof.
  unfold not_slash. split.
  - intros H. inversion H as [| | |neg rs c Hc| | | | | |]; subst. exists c. split; [reflexivity|].
    intros ->. vm_compute in Hc. discriminate.
  - intros (c & -> & Hc). constructor. unfold in_cls. cbn [existsb xorb orb]. rewrite orb_false_r.
    apply negb_true_iff. apply andb_false_iff.
    destruct (N.leb_spec 47 c) as [H1|H1]; [|left; reflexivity]. right. apply N.leb_gt. unfold slash in Hc. lia.
Qed.

Lemma den_star_not_slash s : den (Star not_slash) s <-> ~ In slash s.
Proof.
  split.
  - intros H. apply den_star_starn in H. induction H as [|s1 s2 _ H1 _ IH]; [intros []|].
    apply den_not_slash in H1. destruct H1 as (c & -> & Hc). cbn [app In]. intros [E|E]; [congruence|auto].
  - induction s as [|c s IH]; intros H; [constructor|].
    change (c :: s) with ([c] ++ s). constructor.
    + apply den_not_slash. exists c. split; [reflexivity|]. intros E. apply H. left. exact E.
    + apply IH. intros E. apply H. right. exact E.
Qed.

Lemma den_id_rx v : den id_rx v <-> seg v.
Proof.
  rewrite id_rx_eq. unfold seg. split.
  - intros H. inversion H as [| | | |a b s1 s2 H1 H2| | | | |]; subst. inversion H2; subst. rewrite app_nil_r.
    inversion H1 as [| | | |a b t1 t2 H3 H4| | | | |]; subst.
    apply den_not_slash in H3. destruct H3 as (c & -> & Hc). apply den_star_not_slash in H4.
    split; [discriminate|]. cbn [app In]. intros [E|E]; [congruence|auto].
  - intros [Hne Hns]. destruct v as [|c v]; [congruence|].
    rewrite <- (app_nil_r (c :: v)). constructor; [|constructor].
    change (c :: v) with ([c] ++ v). constructor.
    + apply den_not_slash. exists c. split; [reflexivity|]. intros E. apply Hns. left. exact E.
    + apply den_star_not_slash. intros E. apply Hns. right. exact E.
Qed.

(* inversion of the declarative pattern semantics *)
Lemma items_den_nil_inv t vs : items_den [] t vs -> t = [] /\ vs = [].
Proof. intros H. inversion H; subst. auto. Qed.
Lemma items_den_lit_inv s r t vs : items_den (Lit s :: r) t vs -> exists t', t = s ++ t' /\ items_den r t' vs.
Proof. intros H. inversion H; subst. eauto. Qed.
Lemma items_den_var_inv n re r t vs : items_den (Var n re :: r) t vs ->
  exists v t' vs', t = v ++ t' /\ vs = v :: vs' /\ den re v /\ items_den r t' vs'.
Proof. intros H. inversion H; subst. eauto 8. Qed.
Lemma opts_den_nil_inv s vs : opts_den [] s vs -> s = [] /\ vs = [].
Proof. intros H. inversion H; subst. auto. Qed.

(* the grammar-level ASTs *)
Lemma to_items_lits s r : to_items (lits s ++ r) = prepend s (to_items r).
Proof. unfold lits, prepend. induction s as [|c s IH]; [reflexivity|]. cbn [map app to_items fold_right]. rewrite IH. reflexivity. Qed.

Lemma show_pp_pat G : to_pat (show_pp G) = {| p_req := [Lit (G ++ [slash]); Var id_name id_rx]; p_opts := [] |}.
Proof.
  unfold to_pat, show_pp. cbn [pp_req pp_opts map]. rewrite to_items_lits.
  rewrite prepend_lit; [reflexivity| |exact I]. intros E. apply app_eq_nil in E. destruct E; discriminate.
Qed.
Lemma edit_pp_pat G : to_pat (edit_pp G) = {| p_req := [Lit (G ++ [slash]); Var id_name id_rx; Lit edit_seg]; p_opts := [] |}.
Proof.
  unfold to_pat, edit_pp. cbn [pp_req pp_opts map]. rewrite to_items_lits.
  rewrite prepend_lit; [reflexivity| |exact I]. intros E. apply app_eq_nil in E. destruct E; discriminate.
Qed.

(* G/{id} matches exactly G/x for a segment x, and binds id to x *)
Lemma show_den G path vs : pat_den (to_pat (show_pp G)) path vs <-> exists x, seg x /\ path = G ++ slash :: x /\ vs = [x].
Proof.
  rewrite show_pp_pat. unfold pat_den. cbn [p_req p_opts]. split.
  - intros (s1 & v1 & s2 & v2 & -> & -> & D1 & D2).
    apply opts_den_nil_inv in D2. destruct D2 as [-> ->].
    apply items_den_lit_inv in D1. destruct D1 as (t1 & -> & D1).
    apply items_den_var_inv in D1. destruct D1 as (v & t2 & vs' & -> & -> & Hv & D1).
    apply items_den_nil_inv in D1. destruct D1 as [-> ->].
    exists v. split; [apply den_id_rx; exact Hv|]. rewrite !app_nil_r, <- app_assoc. auto.
  - intros (x & Hx & -> & ->). exists ((G ++ [slash]) ++ x ++ []), [x], [], [].
    split; [rewrite !app_nil_r, <- app_assoc; reflexivity|]. split; [reflexivity|].
    split; [|apply (OD_absent [])]. constructor. constructor; [apply den_id_rx; exact Hx|constructor].
Qed.

(* G/{id}/edit matches exactly G/x/edit for a segment x, and binds id to x *)
Lemma edit_den G path vs : pat_den (to_pat (edit_pp G)) path vs <-> exists x, seg x /\ path = G ++ slash :: x ++ edit_seg /\ vs = [x].
Proof.
  rewrite edit_pp_pat. unfold pat_den. cbn [p_req p_opts]. split.
  - intros (s1 & v1 & s2 & v2 & -> & -> & D1 & D2).
    apply opts_den_nil_inv in D2. destruct D2 as [-> ->].
    apply items_den_lit_inv in D1. destruct D1 as (t1 & -> & D1).
    apply items_den_var_inv in D1. destruct D1 as (v & t2 & vs' & -> & -> & Hv & D1).
    apply items_den_lit_inv in D1. destruct D1 as (t3 & -> & D1).
    apply items_den_nil_inv in D1. destruct D1 as [-> ->].
    exists v. split; [apply den_id_rx; exact Hv|]. rewrite !app_nil_r, <- app_assoc. auto.
  - intros (x & Hx & -> & ->). exists ((G ++ [slash]) ++ x ++ edit_seg ++ []), [x], [], [].
    split; [rewrite !app_nil_r, <- app_assoc; reflexivity|]. split; [reflexivity|].
    split; [|apply (OD_absent [])]. constructor. constructor; [apply den_id_rx; exact Hx|]. constructor. constructor.
Qed.

Lemma show_matches G path : pat_matches (to_pat (show_pp G)) path = true <-> exists x, seg x /\ path = G ++ slash :: x.
Proof.
  rewrite (pat_matches_iff _ path (pat_ok_to_pat (show_pp G))). split.
  - intros [vs H]. apply show_den in H. destruct H as (x & Hx & Hp & _). eauto.
  - intros (x & Hx & Hp). exists [x]. apply show_den. eauto.
Qed.
Lemma edit_matches G path : pat_matches (to_pat (edit_pp G)) path = true <-> exists x, seg x /\ path = G ++ slash :: x ++ edit_seg.
Proof.
  rewrite (pat_matches_iff _ path (pat_ok_to_pat (edit_pp G))). split.
  - intros [vs H]. apply edit_den in H. destruct H as (x & Hx & Hp & _). eauto.
  - intros (x & Hx & Hp). exists [x]. apply edit_den. eauto.
Qed.

(* ================================================================================================ *)
(* 4. which requests an action can serve                                                              *)
(* ================================================================================================ *)

Definition act_static (a : action) : bool := match a with AIndex | ACreate | AStore => true | _ => false end.
Definition path_of (G : str) (a : action) (path : str) : Prop :=
  match a with
  | AIndex | AStore | ACreate => path = documented_path G a                        (* G, G, G/create *)
  | AShow | AUpdate | ADelete => exists x, seg x /\ path = G ++ slash :: x          (* G/x *)
  | AEdit => exists x, seg x /\ path = G ++ slash :: x ++ edit_seg                 (* G/x/edit *)
  end.
(* the route of action a allows the method and its path / pattern matches the path *)
Definition serves (G : str) (a : action) (m path : str) : Prop := In m (action_methods a) /\ path_of G a path.

Lemma res_static G a : s_static (res_sroute G a) = act_static a.
Proof. destruct a; reflexivity. Qed.

Lemma scand_serves G a m path : scand m path (res_sroute G a) = true <-> act_static a = true /\ serves G a m path.
Proof.
  unfold scand, serves. rewrite res_static.
  destruct a; cbn [act_static andb]; try (split; [discriminate|intros [H _]; discriminate H]);
    unfold res_sroute; cbn [res_entry entry_sroute s_methods entry_methods s_path entry_path path_of];
    rewrite andb_true_iff, mem_in, str_eqb_eq; intuition congruence.
Qed.

Lemma dcand_serves G a m path : dcand m path (res_sroute G a) = true <-> act_static a = false /\ serves G a m path.
Proof.
  unfold dcand, serves. rewrite res_static.
  destruct a; cbn [act_static negb andb]; try (split; [discriminate|intros [H _]; discriminate H]);
    unfold res_sroute, s_matches; cbn [res_entry entry_sroute s_methods entry_methods s_pat entry_pat path_of];
    rewrite andb_true_iff, mem_in, ?show_matches, ?edit_matches; intuition congruence.
Qed.

(* a candidate of either kind = the action serves the request *)
Corollary cand_serves G a m path :
  scand m path (res_sroute G a) = true \/ dcand m path (res_sroute G a) = true <-> serves G a m path.
Proof.
  rewrite scand_serves, dcand_serves. destruct (act_static a); intuition congruence.
Qed.

(* --- the overlaps --- *)
Lemma app_self_ne {A} (G : list A) c t : G = G ++ c :: t -> False.
Proof. intros E. rewrite <- (app_nil_r G) in E at 1. apply app_inv_head in E. discriminate. Qed.

(* G/{id} never matches a path that G/{id}/edit matches: {id} cannot contain "/" *)
Lemma seg_not_edit G x x' : seg x -> G ++ slash :: x = G ++ slash :: x' ++ edit_seg -> False.
Proof.
  intros [_ Hns] E. apply app_inv_head in E. inversion E as [E']. apply Hns. rewrite E'.
  apply in_or_app. right. left. reflexivity.
Qed.
(* G/create is not of the form G/x/edit *)
Lemma create_not_edit G x : G ++ create_seg = G ++ slash :: x ++ edit_seg -> False.
Proof.
  intros E. apply app_inv_head in E. unfold create_seg in E. inversion E as [E'].
  assert (H : In slash (x ++ edit_seg)) by (apply in_or_app; right; left; reflexivity).
  rewrite <- E' in H. vm_compute in H. intuition discriminate.
Qed.

(* two actions that share a method have the same method list *)
Lemma meth_share a b m : In m (action_methods a) -> In m (action_methods b) -> action_methods a = action_methods b.
Proof.
  destruct a, b; cbn [action_methods In]; intros Ha Hb; try reflexivity; exfalso;
    repeat match goal with H : _ \/ _ |- _ => destruct H as [H|H] end; try contradiction;
    subst m; vm_compute in Hb; discriminate Hb.
Qed.

(* Index / Store / Create: different methods or different paths *)
Lemma serves_static_unique G a b m path : act_static a = true -> act_static b = true ->
  serves G a m path -> serves G b m path -> a = b.
Proof.
  intros Sa Sb [Ma Pa] [Mb Pb]. pose proof (meth_share a b m Ma Mb) as E.
  destruct a, b; try reflexivity; try discriminate Sa; try discriminate Sb;
    try (vm_compute in E; discriminate E); exfalso; cbn [path_of documented_path] in Pa, Pb; subst path.
  - exact (app_self_ne _ _ _ Pb).
  - symmetry in Pb. exact (app_self_ne _ _ _ Pb).
Qed.

(* Show / Update / Delete have pairwise different methods; Show and Edit match disjoint sets of paths *)
Lemma serves_dynamic_unique G a b m path : act_static a = false -> act_static b = false ->
  serves G a m path -> serves G b m path -> a = b.
Proof.
  intros Sa Sb [Ma Pa] [Mb Pb]. pose proof (meth_share a b m Ma Mb) as E.
  destruct a, b; try reflexivity; try discriminate Sa; try discriminate Sb;
    try (vm_compute in E; discriminate E); exfalso; cbn [path_of] in Pa, Pb;
    destruct Pa as (x & Hx & Ex); destruct Pb as (y & Hy & Ey); subst path.
  - exact (seg_not_edit G x y Hx Ey).
  - symmetry in Ey. exact (seg_not_edit G y x Hy Ey).
Qed.

(* the only request that a static and a dynamic route both accept is GET G/create: Create and Show *)
Lemma static_dynamic_clash G a b m path : act_static a = false -> act_static b = true ->
  serves G a m path -> serves G b m path -> a = AShow /\ b = ACreate /\ path = G ++ create_seg.
Proof.
  intros Sa Sb [Ma Pa] [Mb Pb]. pose proof (meth_share a b m Ma Mb) as E.
  destruct a, b; try discriminate Sa; try discriminate Sb;
    try (vm_compute in E; discriminate E); cbn [path_of documented_path] in Pa, Pb;
    destruct Pa as (x & Hx & Ex); rewrite Ex in Pb.
  - exfalso. exact (app_self_ne _ _ _ (eq_sym Pb)).
  - rewrite Ex. auto.
  - exfalso. exact (app_self_ne _ _ _ (eq_sym Pb)).
  - exfalso. exact (create_not_edit G x (eq_sym Pb)).
Qed.

(* "each request is served by at most one action", up to the one documented overlap *)
Theorem rest_served_by_at_most_one G a b m path : serves G a m path -> serves G b m path ->
  a = b \/ (path = G ++ create_seg /\ ((a = ACreate /\ b = AShow) \/ (a = AShow /\ b = ACreate))).
Proof.
  intros Ha Hb. destruct (act_static a) eqn:Sa, (act_static b) eqn:Sb.
  - left. eapply serves_static_unique; eauto.
  - right. destruct (static_dynamic_clash G b a m path Sb Sa Hb Ha) as (-> & -> & ->). auto.
  - right. destruct (static_dynamic_clash G a b m path Sa Sb Ha Hb) as (-> & -> & ->). auto.
  - left. eapply serves_dynamic_unique; eauto.
Qed.

Lemma rest_unique_cands G m path l : unique_cands (res_sroute G) m path l.
Proof.
  split; intros x y _ _ Hx Hy.
  - apply scand_serves in Hx, Hy. destruct Hx, Hy. eapply serves_static_unique; eauto.
  - apply dcand_serves in Hx, Hy. destruct Hx, Hy. eapply serves_dynamic_unique; eauto.
Qed.

(* ================================================================================================ *)
(* 5. main theorem 1: the action selected does not depend on the registration order                   *)
(* ================================================================================================ *)

(* the action selected by the documented rule on the table registered in the order acts *)
Definition rest_pick (G : str) (acts : list action) (m path : str) (d : action) : option action :=
  option_map (fun i => nth i acts d) (spec_select (map (fun a => entry_sroute (res_entry G a)) acts) m path).

Lemma rest_pick_eq G acts m path d : rest_pick G acts m path d = pick (res_sroute G) m path d acts.
Proof. reflexivity. Qed.

(* grammar level. Holds for every method and path, and even if acts lists an action more than once
   (then "Permutation" still relates the two orders); NoDup acts is not needed. *)
Theorem rest_lookup_order_independent G acts acts' m path d : Permutation acts acts' ->
  option_map (fun i => nth i acts d) (spec_select (map (fun a => entry_sroute (res_entry G a)) acts) m path) =
  option_map (fun i => nth i acts' d) (spec_select (map (fun a => entry_sroute (res_entry G a)) acts') m path).
Proof.
  intros P. apply (pick_perm (res_sroute G) m path d acts acts' P). apply rest_unique_cands.
Qed.

(* registration of the texts succeeds, in every order *)
Theorem rest_registers o G acts : rest_prefix G = true ->
  exists rt, reg_routes (new_router o) (map (fun a => entry_rdef (res_entry G a)) acts) = Ok rt.
Proof.
  intros HG. destruct (reg_routes_equiv o (map (res_entry G) acts) (res_entries_wf G acts HG)) as (rt & E & _).
  rewrite map_map in E. eauto.
Qed.

(* the action selected by a lookup in a string-level router *)
Definition rt_action (rt : router) (acts : list action) (m path : str) (d : action) : option action :=
  option_map (fun i => nth i acts d) (sel (fst (match_ rt m path))).

Lemma rt_action_pick o G acts rt m path d : rest_prefix G = true -> o_caching o = false -> no_slash m -> rooted path ->
  reg_routes (new_router o) (map (fun a => entry_rdef (res_entry G a)) acts) = Ok rt ->
  rt_action rt acts m path d = rest_pick G acts m path d.
Proof.
  intros HG Hc Hm Hp Hreg. unfold rt_action, rest_pick. rewrite <- (map_map (res_entry G) entry_rdef) in Hreg.
  rewrite (string_level_selection o (map (res_entry G) acts) rt m path Hc (res_entries_wf G acts HG) Hreg Hm Hp).
  rewrite map_map. reflexivity.
Qed.

(* string level: the routers built by reg_routes from the pattern TEXTS in the two orders select the same action *)
Theorem rest_lookup_order_independent_string o G acts acts' rt rt' m path d :
  rest_prefix G = true -> Permutation acts acts' -> o_caching o = false -> no_slash m -> rooted path ->
  reg_routes (new_router o) (map (fun a => entry_rdef (res_entry G a)) acts) = Ok rt ->
  reg_routes (new_router o) (map (fun a => entry_rdef (res_entry G a)) acts') = Ok rt' ->
  option_map (fun i => nth i acts d) (sel (fst (match_ rt m path))) =
  option_map (fun i => nth i acts' d) (sel (fst (match_ rt' m path))).
Proof.
  intros HG P Hc Hm Hp Hreg Hreg'.
  change (rt_action rt acts m path d = rt_action rt' acts' m path d).
  rewrite (rt_action_pick o G acts rt m path d HG Hc Hm Hp Hreg).
  rewrite (rt_action_pick o G acts' rt' m path d HG Hc Hm Hp Hreg').
  apply rest_lookup_order_independent. exact P.
Qed.

(* ================================================================================================ *)
(* 6. main theorem 2: which action serves which request                                               *)
(* ================================================================================================ *)

(* action a is selected iff it is implemented, its route accepts the request, and it is not Show on GET G/create
   while Create is implemented *)
Theorem rest_lookup_table G acts m path d a :
  rest_pick G acts m path d = Some a <->
  In a acts /\ serves G a m path /\ ~ (a = AShow /\ In ACreate acts /\ path = G ++ create_seg).
Proof.
  rewrite rest_pick_eq, (pick_char (res_sroute G) m path d acts a (rest_unique_cands G m path acts)).
  rewrite scand_serves, dcand_serves. split.
  - intros [Hin [[Hst Hs]|[[Hdy Hs] HS]]].
    + split; [exact Hin|]. split; [exact Hs|]. intros (-> & _). discriminate Hst.
    + split; [exact Hin|]. split; [exact Hs|]. intros (-> & Hc & Hp).
      assert (Hcr : scand m path (res_sroute G ACreate) = true).
      { apply scand_serves. split; [reflexivity|]. destruct Hs as [Hm _]. split; [exact Hm|exact Hp]. }
      rewrite (HS ACreate Hc) in Hcr. discriminate.
  - intros (Hin & Hs & Hnot). split; [exact Hin|]. destruct (act_static a) eqn:Sa; [left; auto|right].
    split; [auto|]. intros b Hb. destruct (scand m path (res_sroute G b)) eqn:E; [exfalso|reflexivity].
    apply scand_serves in E. destruct E as [Sb Hsb].
    destruct (static_dynamic_clash G a b m path Sa Sb Hs Hsb) as (-> & -> & ->). apply Hnot. auto.
Qed.

(* "nothing else is selected": a selected action accepts the request — so the method is one of its methods and the
   path is G, G/create, G/x or G/x/edit with x a segment; no other method and no path with further segments *)
Corollary rest_lookup_sound G acts m path d a : rest_pick G acts m path d = Some a -> In a acts /\ serves G a m path.
Proof. intros H. apply rest_lookup_table in H. tauto. Qed.

Definition action_dec (a b : action) : {a = b} + {a <> b}.
Proof. decide equality. Defined.

(* no action is selected iff no implemented action accepts the request *)
Theorem rest_lookup_none G acts m path d :
  rest_pick G acts m path d = None <-> forall a, In a acts -> ~ serves G a m path.
Proof.
  split.
  - intros H a Hin Hs.
    assert (Hn : forall b, rest_pick G acts m path d <> Some b) by (intros b; rewrite H; discriminate).
    destruct (action_dec a AShow) as [->|Hne].
    + destruct (In_dec action_dec ACreate acts) as [Hc|Hc].
      * destruct (str_eq_dec path (G ++ create_seg)) as [Hp|Hp].
        -- apply (Hn ACreate). apply rest_lookup_table. split; [exact Hc|]. split.
           ++ destruct Hs as [Hm _]. split; [exact Hm|exact Hp].
           ++ intros (E & _). discriminate E.
        -- apply (Hn AShow). apply rest_lookup_table. split; [exact Hin|]. split; [exact Hs|]. tauto.
      * apply (Hn AShow). apply rest_lookup_table. split; [exact Hin|]. split; [exact Hs|]. tauto.
    + apply (Hn a). apply rest_lookup_table. split; [exact Hin|]. split; [exact Hs|]. tauto.
  - intros H. destruct (rest_pick G acts m path d) as [a|] eqn:E; [exfalso|reflexivity].
    apply rest_lookup_sound in E. destruct E as [Hin Hs]. exact (H a Hin Hs).
Qed.

(* --- the case table, request by request (d is the default of nth, irrelevant) --- *)
Lemma seg_create : seg (to_lower (action_name ACreate)).
Proof. split; [discriminate|]. vm_compute. intuition discriminate. Qed.

Lemma GET_methods a : In GET (action_methods a) <-> a = AIndex \/ a = ACreate \/ a = AShow \/ a = AEdit.
Proof.
  split.
  - destruct a; cbn [action_methods In]; intros H; auto;
      repeat match goal with H : _ \/ _ |- _ => destruct H as [H|H] end; try contradiction; vm_compute in H; discriminate H.
  - intros [-> | [-> | [-> | ->]]]; left; reflexivity.
Qed.

(* GET G -> Index *)
Theorem lookup_index G acts d : In AIndex acts -> rest_pick G acts GET G d = Some AIndex.
Proof.
  intros Hin. apply rest_lookup_table. split; [exact Hin|]. split; [split; [left|]; reflexivity|].
  intros (E & _). discriminate E.
Qed.
(* POST G -> Store *)
Theorem lookup_store G acts d : In AStore acts -> rest_pick G acts POST G d = Some AStore.
Proof.
  intros Hin. apply rest_lookup_table. split; [exact Hin|]. split; [split; [left|]; reflexivity|].
  intros (E & _). discriminate E.
Qed.
(* GET G/create -> Create, whatever the position of Show in the registration order *)
Theorem lookup_create G acts d : In ACreate acts -> rest_pick G acts GET (G ++ create_seg) d = Some ACreate.
Proof.
  intros Hin. apply rest_lookup_table. split; [exact Hin|]. split; [split; [left|]; reflexivity|].
  intros (E & _). discriminate E.
Qed.
Corollary lookup_create_never_show G acts d : In ACreate acts -> rest_pick G acts GET (G ++ create_seg) d <> Some AShow.
Proof. intros Hin. rewrite (lookup_create G acts d Hin). discriminate. Qed.
(* GET G/x -> Show, unless x = "create" and Create is implemented *)
Theorem lookup_show G acts d x : In AShow acts -> seg x -> x <> to_lower (action_name ACreate) \/ ~ In ACreate acts ->
  rest_pick G acts GET (G ++ slash :: x) d = Some AShow.
Proof.
  intros Hin Hx Hc. apply rest_lookup_table. split; [exact Hin|]. split; [split; [left; reflexivity|exists x; auto]|].
  intros (_ & Hcr & E). apply app_inv_head in E. inversion E as [E']. tauto.
Qed.
(* ... in particular GET G/create -> Show with id = "create" when Create is not implemented *)
Corollary lookup_create_unimplemented G acts d : In AShow acts -> ~ In ACreate acts ->
  rest_pick G acts GET (G ++ create_seg) d = Some AShow.
Proof. intros Hin Hc. apply (lookup_show G acts d _ Hin seg_create). right. exact Hc. Qed.
(* GET G/x/edit -> Edit *)
Theorem lookup_edit G acts d x : In AEdit acts -> seg x -> rest_pick G acts GET (G ++ slash :: x ++ edit_seg) d = Some AEdit.
Proof.
  intros Hin Hx. apply rest_lookup_table. split; [exact Hin|]. split; [split; [left; reflexivity|exists x; auto]|].
  intros (E & _). discriminate E.
Qed.
(* PUT | PATCH G/x -> Update *)
Theorem lookup_update G acts d m x : In AUpdate acts -> seg x -> m = PUT \/ m = PATCH ->
  rest_pick G acts m (G ++ slash :: x) d = Some AUpdate.
Proof.
  intros Hin Hx Hm. apply rest_lookup_table. split; [exact Hin|]. split; [split; [|exists x; auto]|].
  - cbn [action_methods In]. destruct Hm as [-> | ->]; auto.
  - intros (E & _). discriminate E.
Qed.
(* DELETE G/x -> Delete *)
Theorem lookup_delete G acts d x : In ADelete acts -> seg x -> rest_pick G acts DELETE (G ++ slash :: x) d = Some ADelete.
Proof.
  intros Hin Hx. apply rest_lookup_table. split; [exact Hin|]. split; [split; [left; reflexivity|exists x; auto]|].
  intros (E & _). discriminate E.
Qed.

(* and nothing else: the selected action, the method and the shape of the path determine each other *)
Theorem rest_lookup_shape G acts m path d a : rest_pick G acts m path d = Some a ->
  In a acts /\
  ((m = GET /\ path = G /\ a = AIndex) \/
   (m = POST /\ path = G /\ a = AStore) \/
   (m = GET /\ path = G ++ create_seg /\ a = ACreate) \/
   (m = GET /\ (exists x, seg x /\ path = G ++ slash :: x /\ (x = to_lower (action_name ACreate) -> ~ In ACreate acts)) /\ a = AShow) \/
   (m = GET /\ (exists x, seg x /\ path = G ++ slash :: x ++ edit_seg) /\ a = AEdit) \/
   ((m = PUT \/ m = PATCH) /\ (exists x, seg x /\ path = G ++ slash :: x) /\ a = AUpdate) \/
   (m = DELETE /\ (exists x, seg x /\ path = G ++ slash :: x) /\ a = ADelete)).
Proof.
  intros H. apply rest_lookup_table in H. destruct H as (Hin & [Hm Hp] & Hnot). split; [exact Hin|].
  destruct a; cbn [action_methods In path_of documented_path] in Hm, Hp.
  - left. intuition.
  - right. right. left. intuition.
  - right. left. intuition.
  - right. right. right. left. destruct Hp as (x & Hx & Hp). split; [intuition|]. split; [|reflexivity].
    exists x. split; [exact Hx|]. split; [exact Hp|]. intros -> Hc. apply Hnot. auto.
  - right. right. right. right. left. intuition.
  - right. right. right. right. right. left. intuition.
  - right. right. right. right. right. right. intuition.
Qed.

(* other methods: no route *)
Corollary lookup_other_method G acts m path d : ~ In m [GET; POST; PUT; PATCH; DELETE] -> rest_pick G acts m path d = None.
Proof.
  intros Hm. apply rest_lookup_none. intros a _ [Ha _]. apply Hm.
  destruct a; cbn [action_methods In] in Ha |- *; tauto.
Qed.
(* paths with further segments: G/x/y is served only for y = "edit" (and then by Edit, for GET) *)
Corollary lookup_deeper_path G acts m x y d : ~ In slash y -> y <> to_lower (action_name AEdit) ->
  rest_pick G acts m (G ++ slash :: x ++ slash :: y) d = None.
Proof.
  intros Hy Hne. apply rest_lookup_none. intros a _ [_ Hp].
  assert (H1 : forall z, seg z -> G ++ slash :: x ++ slash :: y = G ++ slash :: z -> False).
  { intros z [_ Hz] E. apply app_inv_head in E. inversion E as [E']. apply Hz. rewrite <- E'.
    apply in_or_app. right. left. reflexivity. }
  assert (H0 : G ++ slash :: x ++ slash :: y = G -> False).
  { intros E. symmetry in E. exact (app_self_ne _ _ _ E). }
  destruct a; cbn [path_of documented_path] in Hp; try (exact (H0 Hp));
    try (destruct Hp as (z & Hz & E); exact (H1 z Hz E)).
  - exact (H1 _ seg_create Hp).
  - destruct Hp as (z & [_ Hz] & E). apply app_inv_head in E. inversion E as [E']. unfold edit_seg in E'.
    apply (f_equal (@rev ch)) in E'. rewrite !rev_app_distr in E'. cbn [rev] in E'. rewrite <- !app_assoc in E'.
    set (e := to_lower (action_name AEdit)) in *.
    assert (Hrev : forall (u v a b : str), ~ In slash u -> ~ In slash v -> u ++ slash :: a = v ++ slash :: b -> u = v).
    { induction u as [|c u IH]; intros [|c' v] a b Hu Hv E0; cbn [app] in E0; inversion E0; subst; try reflexivity.
      - exfalso. apply Hv. left. reflexivity.
      - exfalso. apply Hu. left. reflexivity.
      - f_equal. eapply IH; eauto; intros Hin; [apply Hu|apply Hv]; right; exact Hin. }
    apply Hne. rewrite <- (rev_involutive y), <- (rev_involutive e). f_equal.
    apply (Hrev (rev y) (rev e) (rev x) (rev z)).
    + intros Hin. apply Hy. apply in_rev. exact Hin.
    + vm_compute. intuition discriminate.
    + cbn [app] in E'. exact E'.
Qed.

(* --- the same table for the string-level router --- *)
Theorem rest_lookup_table_string o G acts rt m path d a :
  rest_prefix G = true -> o_caching o = false -> no_slash m -> rooted path ->
  reg_routes (new_router o) (map (fun a => entry_rdef (res_entry G a)) acts) = Ok rt ->
  (option_map (fun i => nth i acts d) (sel (fst (match_ rt m path))) = Some a <->
   In a acts /\ serves G a m path /\ ~ (a = AShow /\ In ACreate acts /\ path = G ++ create_seg)).
Proof.
  intros HG Hc Hm Hp Hreg. pose proof (rt_action_pick o G acts rt m path d HG Hc Hm Hp Hreg) as E.
  unfold rt_action in E. rewrite E. apply rest_lookup_table.
Qed.

(* "create is served by Create and never by Show", on the router built from the texts, in every registration order *)
Theorem create_never_show_string o G acts rt d :
  rest_prefix G = true -> o_caching o = false -> In ACreate acts ->
  reg_routes (new_router o) (map (fun a => entry_rdef (res_entry G a)) acts) = Ok rt ->
  option_map (fun i => nth i acts d) (sel (fst (match_ rt GET (G ++ create_seg)))) = Some ACreate.
Proof.
  intros HG Hc Hin Hreg. change (rt_action rt acts GET (G ++ create_seg) d = Some ACreate).
  destruct (rest_prefix_facts G HG) as ([t ->] & _).
  assert (Hp : rooted ((slash :: t) ++ create_seg)) by reflexivity.
  rewrite (rt_action_pick o _ acts rt GET _ d HG Hc no_slash_GET Hp Hreg). apply lookup_create. exact Hin.
Qed.

(* ================================================================================================ *)
(* 7. the parameters: Show / Edit / Update / Delete receive id = x                                    *)
(* ================================================================================================ *)

Lemma scan_hit rs chk ids path i ps : scan rs chk ids path = LHit i ps ->
  exists r ps', nth_error rs i = Some r /\ route_match r path = MYes ps' /\ ps = Some ps'.
Proof.
  induction ids as [|j ids IH]; cbn [scan]; [discriminate|].
  destruct (nth_error rs j) as [r|] eqn:E; [|discriminate].
  destruct (chk && negb (has_prefix (route_start r) path)); [exact IH|].
  destruct (route_match r path) as [|ps'| |] eqn:Em; try discriminate; [exact IH|].
  intros H. inversion H; subst. eauto.
Qed.

Lemma dyn_match_hit rt m path i ps : dyn_match rt m path = LHit i ps ->
  exists r ps', nth_error (routes rt) i = Some r /\ route_match r path = MYes ps' /\ ps = Some ps'.
Proof.
  unfold dyn_match. destruct (first_node path) as [fn|]; [|discriminate].
  destruct fn as [f|].
  - destruct (scan (routes rt) true (map_get_list (m ++ f) (regular rt)) path) as [|j q| |] eqn:Er; try discriminate.
    + apply scan_hit.
    + intros H. inversion H; subst. eapply scan_hit; eauto.
  - apply scan_hit.
Qed.

Lemma route_match_of_params s path ps : route_match (route_of s) path = MYes ps ->
  exists pt, s_pat s = Some pt /\ pat_params pt path = Some ps.
Proof.
  unfold route_of. destruct (s_pat s) as [p|]; [|discriminate].
  destruct (start_and_first (pat_prefix p)) as [st fi]. unfold route_match. cbn [rt_kind].
  unfold match_regex. destruct (full (pat_rx p) path) as [c|] eqn:Ef; [|discriminate].
  destruct (zip_params (List.length (pat_names p)) 0 (pat_names p) c []) as [ps'|] eqn:Ez; [|discriminate].
  intros H. inversion H; subst. exists p. split; [reflexivity|]. unfold pat_params. rewrite Ef. exact Ez.
Qed.

(* a lookup in a built, non-caching router: a static route is reported without parameters, a dynamic one with the
   parameters of ITS pattern on the path *)
Theorem build_lookup_params o rs m p i r : o_caching o = false -> Forall wf_sroute rs -> no_slash m -> rooted p ->
  spec_select rs m p = Some i -> nth_error rs i = Some r ->
  match s_pat r with
  | None => fst (match_ (build o rs) m p) = LHit i None
  | Some pt => exists ps, fst (match_ (build o rs) m p) = LHit i (Some ps) /\ pat_params pt p = Some ps
  end.
Proof.
  intros Hc WF Hm Hp Hsel Hr. rewrite match_caching_off by (rewrite build_opts; assumption). cbn [fst].
  rewrite static_char by assumption. rewrite spec_select_unfold in Hsel.
  destruct (find_last_idx _ rs 0 None) as [i0|] eqn:E0.
  - inversion Hsel; subst i0. apply find_last_idx_some in E0. destruct E0 as [E0|[_ (x & Hx & Hf)]]; [discriminate|].
    rewrite Nat.sub_0_r, Hr in Hx. inversion Hx; subst x.
    apply andb_true_iff in Hf. destruct Hf as [Hf _]. apply andb_true_iff in Hf. destruct Hf as [Hs _].
    unfold s_static in Hs. destruct (s_pat r); [discriminate|reflexivity].
  - destruct (dyn_char o rs m p WF Hp) as [[E1 _]|(i' & ps & E1 & E2)]; [congruence|].
    rewrite Hsel in E1. inversion E1; subst i'. rewrite E2.
    destruct (dyn_match_hit _ _ _ _ _ E2) as (r0 & ps' & Hn & Hrm & Eps). inversion Eps; subst ps'.
    rewrite build_routes in Hn by assumption. rewrite nth_error_map, Hr in Hn. cbn [option_map] in Hn.
    inversion Hn; subst r0. destruct (route_match_of_params r p ps Hrm) as (pt & Ept & Hpp).
    rewrite Ept. eauto.
Qed.

Lemma show_pp_names G : pat_names (to_pat (show_pp G)) = [id_name].
Proof. rewrite show_pp_pat. reflexivity. Qed.
Lemma edit_pp_names G : pat_names (to_pat (edit_pp G)) = [id_name].
Proof. rewrite edit_pp_pat. reflexivity. Qed.

(* what the pattern of a dynamic action reports on a path *)
Lemma show_params G path ps : pat_params (to_pat (show_pp G)) path = Some ps ->
  exists x, seg x /\ path = G ++ slash :: x /\ assoc id_name ps = Some x.
Proof.
  intros H. destruct (pat_params_sound _ path ps (pat_ok_to_pat (show_pp G))) as (vs & D & _ & Hps); [|exact H|].
  { rewrite show_pp_names. repeat constructor. intros []. }
  apply show_den in D. destruct D as (x & Hx & Hp & ->). exists x. split; [exact Hx|]. split; [exact Hp|].
  apply (Hps 0 id_name). rewrite show_pp_names. reflexivity.
Qed.
Lemma edit_params G path ps : pat_params (to_pat (edit_pp G)) path = Some ps ->
  exists x, seg x /\ path = G ++ slash :: x ++ edit_seg /\ assoc id_name ps = Some x.
Proof.
  intros H. destruct (pat_params_sound _ path ps (pat_ok_to_pat (edit_pp G))) as (vs & D & _ & Hps); [|exact H|].
  { rewrite edit_pp_names. repeat constructor. intros []. }
  apply edit_den in D. destruct D as (x & Hx & Hp & ->). exists x. split; [exact Hx|]. split; [exact Hp|].
  apply (Hps 0 id_name). rewrite edit_pp_names. reflexivity.
Qed.

(* the full answer of the string-level router: the selected route is the one of the action given by the table above;
   Index / Create / Store come without parameters, Show / Edit / Update / Delete with id = the segment x of the path *)
Theorem rest_lookup_params o G acts rt m path d a :
  rest_prefix G = true -> o_caching o = false -> no_slash m -> rooted path ->
  reg_routes (new_router o) (map (fun a => entry_rdef (res_entry G a)) acts) = Ok rt ->
  rest_pick G acts m path d = Some a ->
  exists i, nth i acts d = a /\
    if act_static a then fst (match_ rt m path) = LHit i None
    else exists ps x, fst (match_ rt m path) = LHit i (Some ps) /\ assoc id_name ps = Some x /\ seg x /\
                      path = G ++ slash :: x ++ (match a with AEdit => edit_seg | _ => [] end).
Proof.
  intros HG Hc Hm Hp Hreg Hpick.
  pose proof (res_entries_wf G acts HG) as WFe. pose proof (wf_entries_sroutes _ WFe) as WF.
  rewrite <- (map_map (res_entry G) entry_rdef) in Hreg.
  destruct (string_level_lookup o _ rt m path WFe Hreg) as [-> _].
  unfold rest_pick in Hpick. rewrite <- (map_map (res_entry G) entry_sroute) in Hpick.
  destruct (spec_select (map entry_sroute (map (res_entry G) acts)) m path) as [i|] eqn:Es; [|discriminate].
  cbn [option_map] in Hpick. injection Hpick as Ha. exists i. split; [exact Ha|].
  destruct (spec_select_some _ _ _ _ Es) as (r & Hr & _).
  pose proof Hr as Hr'. rewrite map_map in Hr'.
  destruct (nth_error_map_elem (fun a => entry_sroute (res_entry G a)) d acts i r Hr') as (a' & Ef & Hn & _).
  rewrite Hn in Ha. subst a'.
  pose proof (build_lookup_params o _ m path i r Hc WF Hm Hp Es Hr) as HB. rewrite <- Ef in HB.
  destruct a; cbn [res_entry entry_sroute s_pat entry_pat act_static] in HB |- *; try exact HB;
    destruct HB as (ps & E & Hpp).
  - apply show_params in Hpp. destruct Hpp as (x & Hx & Epath & Hid). exists ps, x. rewrite ?app_nil_r. auto.
  - apply edit_params in Hpp. destruct Hpp as (x & Hx & Epath & Hid). exists ps, x. rewrite ?app_nil_r. auto.
  - apply show_params in Hpp. destruct Hpp as (x & Hx & Epath & Hid). exists ps, x. rewrite ?app_nil_r. auto.
  - apply show_params in Hpp. destruct Hpp as (x & Hx & Epath & Hid). exists ps, x. rewrite ?app_nil_r. auto.
Qed.

(* ================================================================================================ *)
(* 8. link to the registration model: what Router.Resource registers IS this table                    *)
(* ================================================================================================ *)
From Rux Require Import Reg RegFacts RestFacts.

(* a registered route, read as a definition for Table.reg_route (names do not take part in lookups) *)
Definition rdef_of (r : rroute) : rdef :=
  {| df_methods := r_methods r; df_path := r_path r; df_nil_handler := false; df_name := [] |}.

(* in the default (non-strict) mode, for a prefix that is its own normal form, Resource registers — in the order in
   which it visits the actions — exactly the texts of res_entry *)
Theorem resource_registers_res_entries base res acts uses st' G :
  G = nf false (base ++ res) -> clean G ->
  exec_block false (resource_stmts base res acts uses) rinit = Ok st' ->
  map rdef_of (r_routes st') = map (fun a => entry_rdef (res_entry G a)) acts.
Proof.
  intros EG HG H. rewrite (resource_routes _ _ _ _ _ _ H), map_map. apply map_ext. intros a.
  unfold rdef_of, entry_rdef. cbn [r_methods r_path]. rewrite res_entry_methods, res_entry_path.
  rewrite <- EG, (documented_paths G a HG). reflexivity.
Qed.

(* a printable prefix that does not begin with "//" is its own normal form *)
Lemma rest_prefix_clean G : rest_prefix G = true -> (forall t, G <> slash :: slash :: t) -> clean G.
Proof.
  intros HG Hss. destruct (rest_prefix_facts G HG) as ([t ->] & Hsafe & Hlast).
  exists t. split; [reflexivity|].
  assert (Hsp : forallb (fun c => negb (is_space c)) (slash :: t) = true).
  { eapply forallb_impl; [|exact Hsafe]. intros c Hc. apply not_space. apply safe_cases in Hc. lia. }
  unfold core. rewrite (trim_space_none _ Hsp), (de_last_is _ _ Hlast), dw_cons_true by reflexivity.
  destruct t as [|c t]; [discriminate Hlast|]. split; [discriminate|].
  apply dw_cons_false. destruct (is_slash c) eqn:Ec; [|reflexivity].
  exfalso. apply N.eqb_eq in Ec. subst c. exact (Hss t eq_refl).
Qed.

(* end to end: two runs of Resource that visit the implemented actions in different orders give routers that
   select the same action for every request *)
Theorem resource_lookup_order_independent o base res acts acts' uses st1 st2 G rt rt' m path d :
  G = nf false (base ++ res) -> clean G -> rest_prefix G = true -> Permutation acts acts' ->
  o_caching o = false -> no_slash m -> rooted path ->
  exec_block false (resource_stmts base res acts uses) rinit = Ok st1 ->
  exec_block false (resource_stmts base res acts' uses) rinit = Ok st2 ->
  reg_routes (new_router o) (map rdef_of (r_routes st1)) = Ok rt ->
  reg_routes (new_router o) (map rdef_of (r_routes st2)) = Ok rt' ->
  option_map (fun i => nth i acts d) (sel (fst (match_ rt m path))) =
  option_map (fun i => nth i acts' d) (sel (fst (match_ rt' m path))).
Proof.
  intros EG HG HP P Hc Hm Hp H1 H2 R1 R2.
  rewrite (resource_registers_res_entries base res acts uses st1 G EG HG H1) in R1.
  rewrite (resource_registers_res_entries base res acts' uses st2 G EG HG H2) in R2.
  exact (rest_lookup_order_independent_string o G acts acts' rt rt' m path d HP P Hc Hm Hp R1 R2).
Qed.

(* the same with the side condition on the prefix stated on its text only *)
Corollary resource_lookup_order_independent_printable o base res acts acts' uses st1 st2 G rt rt' m path d :
  G = nf false (base ++ res) -> rest_prefix G = true -> (forall t, G <> slash :: slash :: t) -> Permutation acts acts' ->
  o_caching o = false -> no_slash m -> rooted path ->
  exec_block false (resource_stmts base res acts uses) rinit = Ok st1 ->
  exec_block false (resource_stmts base res acts' uses) rinit = Ok st2 ->
  reg_routes (new_router o) (map rdef_of (r_routes st1)) = Ok rt ->
  reg_routes (new_router o) (map rdef_of (r_routes st2)) = Ok rt' ->
  option_map (fun i => nth i acts d) (sel (fst (match_ rt m path))) =
  option_map (fun i => nth i acts' d) (sel (fst (match_ rt' m path))).
Proof.
  intros EG HP Hss. apply (resource_lookup_order_independent o base res acts acts' uses st1 st2 G rt rt' m path d EG).
  - apply rest_prefix_clean; assumption.
  - exact HP.
Qed.

(* ================================================================================================ *)
(* 9. a concrete instance                                                                             *)
(* ================================================================================================ *)
Module Examples.
Import String.
Definition G0 : str := s "/api/users".
Example prefix_ok : rest_prefix G0 = true.
Proof. vm_compute. reflexivity. Qed.
Example prefix_bad : rest_prefix (s "/api/users/") = false /\ rest_prefix (s "api") = false /\ rest_prefix (s "/a{b}") = false.
Proof. vm_compute. repeat split. Qed.

Example texts : map (fun a => entry_path (res_entry G0 a)) all_actions =
  [s "/api/users"; s "/api/users/create"; s "/api/users"; s "/api/users/{id}"; s "/api/users/{id}/edit";
   s "/api/users/{id}"; s "/api/users/{id}"].
Proof. vm_compute. reflexivity. Qed.

(* Show registered BEFORE Create, and the reverse order *)
Definition order1 : list action := [AShow; AEdit; ACreate; AIndex; ADelete; AUpdate; AStore].
Definition order2 : list action := rev order1.
Example orders_perm : Permutation order1 order2.
Proof. apply Permutation_rev. Qed.

Definition rt_of (acts : list action) : router :=
  match reg_routes (new_router default_opts) (map (fun a => entry_rdef (res_entry G0 a)) acts) with
  | Ok rt => rt | Panic => new_router default_opts end.
Example reg1 : reg_routes (new_router default_opts) (map (fun a => entry_rdef (res_entry G0 a)) order1) = Ok (rt_of order1).
Proof. vm_compute. reflexivity. Qed.
Example reg2 : reg_routes (new_router default_opts) (map (fun a => entry_rdef (res_entry G0 a)) order2) = Ok (rt_of order2).
Proof. vm_compute. reflexivity. Qed.

(* the theorem instantiated *)
Example same_action m path : no_slash m -> rooted path ->
  option_map (fun i => nth i order1 AIndex) (sel (fst (match_ (rt_of order1) m path))) =
  option_map (fun i => nth i order2 AIndex) (sel (fst (match_ (rt_of order2) m path))).
Proof.
  intros Hm Hp.
  exact (rest_lookup_order_independent_string default_opts G0 order1 order2 _ _ m path AIndex
           prefix_ok orders_perm eq_refl Hm Hp reg1 reg2).
Qed.

(* ... and both sides computed on the overlapping requests: route ids differ, actions and parameters do not *)
Example create1 : fst (match_ (rt_of order1) GET (s "/api/users/create")) = LHit 2 None /\ nth 2 order1 AIndex = ACreate.
Proof. vm_compute. split; reflexivity. Qed.
Example create2 : fst (match_ (rt_of order2) GET (s "/api/users/create")) = LHit 4 None /\ nth 4 order2 AIndex = ACreate.
Proof. vm_compute. split; reflexivity. Qed.
Example show1 : fst (match_ (rt_of order1) GET (s "/api/users/42")) = LHit 0 (Some [(s "id", s "42")]) /\ nth 0 order1 AIndex = AShow.
Proof. vm_compute. split; reflexivity. Qed.
Example show2 : fst (match_ (rt_of order2) GET (s "/api/users/42")) = LHit 6 (Some [(s "id", s "42")]) /\ nth 6 order2 AIndex = AShow.
Proof. vm_compute. split; reflexivity. Qed.
Example edit1 : fst (match_ (rt_of order1) GET (s "/api/users/42/edit")) = LHit 1 (Some [(s "id", s "42")]) /\ nth 1 order1 AIndex = AEdit.
Proof. vm_compute. split; reflexivity. Qed.
Example edit2 : fst (match_ (rt_of order2) GET (s "/api/users/42/edit")) = LHit 5 (Some [(s "id", s "42")]) /\ nth 5 order2 AIndex = AEdit.
Proof. vm_compute. split; reflexivity. Qed.
Example patch1 : fst (match_ (rt_of order1) PATCH (s "/api/users/42")) = LHit 5 (Some [(s "id", s "42")]) /\ nth 5 order1 AIndex = AUpdate.
Proof. vm_compute. split; reflexivity. Qed.
Example deeper : fst (match_ (rt_of order1) GET (s "/api/users/42/x")) = LNone /\ fst (match_ (rt_of order1) POST (s "/api/users/42")) = LNone.
Proof. vm_compute. split; reflexivity. Qed.
(* Create not implemented: GET G/create goes to Show with id = "create" *)
Example create_unimplemented :
  fst (match_ (rt_of [AIndex; AShow]) GET (s "/api/users/create")) = LHit 1 (Some [(s "id", s "create")]).
Proof. vm_compute. reflexivity. Qed.
End Examples.

Print Assumptions pick_perm.
Print Assumptions res_entry_path.
Print Assumptions res_entry_wf.
Print Assumptions rest_lookup_order_independent.
Print Assumptions rest_registers.
Print Assumptions rest_lookup_order_independent_string.
Print Assumptions rest_lookup_table.
Print Assumptions rest_lookup_none.
Print Assumptions rest_lookup_shape.
Print Assumptions rest_served_by_at_most_one.
Print Assumptions lookup_create.
Print Assumptions lookup_create_never_show.
Print Assumptions lookup_show.
Print Assumptions lookup_deeper_path.
Print Assumptions rest_lookup_table_string.
Print Assumptions create_never_show_string.
Print Assumptions build_lookup_params.
Print Assumptions rest_lookup_params.
Print Assumptions resource_registers_res_entries.
Print Assumptions resource_lookup_order_independent.
Print Assumptions rest_prefix_clean.
Print Assumptions resource_lookup_order_independent_printable.
Print Assumptions Examples.same_action.
