(* SysMore.v — more end-to-end theorems about the whole-router function.
   (2) C08 end to end: exactly one header commit, first, for EVERY request (any handler programs, hooks, panics);
   (1) C01/C06 end to end: selection for programs with printable dynamic routes, after any history, caching on or off;
   (3) C05 end to end: abort containment for the chain sys_serve runs;
   (4) examples by vm_compute. *)
From Coq Require String.
From Rux Require Import Base BaseFacts Str Consts Norm NormFacts Writer WriterFacts Chain ChainFacts Dispatch DispatchFacts
  Reg Rx RxFacts RxParse Pattern Pat PatFacts Cache CacheFacts Table TableFacts PatTable RoundTrip SelectFacts
  Sys SysFacts TableLink SysHistory.
Open Scope Z_scope.

(* ====================================================================== *)
(* (2) exactly one header commit, and it comes first                      *)
(* ====================================================================== *)
(* the stronger writer invariant, relative to the log l0 the underlying writer had when the request started:
   either nothing has been sent yet, or the new part of the log starts with the header and has no other header *)
Definition wh_first (l0 : list wev) (w : wstate) : Prop :=
  (length w = -1 /\ log w = l0) \/
  (0 <= length w /\ exists c rest, log w = l0 ++ WH c :: rest /\ count_wh rest = 0%nat).

Lemma whf_winit sc : wh_first [] (winit sc).
Proof. left. split; reflexivity. Qed.

Lemma whf_write_header l0 z w : wh_first l0 w -> wh_first l0 (write_header z w).
Proof. intros H. unfold write_header. destruct ((z >? 0) && negb (status w =? z)); exact H. Qed.

Lemma whf_ensure l0 w : wh_first l0 w ->
  0 <= length (ensure w) /\ exists c rest, log (ensure w) = l0 ++ WH c :: rest /\ count_wh rest = 0%nat.
Proof.
  intros [[Hl Hg]|[Hl Hg]].
  - destruct (ensure_uncommitted w Hl) as (_ & Hlog & _ & Hlen & _). rewrite Hlog, Hlen, Hg.
    split; [lia|]. eexists _, []. split; reflexivity.
  - rewrite (ensure_written w (nonneg_written w Hl)). split; assumption.
Qed.

Lemma whf_ensure_ok l0 w : wh_first l0 w -> wh_first l0 (ensure w).
Proof. intros H. right. apply whf_ensure. exact H. Qed.

Lemma whf_write l0 b w : wh_first l0 w -> wh_first l0 (write b w).
Proof.
  intros H. destruct (whf_ensure l0 w H) as (A & c & rest & B & C). unfold write.
  destruct (accept (script (ensure w)) b) as [acc sc]. right. cbn [length log]. split; [lia|].
  exists c, (rest ++ [W acc]). rewrite B, <- app_assoc. split; [reflexivity|].
  rewrite count_wh_snoc_w. exact C.
Qed.

Lemma whf_flush l0 w : wh_first l0 w -> wh_first l0 (flush w).
Proof.
  intros H. destruct (whf_ensure l0 w H) as (A & c & rest & B & C). unfold flush, flush_gen. right.
  cbn [length log]. split; [exact A|].
  exists c, (rest ++ [F]). rewrite B, <- app_assoc. split; [reflexivity|].
  rewrite count_wh_snoc_f. exact C.
Qed.

Lemma whf_wstep l0 w o : wh_first l0 w -> wh_first l0 (wstep w o).
Proof.
  intros H. unfold wstep. destruct o; cbn [wstep_gen].
  - apply whf_write_header; assumption.
  - assumption.
  - apply whf_write; assumption.
  - apply whf_flush; assumption.
  - apply whf_write. apply whf_write_header; assumption.
  - apply whf_write_header; assumption.
  - exact H.
Qed.

Lemma whf_wrun l0 ops : forall w, wh_first l0 w -> wh_first l0 (wrun ops w).
Proof.
  unfold wrun. induction ops as [|o ops IH]; intros w H; cbn [fold_left]; [assumption|].
  apply IH. apply whf_wstep; assumption.
Qed.

Lemma whf_apply_eff l0 e x : wh_first l0 (w x) -> wh_first l0 (w (apply_eff e x)).
Proof.
  intros H. destruct e; cbn [apply_eff with_trace with_w with_data w]; try assumption.
  apply whf_wstep; assumption.
Qed.

Lemma whf_abort_status l0 z x : wh_first l0 (w x) -> wh_first l0 (w (abort_status z x)).
Proof. intros H. unfold abort_status. cbn [with_w w]. apply whf_write_header; assumption. Qed.

(* any predicate on the writer that every writer op and AbortWithStatus's WriteHeader preserve is preserved by a
   step of the chain machine, hence by a run *)
Section WriterInvariant.
Variable P : wstate -> Prop.
Hypothesis P_wstep : forall w o, P w -> P (wstep w o).
Hypothesis P_write_header : forall z w, P w -> P (write_header z w).

Lemma P_apply_eff e x : P (w x) -> P (w (apply_eff e x)).
Proof.
  intros H. destruct e; cbn [apply_eff with_trace with_w with_data w]; try assumption.
  apply P_wstep; assumption.
Qed.

Lemma mstep_P s : P (st_w s) -> P (st_w (mstep s)).
Proof.
  intros H. destruct s as [c k|c|p c]; [|exact H|exact H].
  destruct k as [|f k]; [exact H|].
  destruct f as [ops| |].
  - destruct ops as [|o r]; [exact H|].
    destruct o as [e| | |code| |v]; unfold mstep; cbn [step st_w set_xs set_index xs] in *.
    + apply P_apply_eff; assumption.
    + assumption.
    + assumption.
    + unfold abort_status. cbn [with_w w]. apply P_write_header; assumption.
    + exact H.
    + assumption.
  - unfold mstep; cbn [step].
    destruct (index c <? len8 xctx eff c); [|exact H].
    destruct (index c <? 0); [exact H|].
    destruct (nth_error (chain c) (Z.to_nat (index c))); exact H.
  - exact H.
Qed.

Lemma mrun_P n : forall s, P (st_w s) -> P (st_w (mrun n s)).
Proof.
  induction n as [|n IH]; intros s H; unfold mrun in *; cbn [run]; [assumption|].
  apply IH. apply (mstep_P s H).
Qed.

(* the dispatcher: whatever the handlers and the hooks do (abort, panic, Next any number of times), a Done outcome is
   the final commit of a context whose writer satisfies P, and an Escaped outcome carries a writer satisfying P *)
Lemma handle_request_P cfg o t x0 : P (w x0) ->
  match handle_request cfg o t x0 with
  | Done x _ => exists x', P (w x') /\ x = final_commit x'
  | Escaped _ x _ => P (w x)
  | OutOfFuel => True
  end.
Proof.
  intros Hw0. unfold handle_request, handle_request_gen.
  pose proof (assemble_w cfg o t x0) as Haw.
  destruct (assemble cfg o t x0) as [hs x1]. cbn [snd] in Haw. cbv zeta.
  set (fuel := (4 * prog_size hs + 64)%nat).
  assert (Hw1 : P (st_w (mrun fuel (init xctx eff hs x1)))).
  { apply mrun_P. cbn [init st_w init_ctx xs]. rewrite Haw. assumption. }
  assert (Hrec : forall p (c : ctx xctx eff) ph, P (w (xs c)) ->
    match match run_hook (4 * List.length ph + 16 + fuel) ph
                  (set_xs xctx eff (with_data (data_set k_recover (DPanic p) (data (xs c))) (xs c)) c) with
          | Halt c3 => Done (final_commit (xs c3)) (started c3)
          | Panicked p' c3 => Escaped p' (xs c3) (started c3)
          | Run _ _ => OutOfFuel
          end with
    | Done x _ => exists x', P (w x') /\ x = final_commit x'
    | Escaped _ x _ => P (w x)
    | OutOfFuel => True
    end).
  { intros p c ph Hc.
    assert (Hh : P (st_w (run_hook (4 * List.length ph + 16 + fuel) ph
                   (set_xs xctx eff (with_data (data_set k_recover (DPanic p) (data (xs c))) (xs c)) c)))).
    { unfold run_hook. apply mrun_P. cbn [st_w set_xs xs with_data w]. exact Hc. }
    destruct (run_hook _ ph _) as [c3 k3|c3|p3 c3]; cbn [st_w] in Hh.
    - exact I.
    - eexists. split; [exact Hh|reflexivity].
    - exact Hh. }
  destruct (mrun fuel (init xctx eff hs x1)) as [c k|c|p c]; cbn [st_w] in Hw1.
  - exact I.
  - destruct (on_error cfg) as [h|].
    + destruct (errors (xs c)) as [|e es].
      * eexists. split; [exact Hw1|reflexivity].
      * assert (Hw2 : P (st_w (run_hook (4 * List.length h + 16 + fuel) h c))).
        { unfold run_hook. apply mrun_P. exact Hw1. }
        destruct (run_hook (4 * List.length h + 16 + fuel) h c) as [c' k'|c'|p' c']; cbn [st_w] in Hw2.
        -- exact I.
        -- eexists. split; [exact Hw2|reflexivity].
        -- destruct (on_panic cfg) as [ph|].
           ++ apply Hrec. exact Hw2.
           ++ exact Hw2.
    + eexists. split; [exact Hw1|reflexivity].
  - destruct (on_panic cfg) as [ph|].
    + apply Hrec. exact Hw1.
    + exact Hw1.
Qed.
End WriterInvariant.

(* what the invariant gives for the log: with a header-free prefix l0 *)
Lemma whf_count l0 w : wh_first l0 w -> (count_wh (log w) <= count_wh l0 + 1)%nat.
Proof.
  intros [[_ E]|[_ (c & rest & E & C)]]; rewrite E; [lia|].
  rewrite count_wh_app, count_wh_cons_wh, C. lia.
Qed.

(* C08 for the dispatcher, any target, any handler programs, any hooks: if the request completes (Done), the
   underlying writer received exactly one WriteHeader, before any body byte or flush *)
Theorem handle_request_one_commit_gen cfg o t x0 x st :
  handle_request cfg o t x0 = Done x st -> length (w x0) = -1 ->
  0 <= length (w x) /\ exists c rest, log (w x) = log (w x0) ++ WH c :: rest /\ count_wh rest = 0%nat.
Proof.
  intros Hr Hl.
  pose proof (handle_request_P (wh_first (log (w x0))) (whf_wstep _) (whf_write_header _) cfg o t x0) as H.
  rewrite Hr in H. destruct H as (x' & Hx' & ->); [left; split; [exact Hl|reflexivity]|].
  unfold final_commit. cbn [with_w w]. apply whf_ensure. exact Hx'.
Qed.

Theorem handle_request_one_commit cfg o t x0 x st :
  handle_request cfg o t x0 = Done x st -> wlog_ok (w x0) -> length (w x0) = -1 ->
  count_wh (log (w x)) = 1%nat /\
  exists c rest, log (w x) = log (w x0) ++ WH c :: rest /\ count_wh rest = 0%nat.
Proof.
  intros Hr Hok Hl. destruct (handle_request_one_commit_gen cfg o t x0 x st Hr Hl) as (_ & c & rest & E & C).
  split; [|exists c, rest; split; assumption].
  assert (H0 : count_wh (log (w x0)) = 0%nat) by (destruct Hok as [[_ H]|[H _]]; [exact H|lia]).
  rewrite E, count_wh_app, count_wh_cons_wh, H0, C. reflexivity.
Qed.

(* on a fresh writer (what Context.Init produces): the log itself starts with the header *)
Corollary handle_request_one_commit_fresh cfg o t x0 x st :
  handle_request cfg o t x0 = Done x st -> length (w x0) = -1 -> log (w x0) = [] ->
  count_wh (log (w x)) = 1%nat /\ exists c rest, log (w x) = WH c :: rest /\ count_wh rest = 0%nat.
Proof.
  intros Hr Hl H0. destruct (handle_request_one_commit_gen cfg o t x0 x st Hr Hl) as (_ & c & rest & E & C).
  rewrite H0 in E. cbn [app] in E. split; [|exists c, rest; split; assumption].
  rewrite E, count_wh_cons_wh, C. reflexivity.
Qed.

(* Escaped outcomes (panic without an OnPanic hook, or the hook itself panics): no final commit happens, so the header
   may be missing; but there is at most one, and if there is one it comes before every body byte and flush.
   The committed/uncommitted state of the writer tells which case it is. *)
Theorem handle_request_escaped_gen cfg o t x0 p x st :
  handle_request cfg o t x0 = Escaped p x st -> length (w x0) = -1 ->
  (length (w x) = -1 /\ log (w x) = log (w x0)) \/
  (0 <= length (w x) /\ exists c rest, log (w x) = log (w x0) ++ WH c :: rest /\ count_wh rest = 0%nat).
Proof.
  intros Hr Hl.
  pose proof (handle_request_P (wh_first (log (w x0))) (whf_wstep _) (whf_write_header _) cfg o t x0) as H.
  rewrite Hr in H. apply H. left. split; [exact Hl|reflexivity].
Qed.

Theorem handle_request_escaped cfg o t x0 p x st :
  handle_request cfg o t x0 = Escaped p x st -> wlog_ok (w x0) -> length (w x0) = -1 ->
  (count_wh (log (w x)) <= 1)%nat /\ wlog_ok (w x) /\
  (log (w x) = log (w x0) \/ exists c rest, log (w x) = log (w x0) ++ WH c :: rest /\ count_wh rest = 0%nat).
Proof.
  intros Hr Hok Hl.
  assert (H0 : count_wh (log (w x0)) = 0%nat) by (destruct Hok as [[_ H]|[H _]]; [exact H|lia]).
  destruct (handle_request_escaped_gen cfg o t x0 p x st Hr Hl) as [[A B]|[A (c & rest & B & C)]].
  - rewrite B, H0. split; [lia|]. split; [left; split; [exact A|rewrite B; exact H0]|]. left. reflexivity.
  - assert (E1 : count_wh (log (w x)) = 1%nat) by (rewrite B, count_wh_app, count_wh_cons_wh, H0, C; reflexivity).
    split; [lia|]. split; [right; split; assumption|]. right. exists c, rest. split; assumption.
Qed.

(* ---------- lifted to the whole router ---------- *)
Lemma sys_serve_inv progs hooks s m p sc pooled r :
  fst (sys_serve progs hooks s m p sc pooled) = Some r ->
  exists t, sys_target progs s (fst (quick_match (s_rt s) m p)) p = Some t /\
    r = handle_request (sys_cfg progs hooks s) (str_eqb m OPTIONS) t (p_x (ctx_init sc pooled)).
Proof.
  unfold sys_serve. destruct (quick_match (s_rt s) m p) as [q rt']. cbn [fst].
  destruct (sys_target progs s q p) as [t|]; cbn [fst]; [|discriminate].
  intros H. inversion H. exists t. split; reflexivity.
Qed.

Lemma ctx_init_w sc pooled : w (p_x (ctx_init sc pooled)) = winit sc.
Proof. reflexivity. Qed.

(* C08 end to end: ANY router state (built or not, after any history, cache in any state), any handler table, any
   hooks, any request (found, fallback, 404, 405), any short-write script, any pooled context *)
Theorem sys_one_commit progs hooks s m p sc pooled x started :
  fst (sys_serve progs hooks s m p sc pooled) = Some (Done x started) ->
  count_wh (log (w x)) = 1%nat /\ exists c rest, log (w x) = WH c :: rest /\ count_wh rest = 0%nat.
Proof.
  intros H. destruct (sys_serve_inv progs hooks s m p sc pooled _ H) as (t & _ & E). symmetry in E.
  apply (handle_request_one_commit_fresh _ _ _ _ _ _ E); reflexivity.
Qed.

Theorem sys_escaped_commit progs hooks s m p sc pooled pv x started :
  fst (sys_serve progs hooks s m p sc pooled) = Some (Escaped pv x started) ->
  (count_wh (log (w x)) <= 1)%nat /\
  ((length (w x) = -1 /\ log (w x) = []) \/
   (0 <= length (w x) /\ exists c rest, log (w x) = WH c :: rest /\ count_wh rest = 0%nat)).
Proof.
  intros H. destruct (sys_serve_inv progs hooks s m p sc pooled _ H) as (t & _ & E). symmetry in E.
  destruct (handle_request_escaped_gen _ _ _ _ _ _ _ E eq_refl) as [[A B]|[A (c & rest & B & C)]];
    rewrite ctx_init_w in B; cbn [winit log app] in B.
  - split; [rewrite B; cbn; lia|]. left. split; assumption.
  - split; [rewrite B, count_wh_cons_wh, C; lia|]. right. split; [exact A|]. exists c, rest. split; assumption.
Qed.

(* the same for every request of a history at once *)
Theorem sys_outcomes_one_commit progs hooks : forall h s,
  Forall (fun r => match r with
                   | Some (Done x _) =>
                       count_wh (log (w x)) = 1%nat /\ exists c rest, log (w x) = WH c :: rest /\ count_wh rest = 0%nat
                   | Some (Escaped _ x _) => (count_wh (log (w x)) <= 1)%nat
                   | _ => True
                   end) (sys_outcomes progs hooks s h).
Proof.
  induction h as [|[[[m p] sc] pooled] h IH]; intros s; cbn [sys_outcomes sys_serve_req]; constructor; [|apply IH].
  destruct (fst (sys_serve progs hooks s m p sc pooled)) as [[x st|pv x st|]|] eqn:E; try exact I.
  - exact (sys_one_commit _ _ _ _ _ _ _ _ _ E).
  - exact (proj1 (sys_escaped_commit _ _ _ _ _ _ _ _ _ _ E)).
Qed.

(* ====================================================================== *)
(* (1) selection for programs with dynamic routes                         *)
(* ====================================================================== *)
Close Scope Z_scope.

(* ---------- lookups do not look at route names ---------- *)
(* routers equal up to route names (rt_name, the named map) and the counter: everything a lookup reads *)
Definition kind_same (r1 r2 : route) : Prop := rt_kind r1 = rt_kind r2.
Definition nm_equiv (rt1 rt2 : router) : Prop :=
  ropts rt1 = ropts rt2 /\ stable rt1 = stable rt2 /\ regular rt1 = regular rt2 /\ irregular rt1 = irregular rt2 /\
  cache rt1 = cache rt2 /\ Forall2 kind_same (routes rt1) (routes rt2).

Lemma scan_nm rs1 rs2 chk ids path : Forall2 kind_same rs1 rs2 -> scan rs1 chk ids path = scan rs2 chk ids path.
Proof.
  intros H. induction ids as [|i rest IH]; cbn [scan]; [reflexivity|].
  pose proof (Forall2_nth _ _ _ H i) as Hi.
  destruct (nth_error rs1 i) as [r1|], (nth_error rs2 i) as [r2|]; try contradiction; [|reflexivity].
  unfold kind_same in Hi. unfold route_start, route_match. rewrite Hi, IH. reflexivity.
Qed.

Lemma dyn_nm rt1 rt2 m path : nm_equiv rt1 rt2 -> dyn_match rt1 m path = dyn_match rt2 m path.
Proof.
  intros (_ & _ & Hrg & Hir & _ & Hrs). unfold dyn_match. rewrite Hrg, Hir.
  destruct (first_node path) as [fn|]; [|reflexivity].
  rewrite (scan_nm _ _ false _ path Hrs).
  destruct fn as [f|]; [|reflexivity]. rewrite (scan_nm _ _ true _ path Hrs). reflexivity.
Qed.

Lemma set_cache_nm rt1 rt2 c : nm_equiv rt1 rt2 -> nm_equiv (set_cache rt1 c) (set_cache rt2 c).
Proof.
  unfold nm_equiv, set_cache. cbn [ropts routes stable regular irregular cache].
  intros (H1 & H2 & H3 & H4 & H5 & H6). repeat split; assumption.
Qed.

Lemma match_nm rt1 rt2 m path : nm_equiv rt1 rt2 ->
  exists r rt1' rt2', match_ rt1 m path = (r, rt1') /\ match_ rt2 m path = (r, rt2') /\ nm_equiv rt1' rt2'.
Proof.
  intros H. pose proof (dyn_nm rt1 rt2 m path H) as Hd. pose proof H as (Ho & Hst & _ & _ & Hca & _).
  unfold match_. rewrite Hst, Ho, Hca, Hd.
  destruct (assoc (m ++ path) (stable rt2)) as [rid|]; [eexists _, _, _; split; [reflexivity|split; [reflexivity|exact H]]|].
  destruct (if o_caching (ropts rt2) then aget (nat * params) (cache rt2) (m ++ path) else (cache rt2, None)) as [c1 hit].
  destruct hit as [[rid ps]|];
    [eexists _, _, _; split; [reflexivity|split; [reflexivity|apply set_cache_nm; exact H]]|].
  destruct (dyn_match rt2 m path) as [|rid [ps|]| |];
    (eexists _, _, _; split; [reflexivity|split; [reflexivity|apply set_cache_nm; exact H]]).
Qed.

Lemma probe_nm m path : forall ms rt1 rt2 acc, nm_equiv rt1 rt2 ->
  fst (probe_methods rt1 ms m path acc) = fst (probe_methods rt2 ms m path acc) /\
  nm_equiv (snd (probe_methods rt1 ms m path acc)) (snd (probe_methods rt2 ms m path acc)).
Proof.
  induction ms as [|m' rest IH]; intros rt1 rt2 acc H; cbn [probe_methods].
  - split; [reflexivity|exact H].
  - destruct (str_eqb m' m); [apply IH; exact H|].
    destruct (match_nm rt1 rt2 m' path H) as (r & rt1' & rt2' & E1 & E2 & H'). rewrite E1, E2.
    destruct r as [|rid ps| |]; try (apply IH; exact H'); (split; [reflexivity|exact H']).
Qed.

Theorem quick_nm rt1 rt2 m p : nm_equiv rt1 rt2 ->
  fst (quick_match rt1 m p) = fst (quick_match rt2 m p) /\
  nm_equiv (snd (quick_match rt1 m p)) (snd (quick_match rt2 m p)).
Proof.
  intros H. pose proof H as (Ho & _). unfold quick_match, quick_match_gen. cbv zeta. rewrite Ho.
  destruct (if nil_b (o_intercept (ropts rt2)) then format_path (o_strict (ropts rt2)) p
            else format_path (o_strict (ropts rt2)) (o_intercept (ropts rt2))) as [path|]; [|split; [reflexivity|exact H]].
  destruct (match_nm rt1 rt2 m path H) as (r & rt1a & rt2a & E1 & E2 & Ha). rewrite E1, E2.
  destruct r as [|rid ps| |]; try (split; [reflexivity|exact Ha]).
  assert (H2 : exists r2 rt1b rt2b,
            (if str_eqb m HEAD then match_ rt1a GET path else (LNone, rt1a)) = (r2, rt1b) /\
            (if str_eqb m HEAD then match_ rt2a GET path else (LNone, rt2a)) = (r2, rt2b) /\ nm_equiv rt1b rt2b).
  { destruct (str_eqb m HEAD); [apply match_nm; exact Ha|]. exists LNone, rt1a, rt2a. auto. }
  destruct H2 as (r2 & rt1b & rt2b & F1 & F2 & Hb). rewrite F1, F2.
  destruct r2 as [|rid ps| |]; try (split; [reflexivity|exact Hb]).
  pose proof Hb as (_ & Hst & _). rewrite Hst.
  destruct (if o_fallback (ropts rt2) then assoc (m ++ fallback_suffix) (stable rt2b) else None) as [rid|];
    [split; [reflexivity|exact Hb]|].
  destruct (o_na (ropts rt2)); [|split; [reflexivity|exact Hb]].
  destruct (probe_nm m path any_methods rt1b rt2b [] Hb) as [P1 P2].
  destruct (probe_methods rt1b any_methods m path []) as [q1 rt1c], (probe_methods rt2b any_methods m path []) as [q2 rt2c].
  cbn [fst snd] in P1, P2. subst q2.
  destruct q1 as [[[|a al]|]|]; (split; [reflexivity|exact P2]).
Qed.

(* registration: definitions that differ only in the route name are accepted alike and give name-equivalent routers *)
Definition def_same (d1 d2 : rdef) : Prop :=
  df_methods d1 = df_methods d2 /\ df_path d1 = df_path d2 /\ df_nil_handler d1 = df_nil_handler d2.

Lemma reg_route_nm rt1 rt2 d1 d2 : nm_equiv rt1 rt2 -> def_same d1 d2 ->
  match reg_route rt1 d1, reg_route rt2 d2 with
  | Ok a, Ok b => nm_equiv a b
  | Panic, Panic => True
  | _, _ => False
  end.
Proof.
  intros (Ho & Hst & Hrg & Hir & Hca & Hrs) (Dm & Dp & Dn).
  pose proof (Forall2_len _ _ _ Hrs) as Hlen.
  unfold reg_route. rewrite Dm, Dp, Dn, Hlen.
  destruct (negb (good_info (df_nil_handler d2) (df_methods d2))); [exact I|].
  destruct (is_fixed_path (df_path d2)).
  - unfold nm_equiv, set_tables. cbn [ropts routes stable regular irregular cache]. rewrite Hst.
    repeat split; try assumption. apply Forall2_snoc; [exact Hrs|reflexivity].
  - destruct (compile_dyn (df_path d2)) as [dy|]; cbn [bind]; [|exact I].
    destruct (compile_re dy) as [re|]; cbn [bind]; [|exact I].
    destruct (d_first dy) as [|c f]; unfold nm_equiv, set_tables; cbn [ropts routes stable regular irregular cache];
      rewrite ?Hrg, ?Hir; repeat split; try assumption; (apply Forall2_snoc; [exact Hrs|reflexivity]).
Qed.

Lemma reg_routes_nm : forall ds1 ds2 rt1 rt2, nm_equiv rt1 rt2 -> Forall2 def_same ds1 ds2 ->
  match reg_routes rt1 ds1, reg_routes rt2 ds2 with
  | Ok a, Ok b => nm_equiv a b
  | Panic, Panic => True
  | _, _ => False
  end.
Proof.
  induction ds1 as [|d1 ds1 IH]; intros ds2 rt1 rt2 H HF; inversion HF as [|? d2 ? ds2' Hd HF']; subst.
  - rewrite !reg_routes_nil. exact H.
  - rewrite !reg_routes_Ok_cons. pose proof (reg_route_nm rt1 rt2 d1 d2 H Hd) as H1.
    destruct (reg_route rt1 d1) as [a|], (reg_route rt2 d2) as [b|]; try contradiction; cbn [bind]; [|exact I].
    apply IH; assumption.
Qed.

(* ---------- registration does not depend on the caching switch ---------- *)
Definition opts_off (o : opts) : opts :=
  {| o_strict := o_strict o; o_na := o_na o; o_fallback := o_fallback o; o_caching := false; o_cap := o_cap o;
     o_intercept := o_intercept o |}.

Lemma nocache_new o : nocache (new_router o) = new_router (opts_off o).
Proof. reflexivity. Qed.

Lemma reg_route_nocache rt d :
  reg_route (nocache rt) d = match reg_route rt d with Ok r => Ok (nocache r) | Panic => Panic end.
Proof.
  unfold reg_route. cbn [nocache counter routes stable regular irregular named].
  destruct (negb (good_info (df_nil_handler d) (df_methods d))); [reflexivity|].
  destruct (is_fixed_path (df_path d)); [reflexivity|].
  destruct (compile_dyn (df_path d)) as [dy|]; cbn [bind]; [|reflexivity].
  destruct (compile_re dy) as [re|]; cbn [bind]; [|reflexivity].
  destruct (d_first dy); reflexivity.
Qed.

Lemma reg_routes_nocache : forall ds rt rt', reg_routes rt ds = Ok rt' -> reg_routes (nocache rt) ds = Ok (nocache rt').
Proof.
  induction ds as [|d ds IH]; intros rt rt' H.
  - rewrite reg_routes_nil in *. inversion H. reflexivity.
  - rewrite reg_routes_Ok_cons in *. rewrite reg_route_nocache.
    destruct (reg_route rt d) as [r|]; cbn [bind] in *; [|discriminate]. apply IH. exact H.
Qed.

Lemma ladder_opts_off o rs m path : ladder (opts_off o) rs m path = ladder o rs m path.
Proof. reflexivity. Qed.

(* ---------- printable programs ---------- *)
(* the registered routes of s are the printable table es, names aside: entry i has the formatted methods and the
   (group-prefixed, normalised) path text of registered route i *)
Definition table_of (es : list entry) (s : sys) : Prop :=
  Forall wf_entry es /\
  map entry_methods es = map (fun r => format_methods (r_methods r)) (s_routes s) /\
  map entry_path es = map r_path (s_routes s).

(* the hypothesis as TASK states it (it forces every route name to be empty) is a special case *)
Lemma table_of_rdefs es s : Forall wf_entry es -> map entry_rdef es = map rdef_of (s_routes s) -> table_of es s.
Proof.
  intros WF H. split; [exact WF|]. split.
  - apply (f_equal (map df_methods)) in H. rewrite !map_map in H. exact H.
  - apply (f_equal (map df_path)) in H. rewrite !map_map in H. exact H.
Qed.

Lemma table_of_length es s : table_of es s -> List.length es = List.length (s_routes s).
Proof. intros (_ & H & _). apply (f_equal (@List.length _)) in H. rewrite !map_length in H. exact H. Qed.

Lemma table_of_defs es s : table_of es s -> Forall2 def_same (map rdef_of (s_routes s)) (map entry_rdef es).
Proof.
  intros (_ & Hm & Hp). revert es Hm Hp. induction (s_routes s) as [|r rs IH]; intros [|e es] Hm Hp; try discriminate.
  - constructor.
  - cbn [map] in *. inversion Hm. inversion Hp. constructor; [|apply IH; assumption].
    unfold def_same, rdef_of, entry_rdef. cbn [df_methods df_path df_nil_handler]. auto.
Qed.

(* the non-caching twin of the built table is name-equivalent to the string-level table of the entries *)
Lemma sys_build_table o ss s es : sys_build o ss = Ok s -> table_of es s ->
  exists rt, reg_routes (new_router (opts_off o)) (map entry_rdef es) = Ok rt /\ nm_equiv (nocache (s_rt s)) rt.
Proof.
  intros Hb Ht. destruct (sys_build_inv o ss s Hb) as (st & _ & Hr & Hs & _).
  apply reg_routes_nocache in Hr. rewrite nocache_new, <- Hs in Hr.
  destruct (reg_routes_equiv (opts_off o) es (proj1 Ht)) as (rt & E & _).
  exists rt. split; [exact E|].
  pose proof (reg_routes_nm _ _ (new_router (opts_off o)) (new_router (opts_off o))
                (ltac:(unfold nm_equiv; cbn; repeat split; constructor)) (table_of_defs es s Ht)) as H.
  rewrite Hr, E in H. exact H.
Qed.

(* C01/C06 end to end, in full generality: ANY caching setting, after ANY history of earlier requests (whatever they
   did), routes may be named: QuickMatch on the router built from the program answers by the documented ladder *)
Theorem sys_ladder_gen progs hooks o ss s es h m p path :
  sys_build o ss = Ok s -> table_of es s -> o_intercept o = [] ->
  hist_no_slash h -> no_slash m -> format_path (o_strict o) p = Ok path ->
  qsel (fst (quick_match (s_rt (sys_run progs hooks s h)) m p)) = ladder o (map entry_sroute es) m path.
Proof.
  intros Hb Ht Hi Hh Hm Hfp.
  destruct (sys_run_invariant progs hooks h s (proj1 (sys_build_coherent o ss s Hb)) Hh) as (Hco & Hnc & _).
  rewrite (proj1 (quick_match_transparent _ m p Hco Hm)), Hnc.
  destruct (sys_build_table o ss s es Hb Ht) as (rt & E & Hnm).
  rewrite (proj1 (quick_nm _ _ m p Hnm)).
  rewrite <- (ladder_opts_off o).
  apply (string_level_ladder (opts_off o) es rt m p path); auto. exact (proj1 Ht).
Qed.

(* the statements TASK asks for *)
(* (1a) freshly built router, caching off *)
Theorem sys_ladder o ss s es m p path :
  sys_build o ss = Ok s -> Forall wf_entry es -> map entry_rdef es = map rdef_of (s_routes s) ->
  o_caching o = false -> o_intercept o = [] -> no_slash m -> format_path (o_strict o) p = Ok path ->
  qsel (fst (quick_match (s_rt s) m p)) = ladder o (map entry_sroute es) m path.
Proof.
  intros Hb WF He _ Hi Hm Hfp.
  apply (sys_ladder_gen (fun _ => []) (None, None) o ss s es [] m p path); auto.
  - apply table_of_rdefs; assumption.
  - constructor.
Qed.

(* (1b) after any history, caching on or off *)
Theorem sys_ladder_history progs hooks o ss s es h m p path :
  sys_build o ss = Ok s -> Forall wf_entry es -> map entry_rdef es = map rdef_of (s_routes s) ->
  o_intercept o = [] -> hist_no_slash h -> no_slash m -> format_path (o_strict o) p = Ok path ->
  qsel (fst (quick_match (s_rt (sys_run progs hooks s h)) m p)) = ladder o (map entry_sroute es) m path.
Proof.
  intros Hb WF He. apply (sys_ladder_gen progs hooks o ss s es h m p path Hb). apply table_of_rdefs; assumption.
Qed.

(* ---------- the chain that runs for the selected route ---------- *)
Lemma ladder_found_lt o rs m path i ps : ladder o rs m path = QFound i ps -> i < List.length rs.
Proof.
  unfold ladder.
  assert (Hs : forall m', spec_select rs m' path = Some i -> i < List.length rs).
  { intros m' H. destruct (spec_select_some rs m' path i H) as (r & Hr & _). apply nth_error_Some. congruence. }
  destruct (spec_select rs m path) as [i1|] eqn:E1; [intros H; inversion H; subst; eauto|].
  destruct (str_eqb m HEAD).
  - destruct (spec_select rs GET path) as [i2|] eqn:E2; [intros H; inversion H; subst; eauto|].
    destruct (if o_fallback o then fallback_route rs m else None); [discriminate|].
    destruct (o_na o); [|discriminate]. destruct (allowed_methods rs m path); discriminate.
  - destruct (if o_fallback o then fallback_route rs m else None); [discriminate|].
    destruct (o_na o); [|discriminate]. destruct (allowed_methods rs m path); discriminate.
Qed.

Lemma ladder_fallback_lt o rs m path i : ladder o rs m path = QFallback i -> i < List.length rs.
Proof.
  unfold ladder.
  destruct (spec_select rs m path); [discriminate|].
  destruct (if str_eqb m HEAD then spec_select rs GET path else None); [discriminate|].
  destruct (o_fallback o).
  - unfold fallback_route. destruct (find_last_idx _ rs 0 None) as [i0|] eqn:E0.
    + intros H. inversion H; subst i0. apply find_last_idx_some in E0.
      destruct E0 as [E0|[_ (x & Hx & _)]]; [discriminate|]. rewrite Nat.sub_0_r in Hx. apply nth_error_Some. congruence.
    + destruct (o_na o); [|discriminate]. destruct (allowed_methods rs m path); discriminate.
  - destruct (o_na o); [|discriminate]. destruct (allowed_methods rs m path); discriminate.
Qed.

Lemma sys_serve_fst progs hooks s m p sc pooled :
  fst (sys_serve progs hooks s m p sc pooled) =
    match sys_target progs s (fst (quick_match (s_rt s) m p)) p with
    | Some t => Some (handle_request (sys_cfg progs hooks s) (str_eqb m OPTIONS) t (p_x (ctx_init sc pooled)))
    | None => None
    end.
Proof. unfold sys_serve. destruct (quick_match (s_rt s) m p) as [q rt']. cbn [fst]. destruct (sys_target progs s q p); reflexivity. Qed.

(* if the ladder selects route i, then - after any history, caching on or off - sys_serve dispatches to the i-th route of
   the program text (den_block), and the chain it assembles is: global middleware (the top-level Use statements), the
   route's middleware (enclosing groups outermost first, then its own), its main handler *)
Theorem sys_chain_selected_gen progs hooks o ss s es h m p path i sc pooled :
  sys_build o ss = Ok s -> table_of es s -> o_intercept o = [] ->
  hist_no_slash h -> no_slash m -> format_path (o_strict o) p = Ok path ->
  ladder o (map entry_sroute es) m path = QFound i None ->
  let s' := sys_run progs hooks s h in
  exists r ps,
    nth_error (den_block (o_strict o) [] [] ss) i = Some r /\
    fst (quick_match (s_rt s') m p) = QFound i ps /\
    fst (sys_serve progs hooks s' m p sc pooled) =
      Some (handle_request (sys_cfg progs hooks s) (str_eqb m OPTIONS) (route_target progs r (opt_params ps) p)
              (p_x (ctx_init sc pooled))) /\
    forall is_opt x,
      fst (assemble (sys_cfg progs hooks s) is_opt (route_target progs r (opt_params ps) p) x) =
        map progs (den_globals ss ++ r_handlers r ++ [r_main r]).
Proof.
  intros Hb Ht Hi Hh Hm Hfp Hl s'.
  pose proof (sys_ladder_gen progs hooks o ss s es h m p path Hb Ht Hi Hh Hm Hfp) as Hq. fold s' in Hq. rewrite Hl in Hq.
  destruct (fst (quick_match (s_rt s') m p)) as [rid ps| | | | |] eqn:Eq; cbn [qsel] in Hq; try discriminate.
  inversion Hq; subst rid.
  pose proof (ladder_found_lt _ _ _ _ _ _ Hl) as Hlt. rewrite map_length, (table_of_length es s Ht) in Hlt.
  destruct (nth_error (s_routes s) i) as [r|] eqn:Er; [|apply nth_error_None in Er; lia].
  destruct (sys_run_invariant progs hooks h s (proj1 (sys_build_coherent o ss s Hb)) Hh) as (_ & _ & I2 & I3 & I4 & I5).
  fold s' in I2, I3, I4, I5.
  exists r, ps. split; [rewrite <- (proj1 (sys_build_routes o ss s Hb)); exact Er|]. split; [reflexivity|]. split.
  - rewrite sys_serve_fst, Eq. rewrite (sys_target_cong progs s s' _ p I2 I4 I5), (sys_cfg_cong progs hooks s s' I3).
    cbn [sys_target]. rewrite Er. reflexivity.
  - intros is_opt x. rewrite <- (sys_build_globals o ss s Hb), !map_app. reflexivity.
Qed.

(* as TASK states it: hypothesis map entry_rdef es = map rdef_of (s_routes s); the chain is the one of SysFacts.sys_chain_found *)
Theorem sys_chain_selected progs hooks o ss s es h m p path i sc pooled :
  sys_build o ss = Ok s -> Forall wf_entry es -> map entry_rdef es = map rdef_of (s_routes s) -> o_intercept o = [] ->
  hist_no_slash h -> no_slash m -> format_path (o_strict o) p = Ok path ->
  ladder o (map entry_sroute es) m path = QFound i None ->
  let s' := sys_run progs hooks s h in
  exists r ps,
    nth_error (den_block (o_strict o) [] [] ss) i = Some r /\
    fst (quick_match (s_rt s') m p) = QFound i ps /\
    fst (sys_serve progs hooks s' m p sc pooled) =
      Some (handle_request (sys_cfg progs hooks s) (str_eqb m OPTIONS) (route_target progs r (opt_params ps) p)
              (p_x (ctx_init sc pooled))) /\
    forall is_opt x,
      fst (assemble (sys_cfg progs hooks s) is_opt (route_target progs r (opt_params ps) p) x) =
        map progs (den_globals ss ++ r_handlers r ++ [r_main r]).
Proof.
  intros Hb WF He. apply (sys_chain_selected_gen progs hooks o ss s es h m p path i sc pooled Hb).
  apply table_of_rdefs; assumption.
Qed.

(* the same when the ladder answers with the fallback route "/*" *)
Theorem sys_chain_fallback_selected progs hooks o ss s es h m p path i sc pooled :
  sys_build o ss = Ok s -> table_of es s -> o_intercept o = [] ->
  hist_no_slash h -> no_slash m -> format_path (o_strict o) p = Ok path ->
  ladder o (map entry_sroute es) m path = QFallback i ->
  let s' := sys_run progs hooks s h in
  exists r,
    nth_error (den_block (o_strict o) [] [] ss) i = Some r /\
    fst (quick_match (s_rt s') m p) = QFallback i /\
    fst (sys_serve progs hooks s' m p sc pooled) =
      Some (handle_request (sys_cfg progs hooks s) (str_eqb m OPTIONS) (route_target progs r [] p)
              (p_x (ctx_init sc pooled))) /\
    forall is_opt x,
      fst (assemble (sys_cfg progs hooks s) is_opt (route_target progs r [] p) x) =
        map progs (den_globals ss ++ r_handlers r ++ [r_main r]).
Proof.
  intros Hb Ht Hi Hh Hm Hfp Hl s'.
  pose proof (sys_ladder_gen progs hooks o ss s es h m p path Hb Ht Hi Hh Hm Hfp) as Hq. fold s' in Hq. rewrite Hl in Hq.
  destruct (fst (quick_match (s_rt s') m p)) as [rid ps|rid| | | |] eqn:Eq; cbn [qsel] in Hq; try discriminate.
  inversion Hq; subst rid.
  pose proof (ladder_fallback_lt _ _ _ _ _ Hl) as Hlt. rewrite map_length, (table_of_length es s Ht) in Hlt.
  destruct (nth_error (s_routes s) i) as [r|] eqn:Er; [|apply nth_error_None in Er; lia].
  destruct (sys_run_invariant progs hooks h s (proj1 (sys_build_coherent o ss s Hb)) Hh) as (_ & _ & I2 & I3 & I4 & I5).
  fold s' in I2, I3, I4, I5.
  exists r. split; [rewrite <- (proj1 (sys_build_routes o ss s Hb)); exact Er|]. split; [reflexivity|]. split.
  - rewrite sys_serve_fst, Eq. rewrite (sys_target_cong progs s s' _ p I2 I4 I5), (sys_cfg_cong progs hooks s s' I3).
    cbn [sys_target]. rewrite Er. reflexivity.
  - intros is_opt x. rewrite <- (sys_build_globals o ss s Hb), !map_app. reflexivity.
Qed.

(* ====================================================================== *)
(* (3) abort end to end                                                   *)
(* ====================================================================== *)
Open Scope Z_scope.

(* the side condition of the chain-machine theorems, on handler ids: at most 63 handlers in the chain, and every handler
   of the chain calls Next at most once *)
Definition chain_ids_ok (progs : hid -> hprog) (ids : list hid) : Prop :=
  Z.of_nat (List.length ids) <= 63 /\ forall i, In i ids -> count_next eff (progs i) <= 1.

Lemma chain_ids_handlers_ok progs ids : chain_ids_ok progs ids -> handlers_ok eff (map progs ids).
Proof.
  intros [Hl Hn]. split; [rewrite map_length; exact Hl|].
  apply Forall_forall. intros h Hin. apply in_map_iff in Hin. destruct Hin as (i & <- & Hi). apply Hn. exact Hi.
Qed.

(* the request resolves to route rid: found, or the "/*" fallback *)
Definition resolves_to (s : sys) (m p : str) (rid : nat) (ps : list (str * str)) : Prop :=
  (exists ops, fst (quick_match (s_rt s) m p) = QFound rid ops /\ ps = opt_params ops) \/
  (fst (quick_match (s_rt s) m p) = QFallback rid /\ ps = []).

Lemma resolves_target progs s m p rid ps r : resolves_to s m p rid ps -> nth_error (s_routes s) rid = Some r ->
  sys_target progs s (fst (quick_match (s_rt s) m p)) p = Some (route_target progs r ps p).
Proof.
  intros [(ops & Hq & ->)|[Hq ->]] Hr; rewrite Hq; cbn [sys_target]; rewrite Hr; reflexivity.
Qed.

(* the chain the dispatcher assembles for it is the chain of sys_chain_found / sys_chain_fallback *)
Lemma sys_route_assemble progs hooks s r ps p is_opt x0 :
  exists x1, assemble (sys_cfg progs hooks s) is_opt (route_target progs r ps p) x0 =
    (map progs (s_globals s) ++ map progs (r_handlers r) ++ [progs (r_main r)], x1).
Proof. eexists. reflexivity. Qed.

(* C05 end to end: the request is resolved to route r (sys_target says so); whenever the chain machine, running the chain
   globals ++ route middleware ++ [main] from the initial state, reaches an Abort, no handler that had not started by
   then is ever started, and the machine never crashes on the cursor *)
Theorem sys_abort_stops_later_handlers progs hooks s m p rid ps r x0 :
  resolves_to s m p rid ps -> nth_error (s_routes s) rid = Some r ->
  chain_ids_ok progs (s_globals s ++ r_handlers r ++ [r_main r]) ->
  let hs := map progs (s_globals s) ++ map progs (r_handlers r) ++ [progs (r_main r)] in
  sys_target progs s (fst (quick_match (s_rt s) m p)) p = Some (route_target progs r ps p) /\
  exists x1,
    assemble (sys_cfg progs hooks s) (str_eqb m OPTIONS) (route_target progs r ps p) x0 = (hs, x1) /\
    forall n c rr k j,
      mrun n (init xctx eff hs x1) = Run c (FOps (OAbort :: rr) :: k) ->
      started_of xctx eff (mrun j (mstep (Run c (FOps (OAbort :: rr) :: k)))) = started c /\
      ~ is_index_panic xctx eff (mrun j (mstep (Run c (FOps (OAbort :: rr) :: k)))).
Proof.
  intros Hres Hr Hok hs. split; [exact (resolves_target progs s m p rid ps r Hres Hr)|].
  destruct (sys_route_assemble progs hooks s r ps p (str_eqb m OPTIONS) x0) as (x1 & E).
  exists x1. split; [exact E|]. intros n c rr k j Hn.
  apply chain_ids_handlers_ok in Hok. rewrite !map_app in Hok. cbn [map] in Hok.
  exact (abort_stops_later_handlers xctx eff apply_eff note_aborted abort_status _ x1 n c rr k j Hok Hn).
Qed.

Theorem sys_abort_status_stops_later_handlers progs hooks s m p rid ps r x0 :
  resolves_to s m p rid ps -> nth_error (s_routes s) rid = Some r ->
  chain_ids_ok progs (s_globals s ++ r_handlers r ++ [r_main r]) ->
  let hs := map progs (s_globals s) ++ map progs (r_handlers r) ++ [progs (r_main r)] in
  sys_target progs s (fst (quick_match (s_rt s) m p)) p = Some (route_target progs r ps p) /\
  exists x1,
    assemble (sys_cfg progs hooks s) (str_eqb m OPTIONS) (route_target progs r ps p) x0 = (hs, x1) /\
    forall n c code rr k j,
      mrun n (init xctx eff hs x1) = Run c (FOps (OAbortStatus code :: rr) :: k) ->
      started_of xctx eff (mrun j (mstep (Run c (FOps (OAbortStatus code :: rr) :: k)))) = started c /\
      ~ is_index_panic xctx eff (mrun j (mstep (Run c (FOps (OAbortStatus code :: rr) :: k)))).
Proof.
  intros Hres Hr Hok hs. split; [exact (resolves_target progs s m p rid ps r Hres Hr)|].
  destruct (sys_route_assemble progs hooks s r ps p (str_eqb m OPTIONS) x0) as (x1 & E).
  exists x1. split; [exact E|]. intros n c code rr k j Hn.
  apply chain_ids_handlers_ok in Hok. rewrite !map_app in Hok. cbn [map] in Hok.
  exact (abort_status_stops_later_handlers xctx eff apply_eff note_aborted abort_status _ x1 n c code rr k j Hok Hn).
Qed.

(* ---------- ... and what the request reports ---------- *)
(* the stronger end-to-end form: the list of started handlers that the OUTCOME of the request reports is the list at the
   moment of the Abort, through the rest of the chain run, the OnError hook, the OnPanic hook and the final commit.
   Side condition on the hooks: they do not call Next (a hook calling Next on an aborted context moves the int8 cursor
   past 63 and is outside what abort containment covers). *)
Definition hooks_no_next (cfg : rcfg) : Prop :=
  forall h, on_panic cfg = Some h \/ on_error cfg = Some h -> count_next eff h = 0.

Lemma mrun_panicked n p (c : ctx xctx eff) : mrun n (Panicked p c) = Panicked p c.
Proof. induction n as [|n IH]; unfold mrun in *; cbn [run step]; auto. Qed.

Definition parked (c : ctx xctx eff) : Prop := Z.of_nat (List.length (chain c)) <= 63 /\ 63 <= index c <= 127.

Lemma hook_parked f h (c : ctx xctx eff) : parked c -> count_next eff h = 0 ->
  aborted xctx eff (run_hook f h c) /\ started_of xctx eff (run_hook f h c) = started c.
Proof.
  intros (H1 & H2) Hh. unfold run_hook, mrun.
  destruct (no_start_after_abort xctx eff apply_eff note_aborted abort_status f (Run c [FOps h])) as (A & _ & B).
  - cbn [aborted debt]. rewrite Hh. lia.
  - split; [exact B|exact A].
Qed.

Lemma handle_request_after_abort cfg o t x0 hs x1 n S :
  assemble cfg o t x0 = (hs, x1) -> hooks_no_next cfg ->
  mrun n (init xctx eff hs x1) = S -> aborted xctx eff S ->
  match handle_request cfg o t x0 with
  | Done _ st | Escaped _ _ st => st = started_of xctx eff S
  | OutOfFuel => True
  end.
Proof.
  intros Ha Hh Hn HS. unfold handle_request, handle_request_gen. rewrite Ha. cbv zeta.
  set (fuel := (4 * prog_size hs + 64)%nat).
  (* the state after the dispatcher's fuel: still running, or aborted with the same started list *)
  assert (HF : match mrun fuel (init xctx eff hs x1) with
               | Run _ _ => True
               | fs => aborted xctx eff fs /\ started_of xctx eff fs = started_of xctx eff S
               end).
  { destruct (Nat.le_gt_cases n fuel) as [Hle|Hgt].
    - replace fuel with (n + (fuel - n))%nat by lia. unfold mrun in *. rewrite run_add, Hn.
      destruct (no_start_after_abort xctx eff apply_eff note_aborted abort_status (fuel - n) S HS) as (A & _ & B).
      destruct (run _ _ _ _ _ (fuel - n) S); auto.
    - assert (E : mrun n (init xctx eff hs x1) = mrun (n - fuel) (mrun fuel (init xctx eff hs x1))).
      { replace n with (fuel + (n - fuel))%nat at 1 by lia. unfold mrun. apply run_add. }
      destruct (mrun fuel (init xctx eff hs x1)) as [c k|c|p c]; [exact I| |].
      + rewrite mrun_halt in E. rewrite <- Hn, E in *. split; [exact HS|reflexivity].
      + rewrite mrun_panicked in E. rewrite <- Hn, E in *. split; [exact HS|reflexivity]. }
  assert (Hrec : forall p (c : ctx xctx eff) ph, on_panic cfg = Some ph -> parked c ->
    match match run_hook (4 * List.length ph + 16 + fuel) ph
                  (set_xs xctx eff (with_data (data_set k_recover (DPanic p) (data (xs c))) (xs c)) c) with
          | Halt c3 => Done (final_commit (xs c3)) (started c3)
          | Panicked p' c3 => Escaped p' (xs c3) (started c3)
          | Run _ _ => OutOfFuel
          end with
    | Done _ st | Escaped _ _ st => st = started c
    | OutOfFuel => True
    end).
  { intros p c ph Hph Hc.
    destruct (hook_parked (4 * List.length ph + 16 + fuel) ph
                (set_xs xctx eff (with_data (data_set k_recover (DPanic p) (data (xs c))) (xs c)) c)) as [_ B].
    - exact Hc.
    - apply Hh. left. exact Hph.
    - cbn [set_xs started] in B. destruct (run_hook _ ph _) as [c3 k3|c3|p3 c3]; cbn [started_of] in B; auto. }
  destruct (mrun fuel (init xctx eff hs x1)) as [c k|c|p c]; [exact I| |]; destruct HF as [HA HE];
    cbn [started_of] in HE; rewrite <- HE.
  - cbn [aborted] in HA. fold (parked c) in HA.
    destruct (on_error cfg) as [h|] eqn:Eh; [|reflexivity].
    destruct (errors (xs c)) as [|e es]; [reflexivity|].
    destruct (hook_parked (4 * List.length h + 16 + fuel) h c HA (Hh h (or_intror Eh))) as [A B].
    destruct (run_hook (4 * List.length h + 16 + fuel) h c) as [c' k'|c'|p' c']; cbn [started_of] in B.
    + exact I.
    + exact B.
    + destruct p' as [v|]; [|destruct A]. cbn [aborted] in A. fold (parked c') in A.
      destruct (on_panic cfg) as [ph|] eqn:Ep; [|exact B].
      rewrite <- B. apply Hrec; [reflexivity|exact A].
  - destruct p as [v|]; [|destruct HA]. cbn [aborted] in HA. fold (parked c) in HA.
    destruct (on_panic cfg) as [ph|] eqn:Ep; [|reflexivity].
    apply Hrec; [reflexivity|exact HA].
Qed.

(* C05 end to end, from the request to the reported outcome *)
Theorem sys_abort_end_to_end progs hooks s m p sc pooled rid ps r :
  resolves_to s m p rid ps -> nth_error (s_routes s) rid = Some r ->
  chain_ids_ok progs (s_globals s ++ r_handlers r ++ [r_main r]) ->
  hooks_no_next (sys_cfg progs hooks s) ->
  let hs := map progs (s_globals s) ++ map progs (r_handlers r) ++ [progs (r_main r)] in
  exists x1,
    assemble (sys_cfg progs hooks s) (str_eqb m OPTIONS) (route_target progs r ps p) (p_x (ctx_init sc pooled)) = (hs, x1) /\
    forall n c a rr k, (a = OAbort \/ exists code, a = OAbortStatus code) ->
      mrun n (init xctx eff hs x1) = Run c (FOps (a :: rr) :: k) ->
      match fst (sys_serve progs hooks s m p sc pooled) with
      | Some (Done _ st) | Some (Escaped _ _ st) => st = started c
      | Some OutOfFuel => True
      | None => False
      end.
Proof.
  intros Hres Hr Hok Hh hs.
  destruct (assemble (sys_cfg progs hooks s) (str_eqb m OPTIONS) (route_target progs r ps p) (p_x (ctx_init sc pooled)))
    as [hs' x1] eqn:Ea.
  assert (Ehs : hs' = hs) by (apply (f_equal fst) in Ea; cbn [fst] in Ea; rewrite <- Ea; reflexivity). subst hs'.
  exists x1. split; [reflexivity|]. intros n c a rr k Habort Hn.
  rewrite sys_serve_fst, (resolves_target progs s m p rid ps r Hres Hr).
  apply chain_ids_handlers_ok in Hok. rewrite !map_app in Hok. cbn [map] in Hok. fold hs in Hok.
  pose proof (inv_run xctx eff apply_eff note_aborted abort_status n hs x1 Hok) as Hi.
  change (run xctx eff apply_eff note_aborted abort_status n) with (mrun n) in Hi. rewrite Hn in Hi.
  assert (HS : aborted xctx eff (mstep (Run c (FOps (a :: rr) :: k))) /\
               started_of xctx eff (mstep (Run c (FOps (a :: rr) :: k))) = started c).
  { destruct Habort as [->|[code ->]].
    - split; [apply inv_abort_aborted; exact Hi|reflexivity].
    - split; [apply inv_abort_status_aborted; exact Hi|reflexivity]. }
  destruct HS as [HS1 HS2].
  assert (Hn1 : mrun (S n) (init xctx eff hs x1) = mstep (Run c (FOps (a :: rr) :: k))).
  { replace (S n) with (n + 1)%nat by lia. unfold mrun. rewrite run_add.
    change (run xctx eff apply_eff note_aborted abort_status n) with (mrun n). rewrite Hn. reflexivity. }
  pose proof (handle_request_after_abort _ _ _ _ hs x1 (S n) (mstep (Run c (FOps (a :: rr) :: k))) Ea Hh Hn1 HS1) as H.
  rewrite HS2 in H. exact H.
Qed.

(* ====================================================================== *)
(* (4) examples: the hypotheses are satisfiable, the conclusions computed *)
(* ====================================================================== *)
Module MoreExample.
Import String.
Local Open Scope string_scope.
Local Open Scope nat_scope.
Local Open Scope list_scope.

(* caching ON with capacity 1, 405 detection and the "/*" fallback on *)
Definition ex_opts : opts :=
  {| o_strict := false; o_na := true; o_fallback := true; o_caching := true; o_cap := 1; o_intercept := [] |}.

(* r.Use(h1)
   r.GET("/about", h10)
   r.Group("/api", func(){ r.Add("/users/{id:\d+}", h11, GET, POST).Use(h3); r.GET("/admin/{x}", h13).Use(h4) }, h2)
   r.GET("/{slug}[/{page}]", h12)                 (no method given: GET) *)
Definition ex_prog : list stmt :=
  [ SUse [1];
    SRoute [GET] (Consts.s "/about") 10 [] [] [];
    SGroup (Consts.s "/api") [2]
      [ SRoute [GET; POST] (Consts.s "/users/{id:\d+}") 11 [] [3] [];
        SRoute [GET] (Consts.s "/admin/{x}") 13 [] [4] [] ];
    SRoute [] (Consts.s "/{slug}[/{page}]") 12 [] [] [] ].

(* the same table as printable entries *)
Definition p_users : ppat :=                                      (* /api/users/{id:\d+} : regular tier, first node "api" *)
  {| pp_req := (map PChr (Consts.s "/api/users/") ++ [PVar (Consts.s "id") (VRe [(ADigit, OPlus)])])%list; pp_opts := [] |}.
Definition p_admin : ppat :=                                      (* /api/admin/{x} *)
  {| pp_req := (map PChr (Consts.s "/api/admin/") ++ [PVar (Consts.s "x") VDef])%list; pp_opts := [] |}.
Definition p_page : ppat :=                                       (* /{slug}[/{page}] : irregular tier *)
  {| pp_req := (map PChr (Consts.s "/") ++ [PVar (Consts.s "slug") VDef])%list;
     pp_opts := [(map PChr (Consts.s "/") ++ [PVar (Consts.s "page") VDef])%list] |}.
Definition ex_table : list entry :=
  [EStatic [GET] (Consts.s "/about"); EDyn [GET; POST] p_users; EDyn [GET] p_admin; EDyn [GET] p_page].

Definition ex_sys : sys :=
  match sys_build ex_opts ex_prog with
  | Ok s => s
  | Panic => {| s_rt := new_router ex_opts; s_routes := []; s_globals := []; s_noroute := []; s_noallowed := [] |}
  end.
Example ex_build_ok : sys_build ex_opts ex_prog = Ok ex_sys.
Proof. vm_compute. reflexivity. Qed.
Example ex_build_shape :
  s_globals ex_sys = [1] /\
  map (fun r => (r_path r, r_handlers r, r_main r)) (s_routes ex_sys) =
    [(Consts.s "/about", [], 10); (Consts.s "/api/users/{id:\d+}", [2; 3], 11); (Consts.s "/api/admin/{x}", [2; 4], 13);
     (Consts.s "/{slug}[/{page}]", [], 12)].
Proof. vm_compute. auto. Qed.

(* the hypotheses of (1) *)
Example ex_wf : Forall wf_entry ex_table.
Proof. repeat constructor. Qed.
Example ex_rdefs : map entry_rdef ex_table = map rdef_of (s_routes ex_sys).
Proof. vm_compute. reflexivity. Qed.

(* one lookup per tier, computed on the freshly built router: what QuickMatch says (with parameters) and what the
   ladder says *)
Example ex_static_tier :
  fst (quick_match (s_rt ex_sys) GET (Consts.s "/about/")) = QFound 0 None /\
  ladder ex_opts (map entry_sroute ex_table) GET (Consts.s "/about") = QFound 0 None.
Proof. vm_compute. auto. Qed.
Example ex_regular_tier :
  fst (quick_match (s_rt ex_sys) POST (Consts.s "//api/users/42")) = QFound 1 (Some [(Consts.s "id", Consts.s "42")]) /\
  ladder ex_opts (map entry_sroute ex_table) POST (Consts.s "/api/users/42") = QFound 1 None.
Proof. vm_compute. auto. Qed.
Example ex_irregular_tier :
  fst (quick_match (s_rt ex_sys) HEAD (Consts.s "/hello/3")) =
    QFound 3 (Some [(Consts.s "slug", Consts.s "hello"); (Consts.s "page", Consts.s "3")]) /\
  ladder ex_opts (map entry_sroute ex_table) HEAD (Consts.s "/hello/3") = QFound 3 None.
Proof. vm_compute. auto. Qed.
Example ex_not_allowed :
  fst (quick_match (s_rt ex_sys) PUT (Consts.s "/api/users/42")) = QNotAllowed [GET; POST] /\
  ladder ex_opts (map entry_sroute ex_table) PUT (Consts.s "/api/users/42") = QNotAllowed [GET; POST].
Proof. vm_compute. auto. Qed.

(* handlers: 1 sets the status and calls Next; 2, 3 trace and call Next; 4 aborts and then calls Next; 11 writes, aborts
   with 403, flushes, panics; 12 panics before anything was written; others: one event *)
Definition ex_progs (i : hid) : hprog :=
  match i with
  | 1 => [OEff (EW (WSetStatus 201%Z)); OEff (EEv 1); ONext; OEff (EEv 101)]
  | 2 => [OEff (EEv 2); ONext; OEff (EEv 102)]
  | 3 => [OEff (EEv 3); ONext; OIsAborted; OEff (EEv 103)]
  | 4 => [OEff (EEv 4); OAbort; ONext; OIsAborted; OEff (EEv 104)]
  | 11 => [OEff (EEv 11); OEff (EW (WWrite (Consts.s "hi"))); OAbortStatus 403%Z; OEff (EW WFlush); OPanic 7; OEff (EEv 111)]
  | 12 => [OEff (EEv 12); OPanic 8]
  | _ => [OEff (EEv i)]
  end.
(* OnPanic: writes a body and sets a status (too late); OnError: not installed *)
Definition ex_hooks : option hprog * option hprog :=
  (Some [OEff (EW (WSetStatus 500%Z)); OEff (EW (WWrite (Consts.s "recovered"))); OEff (EEv 77)], None).

(* a history that fills and evicts the cache (capacity 1) and contains a panicking request *)
Definition ex_hist : list hreq :=
  [ (GET, Consts.s "/api/users/1", [], fresh_ctx);
    (GET, Consts.s "/x/y", [1], fresh_ctx);
    (POST, Consts.s "/api/users/2", [], fresh_ctx);
    (DELETE, Consts.s "/api/users/3", [], fresh_ctx) ].
Example ex_hist_no_slash : hist_no_slash ex_hist.
Proof. repeat constructor. Qed.

(* (1) by the theorem: after the history, with the cache on, QuickMatch is the ladder - for every method and path *)
Example ex_ladder_by_theorem m p path : no_slash m -> format_path false p = Ok path ->
  qsel (fst (quick_match (s_rt (sys_run ex_progs ex_hooks ex_sys ex_hist)) m p)) =
    ladder ex_opts (map entry_sroute ex_table) m path.
Proof.
  intros Hm Hp.
  exact (sys_ladder_history ex_progs ex_hooks ex_opts ex_prog ex_sys ex_table ex_hist m p path
           ex_build_ok ex_wf ex_rdefs eq_refl ex_hist_no_slash Hm Hp).
Qed.
(* ... and computed, for the request of ex_regular_tier (the cache holds another key at that moment) *)
Example ex_ladder_later_computed :
  map fst (cache (s_rt (sys_run ex_progs ex_hooks ex_sys ex_hist))) = [Consts.s "POST/api/users/3"] /\
  fst (quick_match (s_rt (sys_run ex_progs ex_hooks ex_sys ex_hist)) POST (Consts.s "//api/users/42")) =
    QFound 1 (Some [(Consts.s "id", Consts.s "42")]).
Proof. vm_compute. auto. Qed.

(* the chain corollary by the theorem: the request is dispatched to route 1 of the program text, with the chain
   global 1, group 2, route 3, main 11 *)
Example ex_chain_by_theorem :
  exists r ps,
    nth_error (den_block false [] [] ex_prog) 1 = Some r /\
    fst (quick_match (s_rt (sys_run ex_progs ex_hooks ex_sys ex_hist)) POST (Consts.s "//api/users/42")) = QFound 1 ps /\
    fst (sys_serve ex_progs ex_hooks (sys_run ex_progs ex_hooks ex_sys ex_hist) POST (Consts.s "//api/users/42") [] fresh_ctx) =
      Some (handle_request (sys_cfg ex_progs ex_hooks ex_sys) (str_eqb POST OPTIONS)
              (route_target ex_progs r (opt_params ps) (Consts.s "//api/users/42")) (p_x (ctx_init [] fresh_ctx))) /\
    forall is_opt x,
      fst (assemble (sys_cfg ex_progs ex_hooks ex_sys) is_opt
             (route_target ex_progs r (opt_params ps) (Consts.s "//api/users/42")) x) =
        map ex_progs (den_globals ex_prog ++ r_handlers r ++ [r_main r]).
Proof.
  refine (sys_chain_selected ex_progs ex_hooks ex_opts ex_prog ex_sys ex_table ex_hist POST (Consts.s "//api/users/42")
            (Consts.s "/api/users/42") 1 [] fresh_ctx ex_build_ok ex_wf ex_rdefs eq_refl ex_hist_no_slash eq_refl _ _).
  - vm_compute. reflexivity.
  - vm_compute. reflexivity.
Qed.
Example ex_chain_ids :
  match nth_error (den_block false [] [] ex_prog) 1 with
  | Some r => den_globals ex_prog ++ r_handlers r ++ [r_main r] = [1; 2; 3; 11]
  | None => False
  end.
Proof. vm_compute. reflexivity. Qed.

(* (2) the request of ex_regular_tier with the OnPanic hook installed: status 201 set by the global middleware, body
   "hi", AbortWithStatus(403) (too late for the header), Flush, panic(7); the hook sets 500 (too late), writes
   "recovered". One header, first. *)
Definition ex_req : option outcome1 :=
  fst (sys_serve ex_progs ex_hooks ex_sys POST (Consts.s "//api/users/42") [] fresh_ctx).
Example ex_log_computed :
  match ex_req with
  | Some (Done x st) =>
      log (w x) = [WH 201%Z; W (Consts.s "hi"); F; W (Consts.s "recovered")] /\ st = [0; 1; 2; 3] /\
      flat_map (fun e => match e with TE t => [t] | _ => [] end) (trace x) = [1; 2; 3; 11; 77] /\
      status (w x) = 500%Z /\ In (k_recover, DPanic (PUser 7)) (data x)
  | _ => False
  end.
Proof. vm_compute. auto 10. Qed.
Example ex_log_by_theorem :
  match ex_req with
  | Some (Done x _) =>
      count_wh (log (w x)) = 1 /\ exists c rest, log (w x) = WH c :: rest /\ count_wh rest = 0
  | _ => False
  end.
Proof.
  destruct ex_req as [[x st| |]|] eqn:E; try (vm_compute in E; discriminate).
  exact (sys_one_commit ex_progs ex_hooks ex_sys POST (Consts.s "//api/users/42") [] fresh_ctx x st E).
Qed.

(* without the hook the panic escapes after the header and the body went out: no final commit, still one header first;
   and a handler that panics before any write leaves an empty log (net/http's recovery sees an unwritten response) *)
Example ex_escaped_computed :
  match fst (sys_serve ex_progs (None, None) ex_sys POST (Consts.s "//api/users/42") [] fresh_ctx) with
  | Some (Escaped pv x st) => pv = PUser 7 /\ log (w x) = [WH 201%Z; W (Consts.s "hi"); F] /\ st = [0; 1; 2; 3]
  | _ => False
  end /\
  match fst (sys_serve ex_progs (None, None) ex_sys GET (Consts.s "/hello") [] fresh_ctx) with
  | Some (Escaped pv x st) => pv = PUser 8 /\ log (w x) = [] /\ Writer.length (w x) = (-1)%Z /\ status (w x) = 201%Z
  | _ => False
  end.
Proof. vm_compute. auto 10. Qed.
Example ex_escaped_by_theorem pv x st :
  fst (sys_serve ex_progs (None, None) ex_sys POST (Consts.s "//api/users/42") [] fresh_ctx) = Some (Escaped pv x st) ->
  (count_wh (log (w x)) <= 1) /\
  ((Writer.length (w x) = (-1)%Z /\ log (w x) = []) \/
   ((0 <= Writer.length (w x))%Z /\ exists c rest, log (w x) = WH c :: rest /\ count_wh rest = 0)).
Proof. apply sys_escaped_commit. Qed.

(* (3) GET /api/admin/7: chain 1, 2, 4, 13; handler 4 (number 2 of the chain) executes Abort after 10 machine steps and
   then calls Next: the main handler 13 is never started, the suspended handlers resume (onion), and the outcome
   reports exactly the handlers started at the moment of the Abort *)
Definition ex_admin : rroute :=
  {| r_methods := [GET]; r_path := Consts.s "/api/admin/{x}"; r_handlers := [2; 4]; r_main := 13; r_name := [] |}.
Example ex_admin_ok : nth_error (s_routes ex_sys) 2 = Some ex_admin.
Proof. vm_compute. reflexivity. Qed.
Definition ex_req3 : option outcome1 :=
  fst (sys_serve ex_progs ex_hooks ex_sys GET (Consts.s "/api/admin/7") [] fresh_ctx).
Example ex_abort_computed :
  match ex_req3 with
  | Some (Done x st) =>
      st = [0; 1; 2] /\ log (w x) = [WH 201%Z] /\
      trace x = [TE 1; TE 2; TE 4; TAb true; TE 104; TE 102; TE 101]
  | _ => False
  end.
Proof. vm_compute. auto. Qed.
Example ex_chain_ok : chain_ids_ok ex_progs (s_globals ex_sys ++ r_handlers ex_admin ++ [r_main ex_admin]).
Proof.
  split; [vm_compute; discriminate|].
  intros i Hi. vm_compute in Hi. destruct Hi as [<-|[<-|[<-|[<-|[]]]]]; vm_compute; discriminate.
Qed.
Example ex_hooks_no_next : hooks_no_next (sys_cfg ex_progs ex_hooks ex_sys).
Proof. intros h [H|H]; vm_compute in H; [inversion H; subst h; reflexivity|discriminate]. Qed.
Example ex_abort_by_theorem :
  match ex_req3 with
  | Some (Done _ st) | Some (Escaped _ _ st) => st = [0; 1; 2]
  | Some OutOfFuel => True
  | None => False
  end.
Proof.
  assert (Hres : resolves_to ex_sys GET (Consts.s "/api/admin/7") 2 [(Consts.s "x", Consts.s "7")]).
  { left. eexists. split; [vm_compute; reflexivity|reflexivity]. }
  destruct (sys_abort_end_to_end ex_progs ex_hooks ex_sys GET (Consts.s "/api/admin/7") [] fresh_ctx 2 _ ex_admin
              Hres ex_admin_ok ex_chain_ok ex_hooks_no_next) as (x1 & Ea & H).
  apply (f_equal snd) in Ea. cbn [snd] in Ea. subst x1.
  match type of H with
  | forall n c a rr k, _ -> mrun n ?i = _ -> _ =>
      let S := eval vm_compute in (mrun 10 i) in
      match S with
      | Run ?c (FOps (?a :: ?rr) :: ?k) =>
          specialize (H 10 c a rr k (or_introl eq_refl) ltac:(vm_compute; reflexivity))
      end
  end.
  cbn [started] in H. exact H.
Qed.

(* routes with names (NamedTo): the hypothesis of TASK (map entry_rdef es = map rdef_of ...) cannot hold, table_of does,
   and the general theorems apply *)
Definition ex_prog_named : list stmt :=
  [ SUse [1];
    SRoute [GET] (Consts.s "/about") 10 [] [] (Consts.s "about");
    SGroup (Consts.s "/api") [2]
      [ SRoute [GET; POST] (Consts.s "/users/{id:\d+}") 11 [] [3] (Consts.s "user");
        SRoute [GET] (Consts.s "/admin/{x}") 13 [] [4] [] ];
    SRoute [] (Consts.s "/{slug}[/{page}]") 12 [] [] (Consts.s "page") ].
Definition ex_sys_named : sys :=
  match sys_build ex_opts ex_prog_named with
  | Ok s => s
  | Panic => {| s_rt := new_router ex_opts; s_routes := []; s_globals := []; s_noroute := []; s_noallowed := [] |}
  end.
Example ex_named_build_ok : sys_build ex_opts ex_prog_named = Ok ex_sys_named.
Proof. vm_compute. reflexivity. Qed.
Example ex_named_not_rdefs : map entry_rdef ex_table <> map rdef_of (s_routes ex_sys_named).
Proof. vm_compute. discriminate. Qed.
Example ex_named_table : table_of ex_table ex_sys_named.
Proof. split; [exact ex_wf|]. vm_compute. auto. Qed.
Example ex_named_ladder_by_theorem m p path : no_slash m -> format_path false p = Ok path ->
  qsel (fst (quick_match (s_rt (sys_run ex_progs ex_hooks ex_sys_named ex_hist)) m p)) =
    ladder ex_opts (map entry_sroute ex_table) m path.
Proof.
  intros Hm Hp.
  exact (sys_ladder_gen ex_progs ex_hooks ex_opts ex_prog_named ex_sys_named ex_table ex_hist m p path
           ex_named_build_ok ex_named_table eq_refl ex_hist_no_slash Hm Hp).
Qed.
End MoreExample.

Print Assumptions handle_request_one_commit_gen.
Print Assumptions handle_request_one_commit.
Print Assumptions handle_request_one_commit_fresh.
Print Assumptions handle_request_escaped_gen.
Print Assumptions handle_request_escaped.
Print Assumptions sys_one_commit.
Print Assumptions sys_escaped_commit.
Print Assumptions sys_outcomes_one_commit.
Print Assumptions quick_nm.
Print Assumptions reg_routes_nm.
Print Assumptions reg_routes_nocache.
Print Assumptions sys_ladder_gen.
Print Assumptions sys_ladder.
Print Assumptions sys_ladder_history.
Print Assumptions sys_chain_selected_gen.
Print Assumptions sys_chain_selected.
Print Assumptions sys_chain_fallback_selected.
Print Assumptions sys_abort_stops_later_handlers.
Print Assumptions sys_abort_status_stops_later_handlers.
Print Assumptions handle_request_after_abort.
Print Assumptions sys_abort_end_to_end.
Print Assumptions MoreExample.ex_ladder_by_theorem.
Print Assumptions MoreExample.ex_chain_by_theorem.
Print Assumptions MoreExample.ex_log_by_theorem.
Print Assumptions MoreExample.ex_log_computed.
Print Assumptions MoreExample.ex_escaped_by_theorem.
Print Assumptions MoreExample.ex_abort_by_theorem.
Print Assumptions MoreExample.ex_named_ladder_by_theorem.
