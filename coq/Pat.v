(* Pat.v — the documented pattern grammar as an AST, its meaning, and the selection rule that is
   the specification of route lookup (C01, C02).
     pattern  := required tail            tail := "[" required tail "]" | (nothing)
     required := (literal | "{name}" | "{name:regex}")*      "." is a literal character
   {name} = one non-empty path segment piece ([^/]+); global names all / any / num have their own regex. *)
From Rux Require Import Base Str Consts Rx RxParse Pattern.

Inductive item := Lit (s : str) | Var (name : str) (re : rx).
(* required part followed by nested optional levels: /a[/b[/c]] = {[/a]; [[/b]; [/c]]} *)
Record pat := { p_req : list item; p_opts : list (list item) }.

(* ---------- parsing the grammar ---------- *)
Definition is_meta (c : ch) : bool :=
  existsb (N.eqb c) [40; 41; 42; 43; 63; 124; 92; 94; 36; 123; 125; 91; 93]%N.   (* ( ) * + ? | \ ^ $ { } [ ] *)

Definition var_of (inner : str) : option item :=
  match split_colon inner with
  | Some (n, v) =>
      match parse_rx (trim_space v) with
      | POk (r, O) => Some (Var (trim_space n) r)
      | _ => None
      end
  | None =>
      match parse_rx (get_global_var inner) with
      | POk (r, O) => Some (Var inner r)
      | _ => None
      end
  end.

(* tokens: variables are atomic (their regex may contain brackets and braces) *)
Inductive tok := TLit (c : ch) | TVar (inner : str) | TOpen | TClose.
Fixpoint tokenize (fuel : nat) (s : str) : option (list tok) :=
  match fuel with
  | O => None
  | S f =>
    match s with
    | [] => Some []
    | c :: r =>
        if N.eqb c lbrace then
          let '(run, rest) := seg_run r in
          match split_last_rbrace run with
          | Some (inner, after) =>
              match inner with
              | [] => None
              | _ => match tokenize f (after ++ rest) with Some ts => Some (TVar inner :: ts) | None => None end
              end
          | None => None
          end
        else if N.eqb c lbrack then match tokenize f r with Some ts => Some (TOpen :: ts) | None => None end
        else if N.eqb c rbrack then match tokenize f r with Some ts => Some (TClose :: ts) | None => None end
        else if is_meta c then None
        else match tokenize f r with Some ts => Some (TLit c :: ts) | None => None end
    end
  end.

(* items of a bracket-free token list *)
Fixpoint items_of (ts : list tok) (lit : str) : option (list item) :=
  let flush (rest : list item) := match lit with [] => rest | _ => Lit (rev lit) :: rest end in
  match ts with
  | [] => Some (flush [])
  | TLit c :: r => items_of r (c :: lit)
  | TVar inner :: r => match var_of inner, items_of r [] with
                       | Some v, Some more => Some (flush (v :: more))
                       | _, _ => None
                       end
  | _ => None
  end.

Fixpoint take_until_open (ts : list tok) : list tok * option (list tok) :=
  match ts with
  | [] => ([], None)
  | TOpen :: r => ([], Some r)
  | t :: r => let '(a, b) := take_until_open r in (t :: a, b)
  end.

(* "req[opt1[opt2]]": brackets may only nest at the very end *)
Fixpoint split_levels (fuel : nat) (ts : list tok) : option (list (list tok)) :=
  match fuel with
  | O => None
  | S f =>
    match take_until_open ts with
    | (head, None) => Some [head]
    | (head, Some body) =>
        match rev body with
        | TClose :: rb => match split_levels f (rev rb) with Some ls => Some (head :: ls) | None => None end
        | _ => None
        end
    end
  end.

Fixpoint all_some {A} (l : list (option A)) : option (list A) :=
  match l with
  | [] => Some []
  | Some x :: r => match all_some r with Some xs => Some (x :: xs) | None => None end
  | None :: _ => None
  end.

Definition parse_pat (s : str) : option pat :=
  match tokenize (S (List.length s)) s with
  | None => None
  | Some ts =>
    match split_levels (S (List.length ts)) ts with
    | Some (req :: opts) =>
        match items_of req [], all_some (map (fun o => items_of o []) opts) with
        | Some r, Some os => Some {| p_req := r; p_opts := os |}
        | _, _ => None
        end
    | _ => None
    end
  end.

(* ---------- meaning ---------- *)
Fixpoint lit_rx (s : str) : rx := match s with [] => Eps | c :: r => Cat (Chr c) (lit_rx r) end.
(* regex of an item list; variables become capture groups numbered from i *)
Fixpoint items_rx (its : list item) (i : nat) : rx * nat :=
  match its with
  | [] => (Eps, i)
  | Lit s :: r => let '(x, j) := items_rx r i in (Cat (lit_rx s) x, j)
  | Var _ re :: r => let '(x, j) := items_rx r (S i) in (Cat (Grp i re) x, j)
  end.
Fixpoint opts_rx (os : list (list item)) (i : nat) : rx * nat :=
  match os with
  | [] => (Eps, i)
  | o :: r => let '(a, j) := items_rx o i in let '(b, k) := opts_rx r j in (Opt (Cat a b), k)
  end.
Definition pat_rx (p : pat) : rx :=
  let '(a, j) := items_rx (p_req p) 0 in let '(b, _) := opts_rx (p_opts p) j in Cat a b.
Definition item_names (its : list item) : list str :=
  flat_map (fun it => match it with Var n _ => [n] | Lit _ => [] end) its.
Definition pat_names (p : pat) : list str := item_names (p_req p) ++ flat_map item_names (p_opts p).

Definition pat_matches (p : pat) (path : str) : bool := matches (pat_rx p) path.
(* parameters: capture i belongs to the i-th variable name; absent optional levels give "" *)
Definition pat_params (p : pat) (path : str) : option (list (str * str)) :=
  match full (pat_rx p) path with
  | None => None
  | Some c => zip_params (List.length (pat_names p)) 0 (pat_names p) c []
  end.

(* the literal text before the first variable or optional bracket *)
Fixpoint lit_prefix (its : list item) : str * bool :=     (* (prefix, reached the end of the items) *)
  match its with
  | [] => ([], true)
  | Lit s :: r => let '(p, e) := lit_prefix r in (s ++ p, e)
  | Var _ _ :: _ => ([], false)
  end.
Definition pat_prefix (p : pat) : str := fst (lit_prefix (p_req p)).
(* "begins with a complete literal first segment followed by '/'" : prefix = "/" seg "/" ... , seg non-empty *)
Definition first_segment (p : pat) : option str :=
  match pat_prefix p with
  | _ :: tl1 => match index_of slash tl1 with
                | Some (S pos) => Some (firstn (S pos) tl1)
                | _ => None
                end
  | [] => None
  end.
Definition pat_is_static (p : pat) : bool :=
  match p_opts p with [] => snd (lit_prefix (p_req p)) | _ => false end.

(* ---------- the selection rule (C01) ---------- *)
Record sroute := { s_methods : list str; s_path : str; s_pat : option pat }.   (* None = static route with that path *)

Definition s_static (r : sroute) : bool := match s_pat r with None => true | Some _ => false end.
Definition s_has_first (r : sroute) : bool := match s_pat r with Some p => match first_segment p with Some _ => true | None => false end | None => false end.
Definition s_matches (r : sroute) (path : str) : bool := match s_pat r with Some p => pat_matches p path | None => false end.

Fixpoint find_idx {A} (f : A -> bool) (l : list A) (i : nat) : option nat :=
  match l with [] => None | x :: r => if f x then Some i else find_idx f r (S i) end.
Fixpoint find_last_idx {A} (f : A -> bool) (l : list A) (i : nat) (acc : option nat) : option nat :=
  match l with [] => acc | x :: r => find_last_idx f r (S i) (if f x then Some i else acc) end.

(* an exact static path beats every dynamic pattern (a later registration of the same static key replaces the
   earlier one); among dynamic patterns those with a complete literal first segment come first; inside each
   group the earliest registered wins *)
Definition spec_select (rs : list sroute) (m path : str) : option nat :=
  match find_last_idx (fun r => s_static r && mem m (s_methods r) && str_eqb (s_path r) path) rs 0 None with
  | Some i => Some i
  | None =>
    match find_idx (fun r => negb (s_static r) && s_has_first r && mem m (s_methods r) && s_matches r path) rs 0 with
    | Some i => Some i
    | None => find_idx (fun r => negb (s_static r) && negb (s_has_first r) && mem m (s_methods r) && s_matches r path) rs 0
    end
  end.
