(* NormFacts.v — formatPath has the closed form "/" ++ core; registration and lookup agree. *)
From Rux Require Import Base BaseFacts Str Norm.

Lemma de_nil_iff p s : de p s = [] <-> forallb p s = true.
Proof.
  induction s as [|c r IH]; simpl; [tauto|].
  destruct (de p r) eqn:E.
  - destruct (p c); simpl; split; intros H; try discriminate; auto.
    + apply IH; auto.
  - split; [discriminate|]. intros H. apply andb_true_iff in H. destruct H as [_ H].
    apply IH in H. discriminate.
Qed.

Lemma de_last_is p s : last_is p s = false -> de p s = s.
Proof.
  unfold last_is. induction s as [|c r IH]; simpl; auto.
  intros H. destruct r as [|d r'].
  - simpl in *. destruct (p c); [discriminate|auto].
  - assert (H': match rev (d :: r') with [] => false | c0 :: _ => p c0 end = false).
    { simpl in *. destruct (rev r' ++ [d]) eqn:E; [destruct (rev r'); discriminate|].
      simpl in H. auto. }
    rewrite (IH H'). auto.
Qed.

Lemma dw_idem p s : dw p (dw p s) = dw p s.
Proof. induction s as [|c r IH]; simpl; auto. destruct (p c) eqn:E; auto. simpl. rewrite E. auto. Qed.
Lemma dw_all p s : forallb p s = true -> dw p s = [].
Proof. induction s as [|c r IH]; simpl; auto. destruct (p c); simpl; auto; discriminate. Qed.
Lemma de_cons_not p c r : p c = false -> de p (c :: r) = c :: de p r.
Proof. intros H. simpl. destruct (de p r); rewrite ?H; auto. Qed.
Lemma dw_cons_true p c r : p c = true -> dw p (c :: r) = dw p r.
Proof. intros H. simpl. rewrite H. auto. Qed.
Lemma dw_cons_false p c r : p c = false -> dw p (c :: r) = c :: r.
Proof. intros H. simpl. rewrite H. auto. Qed.

Lemma dw_de_comm p s : dw p (de p s) = de p (dw p s).
Proof.
  induction s as [|c r IH]; [reflexivity|].
  destruct (p c) eqn:E.
  - rewrite (dw_cons_true p c r E). rewrite <- IH.
    cbn [de]. destruct (de p r) as [|c0 l] eqn:E2.
    + rewrite E. reflexivity.
    + rewrite (dw_cons_true p c (c0 :: l) E). reflexivity.
  - rewrite de_cons_not by auto. cbn [dw]. rewrite E. rewrite de_cons_not by auto. reflexivity.
Qed.

Lemma str_eqb_slash1 s : str_eqb s [slash] = true <-> s = [slash].
Proof. apply str_eqb_eq. Qed.

Theorem format_core strict s : format_path strict s = Ok (slash :: core strict s).
Proof.
  unfold format_path, format_path_gen, core.
  destruct s as [|a s']; [destruct strict; reflexivity|].
  destruct (str_eqb_spec (a :: s') [slash]) as [E|NE].
  { rewrite E. destruct strict; reflexivity. }
  set (t := trim_space (a :: s')).
  destruct t as [|t0 t'] eqn:Et.
  { destruct strict; reflexivity. }
  rewrite <- Et.
  assert (Hsel: (if negb strict && last_is is_slash t then de is_slash t else t)
                = (if strict then t else de is_slash t)).
  { destruct strict; simpl; auto. destruct (last_is is_slash t) eqn:L; auto.
    symmetry. apply de_last_is; auto. }
  rewrite Hsel. clear Hsel.
  set (u := if strict then t else de is_slash t).
  destruct u as [|c0 rest] eqn:Eu; [reflexivity|].
  destruct (str_eqb_spec (c0 :: rest) [slash]) as [E|NE2].
  { inversion E; subst. reflexivity. }
  destruct (is_slash c0) eqn:Ec0; simpl negb; cbv iota.
  - destruct rest as [|c1 rest'].
    + exfalso. apply NE2. unfold is_slash in Ec0. apply N.eqb_eq in Ec0. subst. reflexivity.
    + destruct (is_slash c1) eqn:Ec1.
      * reflexivity.
      * simpl. rewrite Ec0. simpl. rewrite Ec1.
        unfold is_slash in Ec0. apply N.eqb_eq in Ec0. subst. reflexivity.
  - simpl. rewrite Ec0. reflexivity.
Qed.

(* ---------- registration normalises like lookup ---------- *)
Lemma de_tail_fix p c x : de p (c :: x) = c :: x -> de p x = x.
Proof.
  simpl. destruct (de p x) eqn:E.
  - destruct (p c); intros H; inversion H; auto.
  - intros H; inversion H; auto.
Qed.
Lemma dw_suffix q t : exists a, t = a ++ dw q t.
Proof.
  induction t as [|c r [a IH]]; simpl. exists []; auto.
  destruct (q c). exists (c :: a). simpl. f_equal. auto. exists []. auto.
Qed.
Lemma de_fix_suffix p a b : de p (a ++ b) = a ++ b -> de p b = b.
Proof. induction a as [|c a IH]; simpl app; auto. intros H. apply IH. eapply de_tail_fix; eauto. Qed.
Lemma de_fix_dw p q t : de p t = t -> de p (dw q t) = dw q t.
Proof. intros H. destruct (dw_suffix q t) as [a Ha]. rewrite Ha in H at 1 2. eapply de_fix_suffix; eauto. Qed.
Lemma de_nonnil_last p s d l : de p s = d :: l -> de p (d :: l) = d :: l.
Proof.
  revert d l. induction s as [|c r IH]; intros d l H; [discriminate|].
  simpl in H. destruct (de p r) as [|e m] eqn:E.
  - destruct (p c) eqn:Ec; inversion H; subst. simpl. rewrite Ec. reflexivity.
  - inversion H; subst. specialize (IH e m eq_refl).
    change (de p (d :: e :: m)) with (match de p (e :: m) with [] => if p d then [] else [d] | r' => d :: r' end).
    rewrite IH. reflexivity.
Qed.
Lemma de_idem p s : de p (de p s) = de p s.
Proof. destruct (de p s) as [|d l] eqn:E; [reflexivity|]. eapply de_nonnil_last; eauto. Qed.
Lemma trim_space_fix s : de is_space (trim_space s) = trim_space s.
Proof. unfold trim_space. apply de_idem. Qed.
Lemma slash_not_space : is_space slash = false.
Proof. reflexivity. Qed.
Lemma trim_space_slash_cons x : de is_space x = x -> trim_space (slash :: x) = slash :: x.
Proof.
  intros H. unfold trim_space. rewrite (dw_cons_false _ _ _ slash_not_space).
  rewrite de_cons_not by apply slash_not_space. rewrite H. auto.
Qed.

Theorem reg_lookup strict P : core strict (simple_fmt_path P) = core strict P.
Proof.
  unfold simple_fmt_path, core.
  destruct (trim_space P) as [|t0 t'] eqn:Et.
  - change (trim_space [slash]) with [slash]. destruct strict; reflexivity.
  - set (t := t0 :: t') in *.
    assert (Hfix: de is_space t = t) by (rewrite <- Et; apply trim_space_fix).
    rewrite trim_space_slash_cons by (apply de_fix_dw; auto).
    assert (Hs: is_slash slash = true) by reflexivity.
    destruct strict.
    + rewrite (dw_cons_true _ _ _ Hs). apply dw_idem.
    + rewrite !dw_de_comm. rewrite (dw_cons_true _ _ _ Hs). rewrite dw_idem. reflexivity.
Qed.

Corollary format_reg_lookup strict P :
  format_path strict (simple_fmt_path P) = format_path strict P.
Proof. rewrite !format_core. rewrite reg_lookup. reflexivity. Qed.

(* totality *)
Theorem format_total strict s : exists r, format_path strict s = Ok r.
Proof. eexists. apply format_core. Qed.

(* equivalence classes *)
Theorem format_classes strict p q :
  format_path strict p = format_path strict q <-> core strict p = core strict q.
Proof. rewrite !format_core. split; intros H; [inversion H; auto|rewrite H; auto]. Qed.

(* shape of the normal form *)
Lemma dw_head_not p s : match dw p s with [] => True | c :: _ => p c = false end.
Proof. induction s as [|c r IH]; simpl; auto. destruct (p c) eqn:E; auto. Qed.
Lemma de_last_not p s : de p s = [] \/ last_is p (de p s) = false.
Proof.
  induction s as [|c r IH]; [left; reflexivity|].
  cbn [de]. destruct (de p r) as [|d l] eqn:E.
  - destruct (p c) eqn:Ec; [left; reflexivity|right]. unfold last_is. simpl. exact Ec.
  - right. destruct IH as [IH|IH]; [discriminate|].
    unfold last_is in *. simpl in *. destruct (rev l ++ [d]) eqn:E2; [destruct (rev l); discriminate|]. simpl. exact IH.
Qed.
Lemma last_is_suffix p a b : b <> [] -> last_is p (a ++ b) = last_is p b.
Proof.
  intros NE. unfold last_is. rewrite rev_app_distr.
  destruct (rev b) eqn:E; [|reflexivity].
  exfalso. apply NE. rewrite <- (rev_involutive b), E. reflexivity.
Qed.

Theorem format_shape strict s r : format_path strict s = Ok r ->
  (exists t, r = slash :: t /\ match t with [] => True | c :: _ => c <> slash end) /\
  (strict = false -> r = [slash] \/ last_is is_slash r = false).
Proof.
  rewrite format_core. intros H. inversion H; subst r. clear H. split.
  - exists (core strict s). split; auto. unfold core.
    pose proof (dw_head_not is_slash (if strict then trim_space s else de is_slash (trim_space s))) as Hd.
    destruct (dw is_slash _) as [|c l]; auto. unfold is_slash in Hd. apply N.eqb_neq in Hd. auto.
  - intros ->. unfold core. rewrite dw_de_comm.
    destruct (de_last_not is_slash (dw is_slash (trim_space s))) as [E|E].
    + left. rewrite E. reflexivity.
    + destruct (de is_slash (dw is_slash (trim_space s))) as [|c l] eqn:E2; [left; reflexivity|right].
      change (slash :: c :: l) with ([slash] ++ (c :: l)). rewrite last_is_suffix by discriminate. exact E.
Qed.

(* the path a route is registered under, in closed form *)
Lemma group_prefix_closed strict gs :
  group_prefix strict gs = Ok (concat (map (fun g => slash :: core strict g) gs)).
Proof.
  induction gs as [|g gs IH]; cbn [group_prefix map concat]; auto.
  rewrite format_core. cbn [bind]. rewrite IH. reflexivity.
Qed.
Theorem reg_path_closed strict gs P :
  reg_path strict gs P =
  Ok (match gs with
      | [] => slash :: core strict P
      | _ => slash :: core strict (concat (map (fun g => slash :: core strict g) gs) ++ slash :: core strict P)
      end).
Proof.
  unfold reg_path. rewrite format_reg_lookup, format_core. cbn [bind].
  rewrite group_prefix_closed. cbn [bind].
  destruct gs as [|g gs]; [reflexivity|]. cbn [map concat]. cbn [app]. rewrite format_core. reflexivity.
Qed.

(* a request path reaches the key registered for P (no group) iff both normalise to the same string *)
Theorem reach_iff strict P q k k' :
  reg_path strict [] P = Ok k -> format_path strict q = Ok k' ->
  (k' = k <-> format_path strict q = format_path strict P).
Proof.
  rewrite reg_path_closed, !format_core. intros H1 H2. inversion H1; inversion H2; subst.
  split; intros H; [rewrite H; auto|inversion H; congruence].
Qed.

(* strict mode distinguishes /a from /a/; non-strict does not *)
Example strict_distinguishes :
  format_path true [slash; 97%N] <> format_path true [slash; 97%N; slash] /\
  format_path false [slash; 97%N] = format_path false [slash; 97%N; slash].
Proof. split; [discriminate|reflexivity]. Qed.

(* the code before repair F03 panics on a white-space-only path (non-strict mode) *)
Example legacy_ws_panics : format_path_gen false false [32%N; 32%N] = Panic.
Proof. reflexivity. Qed.
