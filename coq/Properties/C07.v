(* C07 — The dynamic-route cache never changes what a request observes. Property theorems only. *)
From Rux Require Import Base Str Cache Table TableFacts Chain Dispatch Reg Sys SysFacts SysHistory.

(* one lookup: same answer (route and parameters) as the non-caching twin, and the cache stays coherent *)
Theorem C07_match : forall rt m p, coherent rt -> no_slash m -> rooted p ->
  fst (match_ rt m p) = fst (match_ (nocache rt) m p) /\ coherent (snd (match_ rt m p)).
Proof. exact match_transparent. Qed.

(* one request resolution (direct match, HEAD->GET fallback, '/*' fallback, allowed-method probes, not found) *)
Theorem C07_quick_match : forall rt m p, coherent rt -> no_slash m ->
  fst (quick_match rt m p) = fst (quick_match (nocache rt) m p) /\ coherent (snd (quick_match rt m p)).
Proof. exact quick_match_transparent. Qed.

(* every history of requests, any capacity (0, 1, ...), any table and options: the caching router answers
   exactly like the same router with caching disabled — including after evictions and for repeats *)
Theorem C07_transparent : forall rt qs, coherent rt -> (forall m p, In (m, p) qs -> no_slash m) ->
  run_queries rt qs = run_queries (nocache rt) qs.
Proof. exact cache_transparent. Qed.

(* the starting point: a freshly built router (empty cache) is coherent, and registration keeps the cache empty *)
Theorem C07_initial : forall o, coherent (new_router o).
Proof. exact coherent_new. Qed.
Theorem C07_registration_keeps_cache_empty : forall rt d rt', cache rt = [] -> reg_route rt d = Ok rt' -> cache rt' = [].
Proof. exact coherent_reg_empty. Qed.

(* why methods must not contain '/': the cache key is method ++ path *)
Theorem C07_key_injective : forall m1 m2 p1 p2, no_slash m1 -> no_slash m2 -> rooted p1 -> rooted p2 ->
  m1 ++ p1 = m2 ++ p2 -> m1 = m2 /\ p1 = p2.
Proof. exact key_split. Qed.

(* end to end (Sys.v): for every registration program, every handler table and hooks, every history of requests and any
   capacity, the outcomes - handler traces, parameters seen by handlers, response logs, escapes - of the caching router equal,
   request by request, those of the same router with caching disabled *)
Theorem C07_end_to_end : forall progs hooks o ss s h, sys_build o ss = Ok s -> hist_no_slash h ->
  sys_outcomes progs hooks s h = sys_outcomes progs hooks (set_rt s (nocache (s_rt s))) h.
Proof. exact sys_cache_transparent. Qed.

Print Assumptions C07_match.
Print Assumptions C07_quick_match.
Print Assumptions C07_transparent.
Print Assumptions C07_initial.
Print Assumptions C07_registration_keeps_cache_empty.
Print Assumptions C07_key_injective.
Print Assumptions C07_end_to_end.
