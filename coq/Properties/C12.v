(* C12 — Groups add prefix and middleware to their own routes and leave no residue. Property theorems only. *)
From Rux Require Import Base Str Norm NormFacts Reg RegFacts Table Sys SysFacts Conc RegHeap RegHeapFacts.

(* For every registration program (arbitrarily nested groups, Use anywhere, routes with variadic and later
   middleware) that registration accepts: the registered routes are exactly the lexically scoped ones —
   path = normalised concatenation of the enclosing prefixes and the route path, middleware = enclosing
   group middleware in effect at registration (outermost first), then the route's own *)
Theorem C12_scoping : forall strict ss st st', exec_block strict ss st = Ok st' ->
  r_routes st' = r_routes st ++ den_block strict (g_prefix st) (g_handlers st) ss.
Proof. exact scoping. Qed.

(* when Group returns, the prefix and the group middleware in effect are exactly what they were *)
Theorem C12_restore : forall strict p m body st st', exec_stmt strict (SGroup p m body) st = Ok st' ->
  g_prefix st' = g_prefix st /\ g_handlers st' = g_handlers st.
Proof. exact group_restores. Qed.

(* a whole program: routes = denotation from the empty scope, and nothing of any group is left behind *)
Theorem C12_program : forall strict ss st', exec_block strict ss rinit = Ok st' ->
  r_routes st' = den_block strict [] [] ss /\ g_prefix st' = [] /\ g_handlers st' = [].
Proof. exact program_routes. Qed.

(* Router.Use inside a group affects only routes registered later inside that group *)
Theorem C12_use_local : forall strict pfx g mws rest, pfx <> [] ->
  den_block strict pfx g (SUse mws :: rest) = den_block strict pfx (g ++ mws) rest.
Proof. exact use_local. Qed.

(* sibling groups and routes registered after a group see the scope the group started from *)
Theorem C12_sibling_unaffected : forall strict pfx g p m body rest,
  den_block strict pfx g (SGroup p m body :: rest) =
  den_block strict (pfx ++ nf strict p) (g ++ m) body ++ den_block strict pfx g rest.
Proof. exact sibling_unaffected. Qed.

(* the router built from a program (registration program, then every accepted route into the route table): route id i of
   the table is the i-th lexically scoped route - same path, methods and name - and the global middleware are exactly the
   top-level Use statements (Use inside a group never becomes global) *)
Theorem C12_router_routes : forall o ss s, sys_build o ss = Ok s ->
  s_routes s = den_block (o_strict o) [] [] ss /\
  List.length (routes (s_rt s)) = List.length (s_routes s) /\
  forall i r, nth_error (s_routes s) i = Some r ->
    exists rt, nth_error (routes (s_rt s)) i = Some rt /\ rt_path rt = r_path r /\
      rt_methods rt = format_methods (r_methods r) /\ rt_name rt = r_name r.
Proof. exact sys_build_routes. Qed.
Theorem C12_router_globals : forall o ss s, sys_build o ss = Ok s -> s_globals s = den_globals ss.
Proof. exact sys_build_globals. Qed.

(* the same registration on a SLICE HEAP (Go's append writes in place into spare capacity of the shared backing array; Group saves
   and restores slice headers; combineHandlers copies into a fresh array; caller argument lists may carry spare capacity
   `extra`; any growth policy `grow`): it computes exactly what the list-level model computes - no in-place append ever
   disturbs a route's middleware, a saved group slice or the global middleware - and panics exactly when it does *)
Theorem C12_heap_refines : forall grow extra strict ss,
  (forall st', exec_block strict ss rinit = Ok st' ->
     exists hs', hexec_block true grow extra strict ss hinit = Ok hs' /\ abs hs' = st') /\
  (exec_block strict ss rinit = Panic -> hexec_block true grow extra strict ss hinit = Panic).
Proof. exact hexec_refines. Qed.
(* hence the middleware read from the heap for every route is the lexically scoped one *)
Theorem C12_heap_routes : forall grow extra strict ss hs', hexec_block true grow extra strict ss hinit = Ok hs' ->
  map (abs_route (h_heap hs')) (h_routes hs') = den_block strict [] [] ss.
Proof. exact hexec_routes_den_heap. Qed.
(* the classic aliasing defect (combineHandlers returning its first argument uncopied when the second is empty) is refuted on
   this model: two sibling routes end up with the second route's middleware *)
Local Open Scope nat_scope.
Theorem C12_legacy_aliasing_refuted :
  match hexec_block false 2 0 true alias_prog hinit, exec_block true alias_prog rinit with
  | Ok hs', Ok st' =>
      map r_handlers (r_routes st') = [[1; 2; 10]; [1; 2; 20]] /\
      map r_handlers (r_routes (abs hs')) = [[1; 2; 20]; [1; 2; 20]]
  | _, _ => False
  end.
Proof. exact legacy_aliasing_refuted. Qed.

Print Assumptions C12_scoping.
Print Assumptions C12_restore.
Print Assumptions C12_program.
Print Assumptions C12_use_local.
Print Assumptions C12_sibling_unaffected.
Print Assumptions C12_router_routes.
Print Assumptions C12_router_globals.
Print Assumptions C12_heap_refines.
Print Assumptions C12_heap_routes.
Print Assumptions C12_legacy_aliasing_refuted.
