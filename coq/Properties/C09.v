(* C09 — A panicking handler is contained and leaves the router healthy. Property theorems only. *)
From Rux Require Import Base Str Writer WriterFacts Chain ChainFacts Dispatch DispatchFacts Reg Table TableFacts Sys SysFacts SysHistory.
Open Scope Z_scope.

(* With an OnPanic hook (performing effects: status, body, events, snapshots), for every chain, every
   panic position and every resolution target, the panic never escapes the dispatcher, and the underlying
   writer ends with exactly one WriteHeader. (x0 = the context as Init leaves it satisfies wlog_ok.) *)
Theorem C09_contained : forall cfg o t x0 he r,
  on_panic cfg = Some (effs eff he) -> wlog_ok (w x0) ->
  handle_request cfg o t x0 = r -> r <> OutOfFuel ->
  exists x st, r = Done x st /\ count_wh (log (w x)) = 1%nat.
Proof. exact panic_contained. Qed.
Theorem C09_init_ok : forall sc, wlog_ok (winit sc).
Proof. exact wlog_winit. Qed.

(* the hook runs exactly once, on the context as the panic left it with the recovered value stored under
   "_recoverResult"; nothing else runs afterwards; then the header is committed *)
Theorem C09_hook_once : forall cfg o t x0 he hs x1 p c,
  on_panic cfg = Some (effs eff he) -> assemble cfg o t x0 = (hs, x1) ->
  mrun (4 * prog_size hs + 64) (init xctx eff hs x1) = Panicked p c ->
  exists st, handle_request cfg o t x0 =
    Done (final_commit (apply_all xctx eff apply_eff he (with_data (data_set k_recover (DPanic p) (data (xs c))) (xs c)))) st.
Proof. exact panic_value_recorded. Qed.

(* without a hook the same value propagates to the caller *)
Theorem C09_propagates : forall cfg o t x0 hs x1 p c,
  on_panic cfg = None -> assemble cfg o t x0 = (hs, x1) ->
  mrun (4 * prog_size hs + 64) (init xctx eff hs x1) = Panicked p c ->
  handle_request cfg o t x0 = Escaped p (xs c) (started c).
Proof. exact panic_propagates. Qed.

(* the router stays usable: the dispatcher reads the router configuration and tables only (they are
   inputs of handle_request), and the next request is served from a context that Init makes pristine
   whatever the panicking request left behind *)
Theorem C09_healthy : forall cfg o sc t pooled, serve cfg o sc t pooled = serve cfg o sc t fresh_ctx.
Proof. exact serve_pristine. Qed.

(* finding F09 (repaired by 78b1cf3): before the repair a status-only hook never reached the underlying writer *)
Definition f09_cfg : rcfg := {| globals := []; on_panic := Some [OEff (EW (WSetStatus 500))]; on_error := None |}.
Definition f09_target : target := TRoute [] [OPanic 1] [] [] [].
Theorem C09_legacy_F09_refuted :
  match handle_request_gen false f09_cfg false f09_target (p_x fresh_ctx) with
  | Done x _ => log (w x) = []
  | _ => False
  end.
Proof. vm_compute. reflexivity. Qed.

(* end to end (Sys.v): after a history in which some request panicked (escaped, or recovered by the hook), the router is
   healthy: the next request is served as the first request of the freshly built router, the cache invariant holds and the
   route tables, global middleware and fallback handlers are what they were *)
Theorem C09_healthy_end_to_end : forall progs hooks o ss s h m p sc pooled,
  sys_build o ss = Ok s -> hist_no_slash h -> no_slash m ->
  Exists req_panicked (sys_outcomes progs hooks s h) ->
  let s' := sys_run progs hooks s h in
  fst (sys_serve progs hooks s' m p sc pooled) = fst (sys_serve progs hooks s m p sc fresh_ctx) /\
  coherent (s_rt s') /\ nocache (s_rt s') = nocache (s_rt s) /\
  s_routes s' = s_routes s /\ s_globals s' = s_globals s /\ s_noroute s' = s_noroute s /\ s_noallowed s' = s_noallowed s.
Proof. exact sys_after_panic_healthy. Qed.

Print Assumptions C09_contained.
Print Assumptions C09_init_ok.
Print Assumptions C09_hook_once.
Print Assumptions C09_propagates.
Print Assumptions C09_healthy.
Print Assumptions C09_legacy_F09_refuted.
Print Assumptions C09_healthy_end_to_end.
