(* C20 — Auth, method-override and http.Handler wrappers behave as gates. Property theorems only. *)
From Rux Require Import Base Str Consts Writer Chain ChainFacts Dispatch Gates GatesFacts.
Open Scope Z_scope.

(* HTTPBasicAuth: for every account list and every Authorization header value, with base64 decoding an
   arbitrary function b64: the request is let through iff it carries well-formed Basic credentials and
   either no account list is configured or the user's password matches; otherwise 401 exactly when the
   credentials are missing/malformed and 403 in every remaining case *)
Theorem C20_auth_allow : forall b64 accts hdr u p,
  basic_auth b64 accts hdr = Allow u p <->
  parse_basic b64 hdr = Some (u, p) /\ (accts = [] \/ acct_lookup u accts = Some p).
Proof. exact auth_allow_iff. Qed.
Theorem C20_auth_401 : forall b64 accts hdr, basic_auth b64 accts hdr = Deny401 <-> parse_basic b64 hdr = None.
Proof. exact auth_401_iff. Qed.
Theorem C20_auth_403 : forall b64 accts hdr, basic_auth b64 accts hdr = Deny403 <->
  exists u p, parse_basic b64 hdr = Some (u, p) /\ accts <> [] /\ acct_lookup u accts <> Some p.
Proof. exact auth_403_iff. Qed.

(* as a gate of the handler chain: when the decision is not Allow, the request still completes and nothing after the
   auth middleware starts (for every rest of the chain within the limit); when it is Allow every handler runs *)
Theorem C20_auth_denied : forall b64 accts hdr (rest : list hprog) x0,
  basic_auth b64 accts hdr <> Allow (match basic_auth b64 accts hdr with Allow u _ => u | _ => [] end)
                                    (match basic_auth b64 accts hdr with Allow _ p => p | _ => [] end) ->
  handlers_ok eff (auth_prog b64 accts hdr :: rest) ->
  exists n c, mrun n (init xctx eff (auth_prog b64 accts hdr :: rest) x0) = Halt c /\ started c = [0%nat].
Proof. exact auth_denied_nothing_downstream. Qed.
Theorem C20_auth_allowed : forall b64 accts hdr u p (ws : list (wb eff)) x0,
  basic_auth b64 accts hdr = Allow u p -> Z.of_nat (S (List.length ws)) <= 63 ->
  exists n c, mrun n (init xctx eff (auth_prog b64 accts hdr :: map (prog eff) ws) x0) = Halt c
              /\ started c = seq 0 (S (List.length ws)).
Proof. exact auth_allowed_chain_runs. Qed.

(* HTTPMethodOverrideHandler: rewritten only for POST and only to PUT / PATCH / DELETE (form value first, then
   header, compared case-insensitively), recording POST as the original method; unchanged otherwise *)
Theorem C20_override : forall meth fv hv,
  let om := to_upper (match fv with [] => hv | _ => fv end) in
  method_override meth fv hv =
  if str_eqb meth POST && (str_eqb om PUT || str_eqb om PATCH || str_eqb om DELETE) then (om, Some POST) else (meth, None).
Proof. exact override_iff. Qed.
Theorem C20_override_whitelist : forall meth fv hv m' o, method_override meth fv hv = (m', o) ->
  (o = None /\ m' = meth) \/ (o = Some POST /\ meth = POST /\ (m' = PUT \/ m' = PATCH \/ m' = DELETE)).
Proof. exact override_only_post. Qed.

(* WrapHTTPHandlers: for every non-empty list of wrappers the loop builds w1 (w2 (... (wn router))): the
   first listed wrapper is outermost *)
Theorem C20_wrap : forall H (ws : list (H -> H)) (r : H), ws <> [] -> wrap_loop H ws r = Some (wrap_spec H ws r).
Proof. exact wrap_loop_is_spec. Qed.

Print Assumptions C20_auth_allow.
Print Assumptions C20_auth_401.
Print Assumptions C20_auth_403.
Print Assumptions C20_auth_denied.
Print Assumptions C20_auth_allowed.
Print Assumptions C20_override.
Print Assumptions C20_override_whitelist.
Print Assumptions C20_wrap.
