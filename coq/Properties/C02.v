(* C02 — Path parameters are exactly the substrings the pattern captured. Property theorems only. *)
From Rux Require Import Base Str Consts Norm Chain Dispatch Reg Pattern Pat Cache Table PatTable RoundTrip SelectFacts TableLink Sys SysFacts SysHistory SysMore SysEnd.
From Rux Require Import Base Rx RxFacts Pattern Pat PatFacts Cache Table TableFacts PatTable SelectFacts BuildFacts RoundTrip TableLink RestLookup.

(* For every pattern of the documented grammar (any number of variables with default / global / custom
   regexes without capture groups, nested optional tails) and every path its compiled expression matches:
   the captures are a valid decomposition of the path — literals verbatim, every variable of a present part
   a word of its regex, variables of absent optional parts empty — and capture i is the value of variable i *)
Theorem C02_captures : forall p path c, pat_ok p -> full (pat_rx p) path = Some c ->
  exists vs, pat_den p path vs /\ List.length vs = List.length (pat_names p) /\
             forall i, i < List.length vs -> cap_get i c = nth i vs [].
Proof. exact pat_match_sound. Qed.

(* what handlers receive: exactly the route's variable names, bound to those values; substituting them back
   (pat_den) reproduces the path *)
Theorem C02_params : forall p path ps, pat_ok p -> NoDup (pat_names p) -> pat_params p path = Some ps ->
  exists vs, pat_den p path vs /\ List.length vs = List.length (pat_names p) /\
    forall i n, nth_error (pat_names p) i = Some n -> assoc n ps = Some (nth i vs []).
Proof. exact pat_params_sound. Qed.

(* where the decomposition is unique - every variable slash-free and followed by the end or by a literal that begins
   with '/' - the values are exactly the corresponding path substrings: any two decompositions coincide *)
Theorem C02_unique : forall its s vs vs', seg_shaped its -> items_den its s vs -> items_den its s vs' -> vs = vs'.
Proof. exact decomposition_unique. Qed.

(* a pattern matches exactly the paths that have such a decomposition *)
Theorem C02_matches_iff : forall p path, pat_ok p -> (pat_matches p path = true <-> exists vs, pat_den p path vs).
Proof. exact pat_matches_iff. Qed.

(* a static route exposes no parameters: a static hit answers with nil parameters *)
Theorem C02_static : forall rt m path rid, assoc (m ++ path) (stable rt) = Some rid ->
  fst (match_ rt m path) = LHit rid None.
Proof. intros rt m path rid H. unfold match_. rewrite H. reflexivity. Qed.

(* with the route cache on, a lookup returns the same route and the same parameters as without it *)
Theorem C02_cached : forall rt m p, coherent rt -> no_slash m -> rooted p ->
  fst (match_ rt m p) = fst (match_ (nocache rt) m p) /\ coherent (snd (match_ rt m p)).
Proof. exact match_transparent. Qed.

(* at the level of the router: whatever route a lookup selects, a static route is reported without parameters and a dynamic
   route with exactly the parameters of ITS OWN pattern on the request path (so C02_params applies to what handlers receive);
   by TableLink.string_level_lookup the router built from the pattern texts reports the same *)
Theorem C02_router_params : forall o rs m p i r, o_caching o = false -> Forall wf_sroute rs -> no_slash m -> rooted p ->
  spec_select rs m p = Some i -> nth_error rs i = Some r ->
  match s_pat r with
  | None => fst (match_ (build o rs) m p) = LHit i None
  | Some pt => exists ps, fst (match_ (build o rs) m p) = LHit i (Some ps) /\ pat_params pt p = Some ps
  end.
Proof. exact build_lookup_params. Qed.

(* end to end (SysEnd.v): on a router built by a registration program whose routes are a printable table, after any
   history of requests and with the cache on or off, when the rule selects entry i the request is dispatched to route i
   of the program text and the parameters the handlers receive are: none for a static entry; for a dynamic entry exactly
   what the declarative semantics of its pattern assigns on the normalised path *)
Theorem C02_end_to_end : forall progs hooks o ss s es h m p path i sc pooled,
  sys_build o ss = Ok s -> table_of es s -> o_intercept o = [] ->
  hist_no_slash h -> no_slash m -> format_path (o_strict o) p = Ok path ->
  ladder o (map entry_sroute es) m path = QFound i None ->
  let s' := sys_run progs hooks s h in
  exists r ps e,
    nth_error (den_block (o_strict o) [] [] ss) i = Some r /\
    nth_error es i = Some e /\
    fst (quick_match (s_rt s') m p) = QFound i ps /\
    entry_params e path ps /\
    fst (sys_serve progs hooks s' m p sc pooled) =
      Some (handle_request (sys_cfg progs hooks s) (str_eqb m OPTIONS) (route_target progs r (opt_params ps) p)
              (p_x (ctx_init sc pooled))).
Proof. exact sys_params. Qed.

(* ... and the values are a decomposition of the path along the pattern, variable j bound to value j *)
Theorem C02_end_to_end_values : forall progs hooks o ss s es h m p path i ms pp l,
  sys_build o ss = Ok s -> table_of es s -> o_intercept o = [] ->
  hist_no_slash h -> no_slash m -> format_path (o_strict o) p = Ok path ->
  fst (quick_match (s_rt (sys_run progs hooks s h)) m p) = QFound i (Some l) ->
  nth_error es i = Some (EDyn ms pp) ->
  exists vs, pat_den (to_pat pp) path vs /\ List.length vs = List.length (pat_names (to_pat pp)) /\
    forall j n, nth_error (pat_names (to_pat pp)) j = Some n -> assoc n l = Some (nth j vs []).
Proof. exact sys_params_den. Qed.

Print Assumptions C02_captures.
Print Assumptions C02_params.
Print Assumptions C02_unique.
Print Assumptions C02_matches_iff.
Print Assumptions C02_static.
Print Assumptions C02_cached.
Print Assumptions C02_router_params.
Print Assumptions C02_end_to_end.
Print Assumptions C02_end_to_end_values.
