(* C02 — Path parameters are exactly the substrings the pattern captured. Property theorems only. *)
From Rux Require Import Base Rx RxFacts Pattern Pat PatFacts Cache Table TableFacts PatTable SelectFacts BuildFacts RoundTrip TableLink RestLookup.

(* For every pattern of the documented grammar (any number of variables with default / global / custom
   regexes without capture groups, nested optional tails) and every path its compiled expression matches:
   the captures are a valid decomposition of the path — literals verbatim, every variable of a present part
   a word of its regex, variables of absent optional parts empty — and capture i is the value of variable i *)
Theorem C02_captures : forall p path c, pat_ok p -> full (pat_rx p) path = Some c ->
  exists vs, pat_den p path vs /\ List.length vs = List.length (pat_names p) /\
             forall i, i < List.length vs -> cap_get i c = nth i vs [].
Proof. exact pat_match_sound. Qed.

(* what handlers receive: exactly the route's variable names, bound to those values; substituting them back
   (pat_den) reproduces the path *)
Theorem C02_params : forall p path ps, pat_ok p -> NoDup (pat_names p) -> pat_params p path = Some ps ->
  exists vs, pat_den p path vs /\ List.length vs = List.length (pat_names p) /\
    forall i n, nth_error (pat_names p) i = Some n -> assoc n ps = Some (nth i vs []).
Proof. exact pat_params_sound. Qed.

(* where the decomposition is unique - every variable slash-free and followed by the end or by a literal that begins
   with '/' - the values are exactly the corresponding path substrings: any two decompositions coincide *)
Theorem C02_unique : forall its s vs vs', seg_shaped its -> items_den its s vs -> items_den its s vs' -> vs = vs'.
Proof. exact decomposition_unique. Qed.

(* a pattern matches exactly the paths that have such a decomposition *)
Theorem C02_matches_iff : forall p path, pat_ok p -> (pat_matches p path = true <-> exists vs, pat_den p path vs).
Proof. exact pat_matches_iff. Qed.

(* a static route exposes no parameters: a static hit answers with nil parameters *)
Theorem C02_static : forall rt m path rid, assoc (m ++ path) (stable rt) = Some rid ->
  fst (match_ rt m path) = LHit rid None.
Proof. intros rt m path rid H. unfold match_. rewrite H. reflexivity. Qed.

(* with the route cache on, a lookup returns the same route and the same parameters as without it *)
Theorem C02_cached : forall rt m p, coherent rt -> no_slash m -> rooted p ->
  fst (match_ rt m p) = fst (match_ (nocache rt) m p) /\ coherent (snd (match_ rt m p)).
Proof. exact match_transparent. Qed.

(* at the level of the router: whatever route a lookup selects, a static route is reported without parameters and a dynamic
   route with exactly the parameters of ITS OWN pattern on the request path (so C02_params applies to what handlers receive);
   by TableLink.string_level_lookup the router built from the pattern texts reports the same *)
Theorem C02_router_params : forall o rs m p i r, o_caching o = false -> Forall wf_sroute rs -> no_slash m -> rooted p ->
  spec_select rs m p = Some i -> nth_error rs i = Some r ->
  match s_pat r with
  | None => fst (match_ (build o rs) m p) = LHit i None
  | Some pt => exists ps, fst (match_ (build o rs) m p) = LHit i (Some ps) /\ pat_params pt p = Some ps
  end.
Proof. exact build_lookup_params. Qed.

Print Assumptions C02_captures.
Print Assumptions C02_params.
Print Assumptions C02_unique.
Print Assumptions C02_matches_iff.
Print Assumptions C02_static.
Print Assumptions C02_cached.
Print Assumptions C02_router_params.
