(* C10 — Every request starts from a pristine context whatever happened before. Property theorems only. *)
From Rux Require Import Base Str Writer Chain Dispatch DispatchFacts Reg Table TableFacts Sys SysFacts SysHistory.
Open Scope Z_scope.

(* whatever state a pooled context is in (any data, params, errors, cursor, handlers, writer state,
   replaced Resp/Req), Init makes it the fresh context *)
Theorem C10_init_pristine : forall sc c, ctx_init sc c = ctx_init sc fresh_ctx.
Proof. exact init_pristine. Qed.

(* what the first handler observes *)
Theorem C10_first_snapshot : forall sc c, take_snap (p_x (ctx_init sc c)) =
  {| s_data := []; s_params := []; s_nerrors := 0; s_status := 0; s_length := -1; s_resp_own := true; s_req_own := true |}.
Proof. exact init_snapshot. Qed.

(* hence the outcome of serving a request does not depend on which pooled context is used: the k-th
   request of any history behaves as the first request on a fresh router (the router configuration is an
   input that requests do not modify) *)
Theorem C10_history : forall cfg o sc t pooled, serve cfg o sc t pooled = serve cfg o sc t fresh_ctx.
Proof. exact serve_pristine. Qed.

(* end to end on the whole router (Sys.v: registration program -> route table with its route cache -> lookup -> dispatch):
   whatever the earlier requests of a history did - stored values, errors, parameters, aborts, writes, a replaced writer
   or request, panics, cache fills and evictions - and whatever pooled context the next request is handed, it is served
   exactly as the FIRST request of the freshly built router with a fresh context *)
Theorem C10_history_end_to_end : forall progs hooks o ss s h m p sc pooled,
  sys_build o ss = Ok s -> hist_no_slash h -> no_slash m ->
  fst (sys_serve progs hooks (sys_run progs hooks s h) m p sc pooled) = fst (sys_serve progs hooks s m p sc fresh_ctx).
Proof. exact sys_history_independent. Qed.
(* and for every request of the history at once *)
Theorem C10_outcomes_alone : forall progs hooks o ss s h, sys_build o ss = Ok s -> hist_no_slash h ->
  sys_outcomes progs hooks s h = map (sys_alone progs hooks s) h.
Proof. exact sys_outcomes_alone. Qed.

Print Assumptions C10_init_pristine.
Print Assumptions C10_first_snapshot.
Print Assumptions C10_history.
Print Assumptions C10_history_end_to_end.
Print Assumptions C10_outcomes_alone.
