(* C10 — Every request starts from a pristine context whatever happened before. Property theorems only. *)
From Rux Require Import Base Writer Chain Dispatch DispatchFacts.
Open Scope Z_scope.

(* whatever state a pooled context is in (any data, params, errors, cursor, handlers, writer state,
   replaced Resp/Req), Init makes it the fresh context *)
Theorem C10_init_pristine : forall sc c, ctx_init sc c = ctx_init sc fresh_ctx.
Proof. exact init_pristine. Qed.

(* what the first handler observes *)
Theorem C10_first_snapshot : forall sc c, take_snap (p_x (ctx_init sc c)) =
  {| s_data := []; s_params := []; s_nerrors := 0; s_status := 0; s_length := -1; s_resp_own := true; s_req_own := true |}.
Proof. exact init_snapshot. Qed.

(* hence the outcome of serving a request does not depend on which pooled context is used: the k-th
   request of any history behaves as the first request on a fresh router (the router configuration is an
   input that requests do not modify) *)
Theorem C10_history : forall cfg o sc t pooled, serve cfg o sc t pooled = serve cfg o sc t fresh_ctx.
Proof. exact serve_pristine. Qed.

Print Assumptions C10_init_pristine.
Print Assumptions C10_first_snapshot.
Print Assumptions C10_history.
