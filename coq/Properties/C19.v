(* C19 — Response helpers emit the given status, content type and a decodable body. Property theorems only.
   (PARTIAL: the encoders are assumed — section variables.) *)
From Rux Require Import Base Str Writer WriterFacts Render RenderFacts.
Open Scope Z_scope.

(* Text / HTML / JSONBytes / Blob: the given positive status, the documented (given) content type, exactly the bytes,
   for every short-write script of the underlying writer *)
Theorem C19_blob : forall preset sc status ct data, 0 < status ->
  let r := ctx_blob status ct data (rsp_init preset sc) in
  ctype r = Some ct /\
  log (ensure (rw r)) = WH status :: (match data with [] => [] | _ => [W (fst (accept sc data))] end).
Proof. exact blob_response. Qed.
Theorem C19_no_content : forall preset sc, log (ensure (rw (ctx_no_content (rsp_init preset sc)))) = [WH 204].
Proof. exact no_content_response. Qed.
Theorem C19_http_error : forall preset sc msg status, 0 < status ->
  log (ensure (rw (ctx_http_error msg status (rsp_init preset sc)))) = [WH status; W (fst (accept sc (msg ++ [newline])))].
Proof. exact http_error_response. Qed.

(* pkg/render Text / Plain / TextBytes / HTML / HTMLBytes / Blob used on their own: a Content-Type that is already set wins,
   otherwise the renderer's own is set; the body is exactly the data (nothing for empty data) *)
Theorem C19_render_blob : forall preset sc ct data,
  let r := render_blob ct data (rsp_init preset sc) in
  ctype r = Some (match preset with Some c => c | None => ct end) /\
  log (ensure (rw r)) = WH 200 :: (match data with [] => [] | _ => [W (fst (accept sc data))] end).
Proof. exact render_blob_response. Qed.

(* the renderers of pkg/render never override a Content-Type the caller has already set *)
Theorem C19_no_override : forall v r old, ctype r = Some old -> ctype (write_ct v r) = Some old.
Proof. exact write_ct_keeps. Qed.
Theorem C19_sets_when_absent : forall v r, ctype r = None -> ctype (write_ct v r) = Some v.
Proof. exact write_ct_sets. Qed.

(* JSON / JSONP with an arbitrary encoder: status, content type (preset wins), body = the encoding (JSONP: callback(...);) *)
Theorem C19_json : forall V (enc_json : V -> option str) preset sc status v b, 0 < status -> enc_json v = Some b -> b <> [] ->
  let r := respond status (render_json V enc_json v) (rsp_init preset sc) in
  ctype r = Some (match preset with Some c => c | None => ct_json end) /\ nerr r = 0%nat /\
  log (ensure (rw r)) = [WH status; W (fst (accept sc b))].
Proof. exact json_response. Qed.
Theorem C19_jsonp : forall V (enc_json : V -> option str) preset status v b cb, 0 < status -> enc_json v = Some b ->
  let r := respond status (render_jsonp V enc_json cb v) (rsp_init preset []) in
  body_of (log (ensure (rw r))) = cb ++ [40%N] ++ b ++ [41%N; 59%N] /\
  ctype r = Some (match preset with Some c => c | None => ct_jsonp end).
Proof. exact jsonp_response_body. Qed.
(* an encoding failure is recorded in the context's error list; nothing panics *)
Theorem C19_encode_error : forall V (enc_json : V -> option str) preset sc status v, enc_json v = None ->
  nerr (respond status (render_json V enc_json v) (rsp_init preset sc)) = 1%nat.
Proof. exact json_encode_error. Qed.

(* content negotiation: the renderer of the first supported type listed in Accept wins; an empty list means text/plain;
   when nothing listed is supported an error is returned *)
Theorem C19_accept_first : forall accepts k, accepts <> [] -> auto_pick accepts = Some k <->
  exists pre a post, accepts = pre ++ a :: post /\ supported a = Some k /\ (forall x, In x pre -> supported x = None).
Proof. exact accept_first_supported. Qed.
Theorem C19_accept_none : forall accepts, accepts <> [] -> auto_pick accepts = None <-> forall x, In x accepts -> supported x = None.
Proof. exact accept_none_supported. Qed.
Theorem C19_accept_empty : auto_pick [] = Some KText.
Proof. exact accept_empty_is_text. Qed.

(* finding F10 (repaired by bb50579): before the repair "application/xml" fell into an empty switch case *)
Definition supported_legacy (a : str) : option rkind :=
  if str_eqb a mime_json then Some KJson else if str_eqb a mime_html then Some KHtml
  else if str_eqb a mime_text then Some KText else if str_eqb a mime_xml2 then Some KXml else None.
Theorem C19_legacy_F10_refuted : supported_legacy mime_xml = None /\ supported mime_xml = Some KXml.
Proof. split; reflexivity. Qed.

Print Assumptions C19_blob.
Print Assumptions C19_no_content.
Print Assumptions C19_http_error.
Print Assumptions C19_no_override.
Print Assumptions C19_sets_when_absent.
Print Assumptions C19_json.
Print Assumptions C19_jsonp.
Print Assumptions C19_encode_error.
Print Assumptions C19_accept_first.
Print Assumptions C19_accept_none.
Print Assumptions C19_accept_empty.
Print Assumptions C19_legacy_F10_refuted.
Print Assumptions C19_render_blob.
