(* C01 — Route selection follows the documented pattern semantics. Property theorems only. *)
From Rux Require Import Base Str Norm Rx RxParse Pattern Pat PatFacts Cache Table TableFacts PatTable SelectFacts RoundTrip TableLink.
From Rux Require Import Consts Chain Dispatch Reg Sys SysFacts SysHistory SysMore.

(* For every table of grammar-level routes (static paths and patterns: literal text, {name}, {name:regex},
   nested optional tails; any method sets; wf_sroute = '/'-free duplicate-free methods, rooted paths, variable
   regexes without capture groups), every '/'-free method and every rooted (i.e. normalised) path, the three-tier
   lookup of the router — static map, first-node index with prefix filter, residual list — selects exactly what the
   selection rule prescribes: an exact static path first (the latest registration of that key), then the earliest
   registered matching pattern that begins with a complete literal first segment, then the earliest other
   matching pattern *)
Theorem C01_selection : forall o rs m p,
  o_caching o = false -> Forall wf_sroute rs -> no_slash m -> rooted p ->
  sel (fst (match_ (build o rs) m p)) = spec_select rs m p.
Proof. exact lookup_is_spec. Qed.

(* soundness: a request is dispatched to a route only if that route allows the method and its pattern matches
   the whole path (pat_den: literals verbatim, each variable a word of its regex, optional tails prefix-closed) *)
Theorem C01_sound : forall o rs m p i, o_caching o = false -> Forall wf_sroute rs -> no_slash m -> rooted p ->
  sel (fst (match_ (build o rs) m p)) = Some i ->
  exists r, nth_error rs i = Some r /\ In m (s_methods r) /\
    (match s_pat r with None => s_path r = p | Some pt => exists vs, pat_den pt p vs end).
Proof. exact selection_sound. Qed.

(* completeness: "no route" is reported only if no registered route allows the method and matches *)
Theorem C01_complete : forall o rs m p, o_caching o = false -> Forall wf_sroute rs -> no_slash m -> rooted p ->
  sel (fst (match_ (build o rs) m p)) = None ->
  forall r, In r rs -> In m (s_methods r) ->
    match s_pat r with None => s_path r <> p | Some pt => ~ exists vs, pat_den pt p vs end.
Proof. exact selection_complete. Qed.

(* with the cache enabled the selection is the same (C07) *)
Theorem C01_cached : forall rt m p, coherent rt -> no_slash m -> rooted p ->
  fst (match_ rt m p) = fst (match_ (nocache rt) m p) /\ coherent (snd (match_ rt m p)).
Proof. exact match_transparent. Qed.

(* the paths lookup is given are normalised, hence rooted *)
Theorem C01_paths_rooted : forall strict s, exists t, format_path strict s = Ok (slash :: t).
Proof. intros strict s. eexists. apply NormFacts.format_core. Qed.

(* link between the two front ends, proved (not only tested) for a printable fragment of pattern texts
   (RoundTrip.printable: literals alphanumeric or / - _ . ; variables {name} or {name:regex} with distinct
   alphanumeric names, regex a sequence of literals, \d, \w, ., [classes] with * + ? ; nested optional tails):
   the string-level compilation of router.go (compile_dyn + regex parser, the model that is run against the code)
   accepts the printed text, and the route it registers has the tier data of the grammar-level route of the
   theorems above and matches exactly the same paths with the same captures *)
Theorem C01_text_link : forall p ms, printable p = true ->
  exists d r,
    parse_pat (show_ppat p) = Some (to_pat p) /\
    compile_dyn (show_ppat p) = Ok d /\
    compile_re d = Ok (CRx r (List.length (d_names d))) /\
    rt_kind (route_of {| s_methods := ms; s_path := show_ppat p; s_pat := Some (to_pat p) |}) =
      KDyn (d_start d) (d_first d) (CRx (pat_rx (to_pat p)) (List.length (d_names d))) (d_names d) /\
    (forall path, full r path = full (pat_rx (to_pat p)) path) /\
    (forall path, match_regex (CRx r (List.length (d_names d))) (d_names d) path =
                  match_regex (CRx (pat_rx (to_pat p)) (List.length (d_names d))) (d_names d) path).
Proof. exact roundtrip_printable. Qed.

(* the string-level router - what Router.AddRoute does with the pattern TEXT (compile_dyn + regex parser; the model that is
   executed against the implementation) - selects exactly what the documented rule prescribes, for every table of
   well-formed entries: static routes and printable patterns (TableLink.wf_entry), any method sets *)
Theorem C01_string_level_selection : forall o es rt m path, o_caching o = false -> Forall wf_entry es ->
  reg_routes (new_router o) (map entry_rdef es) = Ok rt -> no_slash m -> rooted path ->
  sel (fst (match_ rt m path)) = spec_select (map entry_sroute es) m path.
Proof. exact string_level_selection. Qed.
(* and it answers every lookup - route id AND parameters, with any options, cache included - like the grammar-level router *)
Theorem C01_string_level_lookup : forall o es rt m path, Forall wf_entry es ->
  reg_routes (new_router o) (map entry_rdef es) = Ok rt ->
  fst (match_ rt m path) = fst (match_ (build o (map entry_sroute es)) m path) /\
  rt_equiv (snd (match_ rt m path)) (snd (match_ (build o (map entry_sroute es)) m path)).
Proof. exact string_level_lookup. Qed.
(* registration of such a table always succeeds *)
Theorem C01_string_level_registers : forall o es, Forall wf_entry es ->
  exists rt, reg_routes (new_router o) (map entry_rdef es) = Ok rt /\ rt_equiv rt (build o (map entry_sroute es)).
Proof. exact reg_routes_equiv. Qed.

(* end to end (SysMore.v): a router built from a registration PROGRAM whose routes are the printable table es answers
   every lookup - after any history of requests, route cache on or off - with the selection ladder of the spec *)
Theorem C01_end_to_end_ladder : forall progs hooks o ss s es h m p path,
  sys_build o ss = Ok s -> Forall wf_entry es -> map entry_rdef es = map rdef_of (s_routes s) ->
  o_intercept o = [] -> hist_no_slash h -> no_slash m -> format_path (o_strict o) p = Ok path ->
  qsel (fst (quick_match (s_rt (sys_run progs hooks s h)) m p)) = ladder o (map entry_sroute es) m path.
Proof. exact sys_ladder_history. Qed.

(* ... and the request is dispatched to exactly that route of the program text, with the documented chain *)
Theorem C01_end_to_end_dispatch : forall progs hooks o ss s es h m p path i sc pooled,
  sys_build o ss = Ok s -> Forall wf_entry es -> map entry_rdef es = map rdef_of (s_routes s) -> o_intercept o = [] ->
  hist_no_slash h -> no_slash m -> format_path (o_strict o) p = Ok path ->
  ladder o (map entry_sroute es) m path = QFound i None ->
  let s' := sys_run progs hooks s h in
  exists r ps,
    nth_error (den_block (o_strict o) [] [] ss) i = Some r /\
    fst (quick_match (s_rt s') m p) = QFound i ps /\
    fst (sys_serve progs hooks s' m p sc pooled) =
      Some (handle_request (sys_cfg progs hooks s) (str_eqb m OPTIONS) (route_target progs r (opt_params ps) p)
              (p_x (ctx_init sc pooled))) /\
    forall is_opt x,
      fst (assemble (sys_cfg progs hooks s) is_opt (route_target progs r (opt_params ps) p) x) =
        map progs (den_globals ss ++ r_handlers r ++ [r_main r]).
Proof. exact sys_chain_selected. Qed.

Print Assumptions C01_selection.
Print Assumptions C01_sound.
Print Assumptions C01_complete.
Print Assumptions C01_cached.
Print Assumptions C01_paths_rooted.
Print Assumptions C01_text_link.
Print Assumptions C01_string_level_selection.
Print Assumptions C01_string_level_lookup.
Print Assumptions C01_string_level_registers.
Print Assumptions C01_end_to_end_ladder.
Print Assumptions C01_end_to_end_dispatch.
