(* C06 — Unmatched requests resolve HEAD->GET, fallback route, 405/Allow, 404 in order. Property theorems only. *)
From Rux Require Import Base Str Consts Norm Chain Dispatch Reg Pattern Pat Cache Table PatTable RoundTrip SelectFacts TableLink Sys SysFacts SysHistory SysMore SysEnd.
From Rux Require Import Base Str Consts Norm NormFacts Writer Chain Dispatch Pattern Pat Cache Table TableFacts TableMore PatTable SelectFacts RoundTrip TableLink.
Open Scope Z_scope.

(* For every grammar-level table, every option combination (without caching / InterceptAll, see below), every
   '/'-free method and every path: QuickMatch is the documented decision list — a direct match; else for HEAD the
   GET match; else, when fallback handling is on, the '/*' route registered for the method; else, when 405 handling
   is on and other methods match the path, not-allowed with the allowed set equal to exactly those other methods
   (in anyMethods order; the default handler sorts them); else not found *)
Theorem C06_order : forall o rs m p path,
  o_caching o = false -> o_intercept o = [] -> Forall wf_sroute rs -> no_slash m ->
  format_path (o_strict o) p = Ok path ->
  qsel (fst (quick_match (build o rs) m p)) = ladder o rs m path.
Proof. exact quick_match_is_ladder. Qed.

(* caching does not change the resolution (C07), so the ladder also describes caching routers *)
Theorem C06_cached : forall rt m p, coherent rt -> no_slash m ->
  fst (quick_match rt m p) = fst (quick_match (nocache rt) m p) /\ coherent (snd (quick_match rt m p)).
Proof. exact quick_match_transparent. Qed.

(* InterceptAll(q): every request is resolved exactly as a request for q — the dispatcher replaces the path
   before normalising it (after repair F14) *)
Theorem C06_intercept : forall rt m p1 p2, o_intercept (ropts rt) <> [] ->
  quick_match rt m p1 = quick_match rt m p2.
Proof.
  intros rt m p1 p2 H. unfold quick_match, quick_match_gen.
  destruct (o_intercept (ropts rt)) as [|c q] eqn:E; [congruence|]. reflexivity.
Qed.
(* ... namely exactly as a request for q on the same router without the option *)
Theorem C06_intercept_as_request : forall rt m p q, q <> [] -> o_intercept (ropts rt) = [] ->
  fst (quick_match (with_intercept q rt) m p) = fst (quick_match rt m q).
Proof. exact intercept_as_request. Qed.

(* the default handlers: 405 with "Allow: sorted, comma separated" (200 for OPTIONS), 404 *)
Theorem C06_default_405 : forall al, default_405 false al =
  [OEff (EW (WSetHeader hdr_allow (join comma_sp (sort_strs al)))); OEff (EW (WHttpError msg_405 405))].
Proof. reflexivity. Qed.
Theorem C06_default_405_options : forall al, default_405 true al =
  [OEff (EW (WSetHeader hdr_allow (join comma_sp (sort_strs al)))); OEff (EW (WSetStatus 200))].
Proof. reflexivity. Qed.
Theorem C06_default_404 : default_404 = [OEff (EW (WHttpError msg_404 404))].
Proof. reflexivity. Qed.

(* finding F14 (repaired by ecedac8): before the repair InterceptAll("/a/") was looked up verbatim *)
Definition f14_rs : list sroute := [{| s_methods := [GET]; s_path := [slash; 97%N]; s_pat := None |}].
Definition f14_opts : opts := {| o_strict := false; o_na := false; o_fallback := false; o_caching := false; o_cap := 0; o_intercept := [slash; 97%N; slash] |}.
Theorem C06_legacy_F14_refuted :
  fst (quick_match_gen false (build f14_opts f14_rs) GET [slash; 120%N]) = QNotFound /\
  fst (quick_match (build f14_opts f14_rs) GET [slash; 120%N]) = QFound 0 None.
Proof. split; vm_compute; reflexivity. Qed.

(* the same ladder for the string-level router (pattern texts compiled as router.go does) on printable tables *)
Theorem C06_string_level_order : forall o es rt m p path,
  o_caching o = false -> o_intercept o = [] -> Forall wf_entry es ->
  reg_routes (new_router o) (map entry_rdef es) = Ok rt -> no_slash m ->
  format_path (o_strict o) p = Ok path ->
  qsel (fst (quick_match rt m p)) = ladder o (map entry_sroute es) m path.
Proof. exact string_level_ladder. Qed.

(* end to end (SysEnd.v), router built by a registration program with a printable table, after any history, cache on or
   off: when the ladder says "not allowed" / "not found" the request is dispatched to the NotAllowed / NotFound target,
   the chain is the global middleware followed by the custom handlers or the default one ... *)
Theorem C06_end_to_end_not_allowed : forall progs hooks o ss s es h m p path al sc pooled,
  sys_build o ss = Ok s -> table_of es s -> o_intercept o = [] ->
  hist_no_slash h -> no_slash m -> format_path (o_strict o) p = Ok path ->
  ladder o (map entry_sroute es) m path = QNotAllowed al ->
  let s' := sys_run progs hooks s h in
  fst (quick_match (s_rt s') m p) = QNotAllowed al /\
  fst (sys_serve progs hooks s' m p sc pooled) =
    Some (handle_request (sys_cfg progs hooks s) (str_eqb m OPTIONS)
            (TNotAllowed al (map progs (s_noallowed s))) (p_x (ctx_init sc pooled))) /\
  forall is_opt x,
    fst (assemble (sys_cfg progs hooks s) is_opt (TNotAllowed al (map progs (s_noallowed s))) x) =
      map progs (den_globals ss) ++
      (match s_noallowed s with [] => [default_405 is_opt al] | hs => map progs hs end).
Proof. exact sys_not_allowed. Qed.

Theorem C06_end_to_end_not_found : forall progs hooks o ss s es h m p path sc pooled,
  sys_build o ss = Ok s -> table_of es s -> o_intercept o = [] ->
  hist_no_slash h -> no_slash m -> format_path (o_strict o) p = Ok path ->
  ladder o (map entry_sroute es) m path = QNotFound ->
  let s' := sys_run progs hooks s h in
  fst (quick_match (s_rt s') m p) = QNotFound /\
  fst (sys_serve progs hooks s' m p sc pooled) =
    Some (handle_request (sys_cfg progs hooks s) (str_eqb m OPTIONS)
            (TNotFound (map progs (s_noroute s))) (p_x (ctx_init sc pooled))) /\
  forall is_opt x,
    fst (assemble (sys_cfg progs hooks s) is_opt (TNotFound (map progs (s_noroute s))) x) =
      map progs (den_globals ss) ++
      (match s_noroute s with [] => [default_404] | hs => map progs hs end).
Proof. exact sys_not_found. Qed.

(* ... and with no custom handlers, no global middleware and no OnError hook the response is: 405 with the text of
   http.Error (200 and an empty body for OPTIONS), the allowed methods stored in the context (the Allow header is the
   effect list effs_405: sorted, joined by ", "); resp. 404 with its text *)
Theorem C06_end_to_end_405 : forall progs hooks o ss s es h m p path al sc pooled,
  sys_build o ss = Ok s -> table_of es s -> o_intercept o = [] ->
  hist_no_slash h -> no_slash m -> format_path (o_strict o) p = Ok path ->
  ladder o (map entry_sroute es) m path = QNotAllowed al ->
  s_noallowed s = [] -> den_globals ss = [] -> snd hooks = None ->
  let s' := sys_run progs hooks s h in
  let is_opt := str_eqb m OPTIONS in
  exists x,
    fst (sys_serve progs hooks s' m p sc pooled) = Some (Done x [0%nat]) /\
    x = final_commit (apply_all xctx eff apply_eff (effs_405 is_opt al)
                        (with_data [(k_allowed, DStrs al)] (x_init sc))) /\
    status (w x) = (if is_opt then 200 else 405) /\
    log (w x) = (if is_opt then [WH 200] else error_log sc msg_405 405) /\
    data x = [(k_allowed, DStrs al)] /\ trace x = [] /\ errors x = [].
Proof. exact sys_default_405. Qed.

Theorem C06_end_to_end_404 : forall progs hooks o ss s es h m p path sc pooled,
  sys_build o ss = Ok s -> table_of es s -> o_intercept o = [] ->
  hist_no_slash h -> no_slash m -> format_path (o_strict o) p = Ok path ->
  ladder o (map entry_sroute es) m path = QNotFound ->
  s_noroute s = [] -> den_globals ss = [] -> snd hooks = None ->
  let s' := sys_run progs hooks s h in
  exists x,
    fst (sys_serve progs hooks s' m p sc pooled) = Some (Done x [0%nat]) /\
    x = final_commit (apply_all xctx eff apply_eff effs_404 (x_init sc)) /\
    status (w x) = 404 /\
    log (w x) = error_log sc msg_404 404 /\
    data x = [] /\ trace x = [] /\ errors x = [].
Proof. exact sys_default_404. Qed.

Print Assumptions C06_order.
Print Assumptions C06_cached.
Print Assumptions C06_intercept.
Print Assumptions C06_intercept_as_request.
Print Assumptions C06_default_405.
Print Assumptions C06_default_405_options.
Print Assumptions C06_default_404.
Print Assumptions C06_legacy_F14_refuted.
Print Assumptions C06_string_level_order.
Print Assumptions C06_end_to_end_not_allowed.
Print Assumptions C06_end_to_end_not_found.
Print Assumptions C06_end_to_end_405.
Print Assumptions C06_end_to_end_404.
