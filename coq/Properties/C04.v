(* C04 — Middleware runs in global -> group -> route -> handler onion order. Property theorems only. *)
From Rux Require Import Base Str Norm Writer Chain ChainFacts ChainMore Dispatch Reg RegFacts Table TableFacts Sys SysFacts.
Open Scope Z_scope.

(* the chain the dispatcher assembles: global middleware as registered at request time, then the
   route's middleware, then the main handler; fallbacks run behind the global middleware *)
Theorem C04_chain_route : forall cfg o mws main ps name path x,
  fst (assemble cfg o (TRoute mws main ps name path) x) = globals cfg ++ mws ++ [main].
Proof. reflexivity. Qed.
Theorem C04_chain_not_found : forall cfg o hs x,
  fst (assemble cfg o (TNotFound hs) x) = globals cfg ++ (match hs with [] => [default_404] | _ => hs end).
Proof. reflexivity. Qed.
Theorem C04_chain_not_allowed : forall cfg o al hs x,
  fst (assemble cfg o (TNotAllowed al hs) x) = globals cfg ++ (match hs with [] => [default_405 o al] | _ => hs end).
Proof. reflexivity. Qed.

(* a route's middleware list is: group middleware of the enclosing groups as in effect at registration
   (outermost first), then its variadic middleware, then those added later with Route.Use — for every
   registration program (this is the lexical denotation den_block, and registration computes it) *)
Theorem C04_route_middleware : forall strict ss st st', exec_block strict ss st = Ok st' ->
  r_routes st' = r_routes st ++ den_block strict (g_prefix st) (g_handlers st) ss.
Proof. exact scoping. Qed.

(* onion order: for every chain of at most 63 handlers that call Next at most once, the request runs to
   completion, every handler starts exactly once in chain order, and all effects (trace events, writer
   operations, ...) happen in onion order: before-Next parts outermost first, after-Next parts in
   reverse, and a handler that returns without calling Next is followed by the rest of the chain *)
Theorem C04_onion : forall (ws : list (wb eff)) x0, Z.of_nat (List.length ws) <= 63 ->
  exists n c, mrun n (init xctx eff (map (prog eff) ws) x0) = Halt c
    /\ xs c = apply_all xctx eff apply_eff (onion eff ws) x0
    /\ started c = seq 0 (List.length ws).
Proof. exact (onion_order xctx eff apply_eff note_aborted abort_status). Qed.

(* arbitrary handler programs (aborts, panics, IsAborted, any effects) that call Next at most once, chain
   of at most 63: at every point of the execution each handler has started at most once, and the cursor
   never indexes outside the chain *)
Theorem C04_each_at_most_once : forall n hs x,
  handlers_ok eff hs -> NoDup (started_of xctx eff (mrun n (init xctx eff hs x))).
Proof. intros n hs x. exact (reachable_started_nodup xctx eff apply_eff note_aborted abort_status n hs x). Qed.
Theorem C04_no_cursor_crash : forall n hs x,
  handlers_ok eff hs -> ~ is_index_panic xctx eff (mrun n (init xctx eff hs x)).
Proof. intros n hs x. exact (reachable_no_index_panic xctx eff apply_eff note_aborted abort_status n hs x). Qed.

(* handlers that call Next ANY number of times (and abort, panic, ...): in a chain of at most 63 handlers every handler
   still starts at most once - later Next calls never restart anything *)
Theorem C04_next_many_each_once : forall n (hs : list hprog) x, Z.of_nat (List.length hs) <= 63 ->
  NoDup (started_of xctx eff (mrun n (init xctx eff hs x))).
Proof. intros n hs x. exact (next_many_each_once_63 xctx eff apply_eff note_aborted abort_status n hs x). Qed.
(* and without Abort ops the cursor cannot crash as long as chain length + number of Next ops <= 127 (beyond: K2) *)
Theorem C04_next_many_no_crash : forall n (hs : list hprog) x,
  forallb (na_ops eff) hs = true -> Z.of_nat (List.length hs) + total_next eff hs <= 127 ->
  ~ is_index_panic xctx eff (mrun n (init xctx eff hs x)).
Proof. intros n hs x. exact (next_many_no_index_panic xctx eff apply_eff note_aborted abort_status n hs x). Qed.

(* known finding K2 (not repaired): 43 middleware calling Next twice each wrap the int8 cursor:
   the request dies with an index-out-of-range panic *)
Definition twice (i : nat) : hprog := [OEff (EEv i); ONext; ONext].
Definition k2_chain : list hprog := map twice (seq 0 43) ++ [[OEff (EEv 99)]].
Definition k2_x0 : xctx := p_x fresh_ctx.
Theorem C04_next_twice_refuted : exists c, mrun 400 (init xctx eff k2_chain k2_x0) = Panicked PIndex c.
Proof. eexists. vm_compute. reflexivity. Qed.

(* known finding K6 (not repaired): Router.Use has no limit. A chain of 128 handlers (127 middleware that all call Next and the
   main handler) runs NO handler: int8(len(handlers)) is negative in Context.Next. The request is answered with an empty 200. *)
Definition k6_mws : list hprog := map (fun i => [OEff (EEv i); ONext]) (seq 0 127).
Theorem C04_long_chain_refuted : exists x,
  handle_request {| globals := []; on_panic := None; on_error := None |} false
    (TRoute k6_mws [OEff (EEv 999%nat)] [] [] []) (p_x (ctx_init [] fresh_ctx)) = Done x [] /\
  trace x = [] /\ log (w x) = [WH 200].
Proof. eexists. split; [vm_compute; reflexivity|]. split; vm_compute; reflexivity. Qed.

(* ---------- end to end: registration program -> route table -> lookup -> dispatch (Sys.v) ---------- *)
(* whatever route the lookup of the router built from a registration program selects, the chain that runs is: the global
   middleware (top-level Use, in order), the middleware of the route as registered (enclosing groups outermost first, then
   the route's own), the main handler *)
Theorem C04_chain_of_lookup : forall progs hooks s m p rid ps r is_opt x,
  fst (quick_match (s_rt s) m p) = QFound rid ps -> nth_error (s_routes s) rid = Some r ->
  sys_target progs s (fst (quick_match (s_rt s) m p)) p = Some (route_target progs r (opt_params ps) p) /\
  fst (assemble (sys_cfg progs hooks s) is_opt (route_target progs r (opt_params ps) p) x) =
    map progs (s_globals s) ++ map progs (r_handlers r) ++ [progs (r_main r)].
Proof. exact sys_chain_found. Qed.
Theorem C04_chain_of_not_found : forall progs hooks s m p is_opt x,
  fst (quick_match (s_rt s) m p) = QNotFound ->
  exists t, sys_target progs s (fst (quick_match (s_rt s) m p)) p = Some t /\
  fst (assemble (sys_cfg progs hooks s) is_opt t x) =
    map progs (s_globals s) ++ (match s_noroute s with [] => [default_404] | hs => map progs hs end).
Proof. exact sys_chain_not_found. Qed.
Theorem C04_chain_of_not_allowed : forall progs hooks s m p al is_opt x,
  fst (quick_match (s_rt s) m p) = QNotAllowed al ->
  exists t, sys_target progs s (fst (quick_match (s_rt s) m p)) p = Some t /\
  fst (assemble (sys_cfg progs hooks s) is_opt t x) =
    map progs (s_globals s) ++ (match s_noallowed s with [] => [default_405 is_opt al] | hs => map progs hs end).
Proof. exact sys_chain_not_allowed. Qed.

(* the dispatcher's fuel is always enough for well-behaved chains: no OutOfFuel hypothesis *)
Theorem C04_dispatch_onion : forall cfg o t x0 (ws : list (wb eff)),
  on_error cfg = None -> fst (assemble cfg o t x0) = map (prog eff) ws -> Z.of_nat (List.length ws) <= 63 ->
  handle_request cfg o t x0 =
    Done (final_commit (apply_all xctx eff apply_eff (onion eff ws) (snd (assemble cfg o t x0)))) (seq 0 (List.length ws)).
Proof. exact handle_request_onion. Qed.

(* everything read off the program text: for a program of static routes that registration accepts, a request whose
   normalised path and method select route r (the last registration of that key), after ANY earlier requests, runs
   global (Use order) -> groups (outermost first) -> route -> main in onion order, each handler exactly once, and the
   response is committed *)
Theorem C04_end_to_end : forall progs wbs sc pooled reqs o ss s m p k rid r, sys_build o ss = Ok s ->
  forallb (fun r => is_fixed_path (r_path r)) (den_block (o_strict o) [] [] ss) = true ->
  o_intercept o = [] -> no_slash m ->
  format_path (o_strict o) p = Ok k ->
  static_select (den_block (o_strict o) [] [] ss) m k = Some rid ->
  nth_error (den_block (o_strict o) [] [] ss) rid = Some r ->
  let ids := den_globals ss ++ r_handlers r ++ [r_main r] in
  wb_table progs wbs ids ->
  (List.length ids <= 63)%nat ->
  let ws := map wbs ids in
  fst (sys_serve progs (None, None) (sys_after progs (None, None) s reqs sc pooled) m p sc pooled) =
    Some (Done (final_commit (apply_all xctx eff apply_eff (onion eff ws) (route_x1 r [] p sc))) (seq 0 (List.length ws))).
Proof. exact sys_static_onion. Qed.


Print Assumptions C04_chain_route.
Print Assumptions C04_chain_not_found.
Print Assumptions C04_chain_not_allowed.
Print Assumptions C04_route_middleware.
Print Assumptions C04_onion.
Print Assumptions C04_each_at_most_once.
Print Assumptions C04_no_cursor_crash.
Print Assumptions C04_next_many_each_once.
Print Assumptions C04_next_many_no_crash.
Print Assumptions C04_next_twice_refuted.
Print Assumptions C04_long_chain_refuted.
Print Assumptions C04_chain_of_lookup.
Print Assumptions C04_chain_of_not_found.
Print Assumptions C04_chain_of_not_allowed.
Print Assumptions C04_dispatch_onion.
Print Assumptions C04_end_to_end.
