(* C15 — A URL built for a named route is routed back to that route. Property theorems only. *)
From Rux Require Import Base Str Rx Pattern Pat PatFacts Build Cache Table TableFacts PatTable SelectFacts BuildFacts RoundTrip BuildLink.

(* For every pattern without optional parts and every assignment of values that satisfy the regexes of its
   variables (admissible), the path obtained by substituting the values matches the pattern, with a
   decomposition that has exactly those values *)
Theorem C15_matches : forall p vs, pat_ok p -> p_opts p = [] -> admissible (p_req p) vs ->
  pat_den p (subst_items (p_req p) vs) vs /\ pat_matches p (subst_items (p_req p) vs) = true.
Proof. exact built_path_matches. Qed.

(* requesting the built path dispatches to a route: this one, or one the selection rule (C01) ranks higher and
   that then also matches the built path *)
Theorem C15_dispatch : forall o rs m i r p vs,
  o_caching o = false -> Forall wf_sroute rs -> no_slash m -> nth_error rs i = Some r -> In m (s_methods r) ->
  s_pat r = Some p -> p_opts p = [] -> admissible (p_req p) vs -> rooted (subst_items (p_req p) vs) ->
  exists j, sel (fst (match_ (build o rs) m (subst_items (p_req p) vs))) = Some j.
Proof. exact built_path_dispatch. Qed.

(* the parameters reported for the built path are exactly the substituted values when the decomposition is unique
   (every variable slash-free and delimited by the end or by a literal starting with '/') *)
Theorem C15_values_back : forall p vs ps, pat_ok p -> NoDup (pat_names p) -> p_opts p = [] -> seg_shaped (p_req p) ->
  admissible (p_req p) vs -> pat_params p (subst_items (p_req p) vs) = Some ps ->
  forall i n, nth_error (pat_names p) i = Some n -> assoc n ps = Some (nth i vs []).
Proof. exact built_path_params_back. Qed.
Theorem C15_decomposition_unique : forall its s vs vs', seg_shaped its -> items_den its s vs -> items_den its s vs' -> vs = vs'.
Proof. exact decomposition_unique. Qed.
(* in general they are a valid decomposition of the built path (C02) *)
Theorem C15_params : forall p vs ps, pat_ok p -> NoDup (pat_names p) -> p_opts p = [] -> admissible (p_req p) vs ->
  pat_params p (subst_items (p_req p) vs) = Some ps ->
  exists vs', pat_den p (subst_items (p_req p) vs) vs' /\
    forall i n, nth_error (pat_names p) i = Some n -> assoc n ps = Some (nth i vs' []).
Proof. exact built_path_params. Qed.

(* GetRoute(name) is the route most recently registered under that name; other names are untouched *)
Theorem C15_get_route : forall rt d rt', reg_route rt d = Ok rt' -> df_name d <> [] ->
  assoc (df_name d) (named rt') = Some (List.length (routes rt)) /\
  nth_error (routes rt') (List.length (routes rt)) <> None.
Proof. exact get_route_most_recent. Qed.
Theorem C15_other_names_kept : forall rt d rt' n, reg_route rt d = Ok rt' -> n <> df_name d ->
  assoc n (named rt') = assoc n (named rt).
Proof. exact get_route_other_names_kept. Qed.

(* Route.NamedTo (any route, attached or not, named before or not): afterwards the name yields that route, every other
   name - the route's earlier names included - yields what it did, and the route tables are untouched *)
Theorem C15_named_to : forall rt n rid, trim_space n <> [] ->
  assoc (trim_space n) (named (named_to rt n rid)) = Some rid.
Proof. exact named_to_get. Qed.
Theorem C15_named_to_keeps : forall rt n rid m, m <> trim_space n ->
  assoc m (named (named_to rt n rid)) = assoc m (named rt).
Proof. exact named_to_other. Qed.

(* the string-level Build (one-pass replacement of the placeholder texts in the registered path, after repair F19) IS the
   substitution of the caller's values - for arbitrary values, braces and other placeholders' texts included - on every
   printable pattern without optional parts; hence the built path matches the pattern with exactly those values *)
Theorem C15_build_is_subst : forall p (vals : list str),
  ppat_wf p -> pp_opts p = [] -> NoDup (pnames (pp_req p)) -> List.length vals = List.length (vars (pp_req p)) ->
  build_path (show_ppat p) (combine (map (fun n => braces n) (pnames (pp_req p))) vals) (var_texts (show_ppat p))
  = subst_items (p_req (to_pat p)) vals.
Proof. exact build_path_is_subst. Qed.
Theorem C15_built_url_matches : forall p vals, ppat_wf p -> pp_opts p = [] -> NoDup (pnames (pp_req p)) ->
  admissible (p_req (to_pat p)) vals ->
  pat_den (to_pat p) (build_path (show_ppat p) (combine (map braces (pnames (pp_req p))) vals) (var_texts (show_ppat p))) vals.
Proof. exact built_url_den. Qed.

(* known finding K3 (not repaired): a trailing space is trimmed by lookup normalisation *)
Definition k3_path : str := [47;112;47;123;110;125]%N.           (* /p/{n} *)
Theorem C15_trailing_space_refuted :
  Norm.format_path false (build_path k3_path [([123;110;125]%N, [98;111;98;32]%N)] (var_texts k3_path)) = Ok [47;112;47;98;111;98]%N.
Proof. vm_compute. reflexivity. Qed.
Definition k4_path : str := [47;123;97;125;47;123;98;125]%N.     (* /{a}/{b} *)
(* repaired defect F19 (was K4): Build replaced the variables one after the other, scanning inserted values again:
   {a} := "{b}", {b} := "x" gave /x/x.  After the repair all variables are replaced in one pass: /{b}/x *)
Theorem C15_legacy_F19_refuted :
  build_path_legacy k4_path [([123;97;125]%N, [123;98;125]%N); ([123;98;125]%N, [120]%N)] (var_texts_legacy k4_path) = [47;120;47;120]%N.
Proof. vm_compute. reflexivity. Qed.
Theorem C15_brace_value_one_pass :
  build_path k4_path [([123;97;125]%N, [123;98;125]%N); ([123;98;125]%N, [120]%N)] (var_texts k4_path) = [47;123;98;125;47;120]%N.
Proof. vm_compute. reflexivity. Qed.

Print Assumptions C15_matches.
Print Assumptions C15_dispatch.
Print Assumptions C15_values_back.
Print Assumptions C15_decomposition_unique.
Print Assumptions C15_params.
Print Assumptions C15_get_route.
Print Assumptions C15_other_names_kept.
Print Assumptions C15_trailing_space_refuted.
Print Assumptions C15_legacy_F19_refuted.
Print Assumptions C15_brace_value_one_pass.
Print Assumptions C15_named_to.
Print Assumptions C15_named_to_keeps.
Print Assumptions C15_build_is_subst.
Print Assumptions C15_built_url_matches.
