(* C08 — Exactly one header commit per request, with the status set before the body.
   Property theorems only. *)
From Rux Require Import Base Str Chain Dispatch Table Sys SysHistory SysMore.
From Rux Require Import Base Writer WriterFacts.
Open Scope Z_scope.

(* For every sequence of writer operations of a request (status settings incl. non-positive codes,
   header settings, writes with arbitrary short-write scripts of the underlying writer, flushes,
   http.Error / Redirect helpers, snapshots) followed by the dispatcher's final commit, the
   underlying writer receives: one WriteHeader, first, carrying the last positive status set before
   the first write/flush (200 if none), then exactly the accepted bytes and flushes in order;
   Length() ends as the number of accepted bytes. *)
Theorem C08_log : forall sc ops,
  log (wrequest sc ops) = WH (spec_status 0 ops) :: spec_events sc ops /\
  length (wrequest sc ops) = Z.of_nat (List.length (body_of (spec_events sc ops))).
Proof. exact wrequest_log. Qed.

Theorem C08_one_commit : forall sc ops,
  count_wh (log (wrequest sc ops)) = 1%nat /\
  exists c rest, log (wrequest sc ops) = WH c :: rest /\ count_wh rest = 0%nat.
Proof. exact one_commit. Qed.

(* the committed status is the last positive status set up to and including the first committing op *)
Theorem C08_status : forall st ops,
  spec_status st ops = let s := last_positive st (upto_commit ops) in if s =? 0 then 200 else s.
Proof. exact spec_status_is_last_positive. Qed.

(* a request whose handlers write nothing still commits exactly once, with 200 *)
Theorem C08_empty : forall sc, log (wrequest sc []) = [WH 200].
Proof. exact no_writes_commit. Qed.

(* finding F08 (repaired by b48b56d): before the repair Flush did not commit the header *)
Theorem C08_legacy_F08_refuted :
  log (ensure (fold_left (wstep_gen false) [WFlush; WSetStatus 404; WWrite [120%N]] (winit []))) = [F; WH 404; W [120%N]].
Proof. exact legacy_flush_refuted. Qed.

(* end to end, through the whole router function (SysMore.v): EVERY request that sys_serve completes - any route table,
   any handler programs, with or without the OnPanic/OnError hooks, recovered panics included - commits the header
   exactly once and before anything else reaches the underlying writer *)
Theorem C08_end_to_end_one_commit : forall progs hooks s m p sc pooled x started,
  fst (sys_serve progs hooks s m p sc pooled) = Some (Done x started) ->
  count_wh (log (w x)) = 1%nat /\ exists c rest, log (w x) = WH c :: rest /\ count_wh rest = 0%nat.
Proof. exact sys_one_commit. Qed.

(* a request whose panic escapes (no OnPanic hook, or the hook panics too) has sent either nothing at all or a header
   first and no second header *)
Theorem C08_end_to_end_escaped : forall progs hooks s m p sc pooled pv x started,
  fst (sys_serve progs hooks s m p sc pooled) = Some (Escaped pv x started) ->
  (count_wh (log (w x)) <= 1)%nat /\
  ((length (w x) = -1 /\ log (w x) = []) \/
   (0 <= length (w x) /\ exists c rest, log (w x) = WH c :: rest /\ count_wh rest = 0%nat)).
Proof. exact sys_escaped_commit. Qed.

(* ... and so does every request of every history served by one router *)
Theorem C08_history_one_commit : forall progs hooks h s,
  Forall (fun r => match r with
                   | Some (Done x _) =>
                       count_wh (log (w x)) = 1%nat /\ exists c rest, log (w x) = WH c :: rest /\ count_wh rest = 0%nat
                   | Some (Escaped _ x _) => (count_wh (log (w x)) <= 1)%nat
                   | _ => True
                   end) (sys_outcomes progs hooks s h).
Proof. exact sys_outcomes_one_commit. Qed.

Print Assumptions C08_log.
Print Assumptions C08_one_commit.
Print Assumptions C08_status.
Print Assumptions C08_empty.
Print Assumptions C08_legacy_F08_refuted.
Print Assumptions C08_end_to_end_one_commit.
Print Assumptions C08_end_to_end_escaped.
Print Assumptions C08_history_one_commit.
