(* C08 — Exactly one header commit per request, with the status set before the body.
   Property theorems only. *)
From Rux Require Import Base Writer WriterFacts.
Open Scope Z_scope.

(* For every sequence of writer operations of a request (status settings incl. non-positive codes,
   header settings, writes with arbitrary short-write scripts of the underlying writer, flushes,
   http.Error / Redirect helpers, snapshots) followed by the dispatcher's final commit, the
   underlying writer receives: one WriteHeader, first, carrying the last positive status set before
   the first write/flush (200 if none), then exactly the accepted bytes and flushes in order;
   Length() ends as the number of accepted bytes. *)
Theorem C08_log : forall sc ops,
  log (wrequest sc ops) = WH (spec_status 0 ops) :: spec_events sc ops /\
  length (wrequest sc ops) = Z.of_nat (List.length (body_of (spec_events sc ops))).
Proof. exact wrequest_log. Qed.

Theorem C08_one_commit : forall sc ops,
  count_wh (log (wrequest sc ops)) = 1%nat /\
  exists c rest, log (wrequest sc ops) = WH c :: rest /\ count_wh rest = 0%nat.
Proof. exact one_commit. Qed.

(* the committed status is the last positive status set up to and including the first committing op *)
Theorem C08_status : forall st ops,
  spec_status st ops = let s := last_positive st (upto_commit ops) in if s =? 0 then 200 else s.
Proof. exact spec_status_is_last_positive. Qed.

(* a request whose handlers write nothing still commits exactly once, with 200 *)
Theorem C08_empty : forall sc, log (wrequest sc []) = [WH 200].
Proof. exact no_writes_commit. Qed.

(* finding F08 (repaired by b48b56d): before the repair Flush did not commit the header *)
Theorem C08_legacy_F08_refuted :
  log (ensure (fold_left (wstep_gen false) [WFlush; WSetStatus 404; WWrite [120%N]] (winit []))) = [F; WH 404; W [120%N]].
Proof. exact legacy_flush_refuted. Qed.

Print Assumptions C08_log.
Print Assumptions C08_one_commit.
Print Assumptions C08_status.
Print Assumptions C08_empty.
Print Assumptions C08_legacy_F08_refuted.
