(* C14 — The route cache is a bounded LRU map and repeats are served from it.
   Property theorems only; every proof is `exact <lemma>`; see CacheFacts.v / TableFacts.v. *)
From Rux Require Import Base Cache CacheFacts Table TableFacts.

Section C14.
Variable val : Type.

(* the implementation-shaped cache (recency list of nodes + hash index) produces, for every
   capacity and every history of Set/Get/Has/Delete/Len, exactly the observations (results and
   key order after each operation) of the recency list truncated to the capacity *)
Theorem C14_refines_spec : forall size (ops : list (cop val)),
  irun val (inew val size) ops = arun val size [] ops.
Proof. intros size ops. exact (irun_refines val ops (inew val size) (iinv_new val size)). Qed.

(* it never holds more entries than its capacity and never two entries for one key *)
Theorem C14_bound_nodup : forall cap (ops : list (cop val)),
  NoDup (akeys val (astates val cap [] ops)) /\ length (astates val cap [] ops) <= cap.
Proof. intros cap ops. exact (astates_inv val cap ops [] (ainv_nil val cap)). Qed.

(* a key just stored is the most recent *)
Theorem C14_set_mru : forall cap l k v, 1 <= cap -> ainv val cap l ->
  exists r, aset val cap l k v = (k, v) :: r.
Proof. exact (set_is_mru val). Qed.

(* a key just read is the most recent, its value is returned, nothing else moves *)
Theorem C14_get_mru : forall l k v, afind val k l = Some v ->
  aget val l k = ((k, v) :: aremove val k l, Some v).
Proof. exact (get_is_mru val). Qed.
Theorem C14_get_miss : forall l k, afind val k l = None -> aget val l k = (l, None).
Proof. exact (get_miss_unchanged val). Qed.

(* inserting a new key into a full cache evicts exactly the least recently used key *)
Theorem C14_evict_lru : forall cap l k v, length l = cap -> 1 <= cap -> afind val k l = None ->
  aset val cap l k v = (k, v) :: removelast l.
Proof. exact (set_new_full_evicts_lru val). Qed.
Theorem C14_no_evict_when_room : forall cap l k v, length l < cap -> afind val k l = None ->
  aset val cap l k v = (k, v) :: l.
Proof. exact (set_new_room_keeps_all val). Qed.

(* storing an existing key replaces its value (and nothing else) *)
Theorem C14_replace : forall cap l k v v0, afind val k l = Some v0 ->
  aset val cap l k v = (k, v) :: aremove val k l.
Proof. exact (set_existing_replaces val). Qed.

(* deleting removes only that key *)
Theorem C14_delete_only : forall l k v, afind val k l = Some v -> adel val l k = (aremove val k l, true).
Proof. exact (del_only_that_key val). Qed.
Theorem C14_delete_absent : forall l k, afind val k l = None -> adel val l k = (l, false).
Proof. exact (del_absent val). Qed.
Theorem C14_remove_other_untouched : forall k k' l, k <> k' ->
  afind val k' (aremove val k l) = afind val k' l.
Proof. exact (afind_aremove_other val). Qed.

(* a value stored with capacity >= 1 is read back *)
Theorem C14_set_then_get : forall cap l k v, 1 <= cap -> ainv val cap l ->
  afind val k (aset val cap l k v) = Some v.
Proof. exact (after_set_get val). Qed.
End C14.

(* the router: after a request has been resolved dynamically with caching enabled (capacity >= 1), the entry for
   exactly that method and path is the most recent one, so an immediate repeat is answered from the cache *)
Theorem C14_router_key : forall rt m path rid ps,
  o_caching (ropts rt) = true -> 1 <= o_cap (ropts rt) -> ainv (nat * params) (o_cap (ropts rt)) (cache rt) ->
  assoc (m ++ path) (stable rt) = None ->
  fst (match_ rt m path) = LHit rid (Some ps) ->
  exists rest, cache (snd (match_ rt m path)) = (m ++ path, (rid, ps)) :: rest.
Proof. exact dynamic_match_cached. Qed.

Print Assumptions C14_refines_spec.
Print Assumptions C14_router_key.
Print Assumptions C14_bound_nodup.
Print Assumptions C14_set_mru.
Print Assumptions C14_get_mru.
Print Assumptions C14_get_miss.
Print Assumptions C14_evict_lru.
Print Assumptions C14_no_evict_when_room.
Print Assumptions C14_replace.
Print Assumptions C14_delete_only.
Print Assumptions C14_delete_absent.
Print Assumptions C14_remove_other_untouched.
Print Assumptions C14_set_then_get.
