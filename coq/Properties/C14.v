(* C14 — The route cache is a bounded LRU map and repeats are served from it.
   Property theorems only; every proof is `exact <lemma>`; see CacheFacts.v / TableFacts.v. *)
From Rux Require Import Base Str Consts Norm Pattern Pat Cache Table PatTable SelectFacts TableLink Sys SysHistory SysMore SysEnd.
From Rux Require Import Base Cache CacheFacts Table TableFacts.

Section C14.
Variable val : Type.

(* the implementation-shaped cache (recency list of nodes + hash index) produces, for every
   capacity and every history of Set/Get/Has/Delete/Len, exactly the observations (results and
   key order after each operation) of the recency list truncated to the capacity *)
Theorem C14_refines_spec : forall size (ops : list (cop val)),
  irun val (inew val size) ops = arun val size [] ops.
Proof. intros size ops. exact (irun_refines val ops (inew val size) (iinv_new val size)). Qed.

(* it never holds more entries than its capacity and never two entries for one key *)
Theorem C14_bound_nodup : forall cap (ops : list (cop val)),
  NoDup (akeys val (astates val cap [] ops)) /\ length (astates val cap [] ops) <= cap.
Proof. intros cap ops. exact (astates_inv val cap ops [] (ainv_nil val cap)). Qed.

(* a key just stored is the most recent *)
Theorem C14_set_mru : forall cap l k v, 1 <= cap -> ainv val cap l ->
  exists r, aset val cap l k v = (k, v) :: r.
Proof. exact (set_is_mru val). Qed.

(* a key just read is the most recent, its value is returned, nothing else moves *)
Theorem C14_get_mru : forall l k v, afind val k l = Some v ->
  aget val l k = ((k, v) :: aremove val k l, Some v).
Proof. exact (get_is_mru val). Qed.
Theorem C14_get_miss : forall l k, afind val k l = None -> aget val l k = (l, None).
Proof. exact (get_miss_unchanged val). Qed.

(* inserting a new key into a full cache evicts exactly the least recently used key *)
Theorem C14_evict_lru : forall cap l k v, length l = cap -> 1 <= cap -> afind val k l = None ->
  aset val cap l k v = (k, v) :: removelast l.
Proof. exact (set_new_full_evicts_lru val). Qed.
Theorem C14_no_evict_when_room : forall cap l k v, length l < cap -> afind val k l = None ->
  aset val cap l k v = (k, v) :: l.
Proof. exact (set_new_room_keeps_all val). Qed.

(* storing an existing key replaces its value (and nothing else) *)
Theorem C14_replace : forall cap l k v v0, afind val k l = Some v0 ->
  aset val cap l k v = (k, v) :: aremove val k l.
Proof. exact (set_existing_replaces val). Qed.

(* deleting removes only that key *)
Theorem C14_delete_only : forall l k v, afind val k l = Some v -> adel val l k = (aremove val k l, true).
Proof. exact (del_only_that_key val). Qed.
Theorem C14_delete_absent : forall l k, afind val k l = None -> adel val l k = (l, false).
Proof. exact (del_absent val). Qed.
Theorem C14_remove_other_untouched : forall k k' l, k <> k' ->
  afind val k' (aremove val k l) = afind val k' l.
Proof. exact (afind_aremove_other val). Qed.

(* a value stored with capacity >= 1 is read back *)
Theorem C14_set_then_get : forall cap l k v, 1 <= cap -> ainv val cap l ->
  afind val k (aset val cap l k v) = Some v.
Proof. exact (after_set_get val). Qed.
End C14.

(* the router: after a request has been resolved dynamically with caching enabled (capacity >= 1), the entry for
   exactly that method and path is the most recent one, so an immediate repeat is answered from the cache *)
Theorem C14_router_key : forall rt m path rid ps,
  o_caching (ropts rt) = true -> 1 <= o_cap (ropts rt) -> ainv (nat * params) (o_cap (ropts rt)) (cache rt) ->
  assoc (m ++ path) (stable rt) = None ->
  fst (match_ rt m path) = LHit rid (Some ps) ->
  exists rest, cache (snd (match_ rt m path)) = (m ++ path, (rid, ps)) :: rest.
Proof. exact dynamic_match_cached. Qed.

(* end to end (SysEnd.v): on a router built by ANY registration program, with caching on and capacity >= 1, after any
   history: a request whose lookup is answered by a dynamic route leaves the key of the lookup that hit - method ++
   normalised path; GET ++ path for a HEAD request answered by the GET route - as the most recent key of the cache, with
   its route and parameters, and the cache within its bounds *)
Theorem C14_end_to_end_key : forall progs hooks o ss s h m p path i ps sc pooled,
  sys_build o ss = Ok s -> o_intercept o = [] -> format_path (o_strict o) p = Ok path ->
  o_caching o = true -> 1 <= o_cap o ->
  let s' := sys_run progs hooks s h in
  fst (quick_match (s_rt s') m p) = QFound i (Some ps) ->
  let c := cache (s_rt (snd (sys_serve progs hooks s' m p sc pooled))) in
  (exists m' rest,
     ((m' = m /\ fst (match_ (s_rt s') m path) = LHit i (Some ps)) \/
      (m' = GET /\ m = HEAD /\ fst (match_ (s_rt s') m path) = LNone)) /\
     c = (m' ++ path, (i, ps)) :: rest /\ akeys (nat * params) c = (m' ++ path) :: akeys (nat * params) rest) /\
  NoDup (akeys (nat * params) c) /\ List.length c <= o_cap o.
Proof. exact sys_cache_key_gen. Qed.

(* for printable programs the key is determined by the table *)
Theorem C14_end_to_end_key_table : forall progs hooks o ss s es h m p path i ps sc pooled,
  sys_build o ss = Ok s -> table_of es s -> o_intercept o = [] ->
  hist_no_slash h -> no_slash m -> format_path (o_strict o) p = Ok path ->
  o_caching o = true -> 1 <= o_cap o ->
  let s' := sys_run progs hooks s h in
  fst (quick_match (s_rt s') m p) = QFound i (Some ps) ->
  let c := cache (s_rt (snd (sys_serve progs hooks s' m p sc pooled))) in
  let key := match spec_select (map entry_sroute es) m path with Some _ => m ++ path | None => GET ++ path end in
  (exists rest, c = (key, (i, ps)) :: rest) /\
  (exists rest, akeys (nat * params) c = key :: rest) /\
  NoDup (akeys (nat * params) c) /\ List.length c <= o_cap o.
Proof. exact sys_cache_key. Qed.

Print Assumptions C14_refines_spec.
Print Assumptions C14_router_key.
Print Assumptions C14_bound_nodup.
Print Assumptions C14_set_mru.
Print Assumptions C14_get_mru.
Print Assumptions C14_get_miss.
Print Assumptions C14_evict_lru.
Print Assumptions C14_no_evict_when_room.
Print Assumptions C14_replace.
Print Assumptions C14_delete_only.
Print Assumptions C14_delete_absent.
Print Assumptions C14_remove_other_untouched.
Print Assumptions C14_set_then_get.
Print Assumptions C14_end_to_end_key.
Print Assumptions C14_end_to_end_key_table.
