(* C16 — Resource registers exactly the documented REST table for the controller. Property theorems only. *)
From Coq Require Import Permutation.
From Rux Require Import Base Str Consts Norm NormFacts Reg RegFacts Rest RestFacts Pattern Pat Cache Table TableFacts PatTable SelectFacts RoundTrip TableLink Sys RestLookup.
From Rux Require Import RoundTrip RestOrder.

(* For every subset of the seven actions, visited in ANY order (Go iterates a map), every per-action middleware
   map and base path: Resource registers exactly one route per implemented action — documented methods and name,
   that action's middleware only — under prefix ++ action path, and nothing else *)
Theorem C16_table : forall strict base res acts uses st',
  exec_block strict (resource_stmts base res acts uses) rinit = Ok st' ->
  r_routes st' = map (fun a => {| r_methods := action_methods a;
                                  r_path := nf strict (nf strict (base ++ res) ++ nf strict (action_path a));
                                  r_handlers := uses a; r_main := action_id a; r_name := route_name res a |}) acts.
Proof. exact resource_routes. Qed.

(* registration order only permutes the table *)
Theorem C16_order_independent : forall strict base res acts acts' uses st1 st2,
  Permutation acts acts' ->
  exec_block strict (resource_stmts base res acts uses) rinit = Ok st1 ->
  exec_block strict (resource_stmts base res acts' uses) rinit = Ok st2 ->
  Permutation (r_routes st1) (r_routes st2).
Proof. exact resource_order_independent. Qed.

(* the paths are the documented ones for every clean prefix: /res, /res/create, /res/{id}, /res/{id}/edit *)
Theorem C16_documented_paths : forall G a, clean G ->
  nf false (G ++ nf false (action_path a)) = documented_path G a.
Proof. exact documented_paths. Qed.

Theorem C16_accepted : forall strict base res acts uses, (forall a, List.length (uses a) < 63) ->
  exists st', exec_block strict (resource_stmts base res acts uses) rinit = Ok st'.
Proof. exact resource_accepted. Qed.

(* a non-pointer or non-struct controller is rejected *)
Theorem C16_guard : resource_guard false true = Panic /\ resource_guard true false = Panic /\ resource_guard true true = Ok tt.
Proof. exact resource_guard_rejects. Qed.

(* ---------- lookups on the registered table (RestLookup.v) ---------- *)
(* the router built from the pattern TEXTS Resource registers (string-level model), for any printable prefix G: a request
   is served by action a exactly when a is implemented, allows the method and the path has a's documented shape - with the
   single exception that GET G/create is served by Create and NEVER by Show when Create is implemented; {id} is any
   non-empty segment without '/' *)
Theorem C16_lookup_table : forall o G acts rt m path d a,
  rest_prefix G = true -> o_caching o = false -> no_slash m -> rooted path ->
  reg_routes (new_router o) (map (fun a => entry_rdef (res_entry G a)) acts) = Ok rt ->
  (option_map (fun i => nth i acts d) (sel (fst (match_ rt m path))) = Some a <->
   In a acts /\ serves G a m path /\ ~ (a = AShow /\ In ACreate acts /\ path = G ++ create_seg)).
Proof. exact rest_lookup_table_string. Qed.
Theorem C16_create_never_show : forall o G acts rt d,
  rest_prefix G = true -> o_caching o = false -> In ACreate acts ->
  reg_routes (new_router o) (map (fun a => entry_rdef (res_entry G a)) acts) = Ok rt ->
  option_map (fun i => nth i acts d) (sel (fst (match_ rt GET (G ++ create_seg)))) = Some ACreate.
Proof. exact RestLookup.create_never_show_string. Qed.
(* the action that serves a request does not depend on the order in which Go's map iteration registered the table *)
Theorem C16_lookup_order_independent : forall o G acts acts' rt rt' m path d,
  rest_prefix G = true -> Permutation acts acts' -> o_caching o = false -> no_slash m -> rooted path ->
  reg_routes (new_router o) (map (fun a => entry_rdef (res_entry G a)) acts) = Ok rt ->
  reg_routes (new_router o) (map (fun a => entry_rdef (res_entry G a)) acts') = Ok rt' ->
  option_map (fun i => nth i acts d) (sel (fst (match_ rt m path))) =
  option_map (fun i => nth i acts' d) (sel (fst (match_ rt' m path))).
Proof. exact rest_lookup_order_independent_string. Qed.
(* and these entries are what Resource registers (resource_stmts run through the registration model) *)
Theorem C16_lookup_order_independent_resource : forall o base res acts acts' uses st1 st2 G rt rt' m path d,
  G = nf false (base ++ res) -> clean G -> rest_prefix G = true -> Permutation acts acts' ->
  o_caching o = false -> no_slash m -> rooted path ->
  exec_block false (resource_stmts base res acts uses) rinit = Ok st1 ->
  exec_block false (resource_stmts base res acts' uses) rinit = Ok st2 ->
  reg_routes (new_router o) (map rdef_of (r_routes st1)) = Ok rt ->
  reg_routes (new_router o) (map rdef_of (r_routes st2)) = Ok rt' ->
  option_map (fun i => nth i acts d) (sel (fst (match_ rt m path))) =
  option_map (fun i => nth i acts' d) (sel (fst (match_ rt' m path))).
Proof. exact resource_lookup_order_independent. Qed.

(* F22 (repaired by 0671502): base paths with path variables (a nested resource). All routes of the resource are dynamic then,
   the first registered matching route wins, and Resource now registers the implemented actions in the canonical order
   (Index, Create, Store, Show, ...). For every printable pattern prefix Gp and every set of implemented actions with
   Create: GET of an instance of Gp/create is NEVER handled by Show ... *)
Theorem C16_create_never_show_dynamic : forall o Gp impl rt path,
  o_caching o = false -> impl ACreate = true ->
  Forall wf_entry (map (pres_entry Gp) (canonical impl)) ->
  reg_routes (new_router o) (map (fun a => entry_rdef (pres_entry Gp a)) (canonical impl)) = Ok rt ->
  pat_matches (to_pat (action_ppat Gp ACreate)) path = true ->
  forall i, sel (fst (match_ rt GET path)) = Some i -> nth_error (canonical impl) i <> Some AShow.
Proof. exact RestOrder.create_never_show_string. Qed.
(* ... and when the variables of the prefix are default ones ({name}: they match no '/'), it is handled by Create (with a
   variable that spans '/', such as {all}, the Index route may match the same path first: it is registered before Create) *)
Theorem C16_create_selected_dynamic : forall o Gp impl rt path,
  o_caching o = false -> impl ACreate = true -> pres_prefix Gp = true -> default_vars Gp = true ->
  reg_routes (new_router o) (map (fun a => entry_rdef (pres_entry Gp a)) (canonical impl)) = Ok rt ->
  pat_matches (to_pat (action_ppat Gp ACreate)) path = true ->
  sel (fst (match_ rt GET path)) = Some (create_pos impl) /\ nth_error (canonical impl) (create_pos impl) = Some ACreate.
Proof. exact create_selected_default. Qed.
(* the same through the registration model of Resource *)
Theorem C16_resource_create_before_show : forall o base res impl uses st' Gp rt path,
  show_items Gp = nf false (base ++ res) -> clean (show_items Gp) ->
  pres_prefix Gp = true -> seg_vars Gp -> o_caching o = false -> impl ACreate = true ->
  exec_block false (resource_stmts base res (canonical impl) uses) rinit = Ok st' ->
  reg_routes (new_router o) (map rdef_of (r_routes st')) = Ok rt ->
  pat_matches (to_pat (action_ppat Gp ACreate)) path = true ->
  option_map (fun i => nth i (canonical impl) AIndex) (sel (fst (match_ rt GET path))) = Some ACreate.
Proof. exact resource_create_before_show. Qed.
(* before the repair (map iteration order): with Show registered before Create, GET /users/7/posts/create is handled by Show
   with id = "create" *)
Theorem C16_legacy_F22_refuted : exists Gp acts rt path,
  pres_prefix Gp = true /\ default_vars Gp = true /\ Permutation acts (canonical (fun _ => true)) /\
  reg_routes (new_router default_opts) (map (fun a => entry_rdef (pres_entry Gp a)) acts) = Ok rt /\
  pat_matches (to_pat (action_ppat Gp ACreate)) path = true /\
  option_map (fun i => nth i acts AIndex) (sel (fst (match_ rt GET path))) = Some AShow /\
  fst (match_ rt GET path) = LHit 0 (Some [([117; 105; 100]%N, [55]%N); (id_name, to_lower (action_name ACreate))]).
Proof. exact create_before_show_legacy_refuted. Qed.

Print Assumptions C16_table.
Print Assumptions C16_order_independent.
Print Assumptions C16_documented_paths.
Print Assumptions C16_accepted.
Print Assumptions C16_guard.
Print Assumptions C16_lookup_table.
Print Assumptions C16_create_never_show.
Print Assumptions C16_lookup_order_independent.
Print Assumptions C16_lookup_order_independent_resource.
Print Assumptions C16_create_never_show_dynamic.
Print Assumptions C16_create_selected_dynamic.
Print Assumptions C16_resource_create_before_show.
Print Assumptions C16_legacy_F22_refuted.
