(* C16 — Resource registers exactly the documented REST table for the controller. Property theorems only. *)
From Coq Require Import Permutation.
From Rux Require Import Base Str Consts Norm NormFacts Reg RegFacts Rest RestFacts Pattern Pat Cache Table TableFacts PatTable SelectFacts RoundTrip TableLink Sys RestLookup.

(* For every subset of the seven actions, visited in ANY order (Go iterates a map), every per-action middleware
   map and base path: Resource registers exactly one route per implemented action — documented methods and name,
   that action's middleware only — under prefix ++ action path, and nothing else *)
Theorem C16_table : forall strict base res acts uses st',
  exec_block strict (resource_stmts base res acts uses) rinit = Ok st' ->
  r_routes st' = map (fun a => {| r_methods := action_methods a;
                                  r_path := nf strict (nf strict (base ++ res) ++ nf strict (action_path a));
                                  r_handlers := uses a; r_main := action_id a; r_name := route_name res a |}) acts.
Proof. exact resource_routes. Qed.

(* registration order only permutes the table *)
Theorem C16_order_independent : forall strict base res acts acts' uses st1 st2,
  Permutation acts acts' ->
  exec_block strict (resource_stmts base res acts uses) rinit = Ok st1 ->
  exec_block strict (resource_stmts base res acts' uses) rinit = Ok st2 ->
  Permutation (r_routes st1) (r_routes st2).
Proof. exact resource_order_independent. Qed.

(* the paths are the documented ones for every clean prefix: /res, /res/create, /res/{id}, /res/{id}/edit *)
Theorem C16_documented_paths : forall G a, clean G ->
  nf false (G ++ nf false (action_path a)) = documented_path G a.
Proof. exact documented_paths. Qed.

Theorem C16_accepted : forall strict base res acts uses, (forall a, List.length (uses a) < 63) ->
  exists st', exec_block strict (resource_stmts base res acts uses) rinit = Ok st'.
Proof. exact resource_accepted. Qed.

(* a non-pointer or non-struct controller is rejected *)
Theorem C16_guard : resource_guard false true = Panic /\ resource_guard true false = Panic /\ resource_guard true true = Ok tt.
Proof. exact resource_guard_rejects. Qed.

(* ---------- lookups on the registered table (RestLookup.v) ---------- *)
(* the router built from the pattern TEXTS Resource registers (string-level model), for any printable prefix G: a request
   is served by action a exactly when a is implemented, allows the method and the path has a's documented shape - with the
   single exception that GET G/create is served by Create and NEVER by Show when Create is implemented; {id} is any
   non-empty segment without '/' *)
Theorem C16_lookup_table : forall o G acts rt m path d a,
  rest_prefix G = true -> o_caching o = false -> no_slash m -> rooted path ->
  reg_routes (new_router o) (map (fun a => entry_rdef (res_entry G a)) acts) = Ok rt ->
  (option_map (fun i => nth i acts d) (sel (fst (match_ rt m path))) = Some a <->
   In a acts /\ serves G a m path /\ ~ (a = AShow /\ In ACreate acts /\ path = G ++ create_seg)).
Proof. exact rest_lookup_table_string. Qed.
Theorem C16_create_never_show : forall o G acts rt d,
  rest_prefix G = true -> o_caching o = false -> In ACreate acts ->
  reg_routes (new_router o) (map (fun a => entry_rdef (res_entry G a)) acts) = Ok rt ->
  option_map (fun i => nth i acts d) (sel (fst (match_ rt GET (G ++ create_seg)))) = Some ACreate.
Proof. exact create_never_show_string. Qed.
(* the action that serves a request does not depend on the order in which Go's map iteration registered the table *)
Theorem C16_lookup_order_independent : forall o G acts acts' rt rt' m path d,
  rest_prefix G = true -> Permutation acts acts' -> o_caching o = false -> no_slash m -> rooted path ->
  reg_routes (new_router o) (map (fun a => entry_rdef (res_entry G a)) acts) = Ok rt ->
  reg_routes (new_router o) (map (fun a => entry_rdef (res_entry G a)) acts') = Ok rt' ->
  option_map (fun i => nth i acts d) (sel (fst (match_ rt m path))) =
  option_map (fun i => nth i acts' d) (sel (fst (match_ rt' m path))).
Proof. exact rest_lookup_order_independent_string. Qed.
(* and these entries are what Resource registers (resource_stmts run through the registration model) *)
Theorem C16_lookup_order_independent_resource : forall o base res acts acts' uses st1 st2 G rt rt' m path d,
  G = nf false (base ++ res) -> clean G -> rest_prefix G = true -> Permutation acts acts' ->
  o_caching o = false -> no_slash m -> rooted path ->
  exec_block false (resource_stmts base res acts uses) rinit = Ok st1 ->
  exec_block false (resource_stmts base res acts' uses) rinit = Ok st2 ->
  reg_routes (new_router o) (map rdef_of (r_routes st1)) = Ok rt ->
  reg_routes (new_router o) (map rdef_of (r_routes st2)) = Ok rt' ->
  option_map (fun i => nth i acts d) (sel (fst (match_ rt m path))) =
  option_map (fun i => nth i acts' d) (sel (fst (match_ rt' m path))).
Proof. exact resource_lookup_order_independent. Qed.

Print Assumptions C16_table.
Print Assumptions C16_order_independent.
Print Assumptions C16_documented_paths.
Print Assumptions C16_accepted.
Print Assumptions C16_guard.
Print Assumptions C16_lookup_table.
Print Assumptions C16_create_never_show.
Print Assumptions C16_lookup_order_independent.
Print Assumptions C16_lookup_order_independent_resource.
