(* C16 — Resource registers exactly the documented REST table for the controller. Property theorems only. *)
From Coq Require Import Permutation.
From Rux Require Import Base Str Consts Norm NormFacts Reg RegFacts Rest RestFacts.

(* For every subset of the seven actions, visited in ANY order (Go iterates a map), every per-action middleware
   map and base path: Resource registers exactly one route per implemented action — documented methods and name,
   that action's middleware only — under prefix ++ action path, and nothing else *)
Theorem C16_table : forall strict base res acts uses st',
  exec_block strict (resource_stmts base res acts uses) rinit = Ok st' ->
  r_routes st' = map (fun a => {| r_methods := action_methods a;
                                  r_path := nf strict (nf strict (base ++ res) ++ nf strict (action_path a));
                                  r_handlers := uses a; r_main := action_id a; r_name := route_name res a |}) acts.
Proof. exact resource_routes. Qed.

(* registration order only permutes the table *)
Theorem C16_order_independent : forall strict base res acts acts' uses st1 st2,
  Permutation acts acts' ->
  exec_block strict (resource_stmts base res acts uses) rinit = Ok st1 ->
  exec_block strict (resource_stmts base res acts' uses) rinit = Ok st2 ->
  Permutation (r_routes st1) (r_routes st2).
Proof. exact resource_order_independent. Qed.

(* the paths are the documented ones for every clean prefix: /res, /res/create, /res/{id}, /res/{id}/edit *)
Theorem C16_documented_paths : forall G a, clean G ->
  nf false (G ++ nf false (action_path a)) = documented_path G a.
Proof. exact documented_paths. Qed.

Theorem C16_accepted : forall strict base res acts uses, (forall a, List.length (uses a) < 63) ->
  exists st', exec_block strict (resource_stmts base res acts uses) rinit = Ok st'.
Proof. exact resource_accepted. Qed.

(* a non-pointer or non-struct controller is rejected *)
Theorem C16_guard : resource_guard false true = Panic /\ resource_guard true false = Panic /\ resource_guard true true = Ok tt.
Proof. exact resource_guard_rejects. Qed.

Print Assumptions C16_table.
Print Assumptions C16_order_independent.
Print Assumptions C16_documented_paths.
Print Assumptions C16_accepted.
Print Assumptions C16_guard.
