(* C03 — Concurrent requests are independent of each other and race-free. Property theorems only.
   PARTIAL: theorems over interleaving models of the shared parts (route cache, handler slices, context pool,
   access footprints); the Go memory model, sync.Pool and sync.RWMutex themselves are not modelled. *)
From Rux Require Import Base Str Pattern Cache Table TableFacts Conc ConcFacts.
From Rux Require Import CopyCtx.

(* (A) For every router with a coherent cache (fresh routers are), every family of request threads and EVERY schedule of
   their atomic cache actions (Get; later, after the pure dynamic match, Set; other threads in between): the cache stays
   coherent and what each thread has answered so far is exactly what it answers alone on the cache-free router *)
Theorem C03_lookups_independent : forall rt qss sched,
  coherent rt -> (forall qs m p, In qs qss -> In (m, p) qs -> no_slash m /\ rooted p) ->
  let '(rt', ts') := run_sched rt (map mk_thread qss) sched in
  coherent rt' /\
  forall i t qs, nth_error ts' i = Some t -> nth_error qss i = Some qs ->
    exists done, qs = done ++ pending t /\ results t = solo_results (nocache rt) done.
Proof. exact lookups_independent. Qed.
Theorem C03_finished_thread_solo : forall rt qss sched i t qs,
  coherent rt -> (forall qs m p, In qs qss -> In (m, p) qs -> no_slash m /\ rooted p) ->
  nth_error (snd (run_sched rt (map mk_thread qss) sched)) i = Some t -> nth_error qss i = Some qs -> pending t = [] ->
  results t = solo_results (nocache rt) qs.
Proof. exact finished_thread_solo. Qed.

(* (B) handler chains: on the slice memory model (append writes into shared spare capacity), with the fresh-slice
   assembly of the current code, for every schedule, growth policy and globals slice (also one with spare capacity)
   a finished request ran exactly globals ++ its route middleware ++ its main handler *)
Theorem C03_chains_independent : forall grow globals h rs sched i r,
  s_arr globals < List.length h -> (forall r0, In r0 rs -> c_chain r0 = None) ->
  nth_error (snd (run_creqs true grow globals h rs sched)) i = Some r -> creq_done r = true ->
  exists r0, nth_error rs i = Some r0 /\ c_ran r = slice_elems h globals ++ c_route r0 ++ [c_main r0].
Proof. exact fixed_chains_independent. Qed.

(* (C) the context pool never holds a context twice nor one that is in use, as long as every put releases a context
   that is in use (ServeHTTP puts exactly once) *)
Theorem C03_pool : forall ops s, pool_inv s ->
  (fix ok (s : pool_state) (l : list pool_op) : Prop := match l with [] => True | o :: r => put_ok s o /\ ok (pool_step s o) r end) s ops ->
  pool_inv (fold_left pool_step ops s).
Proof. exact pool_run_inv. Qed.

(* (D) no two accesses of different requests conflict, except under the exclusive cache lock *)
Theorem C03_race_free : forall t u, t <> u ->
  forall a b, In a (request_accesses t) -> In b (request_accesses u) -> races a b = false.
Proof. exact requests_race_free. Qed.

(* findings F11, F12, F13, F16 (all repaired): witnesses against the models of the old code *)
Theorem C03_legacy_chain_aliasing_refuted :
  let h := [[1; 2; 3; 0]] in let globals := {| s_arr := 0; s_len := 3; s_cap := 4 |} in
  let rs := [mk_creq [] 10; mk_creq [] 20] in
  c_ran (nth 0 (snd (run_creqs false 0 globals h rs [0; 1; 0; 0; 0; 0])) (mk_creq [] 0)) = [1; 2; 3; 20].
Proof. exact legacy_chain_aliasing_refuted. Qed.
Theorem C03_legacy_get_race_refuted : exists a b, In a acc_cache_get_legacy /\ In b acc_cache_get_legacy /\ races a b = true.
Proof. exact legacy_get_race_refuted. Qed.
Theorem C03_legacy_assemble_race_refuted : exists a b, In a (acc_assemble_legacy 0) /\ In b (acc_assemble_legacy 1) /\ races a b = true.
Proof. exact legacy_assemble_race_refuted. Qed.
Theorem C03_legacy_double_put_refuted :
  let s := fold_left pool_step [PGet None; PPut 0; PPut 0; PGet (Some 0); PGet (Some 0)] {| pooled := []; in_use := []; next_ctx := 0 |} in
  in_use s = [0; 0].
Proof. exact legacy_double_put_refuted. Qed.

(* F23 (repaired by 26ba90b): a context copied for a goroutine that outlives its request keeps its own errors - on the slice
   heap, for every growth policy and every later sequence of Reset / AddError on the pooled context (which reuses the
   backing array of its Errors slice for the following requests), the copy still reads the errors it was taken with *)
Theorem C03_copy_keeps_errors : forall (g : nat) (gp : slice -> nat) (h : heap) (e : slice) (ops : list pool_ctx_op),
  slice_elems (fst (run_pool_ctx gp ops (fst (copy_ctx true g h e), e))) (snd (copy_ctx true g h e)) = slice_elems h e.
Proof. exact copy_keeps_errors_fixed'. Qed.
(* before the repair the copy shared the backing array: error 7 recorded, copy, Reset, AddError 9 - the copy reads 9 *)
Theorem C03_legacy_F23_refuted : exists g gp h e ops,
  let '(h1, cp) := copy_ctx false g h e in
  let '(h', e') := run_pool_ctx gp ops (h1, e) in
  slice_elems h e = [7] /\ slice_elems h' cp = [9].
Proof. exact copy_keeps_errors_legacy_refuted. Qed.

Print Assumptions C03_lookups_independent.
Print Assumptions C03_finished_thread_solo.
Print Assumptions C03_chains_independent.
Print Assumptions C03_pool.
Print Assumptions C03_race_free.
Print Assumptions C03_legacy_chain_aliasing_refuted.
Print Assumptions C03_legacy_get_race_refuted.
Print Assumptions C03_legacy_assemble_race_refuted.
Print Assumptions C03_legacy_double_put_refuted.
Print Assumptions C03_copy_keeps_errors.
Print Assumptions C03_legacy_F23_refuted.
