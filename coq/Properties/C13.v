(* C13 — Bad route definitions fail at registration; accepted ones never panic at lookup. Property theorems only. *)
From Rux Require Import Base Str Norm Table PatTable TableLink Sys SysFacts SysHistory SysMore SysEnd.
From Rux Require Import Options.
From Rux Require Import Base Str Norm NormFacts Consts Rx RxParse Pattern Cache Table TableFacts Reg RegFacts.

(* rejected classes *)
Theorem C13_rejects_nil_handler : forall rt d, df_nil_handler d = true -> reg_route rt d = Panic.
Proof. exact reject_nil_handler. Qed.
Theorem C13_rejects_no_method : forall rt d, df_methods d = [] -> reg_route rt d = Panic.
Proof. exact reject_no_method. Qed.
Theorem C13_rejects_unknown_method : forall rt d m, In m (df_methods d) -> mem m any_methods = false -> reg_route rt d = Panic.
Proof. exact reject_unknown_method. Qed.
Theorem C13_rejects_options_after_routes : forall rt o, 0 < counter rt -> with_options rt o = Panic.
Proof. exact reject_options_after_routes. Qed.
Theorem C13_rejects_too_many_handlers : forall strict meths P main var later name st st',
  exec_route strict meths P main var later name st = Ok st' -> List.length (g_handlers st ++ var ++ later) < 63.
Proof. exact route_limit. Qed.
(* an uncompilable expression, or one whose number of capturing groups differs from the number of variables
   (a capturing group inside a variable regex or in the literal text), is rejected *)
Theorem C13_rejects_bad_regex : forall d, parse_rx (d_retext d) = PReject -> Nat.odd (trailing_bsl (d_retext d)) = false ->
  compile_re d = Panic.
Proof. intros d H1 H2. unfold compile_re, compile_re_gen. rewrite H2, H1. reflexivity. Qed.
Theorem C13_rejects_capturing_group : forall d r g, parse_rx (d_retext d) = POk (r, g) ->
  Nat.odd (trailing_bsl (d_retext d)) = false -> g <> List.length (d_names d) -> compile_re d = Panic.
Proof.
  intros d r g H1 H2 H3. unfold compile_re, compile_re_gen. rewrite H2, H1. cbn [negb orb].
  destruct (Nat.eqb_spec g (List.length (d_names d))); [contradiction|reflexivity].
Qed.
(* an optional part that is not at the end *)
Theorem C13_rejects_optional_not_at_end : forall path,
  (List.length path - List.length (de (fun c => N.eqb c rbrack) path))%nat <> count_ch lbrack (de (fun c => N.eqb c rbrack) path) ->
  check_optional path = Panic.
Proof.
  intros path H. unfold check_optional.
  destruct (Nat.eqb_spec (List.length path - List.length (de (fun c => N.eqb c rbrack) path))
                         (count_ch lbrack (de (fun c => N.eqb c rbrack) path))); [contradiction|reflexivity].
Qed.

(* every router reachable by accepted registrations is well formed ... *)
Theorem C13_wf_initial : forall o, wf_router (new_router o).
Proof. exact wf_new. Qed.
Theorem C13_wf_preserved : forall rt d rt', wf_router rt -> reg_route rt d = Ok rt' -> wf_router rt'.
Proof. exact wf_reg_route. Qed.
(* ... and on a well-formed router no method string and no path string (empty, white space, anything) makes the
   lookup panic, with any option combination, including caching on a router without routes *)
Theorem C13_total_lookup : forall rt m p, wf_router rt ->
  fst (quick_match rt m p) <> QPanic /\ wf_router (snd (quick_match rt m p)).
Proof. exact quick_match_no_panic. Qed.

(* finding F05 (repaired by 7fcc5b4): without the group-count check, /u/{id:(?:a)(b)} is accepted and a matching
   lookup indexes past the variable names *)
Definition f05_dyn : dyn := {| d_start := []; d_first := [117]%N; d_retext := [47;117;47;40;40;63;58;97;41;40;98;41;41]%N; d_names := [[105;100]%N] |}.
Theorem C13_legacy_F05_refuted :
  match compile_re_gen false f05_dyn with
  | Ok re => match_regex re (d_names f05_dyn) [47;117;47;97;98]%N = MPanic
  | Panic => False
  end /\ compile_re f05_dyn = Panic.
Proof. split; vm_compute; reflexivity. Qed.

(* end to end (SysEnd.v): on a router built by a registration program whose routes are a printable table, EVERY request
   - any '/'-free method, any path text whatever (format_path is total) - after any history is answered: the lookup
   never panics, never meets an unsupported expression and never reports a route outside the table *)
Theorem C13_end_to_end_total : forall progs hooks o ss s es h m p sc pooled,
  sys_build o ss = Ok s -> table_of es s -> o_intercept o = [] ->
  hist_no_slash h -> no_slash m ->
  fst (sys_serve progs hooks (sys_run progs hooks s h) m p sc pooled) <> None.
Proof. exact sys_total. Qed.

Theorem C13_end_to_end_total_history : forall progs hooks o ss s es h,
  sys_build o ss = Ok s -> table_of es s -> o_intercept o = [] -> hist_no_slash h ->
  Forall (fun r => r <> None) (sys_outcomes progs hooks s h).
Proof. exact sys_total_history. Qed.

(* F21 (repaired by 2e792e1): however the router is configured - options in batches (New / WithOptions), option functions
   called directly with the router, before or after routes are added, in any order - a lookup finds a route-cache container
   whenever caching is on, and the container has the capacity configured last *)
Theorem C13_options_container : forall steps,
  lookup_ok (run true steps init) /\ cap_ok (run true steps init).
Proof. exact options_container_fixed. Qed.
Theorem C13_options_capacity : forall steps,
  en (run true steps init) = true -> cont (run true steps init) = Some (configured_num steps).
Proof. exact options_capacity_fixed. Qed.
(* before the repair: rux.EnableCaching(r) on a router without routes left the container nil (the next lookup panicked);
   configurations made of New / WithOptions batches only were fine *)
Theorem C13_legacy_F21_refuted : exists steps, ~ lookup_ok (run false steps init).
Proof. exact options_container_legacy_refuted. Qed.
Theorem C13_legacy_F21_batches_fine : forall batches,
  lookup_ok (run false (map SBatch batches) init) /\ cap_ok (run false (map SBatch batches) init).
Proof. exact options_container_legacy_batches. Qed.

Print Assumptions C13_rejects_nil_handler.
Print Assumptions C13_rejects_no_method.
Print Assumptions C13_rejects_unknown_method.
Print Assumptions C13_rejects_options_after_routes.
Print Assumptions C13_rejects_too_many_handlers.
Print Assumptions C13_rejects_bad_regex.
Print Assumptions C13_rejects_capturing_group.
Print Assumptions C13_rejects_optional_not_at_end.
Print Assumptions C13_wf_initial.
Print Assumptions C13_wf_preserved.
Print Assumptions C13_total_lookup.
Print Assumptions C13_legacy_F05_refuted.
Print Assumptions C13_end_to_end_total.
Print Assumptions C13_end_to_end_total_history.
Print Assumptions C13_options_container.
Print Assumptions C13_options_capacity.
Print Assumptions C13_legacy_F21_refuted.
Print Assumptions C13_legacy_F21_batches_fine.
