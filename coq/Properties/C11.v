(* C11 — Registration and lookup normalise paths identically. Property theorems only. *)
From Rux Require Import Base Str Norm Table Reg Sys SysHistory SysEnd.
From Rux Require Import Base Str Norm NormFacts.

(* normalisation is total: it never panics, whatever the string, in both modes *)
Theorem C11_total : forall strict s, exists r, format_path strict s = Ok r.
Proof. exact format_total. Qed.

(* closed form: "/" followed by the string with surrounding white space, all leading slashes and
   (non-strict) all trailing slashes removed *)
Theorem C11_normal_form : forall strict s, format_path strict s = Ok (slash :: core strict s).
Proof. exact format_core. Qed.

(* what NewRoute stores (simpleFmtPath) normalises exactly like the raw string: registration = lookup *)
Theorem C11_reg_lookup : forall strict P, format_path strict (simple_fmt_path P) = format_path strict P.
Proof. exact format_reg_lookup. Qed.

(* the stored path of a route declared as P inside nested groups, for every list of group prefixes *)
Theorem C11_registered_path : forall strict gs P,
  reg_path strict gs P =
  Ok (match gs with
      | [] => slash :: core strict P
      | _ => slash :: core strict (concat (map (fun g => slash :: core strict g) gs) ++ slash :: core strict P)
      end).
Proof. exact reg_path_closed. Qed.

(* two spellings are looked up alike iff they have the same core *)
Theorem C11_classes : forall strict p q,
  format_path strict p = format_path strict q <-> core strict p = core strict q.
Proof. exact format_classes. Qed.

(* a request path hits the key registered for P iff it normalises to the same string, and no other *)
Theorem C11_reach : forall strict P q k k',
  reg_path strict [] P = Ok k -> format_path strict q = Ok k' ->
  (k' = k <-> format_path strict q = format_path strict P).
Proof. exact reach_iff. Qed.

(* leading slash repaired, no repeated leading slash, no trailing slash unless strict or "/" *)
Theorem C11_shape : forall strict s r, format_path strict s = Ok r ->
  (exists t, r = slash :: t /\ match t with [] => True | c :: _ => c <> slash end) /\
  (strict = false -> r = [slash] \/ last_is is_slash r = false).
Proof. exact format_shape. Qed.

Theorem C11_strict_distinguishes :
  format_path true [slash; 97%N] <> format_path true [slash; 97%N; slash] /\
  format_path false [slash; 97%N] = format_path false [slash; 97%N; slash].
Proof. exact strict_distinguishes. Qed.

(* finding F03 (repaired by 4606fb0): the previous code panicked on a white-space-only path *)
Theorem C11_legacy_F03_refuted : format_path_gen false false [32%N; 32%N] = Panic.
Proof. exact legacy_ws_panics. Qed.

(* end to end (SysEnd.v): ANY router looks a request up through the normal form of its path only - two spellings with the
   same normal form get the same answer and leave the same router (cache included) behind; in particular on a router
   built by any registration program, after any history *)
Theorem C11_lookup_by_normal_form : forall rt m p1 p2,
  format_path (o_strict (ropts rt)) p1 = format_path (o_strict (ropts rt)) p2 ->
  quick_match rt m p1 = quick_match rt m p2.
Proof. exact quick_spelling. Qed.

(* InterceptAll(q), q not blank: every request is answered as the request q would be - the request path is not looked at *)
Theorem C11_intercept_ignores_request_path : forall rt m p1 p2,
  o_intercept (ropts rt) <> [] -> quick_match rt m p1 = quick_match rt m p2.
Proof. exact quick_intercept. Qed.

Theorem C11_end_to_end : forall progs hooks o ss s h m p1 p2,
  sys_build o ss = Ok s ->
  format_path (o_strict o) p1 = format_path (o_strict o) p2 ->
  let s' := sys_run progs hooks s h in
  quick_match (s_rt s') m p1 = quick_match (s_rt s') m p2 /\
  forall sc pooled, snd (sys_serve progs hooks s' m p1 sc pooled) = snd (sys_serve progs hooks s' m p2 sc pooled).
Proof. exact sys_spelling. Qed.

Print Assumptions C11_total.
Print Assumptions C11_normal_form.
Print Assumptions C11_reg_lookup.
Print Assumptions C11_registered_path.
Print Assumptions C11_classes.
Print Assumptions C11_reach.
Print Assumptions C11_shape.
Print Assumptions C11_strict_distinguishes.
Print Assumptions C11_legacy_F03_refuted.
Print Assumptions C11_lookup_by_normal_form.
Print Assumptions C11_end_to_end.
Print Assumptions C11_intercept_ignores_request_path.
