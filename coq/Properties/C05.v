(* C05 — Abort stops every later handler and only later handlers. Property theorems only. *)
From Rux Require Import Base Writer Chain ChainFacts ChainMore Dispatch Reg RegFacts.
From Rux Require Import Consts Str Norm Table Sys SysFacts SysHistory SysMore.
Open Scope Z_scope.

(* For every chain of at most 63 handlers that call Next at most once (any other ops, any position):
   when an Abort / AbortThen op is about to execute in a state reachable from the start of the request,
   then at every later point no further handler has started (even if Next is called afterwards) and
   the cursor never crashes *)
Theorem C05_no_later_start : forall hs x n c r k m,
  handlers_ok eff hs ->
  mrun n (init xctx eff hs x) = Run c (FOps (OAbort :: r) :: k) ->
  started_of xctx eff (mrun m (mstep (Run c (FOps (OAbort :: r) :: k)))) = started c
  /\ ~ is_index_panic xctx eff (mrun m (mstep (Run c (FOps (OAbort :: r) :: k)))).
Proof. intros hs x n c r k m. exact (abort_stops_later_handlers xctx eff apply_eff note_aborted abort_status hs x n c r k m). Qed.

Theorem C05_no_later_start_status : forall hs x n c code r k m,
  handlers_ok eff hs ->
  mrun n (init xctx eff hs x) = Run c (FOps (OAbortStatus code :: r) :: k) ->
  started_of xctx eff (mrun m (mstep (Run c (FOps (OAbortStatus code :: r) :: k)))) = started c
  /\ ~ is_index_panic xctx eff (mrun m (mstep (Run c (FOps (OAbortStatus code :: r) :: k)))).
Proof. intros hs x n c code r k m. exact (abort_status_stops_later_handlers xctx eff apply_eff note_aborted abort_status hs x n c code r k m). Qed.

(* handlers suspended inside Next resume and run to completion: from an aborted state whose pending
   frames contain no panic, the request halts having applied exactly the remaining effects of every
   pending frame in order (IsAborted reporting true, Next doing nothing), with no new start *)
Theorem C05_suspended_resume : forall c k,
  aborted xctx eff (Run c k) -> no_panic_stack eff k = true ->
  exists n c', mrun n (Run c k) = Halt c'
    /\ xs c' = exec_stack xctx eff apply_eff note_aborted abort_status k (xs c) /\ started c' = started c.
Proof. exact (aborted_resumes xctx eff apply_eff note_aborted abort_status). Qed.

(* IsAborted() is true from the abort on *)
Theorem C05_is_aborted_after : forall c r k,
  aborted xctx eff (Run c (FOps (OIsAborted :: r) :: k)) ->
  mstep (Run c (FOps (OIsAborted :: r) :: k)) = Run (set_xs xctx eff (note_aborted true (xs c)) c) (FOps r :: k).
Proof. exact (aborted_is_aborted xctx eff apply_eff note_aborted abort_status). Qed.
Theorem C05_abort_makes_aborted : forall c r k,
  inv xctx eff (Run c (FOps (OAbort :: r) :: k)) -> aborted xctx eff (mstep (Run c (FOps (OAbort :: r) :: k))).
Proof. exact (inv_abort_aborted xctx eff apply_eff note_aborted abort_status). Qed.
(* the aborted condition is stable: it holds at every later point of the request *)
Theorem C05_aborted_stable : forall n s, aborted xctx eff s ->
  started_of xctx eff (mrun n s) = started_of xctx eff s /\ ~ is_index_panic xctx eff (mrun n s) /\ aborted xctx eff (mrun n s).
Proof. exact (no_start_after_abort xctx eff apply_eff note_aborted abort_status). Qed.

(* IsAborted() is false before any abort: in every chain of at most 31 handlers (each calling Next at most once, with
   IsAborted samples anywhere before or after Next) in which nobody aborts, every sample reads false, the request
   completes in onion order and every handler starts exactly once. (For longer chains this is false of the code: K1.) *)
Theorem C05_is_aborted_before : forall (ws : list (wb2 eff)) x0, 2 * Z.of_nat (List.length ws) - 1 < 63 ->
  exists n c, mrun n (init xctx eff (map (prog2 eff) ws) x0) = Halt c
    /\ xs c = fold_left (fun x s => apply_sop xctx eff apply_eff note_aborted s x) (onion2 eff ws) x0
    /\ started c = seq 0 (List.length ws).
Proof. exact (onion_order_no_abort xctx eff apply_eff note_aborted abort_status). Qed.

(* AbortWithStatus(code) records code exactly like SetStatus(code): by C08 it is the committed status
   unless the header was already committed or a later status is set before the commit *)
Theorem C05_status : forall code x, w (abort_status code x) = write_header code (w x).
Proof. reflexivity. Qed.

(* the documented handler limit is enforced at registration: group + route middleware stay below 63 *)
Theorem C05_limit : forall strict meths P main var later name st st',
  exec_route strict meths P main var later name st = Ok st' ->
  (List.length (g_handlers st ++ var ++ later) < 63)%nat.
Proof. exact route_limit. Qed.

(* known finding K1 (not repaired): with 31 middleware + main all calling Next and nobody aborting, the
   outermost middleware observes IsAborted() = true after Next (the cursor reaches 63 by nesting) *)
Definition nester (i : nat) : hprog := [ONext; OIsAborted].
Definition k1_chain : list hprog := map nester (seq 0 32).
Theorem C05_is_aborted_refuted : exists c, mrun 400 (init xctx eff k1_chain (p_x fresh_ctx)) = Halt c /\
  In (TAb true) (trace (xs c)).
Proof. eexists. split. vm_compute. reflexivity. vm_compute. auto 40. Qed.

(* end to end (SysMore.v): for the chain the router itself assembles for a request resolving to route r, the list of
   started handlers that the OUTCOME of the request reports is the list at the moment of the Abort / AbortWithStatus -
   through the rest of the chain, the OnError hook, the OnPanic hook and the final commit (hooks that do not call Next) *)
Theorem C05_end_to_end : forall progs hooks s m p sc pooled rid ps r,
  resolves_to s m p rid ps -> nth_error (s_routes s) rid = Some r ->
  chain_ids_ok progs (s_globals s ++ r_handlers r ++ [r_main r]) ->
  hooks_no_next (sys_cfg progs hooks s) ->
  let hs := map progs (s_globals s) ++ map progs (r_handlers r) ++ [progs (r_main r)] in
  exists x1,
    assemble (sys_cfg progs hooks s) (str_eqb m OPTIONS) (route_target progs r ps p) (p_x (ctx_init sc pooled)) = (hs, x1) /\
    forall n c a rr k, (a = OAbort \/ exists code, a = OAbortStatus code) ->
      mrun n (init xctx eff hs x1) = Run c (FOps (a :: rr) :: k) ->
      match fst (sys_serve progs hooks s m p sc pooled) with
      | Some (Done _ st) | Some (Escaped _ _ st) => st = started c
      | Some OutOfFuel => True
      | None => False
      end.
Proof. exact sys_abort_end_to_end. Qed.

Print Assumptions C05_no_later_start.
Print Assumptions C05_no_later_start_status.
Print Assumptions C05_suspended_resume.
Print Assumptions C05_is_aborted_after.
Print Assumptions C05_abort_makes_aborted.
Print Assumptions C05_aborted_stable.
Print Assumptions C05_is_aborted_before.
Print Assumptions C05_status.
Print Assumptions C05_limit.
Print Assumptions C05_is_aborted_refuted.
Print Assumptions C05_end_to_end.
