(* C18 — Binding picks its source from the request and round-trips data. Property theorems only.
   (PARTIAL: the codecs are assumed — they are section variables with the round-trip law as a hypothesis.) *)
From Rux Require Import Base Str Consts Bind BindFacts.

(* methods without a body (anything but POST, PUT, PATCH) bind from the query string, whatever the Content-Type *)
Theorem C18_source_query : forall meth ctype, has_body meth = false -> auto_source meth ctype = SQuery.
Proof. exact source_query. Qed.

(* for every documented media type, with no parameters or with any parameters that contain no '/', the source is the
   documented one: url-encoded form, multipart form, JSON, XML *)
Theorem C18_source_documented : forall meth mt ps, has_body meth = true -> params_ok ps ->
  In mt [mt_urlencoded; mt_multipart; mt_json; mt_xml; mt_textxml] -> auto_source meth (mt ++ ps) = doc_source mt.
Proof. exact source_documented. Qed.

(* a Content-Type that contains none of the four markers is an error *)
Theorem C18_source_unknown : forall meth ctype, has_body meth = true ->
  contains m_urlencoded ctype = false -> contains m_formdata ctype = false -> contains m_json ctype = false -> contains m_xml ctype = false ->
  auto_source meth ctype = SError.
Proof. exact source_unknown. Qed.

(* a successful bind implies the struct passed validation whenever a validator is enabled *)
Theorem C18_validated : forall V I (decode : I -> option V) (valid : V -> bool) on i v,
  bind_with V I decode valid on i = Some v -> decode i = Some v /\ (on = false \/ valid v = true).
Proof. exact bind_validated. Qed.

(* ASSUMING the codec law decode (encode x) = x: encoding a valid value and binding it back yields it *)
Theorem C18_roundtrip : forall V I (decode : I -> option V) (valid : V -> bool) (encode : V -> I) on v,
  (forall x, decode (encode x) = Some x) -> (on = false \/ valid v = true) -> bind_with V I decode valid on (encode v) = Some v.
Proof. exact bind_roundtrip. Qed.

(* a codec error is an error of the bind (never a value) *)
Theorem C18_error : forall V I (decode : I -> option V) (valid : V -> bool) on i, decode i = None -> bind_with V I decode valid on i = None.
Proof. exact bind_error_not_value. Qed.

(* known finding K5 (not repaired): the tests are substring tests - application/jsonx is bound as JSON *)
Theorem C18_substring_dispatch_refuted : auto_source POST (mt_json ++ [120%N]) = SJson /\ doc_source (mt_json ++ [120%N]) = SError.
Proof. exact substring_dispatch_refuted. Qed.

Print Assumptions C18_source_query.
Print Assumptions C18_source_documented.
Print Assumptions C18_source_unknown.
Print Assumptions C18_validated.
Print Assumptions C18_roundtrip.
Print Assumptions C18_error.
Print Assumptions C18_substring_dispatch_refuted.
