(* C18 — Binding picks its source from the request and round-trips data. Property theorems only.
   (PARTIAL: the codecs are assumed — they are section variables with the round-trip law as a hypothesis.) *)
From Rux Require Import Base Str Consts Bind BindFacts.

(* methods without a body (anything but POST, PUT, PATCH) bind from the query string, whatever the Content-Type *)
Theorem C18_source_query : forall meth ctype, has_body meth = false -> auto_source meth ctype = SQuery.
Proof. exact source_query. Qed.

(* for every documented media type, with no parameters or with ANY parameters, the source is the documented one:
   url-encoded form, multipart form, JSON, XML *)
Theorem C18_source_documented : forall meth mt ps, has_body meth = true -> params_ok ps ->
  In mt [mt_urlencoded; mt_multipart; mt_json; mt_xml; mt_textxml] -> auto_source meth (mt ++ ps) = doc_source mt.
Proof. exact source_documented. Qed.

(* the parameters never influence the choice *)
Theorem C18_source_params_irrelevant : forall meth a ps, semi_free a = true ->
  auto_source meth (a ++ 59%N :: ps) = auto_source meth a.
Proof. exact source_params_irrelevant. Qed.

(* a Content-Type whose media type (the text before the first ';', trimmed) has none of the four subtypes is an error *)
Theorem C18_source_unknown : forall meth ctype, has_body meth = true ->
  has_suffix m_urlencoded (media_type ctype) = false -> has_suffix m_formdata (media_type ctype) = false ->
  has_suffix m_json (media_type ctype) = false -> has_suffix m_xml (media_type ctype) = false ->
  auto_source meth ctype = SError.
Proof. exact source_unknown. Qed.

(* a successful bind implies the struct passed validation whenever a validator is enabled *)
Theorem C18_validated : forall V I (decode : I -> option V) (valid : V -> bool) on i v,
  bind_with V I decode valid on i = Some v -> decode i = Some v /\ (on = false \/ valid v = true).
Proof. exact bind_validated. Qed.

(* ASSUMING the codec law decode (encode x) = x: encoding a valid value and binding it back yields it *)
Theorem C18_roundtrip : forall V I (decode : I -> option V) (valid : V -> bool) (encode : V -> I) on v,
  (forall x, decode (encode x) = Some x) -> (on = false \/ valid v = true) -> bind_with V I decode valid on (encode v) = Some v.
Proof. exact bind_roundtrip. Qed.

(* a codec error is an error of the bind (never a value) *)
Theorem C18_error : forall V I (decode : I -> option V) (valid : V -> bool) on i, decode i = None -> bind_with V I decode valid on i = None.
Proof. exact bind_error_not_value. Qed.

(* finding F20 (former K5, repaired): before the repair the tests were substring tests on the whole header value -
   application/jsonx and "text/plain; a=/json" were bound as JSON; now both are errors *)
Theorem C18_legacy_F20_refuted :
  auto_source_legacy POST ct_jsonx = SJson /\ doc_source ct_jsonx = SError /\ auto_source POST ct_jsonx = SError /\
  auto_source_legacy POST ct_plain_param = SJson /\ auto_source POST ct_plain_param = SError.
Proof. exact substring_dispatch_refuted. Qed.

Print Assumptions C18_source_query.
Print Assumptions C18_source_documented.
Print Assumptions C18_source_unknown.
Print Assumptions C18_validated.
Print Assumptions C18_roundtrip.
Print Assumptions C18_error.
Print Assumptions C18_legacy_F20_refuted.
Print Assumptions C18_source_params_irrelevant.
