(* C17 — Static file handlers never serve anything outside their root. Property theorems only.
   (PARTIAL: confinement is enforced by net/http's FileServer / http.Dir; what is proved is the lexical logic.) *)
From Rux Require Import Base Str Rx RxFacts Static StaticFacts.

(* for every request path string: path.Clean("/" ++ s) is rooted and has no empty, "." or ".." element *)
Theorem C17_clean_rooted : forall s, exists t, clean_rooted s = slash :: t.
Proof. exact clean_rooted_rooted. Qed.
Theorem C17_clean_no_dotdot : forall s, Forall good_seg (clean_stack s).
Proof. exact clean_stack_good. Qed.

(* http.Dir(root).Open(name) names a path below root, whatever name is (dot-dot segments, repeated slashes, ...) *)
Theorem C17_dir_confined : forall root name, exists rest, dir_open root name = root ++ rest /\ Forall good_seg rest.
Proof. exact dir_open_confined. Qed.

(* StripPrefix removes exactly the prefix, or the request is not served *)
Theorem C17_strip_prefix : forall prefix path rest, strip_prefix prefix path = Some rest -> path = prefix ++ rest.
Proof. exact strip_prefix_spec. Qed.

(* every value of StaticFiles' {file:.+\.(?:e1|...|en)} variable ends in "." followed by an allowed extension *)
Theorem C17_ext_filter : forall exts s, matches (ext_filter exts) s = true ->
  exists stem e, In e exts /\ s = stem ++ dotc :: e /\ stem <> [].
Proof. exact ext_filter_matches. Qed.

Print Assumptions C17_clean_rooted.
Print Assumptions C17_clean_no_dotdot.
Print Assumptions C17_dir_confined.
Print Assumptions C17_strip_prefix.
Print Assumptions C17_ext_filter.
