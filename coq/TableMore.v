(* TableMore.v — InterceptAll: with the option set, every request is resolved as a request for the intercept path. *)
From Rux Require Import Base BaseFacts Str Consts Norm NormFacts Pattern Cache Table TableFacts.

Definition with_intercept (q : str) (rt : router) : router :=   (* same router, option InterceptAll(q) *)
  {| ropts := {| o_strict := o_strict (ropts rt); o_na := o_na (ropts rt); o_fallback := o_fallback (ropts rt);
                 o_caching := o_caching (ropts rt); o_cap := o_cap (ropts rt); o_intercept := q |};
     counter := counter rt; routes := routes rt; stable := stable rt; regular := regular rt; irregular := irregular rt; named := named rt; cache := cache rt |}.

Lemma with_intercept_set_cache q rt c : set_cache (with_intercept q rt) c = with_intercept q (set_cache rt c).
Proof. reflexivity. Qed.

Lemma with_intercept_dyn_match q rt m path : dyn_match (with_intercept q rt) m path = dyn_match rt m path.
Proof. reflexivity. Qed.

(* match reads only o_caching / o_cap of the options *)
Lemma with_intercept_match q rt m path :
  match_ (with_intercept q rt) m path = (fst (match_ rt m path), with_intercept q (snd (match_ rt m path))).
Proof.
  unfold match_. rewrite with_intercept_dyn_match.
  cbn [with_intercept stable ropts o_caching o_cap cache].
  destruct (assoc (m ++ path) (stable rt)) as [rid|]; [reflexivity|].
  destruct (o_caching (ropts rt)).
  - destruct (aget (nat * params) (cache rt) (m ++ path)) as [c1 [[rid ps]|]]; [reflexivity|].
    destruct (dyn_match rt m path) as [|rid [ps|]| |]; reflexivity.
  - destruct (dyn_match rt m path) as [|rid [ps|]| |]; reflexivity.
Qed.

Lemma with_intercept_probe q ms : forall rt m path acc,
  probe_methods (with_intercept q rt) ms m path acc
  = (fst (probe_methods rt ms m path acc), with_intercept q (snd (probe_methods rt ms m path acc))).
Proof.
  induction ms as [|m' rest IH]; intros rt m path acc; cbn [probe_methods].
  - reflexivity.
  - destruct (str_eqb m' m); [apply IH|].
    rewrite with_intercept_match.
    destruct (match_ rt m' path) as [[|rid ps| |] rt']; cbn [fst snd]; try reflexivity; apply IH.
Qed.

(* with InterceptAll(q), q non-empty, every request is resolved exactly as a request for q on the same router without the option *)
Theorem intercept_as_request rt m p q : q <> [] -> o_intercept (ropts rt) = [] ->
  fst (quick_match (with_intercept q rt) m p) = fst (quick_match rt m q).
Proof.
  intros Hq Hi. unfold quick_match, quick_match_gen.
  rewrite Hi. cbn [with_intercept ropts o_intercept o_strict o_na o_fallback nil_b].
  destruct q as [|a q']; [contradiction|]. cbn [nil_b].
  set (q := a :: q') in *.
  destruct (format_path (o_strict (ropts rt)) q) as [path|]; [|reflexivity].
  change {| ropts := {| o_strict := o_strict (ropts rt); o_na := o_na (ropts rt); o_fallback := o_fallback (ropts rt);
                 o_caching := o_caching (ropts rt); o_cap := o_cap (ropts rt); o_intercept := q |};
     counter := counter rt; routes := routes rt; stable := stable rt; regular := regular rt; irregular := irregular rt; named := named rt; cache := cache rt |}
    with (with_intercept q rt).
  rewrite with_intercept_match.
  destruct (match_ rt m path) as [[|rid ps| |] rt1]; cbn [fst snd]; try reflexivity.
  destruct (str_eqb m HEAD).
  - rewrite with_intercept_match.
    destruct (match_ rt1 GET path) as [[|rid ps| |] rt2]; cbn [fst snd]; try reflexivity.
    cbn [with_intercept stable].
    destruct (if o_fallback (ropts rt) then assoc (m ++ fallback_suffix) (stable rt2) else None); [reflexivity|].
    destruct (o_na (ropts rt)); [|reflexivity].
    change {| ropts := {| o_strict := o_strict (ropts rt2); o_na := o_na (ropts rt2); o_fallback := o_fallback (ropts rt2);
                 o_caching := o_caching (ropts rt2); o_cap := o_cap (ropts rt2); o_intercept := q |};
     counter := counter rt2; routes := routes rt2; stable := stable rt2; regular := regular rt2; irregular := irregular rt2; named := named rt2; cache := cache rt2 |}
      with (with_intercept q rt2).
    rewrite with_intercept_probe.
    destruct (probe_methods rt2 any_methods m path []) as [[[[|x al]|]|] rt3]; reflexivity.
  - cbn [with_intercept stable].
    destruct (if o_fallback (ropts rt) then assoc (m ++ fallback_suffix) (stable rt1) else None); [reflexivity|].
    destruct (o_na (ropts rt)); [|reflexivity].
    change {| ropts := {| o_strict := o_strict (ropts rt1); o_na := o_na (ropts rt1); o_fallback := o_fallback (ropts rt1);
                 o_caching := o_caching (ropts rt1); o_cap := o_cap (ropts rt1); o_intercept := q |};
     counter := counter rt1; routes := routes rt1; stable := stable rt1; regular := regular rt1; irregular := irregular rt1; named := named rt1; cache := cache rt1 |}
      with (with_intercept q rt1).
    rewrite with_intercept_probe.
    destruct (probe_methods rt1 any_methods m path []) as [[[[|x al]|]|] rt3]; reflexivity.
Qed.
