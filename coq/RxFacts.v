(* RxFacts.v — the backtracking matcher is sound and complete for the declarative semantics, and the
   captures it reports are exactly the substrings the groups consumed. *)
From Rux Require Import Base Rx.

Lemma bt_star_unfold {A} a s c (k : str -> caps -> option A) :
  bt (Star a) s c k = star_loop a k (List.length s) s c.
Proof. reflexivity. Qed.

Lemma firstn_app_exact {A} (s1 s2 : list A) : firstn (List.length (s1 ++ s2) - List.length s2) (s1 ++ s2) = s1.
Proof.
  rewrite app_length. replace (List.length s1 + List.length s2 - List.length s2)%nat with (List.length s1) by lia.
  rewrite firstn_app. rewrite Nat.sub_diag. simpl. rewrite app_nil_r. apply firstn_all.
Qed.

Lemma denc_den r s c c' : denc r s c c' -> den r s.
Proof. induction 1; try (constructor; auto; fail); try (apply DAltL; auto; fail); try (apply DAltR; auto; fail). Qed.

(* soundness with captures *)
Lemma bt_sound_caps {A} : forall r s c (k : str -> caps -> option A) x,
  bt r s c k = Some x ->
  exists s1 s2 c', s = s1 ++ s2 /\ denc r s1 c c' /\ k s2 c' = Some x.
Proof.
  induction r as [| ch0 | | neg rs | a IHa b IHb | a IHa b IHb | a IHa | i a IHa]; intros s c k x H; cbn [bt] in H.
  - exists [], s, c. repeat split; auto. constructor.
  - destruct s as [|y s']; [discriminate|]. destruct (N.eqb_spec ch0 y); [|discriminate]. subst.
    exists [y], s', c. repeat split; auto. constructor.
  - destruct s as [|y s']; [discriminate|]. destruct (N.eqb_spec y 10); [discriminate|].
    exists [y], s', c. repeat split; auto. constructor; auto.
  - destruct s as [|y s']; [discriminate|]. destruct (xorb neg (in_cls rs y)) eqn:E; [|discriminate].
    exists [y], s', c. repeat split; auto. constructor; auto.
  - apply IHa in H. destruct H as (s1 & s2 & c' & -> & Da & H).
    apply IHb in H. destruct H as (s3 & s4 & c'' & -> & Db & H).
    exists (s1 ++ s3), s4, c''. rewrite app_assoc. repeat split; auto. econstructor; eauto.
  - destruct (bt a s c k) eqn:E.
    + inversion H; subst. apply IHa in E. destruct E as (s1 & s2 & c' & -> & Da & E).
      exists s1, s2, c'. repeat split; auto. apply CAltL; auto.
    + apply IHb in H. destruct H as (s1 & s2 & c' & -> & Db & H).
      exists s1, s2, c'. repeat split; auto. apply CAltR; auto.
  - fold (star_loop a k) in H.
    remember (List.length s) as n eqn:Hn. clear Hn.
    revert s c H. induction n as [|n IHn]; intros s c H; cbn [star_loop] in H.
    + exists [], s, c. repeat split; auto. constructor.
    + fold (star_loop a k) in H.
      destruct (bt a s c _) eqn:E.
      * inversion H; subst. apply IHa in E. destruct E as (s1 & s2 & c' & -> & Da & E).
        destruct (Nat.ltb _ _); [|discriminate].
        apply IHn in E. destruct E as (s3 & s4 & c'' & -> & Ds & E).
        exists (s1 ++ s3), s4, c''. rewrite app_assoc. repeat split; auto. eapply CStarS; eauto.
      * exists [], s, c. repeat split; auto. constructor.
  - apply IHa in H. destruct H as (s1 & s2 & c' & -> & Da & H).
    rewrite firstn_app_exact in H.
    exists s1, s2, ((i, s1) :: c'). repeat split; auto. constructor; auto.
Qed.

Lemma bt_sound {A} : forall r s c (k : str -> caps -> option A) x,
  bt r s c k = Some x ->
  exists s1 s2 c', s = s1 ++ s2 /\ den r s1 /\ k s2 c' = Some x.
Proof.
  intros r s c k x H. destruct (bt_sound_caps r s c k x H) as (s1 & s2 & c' & E & D & K).
  exists s1, s2, c'. repeat split; auto. eapply denc_den; eauto.
Qed.

(* completeness: star derivations can be normalised to non-empty iterations *)
Inductive starn (a : rx) : str -> Prop :=
| SN0 : starn a []
| SNS s1 s2 : s1 <> [] -> den a s1 -> starn a s2 -> starn a (s1 ++ s2).

Lemma den_star_starn a s : den (Star a) s -> starn a s.
Proof.
  intros H. remember (Star a) as r eqn:Hr. revert a Hr.
  induction H; intros a0 Hr; inversion Hr; subst.
  - constructor.
  - destruct s1 as [|y s1'].
    + simpl. apply IHden2; auto.
    + apply SNS; auto. discriminate.
Qed.

Definition always {A} (k : str -> caps -> option A) (s : str) := forall c, exists x, k s c = Some x.

Lemma bt_complete {A} : forall r s1, den r s1 -> forall s2 c (k : str -> caps -> option A),
  always k s2 -> exists x, bt r (s1 ++ s2) c k = Some x.
Proof.
  induction r as [| ch0 | | neg rs | a IHa b IHb | a IHa b IHb | a IHa | i a IHa]; intros s1 D s2 c k Hk.
  - inversion D; subst. cbn. apply Hk.
  - inversion D; subst. cbn. rewrite N.eqb_refl. apply Hk.
  - inversion D as [| |c0 Hc0| | | | | | |]; subst. cbn. destruct (N.eqb_spec c0 10); [contradiction|]. apply Hk.
  - inversion D as [| | |neg0 rs0 c0 Hc0| | | | | |]; subst. cbn. rewrite Hc0. apply Hk.
  - inversion D as [| | | |a0 b0 u v Da Db| | | | |]; subst. cbn [bt]. rewrite <- app_assoc. apply IHa; auto.
    intros c'. apply IHb; auto.
  - cbn [bt]. destruct (bt a (s1 ++ s2) c k) eqn:E; [eauto|].
    inversion D as [| | | | |a0 b0 u Da|a0 b0 u Db| | |]; subst.
    + destruct (IHa _ Da s2 c k Hk) as [x Hx]. congruence.
    + apply IHb; auto.
  - apply den_star_starn in D. rewrite bt_star_unfold.
    assert (L: forall n s1, starn a s1 -> forall c, (List.length (s1 ++ s2) <= n)%nat ->
               exists x, star_loop a k n (s1 ++ s2) c = Some x).
    { induction n as [|n IHn]; intros t Dt c0 Hn.
      + destruct t; [|simpl in Hn; lia]. simpl in *. cbn. apply Hk.
      + cbn [star_loop]. fold (star_loop a k).
        destruct (bt a (t ++ s2) c0 _) eqn:E; [eauto|].
        inversion Dt as [|u v Hne Du Dv]; subst.
        * simpl. apply Hk.
        * exfalso. rewrite <- app_assoc in E.
          assert (HK: always (fun s' c' => if Nat.ltb (List.length s') (List.length (u ++ v ++ s2)) then star_loop a k n s' c' else None) (v ++ s2)).
          { intros c'. destruct (Nat.ltb_spec (List.length (v ++ s2)) (List.length (u ++ v ++ s2))) as [Hlt|Hge].
            - apply IHn; auto. rewrite !app_length in *. lia.
            - rewrite !app_length in Hge. destruct u; [contradiction|]. simpl in Hge. lia. }
          destruct (IHa _ Du (v ++ s2) c0 _ HK) as [x Hx]. congruence. }
    apply L; auto.
  - inversion D as [| | | | | | | | |i0 a0 u Da]; subst. cbn [bt]. apply IHa; auto. intros c'. apply Hk.
Qed.

Theorem full_iff r s : (exists c, full r s = Some c) <-> den r s.
Proof.
  split.
  - intros [c H]. unfold full in H. apply bt_sound in H.
    destruct H as (s1 & s2 & c' & -> & D & H). destruct s2; [|discriminate]. rewrite app_nil_r. auto.
  - intros D. unfold full. rewrite <- (app_nil_r s).
    apply bt_complete; auto. intros c. eauto.
Qed.
Corollary matches_iff r s : matches r s = true <-> den r s.
Proof.
  unfold matches. rewrite <- full_iff. destruct (full r s); split; eauto; try discriminate. intros [c H]; discriminate.
Qed.

Theorem full_caps r s c : full r s = Some c -> denc r s [] c.
Proof.
  intros H. unfold full in H. apply bt_sound_caps in H.
  destruct H as (s1 & s2 & c' & -> & D & H). destruct s2; [|discriminate]. inversion H; subst.
  rewrite app_nil_r. auto.
Qed.
