(* Norm.v — model of Router.formatPath, simpleFmtPath, isFixedPath and the path a route is
   registered under (router.go appendGroupInfo / Group). *)
From Rux Require Import Base Str.

(* Router.formatPath, with the path[len-1] and path[1] accesses explicit.
   fixed = true is the current code (after repair F03); fixed = false is the code before it. *)
Definition format_path_gen (fixed strict : bool) (path : str) : outcome str :=
  match path with
  | [] => Ok [slash]
  | _ =>
    if str_eqb path [slash] then Ok [slash] else
    let path := trim_space path in
    match path with
    | [] => if fixed then Ok [slash] else (if strict then Ok [slash] else Panic)
    | _ =>
      let path := if negb strict && last_is is_slash path then de is_slash path else path in
      match path with
      | [] => Ok [slash]
      | c0 :: rest =>
        if str_eqb path [slash] then Ok [slash] else
        if negb (is_slash c0) then Ok (slash :: path) else
        match rest with
        | c1 :: _ => if is_slash c1 then Ok (slash :: dw is_slash path) else Ok path
        | [] => Panic (* path[1] on a one-character string *)
        end
      end
    end
  end.
Definition format_path := format_path_gen true.

(* utils.go simpleFmtPath (used by NewRoute) *)
Definition simple_fmt_path (path : str) : str :=
  match trim_space path with
  | [] => [slash]
  | t => slash :: dw is_slash t
  end.

(* closed form of the normal form (see NormFacts.format_core) *)
Definition core (strict : bool) (s : str) : str :=
  let t := trim_space s in
  dw is_slash (if strict then t else de is_slash t).

(* utils.go isFixedPath *)
Definition is_fixed_path (s : str) : bool := negb (contains_ch lbrace s) && negb (contains_ch lbrack s).

(* Group: currentGroupPrefix = prev ++ formatPath(prefix), for nested groups outermost first *)
Fixpoint group_prefix (strict : bool) (prefixes : list str) : outcome str :=
  match prefixes with
  | [] => Ok []
  | g :: r => bind (format_path strict g) (fun g' => bind (group_prefix strict r) (fun r' => Ok (g' ++ r')))
  end.

(* NewRoute + appendGroupInfo: the path a route declared as P inside the given groups is stored under *)
Definition reg_path (strict : bool) (prefixes : list str) (P : str) : outcome str :=
  bind (format_path strict (simple_fmt_path P)) (fun path =>
  bind (group_prefix strict prefixes) (fun gp =>
  match gp with
  | [] => Ok path
  | _ => format_path strict (gp ++ path)
  end)).

(* which path string the dispatcher matches on *)
Definition request_path (use_encoded : bool) (decoded escaped : str) : str :=
  if use_encoded then escaped else decoded.
