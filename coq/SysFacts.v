(* SysFacts.v — end-to-end theorems about the whole router (Sys.v):
   (a) sys_build_routes / sys_build_globals : what a registration program builds,
   (b) sys_chain_* : the chain that runs for every lookup result,
   (c) sys_static_selection : which route a request selects when all routes are static,
   (d) onion_steps_bound / sys_onion : C04 end to end, with the dispatcher's own fuel. *)
From Rux Require Import Base BaseFacts Str Consts Norm NormFacts Writer Chain ChainFacts ChainMore Dispatch DispatchFacts
  Reg RegFacts Rx RxParse Pattern Pat Cache CacheFacts Table TableFacts SelectFacts Sys.

(* ====================================================================== *)
(* 0. the number of machine steps of an onion run                         *)
(* ====================================================================== *)
Section Bound.
Variable X : Type.
Variable eff : Type.
Variable apply : eff -> X -> X.
Variable note_aborted : bool -> X -> X.
Variable abort_status : Z -> X -> X.

Notation step := (Chain.step X eff apply note_aborted abort_status).
Notation run := (Chain.run X eff apply note_aborted abort_status).
Notation st := (Chain.st X eff).
Notation ctx := (Chain.ctx X eff).
Notation wb := (Chain.wb eff).
Open Scope Z_scope.

(* steps of the for-loop of Next over the handlers ws, from its loop test to its exit *)
Fixpoint loop_steps (ws : list wb) : nat :=
  match ws with
  | [] => 1%nat
  | h :: t => (List.length (pre h) + List.length (post h) + (if calls h then 5 else 3) + loop_steps t)%nat
  end.

Lemma run_effs l : forall (c : ctx) r k,
  run (List.length l) (Run c (FOps (effs eff l ++ r) :: k)) =
  Run (set_xs X eff (apply_all X eff apply l (xs c)) c) (FOps r :: k).
Proof.
  induction l as [|t l IH]; intros c r k; cbn [effs map app apply_all fold_left List.length Chain.run].
  - destruct c; reflexivity.
  - cbn [Chain.step]. fold (effs eff l). rewrite IH. reflexivity.
Qed.

Lemma run_halted n (c : ctx) : run n (Halt c) = Halt c.
Proof. induction n as [|n IH]; cbn [Chain.run Chain.step]; auto. Qed.

Lemma run_halt_le n m a (c : ctx) : run n a = Halt c -> (n <= m)%nat -> run m a = Halt c.
Proof.
  intros H Hle. replace m with (n + (m - n))%nat by lia.
  rewrite (run_add X eff apply note_aborted abort_status). rewrite H. apply run_halted.
Qed.

Lemma loop_onion_n (ws : list wb) :
  let s := Z.of_nat (List.length ws) in
  s <= 63 ->
  forall (m : nat) (i : nat) (c : ctx) k,
    (List.length ws - i = m)%nat -> (i <= List.length ws)%nat ->
    chain c = map (prog eff) ws -> index c = Z.of_nat i ->
    exists c', run (loop_steps (skipn i ws)) (Run c (FTest :: k)) = Run c' k
      /\ xs c' = apply_all X eff apply (onion eff (skipn i ws)) (xs c)
      /\ chain c' = chain c
      /\ started c' = started c ++ seq i (List.length ws - i)
      /\ s <= index c' <= s + (s - Z.of_nat i).
Proof.
  intros s Hs m. induction m as [|m IH]; intros i c k Hm Hi Hc Hidx.
  - assert (i = List.length ws) by lia. subst i.
    exists c. rewrite skipn_all. cbn [loop_steps Chain.run]. repeat split; try lia.
    + cbn [Chain.step]. unfold len8. rewrite Hc, map_length, Hidx.
      rewrite wrap8_small by (fold s; lia). rewrite Z.ltb_irrefl. reflexivity.
    + rewrite Nat.sub_diag. cbn. rewrite app_nil_r. reflexivity.
  - assert (Hlt: (i < List.length ws)%nat) by lia.
    destruct (nth_error ws i) as [h|] eqn:Hw; [|apply nth_error_None in Hw; lia].
    pose proof (skipn_nth_error ws i h Hw) as Hsk.
    assert (Hnth: nth_error (chain c) i = Some (prog eff h)).
    { rewrite Hc. rewrite nth_error_map, Hw. auto. }
    assert (Hseq: seq i (List.length ws - i) = i :: seq (S i) (List.length ws - S i)).
    { replace (List.length ws - i)%nat with (S (List.length ws - S i)) by lia. reflexivity. }
    set (c1 := start X eff i c).
    assert (E1: run 1 (Run c (FTest :: k)) = Run c1 (FOps (prog eff h) :: FInc :: k)).
    { cbn [Chain.run Chain.step]. unfold len8. rewrite Hc, map_length, Hidx.
      rewrite wrap8_small by (fold s; lia).
      destruct (Z.ltb_spec (Z.of_nat i) (Z.of_nat (List.length ws))); [|lia].
      destruct (Z.ltb_spec (Z.of_nat i) 0); [lia|].
      rewrite Nat2Z.id. rewrite <- Hc, Hnth. reflexivity. }
    unfold prog in E1.
    pose proof (run_effs (pre h) c1 ((if calls h then [ONext] else []) ++ effs eff (post h)) (FInc :: k)) as E2.
    set (c2 := set_xs X eff (apply_all X eff apply (pre h) (xs c1)) c1) in *.
    rewrite Hsk. cbn [loop_steps].
    destruct (calls h) eqn:Hcalls.
    + set (c3 := set_index X eff (wrap8 (index c2 + 1)) c2).
      assert (Hc3i: index c3 = Z.of_nat (S i)).
      { unfold c3, c2, c1. cbn. rewrite Hidx. rewrite wrap8_small; lia. }
      destruct (IH (S i) c3 (FOps (effs eff (post h)) :: FInc :: k)) as (c4 & E4 & T4 & C4 & ST4 & I4); try lia; auto.
      pose proof (run_effs (post h) c4 [] (FInc :: k)) as E5. rewrite app_nil_r in E5.
      set (c5 := set_xs X eff (apply_all X eff apply (post h) (xs c4)) c4) in *.
      set (c6 := set_index X eff (wrap8 (index c5 + 1)) c5).
      exists c6. repeat split.
      * replace (List.length (pre h) + List.length (post h) + 5 + loop_steps (skipn (S i) ws))%nat
          with (1 + (List.length (pre h) + (1 + (loop_steps (skipn (S i) ws) + (List.length (post h) + 3)))))%nat by lia.
        rewrite (run_add X eff apply note_aborted abort_status 1), E1.
        rewrite (run_add X eff apply note_aborted abort_status (List.length (pre h))), E2.
        rewrite (run_add X eff apply note_aborted abort_status 1).
        replace (run 1 (Run c2 (FOps ([ONext] ++ effs eff (post h)) :: FInc :: k)))
          with (Run c3 (FTest :: FOps (effs eff (post h)) :: FInc :: k)) by reflexivity.
        rewrite (run_add X eff apply note_aborted abort_status (loop_steps (skipn (S i) ws))), E4.
        rewrite (run_add X eff apply note_aborted abort_status (List.length (post h))), E5.
        cbn [Chain.run Chain.step]. fold c6.
        unfold len8. unfold c6, c5. cbn [chain index set_index set_xs]. rewrite C4. unfold c3, c2, c1.
        cbn [chain index set_index set_xs start]. rewrite Hc, map_length.
        rewrite (wrap8_small (Z.of_nat (List.length ws))) by (fold s; lia).
        rewrite wrap8_small by (fold s in I4 |- *; lia).
        destruct (Z.ltb_spec (index c4 + 1) (Z.of_nat (List.length ws))); [fold s in I4; lia|]. reflexivity.
      * unfold c6, c5. cbn. rewrite T4. unfold c3, c2, c1. cbn. rewrite Hcalls.
        unfold apply_all. rewrite !fold_left_app. reflexivity.
      * unfold c6, c5. cbn. rewrite C4. auto.
      * unfold c6, c5. cbn. rewrite ST4. unfold c3, c2, c1. cbn. rewrite Hseq. rewrite <- app_assoc. reflexivity.
      * unfold c6, c5. cbn. rewrite wrap8_small; fold s in I4 |- *; lia.
      * unfold c6, c5. cbn. rewrite wrap8_small; fold s in I4 |- *; lia.
    + cbn [app] in E2.
      pose proof (run_effs (post h) c2 [] (FInc :: k)) as E3. rewrite app_nil_r in E3.
      set (c3 := set_xs X eff (apply_all X eff apply (post h) (xs c2)) c2) in *.
      set (c4 := set_index X eff (wrap8 (index c3 + 1)) c3).
      assert (Hc4i: index c4 = Z.of_nat (S i)).
      { unfold c4, c3, c2, c1. cbn. rewrite Hidx. rewrite wrap8_small; lia. }
      destruct (IH (S i) c4 k) as (c5 & E5 & T5 & C5 & ST5 & I5); try lia; auto.
      exists c5. repeat split; try lia.
      * replace (List.length (pre h) + List.length (post h) + 3 + loop_steps (skipn (S i) ws))%nat
          with (1 + (List.length (pre h) + (List.length (post h) + (2 + loop_steps (skipn (S i) ws)))))%nat by lia.
        rewrite (run_add X eff apply note_aborted abort_status 1), E1. cbn [app].
        rewrite (run_add X eff apply note_aborted abort_status (List.length (pre h))), E2.
        rewrite (run_add X eff apply note_aborted abort_status (List.length (post h))), E3.
        rewrite (run_add X eff apply note_aborted abort_status 2).
        replace (run 2 (Run c3 (FOps [] :: FInc :: k))) with (Run c4 (FTest :: k)) by reflexivity.
        exact E5.
      * rewrite T5. unfold c4, c3, c2, c1. cbn. rewrite Hcalls.
        unfold apply_all. rewrite !fold_left_app. reflexivity.
      * rewrite C5. auto.
      * rewrite ST5. unfold c4, c3, c2, c1. cbn. rewrite Hseq. rewrite <- app_assoc. reflexivity.
Qed.

(* the exact number of steps of an onion run *)
Theorem onion_steps_exact (ws : list wb) x0 : Z.of_nat (List.length ws) <= 63 ->
  exists c, run (3 + loop_steps ws) (init X eff (map (prog eff) ws) x0) = Halt c
    /\ xs c = apply_all X eff apply (onion eff ws) x0
    /\ started c = seq 0 (List.length ws).
Proof.
  intros Hs.
  set (c0 := {| index := 0; chain := map (prog eff) ws; started := []; xs := x0 |} : ctx).
  destruct (loop_onion_n ws Hs (List.length ws) 0%nat c0 [FOps []]) as (c' & S & T & C & STt & I); try lia; auto.
  exists c'. cbn [skipn] in S, T. repeat split; auto.
  - replace (3 + loop_steps ws)%nat with (1 + (loop_steps ws + 2))%nat by lia.
    rewrite (run_add X eff apply note_aborted abort_status 1).
    replace (run 1 (init X eff (map (prog eff) ws) x0)) with (Run c0 [FTest; FOps []]) by reflexivity.
    rewrite (run_add X eff apply note_aborted abort_status (loop_steps ws)), S. reflexivity.
  - rewrite STt. cbn. rewrite Nat.sub_0_r. reflexivity.
Qed.

Definition chain_size (hs : list (handler eff)) : nat :=
  fold_right (fun h n => (List.length h + n + 3)%nat) 8%nat hs.

Lemma loop_steps_le ws : (loop_steps ws + List.length ws <= 2 * chain_size (map (prog eff) ws))%nat.
Proof.
  induction ws as [|h t IH]; cbn [loop_steps map chain_size fold_right List.length]; [lia|].
  fold (chain_size (map (prog eff) t)). set (N := chain_size (map (prog eff) t)) in *. clearbody N.
  unfold prog. rewrite !app_length. unfold effs. rewrite !map_length.
  destruct (calls h); cbn [List.length]; lia.
Qed.

(* the bound: an onion run needs at most 4 * size + 64 steps, which is the dispatcher's fuel *)
Theorem onion_steps_bound (ws : list wb) x0 : Z.of_nat (List.length ws) <= 63 ->
  exists n c, (n <= 4 * chain_size (map (prog eff) ws) + 64)%nat
    /\ run n (init X eff (map (prog eff) ws) x0) = Halt c
    /\ xs c = apply_all X eff apply (onion eff ws) x0
    /\ started c = seq 0 (List.length ws).
Proof.
  intros Hs. destruct (onion_steps_exact ws x0 Hs) as (c & R & T & S).
  exists (3 + loop_steps ws)%nat, c. repeat split; auto.
  pose proof (loop_steps_le ws). lia.
Qed.

Theorem onion_fuel (ws : list wb) x0 fuel : Z.of_nat (List.length ws) <= 63 ->
  (4 * chain_size (map (prog eff) ws) + 64 <= fuel)%nat ->
  exists c, run fuel (init X eff (map (prog eff) ws) x0) = Halt c
    /\ xs c = apply_all X eff apply (onion eff ws) x0
    /\ started c = seq 0 (List.length ws).
Proof.
  intros Hs Hf. destruct (onion_steps_bound ws x0 Hs) as (n & c & Hn & R & T & S).
  exists c. repeat split; auto. apply (run_halt_le n fuel _ c R). lia.
Qed.
End Bound.

(* ====================================================================== *)
(* (a) what a registration program builds                                 *)
(* ====================================================================== *)

(* ---- global middleware: the top-level Use statements ---- *)
Lemma globals_in_group_stmt strict : forall s st st',
  exec_stmt strict s st = Ok st' -> g_prefix st <> [] -> r_globals st' = r_globals st.
Proof.
  apply (stmt_ind2
    (fun s => forall st st', exec_stmt strict s st = Ok st' -> g_prefix st <> [] -> r_globals st' = r_globals st)
    (fun ss => forall st st', exec_block strict ss st = Ok st' -> g_prefix st <> [] -> r_globals st' = r_globals st)).
  - intros m st st' H Hp. cbn [exec_stmt] in H. inversion H; subst st'. unfold exec_use.
    destruct (g_prefix st); [congruence|reflexivity].
  - intros p m body IH st st' H Hp. rewrite exec_stmt_group, format_core in H.
    destruct (exec_block strict body _) as [st2|] eqn:E; [|discriminate]. inversion H; subst st'. clear H.
    cbn [set_scope r_globals]. rewrite (IH _ _ E).
    + reflexivity.
    + cbn [set_scope g_prefix]. destruct (g_prefix st); [congruence|discriminate].
  - intros meths P main var later name st st' H Hp. cbn [exec_stmt] in H. apply exec_route_ok in H. subst st'. reflexivity.
  - intros h st st' H Hp. cbn [exec_stmt] in H. inversion H; subst. reflexivity.
  - intros h st st' H Hp. cbn [exec_stmt] in H. inversion H; subst. reflexivity.
  - intros st st' H Hp. cbn [exec_block run_block] in H. inversion H; subst. reflexivity.
  - intros x r IHx IHr st st' H Hp. unfold exec_block in H. cbn [run_block] in H.
    destruct (exec_stmt strict x st) as [st1|] eqn:E; [|discriminate]. fold (exec_block strict) in H.
    destruct (proj1 (scoping_both strict) x st st1 E) as (_ & P1 & _).
    rewrite (IHr _ _ H) by congruence. apply (IHx _ _ E Hp).
Qed.

Lemma globals_in_group_block strict : forall ss st st',
  exec_block strict ss st = Ok st' -> g_prefix st <> [] -> r_globals st' = r_globals st.
Proof.
  induction ss as [|x r IH]; intros st st' H Hp.
  - cbn [exec_block run_block] in H. inversion H; subst. reflexivity.
  - unfold exec_block in H. cbn [run_block] in H.
    destruct (exec_stmt strict x st) as [st1|] eqn:E; [|discriminate]. fold (exec_block strict) in H.
    destruct (proj1 (scoping_both strict) x st st1 E) as (_ & P1 & _).
    rewrite (IH _ _ H) by congruence. apply (globals_in_group_stmt strict x _ _ E Hp).
Qed.

Lemma globals_top strict : forall ss st st',
  exec_block strict ss st = Ok st' -> g_prefix st = [] -> r_globals st' = r_globals st ++ den_globals ss.
Proof.
  induction ss as [|x r IH]; intros st st' H Hp.
  - cbn [exec_block run_block] in H. inversion H; subst. cbn [den_globals]. rewrite app_nil_r. reflexivity.
  - unfold exec_block in H. cbn [run_block] in H.
    destruct (exec_stmt strict x st) as [st1|] eqn:E; [|discriminate]. fold (exec_block strict) in H.
    destruct (proj1 (scoping_both strict) x st st1 E) as (_ & P1 & _).
    rewrite (IH _ _ H) by congruence.
    destruct x as [m|p m body|meths P main var later name|h|h]; cbn [den_globals].
    + cbn [exec_stmt] in E. inversion E; subst st1. unfold exec_use. rewrite Hp. cbn [is_nil r_globals].
      rewrite app_assoc. reflexivity.
    + rewrite exec_stmt_group, format_core in E.
      destruct (exec_block strict body _) as [st2|] eqn:E2; [|discriminate]. inversion E; subst st1.
      cbn [set_scope r_globals]. rewrite (globals_in_group_block strict _ _ _ E2).
      * reflexivity.
      * cbn [set_scope g_prefix]. rewrite Hp. discriminate.
    + cbn [exec_stmt] in E. apply exec_route_ok in E. subst st1. reflexivity.
    + cbn [exec_stmt] in E. inversion E; subst. reflexivity.
    + cbn [exec_stmt] in E. inversion E; subst. reflexivity.
Qed.

(* the globals of a whole program are its top-level Use statements, in order *)
Theorem program_globals strict ss st' : exec_block strict ss rinit = Ok st' -> r_globals st' = den_globals ss.
Proof. intros H. apply (globals_top strict ss rinit st' H). reflexivity. Qed.

(* ---- the table after reg_routes ---- *)
Definition rsig (r : route) : list str * str * str := (rt_methods r, rt_path r, rt_name r).
Definition dsig (d : rdef) : list str * str * str := (df_methods d, df_path d, df_name d).

Lemma reg_routes_panic ds : fold_left (fun acc d => bind acc (fun r => reg_route r d)) ds Panic = Panic.
Proof. induction ds as [|d ds IH]; cbn [fold_left bind]; auto. Qed.
Lemma reg_routes_nil rt : reg_routes rt [] = Ok rt.
Proof. reflexivity. Qed.
Lemma reg_routes_cons rt d ds : reg_routes rt (d :: ds) = bind (reg_route rt d) (fun r => reg_routes r ds).
Proof.
  unfold reg_routes. cbn [fold_left bind]. destruct (reg_route rt d); cbn [bind]; [reflexivity|apply reg_routes_panic].
Qed.

(* one registration: the new route is appended with the definition's methods, path and name; options and cache are kept;
   a static path goes to the static tier only *)
Lemma reg_route_char rt d rt' : reg_route rt d = Ok rt' ->
  good_info (df_nil_handler d) (df_methods d) = true /\
  (exists r, routes rt' = routes rt ++ [r] /\ rsig r = dsig d) /\
  ropts rt' = ropts rt /\ cache rt' = cache rt /\
  (is_fixed_path (df_path d) = true ->
     stable rt' = fold_left (fun st m => map_set (m ++ df_path d) (List.length (routes rt)) st) (df_methods d) (stable rt) /\
     regular rt' = regular rt /\ irregular rt' = irregular rt).
Proof.
  unfold reg_route. destruct (good_info (df_nil_handler d) (df_methods d)); cbn [negb]; [|discriminate].
  destruct (is_fixed_path (df_path d)).
  - intros H. inversion H; subst rt'; clear H. cbn [set_tables routes ropts cache stable regular irregular].
    split; [reflexivity|]. split; [eexists; split; [reflexivity|reflexivity]|]. auto.
  - destruct (compile_dyn (df_path d)) as [dy|]; cbn [bind]; [|discriminate].
    destruct (compile_re dy) as [re|]; cbn [bind]; [|discriminate].
    destruct (d_first dy); intros H; inversion H; subst rt'; clear H;
      cbn [set_tables routes ropts cache stable regular irregular];
      (split; [reflexivity|]); (split; [eexists; split; [reflexivity|reflexivity]|]);
      (split; [reflexivity|]); (split; [reflexivity|]); discriminate.
Qed.

Lemma reg_routes_char : forall ds rt rt', reg_routes rt ds = Ok rt' ->
  map rsig (routes rt') = map rsig (routes rt) ++ map dsig ds /\
  ropts rt' = ropts rt /\ cache rt' = cache rt /\
  Forall (fun d => good_info (df_nil_handler d) (df_methods d) = true) ds.
Proof.
  induction ds as [|d ds IH]; intros rt rt' H.
  - rewrite reg_routes_nil in H. inversion H; subst. rewrite app_nil_r. auto.
  - rewrite reg_routes_cons in H. destruct (reg_route rt d) as [rt1|] eqn:E; cbn [bind] in H; [|discriminate].
    destruct (reg_route_char rt d rt1 E) as (Hg & (r & Hr & Hs) & Ho & Hc & _).
    destruct (IH rt1 rt' H) as (IH1 & IH2 & IH3 & IH4).
    split; [|split; [congruence|split; [congruence|constructor; assumption]]].
    rewrite IH1, Hr, map_app. cbn [map]. rewrite Hs, <- app_assoc. reflexivity.
Qed.

Lemma sys_build_inv o ss s : sys_build o ss = Ok s ->
  exists st, exec_block (o_strict o) ss rinit = Ok st /\
    reg_routes (new_router o) (map rdef_of (r_routes st)) = Ok (s_rt s) /\
    s_routes s = r_routes st /\ s_globals s = r_globals st /\
    s_noroute s = r_noroute st /\ s_noallowed s = r_noallowed st.
Proof.
  unfold sys_build. destruct (exec_block (o_strict o) ss rinit) as [st|]; cbn [bind]; [|discriminate].
  destruct (reg_routes (new_router o) (map rdef_of (r_routes st))) as [rt|] eqn:E; cbn [bind]; [|discriminate].
  intros H. inversion H; subst s. exists st. cbn [s_rt s_routes s_globals s_noroute s_noallowed]. repeat split; auto.
Qed.

Lemma sys_build_sigs o ss s : sys_build o ss = Ok s ->
  map rsig (routes (s_rt s)) = map dsig (map rdef_of (s_routes s)) /\
  ropts (s_rt s) = o /\ cache (s_rt s) = [] /\
  Forall (fun r => good_info false (format_methods (r_methods r)) = true) (s_routes s).
Proof.
  intros H. destruct (sys_build_inv o ss s H) as (st & _ & Hr & Hs & _).
  destruct (reg_routes_char _ _ _ Hr) as (H1 & H2 & H3 & H4). rewrite Hs.
  split; [exact H1|]. split; [exact H2|]. split; [exact H3|].
  rewrite Forall_forall in *. intros r Hin. apply (H4 (rdef_of r)). apply in_map. exact Hin.
Qed.

(* (a) the routes of the built router are the lexical denotation of the program, and route id i of the table is the
   i-th of them: same path, methods (after formatMethodsWithDefault) and name *)
Theorem sys_build_routes o ss s : sys_build o ss = Ok s ->
  s_routes s = den_block (o_strict o) [] [] ss /\
  List.length (routes (s_rt s)) = List.length (s_routes s) /\
  forall i r, nth_error (s_routes s) i = Some r ->
    exists rt, nth_error (routes (s_rt s)) i = Some rt /\ rt_path rt = r_path r /\
      rt_methods rt = format_methods (r_methods r) /\ rt_name rt = r_name r.
Proof.
  intros H. destruct (sys_build_inv o ss s H) as (st & He & _ & Hs & _).
  destruct (sys_build_sigs o ss s H) as (Hsig & _).
  split; [rewrite Hs; apply (program_routes _ _ _ He)|].
  split.
  - rewrite <- (map_length rsig), Hsig, !map_length. reflexivity.
  - intros i r Hi.
    assert (Hn: nth_error (map rsig (routes (s_rt s))) i = Some (dsig (rdef_of r))).
    { rewrite Hsig, !nth_error_map, Hi. reflexivity. }
    rewrite nth_error_map in Hn. destruct (nth_error (routes (s_rt s)) i) as [rt|]; [|discriminate].
    exists rt. split; [reflexivity|]. cbn [option_map] in Hn. inversion Hn. auto.
Qed.

(* (a) global middleware = the top-level Use statements in order; NotFound / NotAllowed handlers as registration left them *)
Theorem sys_build_globals o ss s : sys_build o ss = Ok s -> s_globals s = den_globals ss.
Proof.
  intros H. destruct (sys_build_inv o ss s H) as (st & He & _ & _ & Hg & _).
  rewrite Hg. apply (program_globals _ _ _ He).
Qed.

(* ====================================================================== *)
(* (b) the chain that runs                                                *)
(* ====================================================================== *)
Definition opt_params (ps : option params) : list (str * str) := match ps with Some l => l | None => [] end.

Theorem sys_chain_found progs hooks s m p rid ps r is_opt x :
  fst (quick_match (s_rt s) m p) = QFound rid ps -> nth_error (s_routes s) rid = Some r ->
  sys_target progs s (fst (quick_match (s_rt s) m p)) p = Some (route_target progs r (opt_params ps) p) /\
  fst (assemble (sys_cfg progs hooks s) is_opt (route_target progs r (opt_params ps) p) x) =
    map progs (s_globals s) ++ map progs (r_handlers r) ++ [progs (r_main r)].
Proof. intros Hq Hr. rewrite Hq. cbn [sys_target]. rewrite Hr. split; reflexivity. Qed.

Theorem sys_chain_fallback progs hooks s m p rid r is_opt x :
  fst (quick_match (s_rt s) m p) = QFallback rid -> nth_error (s_routes s) rid = Some r ->
  sys_target progs s (fst (quick_match (s_rt s) m p)) p = Some (route_target progs r [] p) /\
  fst (assemble (sys_cfg progs hooks s) is_opt (route_target progs r [] p) x) =
    map progs (s_globals s) ++ map progs (r_handlers r) ++ [progs (r_main r)].
Proof. intros Hq Hr. rewrite Hq. cbn [sys_target]. rewrite Hr. split; reflexivity. Qed.

Theorem sys_chain_not_found progs hooks s m p is_opt x :
  fst (quick_match (s_rt s) m p) = QNotFound ->
  exists t, sys_target progs s (fst (quick_match (s_rt s) m p)) p = Some t /\
  fst (assemble (sys_cfg progs hooks s) is_opt t x) =
    map progs (s_globals s) ++ (match s_noroute s with [] => [default_404] | hs => map progs hs end).
Proof.
  intros Hq. rewrite Hq. cbn [sys_target]. eexists. split; [reflexivity|]. cbn [assemble fst sys_cfg globals].
  destruct (s_noroute s); reflexivity.
Qed.

Theorem sys_chain_not_allowed progs hooks s m p al is_opt x :
  fst (quick_match (s_rt s) m p) = QNotAllowed al ->
  exists t, sys_target progs s (fst (quick_match (s_rt s) m p)) p = Some t /\
  fst (assemble (sys_cfg progs hooks s) is_opt t x) =
    map progs (s_globals s) ++ (match s_noallowed s with [] => [default_405 is_opt al] | hs => map progs hs end).
Proof.
  intros Hq. rewrite Hq. cbn [sys_target]. eexists. split; [reflexivity|]. cbn [assemble fst sys_cfg globals].
  destruct (s_noallowed s); reflexivity.
Qed.

(* the same chain as a list of handler ids: Reg.route_chain *)
Lemma route_chain_progs (progs : hid -> hprog) globals r :
  map progs (route_chain globals r) = map progs globals ++ map progs (r_handlers r) ++ [progs (r_main r)].
Proof. unfold route_chain. rewrite !map_app. reflexivity. Qed.

(* (b) in one statement: whatever the lookup returns, the chain that runs is global middleware (in Use order), then
   either the route's middleware (enclosing groups outermost first, then its own) and its main handler, or the
   NotFound / NotAllowed handlers (the built-in ones when none were registered) *)
Theorem sys_chain progs hooks s m p is_opt x :
  match fst (quick_match (s_rt s) m p) with
  | QFound rid _ | QFallback rid =>
      forall r, nth_error (s_routes s) rid = Some r ->
        exists t, sys_target progs s (fst (quick_match (s_rt s) m p)) p = Some t /\
          fst (assemble (sys_cfg progs hooks s) is_opt t x) = map progs (route_chain (s_globals s) r)
  | QNotFound =>
      exists t, sys_target progs s (fst (quick_match (s_rt s) m p)) p = Some t /\
        fst (assemble (sys_cfg progs hooks s) is_opt t x) =
          map progs (s_globals s) ++ (match s_noroute s with [] => [default_404] | hs => map progs hs end)
  | QNotAllowed al =>
      exists t, sys_target progs s (fst (quick_match (s_rt s) m p)) p = Some t /\
        fst (assemble (sys_cfg progs hooks s) is_opt t x) =
          map progs (s_globals s) ++ (match s_noallowed s with [] => [default_405 is_opt al] | hs => map progs hs end)
  | QPanic | QUnsup => sys_target progs s (fst (quick_match (s_rt s) m p)) p = None
  end.
Proof.
  destruct (fst (quick_match (s_rt s) m p)) as [rid ps|rid|al| | |] eqn:Hq.
  - intros r Hr. destruct (sys_chain_found progs hooks s m p rid ps r is_opt x Hq Hr) as [H1 H2].
    rewrite Hq in H1. eexists. split; [exact H1|]. rewrite H2, route_chain_progs. reflexivity.
  - intros r Hr. destruct (sys_chain_fallback progs hooks s m p rid r is_opt x Hq Hr) as [H1 H2].
    rewrite Hq in H1. eexists. split; [exact H1|]. rewrite H2, route_chain_progs. reflexivity.
  - pose proof (sys_chain_not_allowed progs hooks s m p al is_opt x Hq) as H. rewrite Hq in H. exact H.
  - pose proof (sys_chain_not_found progs hooks s m p is_opt x Hq) as H. rewrite Hq in H. exact H.
  - reflexivity.
  - reflexivity.
Qed.

(* ====================================================================== *)
(* (c) selection among static routes                                      *)
(* ====================================================================== *)
Lemma find_last_idx_map {A B} (g : A -> B) (f : B -> bool) l : forall i acc,
  find_last_idx f (map g l) i acc = find_last_idx (fun x => f (g x)) l i acc.
Proof. induction l as [|x l IH]; intros i acc; cbn [map find_last_idx]; auto. Qed.

(* the static tier after registering static routes only: the last registration of the key wins *)
Lemma reg_routes_stable key : forall ds rt rt', reg_routes rt ds = Ok rt' ->
  forallb (fun d => is_fixed_path (df_path d)) ds = true ->
  assoc key (stable rt') =
    find_last_idx (fun d => existsb (fun m => str_eqb key (m ++ df_path d)) (df_methods d)) ds
      (List.length (routes rt)) (assoc key (stable rt)) /\
  regular rt' = regular rt /\ irregular rt' = irregular rt.
Proof.
  induction ds as [|d ds IH]; intros rt rt' H Hf.
  - rewrite reg_routes_nil in H. inversion H; subst. cbn [find_last_idx]. auto.
  - rewrite reg_routes_cons in H. destruct (reg_route rt d) as [rt1|] eqn:E; cbn [bind] in H; [|discriminate].
    cbn [forallb] in Hf. apply andb_true_iff in Hf. destruct Hf as [Hd Hf].
    destruct (reg_route_char rt d rt1 E) as (_ & (r & Hr & _) & _ & _ & Hst).
    destruct (Hst Hd) as (Hs & Hrg & Hir).
    destruct (IH rt1 rt' H Hf) as (IH1 & IH2 & IH3).
    split; [|split; congruence].
    rewrite IH1. cbn [find_last_idx]. rewrite Hr, app_length. cbn [List.length]. rewrite Nat.add_1_r.
    rewrite Hs. rewrite (assoc_fold_set (fun m => m ++ df_path d)). reflexivity.
Qed.

(* registered paths are rooted *)
Lemma den_rooted strict : forall ss pfx g, Forall (fun r => rooted (r_path r)) (den_block strict pfx g ss).
Proof.
  apply (block_ind2
    (fun s => forall pfx g, Forall (fun r => rooted (r_path r)) (fst (den_stmt strict pfx g s)))
    (fun ss => forall pfx g, Forall (fun r => rooted (r_path r)) (den_block strict pfx g ss))).
  - intros m pfx g. constructor.
  - intros p m body IH pfx g. rewrite den_stmt_group. cbn [fst]. apply IH.
  - intros meths P main var later name pfx g. cbn [den_stmt fst]. constructor; [|constructor].
    cbn [r_path]. destruct (is_nil pfx); reflexivity.
  - intros h pfx g. constructor.
  - intros h pfx g. constructor.
  - intros pfx g. constructor.
  - intros x r IHx IHr pfx g. unfold den_block. cbn [den_blockf]. fold (den_block strict pfx).
    specialize (IHx pfx g). destruct (den_stmt strict pfx g x) as [rs g']. cbn [fst] in IHx.
    apply Forall_app. split; [exact IHx|apply IHr].
Qed.

Lemma good_info_no_slash nh ms : good_info nh ms = true -> forall m, In m ms -> no_slash m.
Proof.
  unfold good_info. intros H m Hin. apply andb_true_iff in H. destruct H as [_ H].
  rewrite forallb_forall in H. apply no_slash_any. apply mem_in. apply H. exact Hin.
Qed.

(* the selection rule for static routes: the last registered route with that method and that (normalised) path *)
Definition static_select (rs : list rroute) (m k : str) : option nat :=
  find_last_idx (fun r => mem m (format_methods (r_methods r)) && str_eqb (r_path r) k) rs 0 None.

Lemma sys_static_assoc o ss s m k : sys_build o ss = Ok s ->
  forallb (fun r => is_fixed_path (r_path r)) (s_routes s) = true ->
  no_slash m -> rooted k ->
  assoc (m ++ k) (stable (s_rt s)) = static_select (s_routes s) m k /\
  regular (s_rt s) = [] /\ irregular (s_rt s) = [].
Proof.
  intros H Hfix Hm Hk. destruct (sys_build_inv o ss s H) as (st & He & Hr & Hs & _).
  destruct (sys_build_sigs o ss s H) as (_ & _ & _ & Hgood).
  destruct (sys_build_routes o ss s H) as (Hden & _).
  rewrite <- Hs in Hr.
  destruct (reg_routes_stable (m ++ k) _ _ _ Hr) as (Ha & Hrg & Hir).
  { rewrite forallb_forall in *. intros d Hd. apply in_map_iff in Hd. destruct Hd as (r & <- & Hin).
    cbn [rdef_of df_path]. apply Hfix. exact Hin. }
  split; [|split; assumption].
  rewrite Ha. cbn [new_router routes stable assoc List.length]. rewrite find_last_idx_map. unfold static_select.
  apply find_last_idx_ext_in. intros r Hin. cbn [rdef_of df_methods df_path].
  assert (Hroot: rooted (r_path r)).
  { pose proof (den_rooted (o_strict o) ss [] []) as Hall. rewrite <- Hden in Hall.
    rewrite Forall_forall in Hall. apply Hall. exact Hin. }
  rewrite Forall_forall in Hgood. pose proof (good_info_no_slash _ _ (Hgood r Hin)) as Hns.
  apply eq_iff_eq_true. rewrite existsb_exists, andb_true_iff, mem_in, str_eqb_eq. split.
  - intros (m' & Hin' & Hkk). apply str_eqb_eq in Hkk.
    destruct (key_split m m' k (r_path r) Hm (Hns m' Hin') Hk Hroot Hkk) as [-> ->]. auto.
  - intros [Hin' ->]. exists m. split; [exact Hin'|apply str_eqb_refl].
Qed.

(* (c) all routes static, no intercept option: a request whose normalised path is k selects the LAST registered route
   that has the request method and the path k; it is found in the static tier (no params) *)
Theorem sys_static_selection o ss s m p k rid : sys_build o ss = Ok s ->
  forallb (fun r => is_fixed_path (r_path r)) (s_routes s) = true ->
  o_intercept o = [] -> no_slash m ->
  format_path (o_strict o) p = Ok k ->
  static_select (s_routes s) m k = Some rid ->
  fst (quick_match (s_rt s) m p) = QFound rid None.
Proof.
  intros H Hfix Hi Hm Hp Hsel.
  assert (Hk: rooted k). { rewrite format_core in Hp. inversion Hp. reflexivity. }
  destruct (sys_static_assoc o ss s m k H Hfix Hm Hk) as (Ha & _).
  destruct (sys_build_sigs o ss s H) as (_ & Ho & _).
  unfold quick_match, quick_match_gen. cbv zeta. rewrite Ho, Hi. cbn [nil_b]. rewrite Hp.
  unfold match_. rewrite Ha, Hsel. reflexivity.
Qed.

(* what static_select returns: an index with that method and path, and no later one has both *)
Lemma find_last_idx_last {A} (f : A -> bool) l : forall i acc k, find_last_idx f l i acc = Some k ->
  forall j x, (k < j)%nat -> (i <= j)%nat -> nth_error l (j - i) = Some x -> f x = false.
Proof.
  induction l as [|y l IH]; intros i acc k H j x Hkj Hij Hn; cbn [find_last_idx] in H.
  - destruct (j - i)%nat; discriminate.
  - destruct (Nat.eq_dec j i) as [->|Hne].
    + rewrite Nat.sub_diag in Hn. cbn [nth_error] in Hn. inversion Hn; subst y.
      destruct (f x) eqn:E; [|reflexivity].
      apply find_last_idx_some in H. destruct H as [H|[Hle _]]; [inversion H; lia|lia].
    + apply (IH _ _ _ H j x Hkj); [lia|]. replace (j - i)%nat with (S (j - S i)) in Hn by lia. exact Hn.
Qed.

Theorem static_select_spec rs m k rid : static_select rs m k = Some rid ->
  (exists r, nth_error rs rid = Some r /\ In m (format_methods (r_methods r)) /\ r_path r = k) /\
  (forall j r, (rid < j)%nat -> nth_error rs j = Some r -> ~ (In m (format_methods (r_methods r)) /\ r_path r = k)).
Proof.
  unfold static_select. intros H. split.
  - apply find_last_idx_some in H. destruct H as [H|[_ (r & Hn & Hf)]]; [discriminate|].
    rewrite Nat.sub_0_r in Hn. exists r. apply andb_true_iff in Hf. destruct Hf as [H1 H2].
    apply mem_in in H1. apply str_eqb_eq in H2. auto.
  - intros j r Hlt Hn [H1 H2].
    pose proof (find_last_idx_last _ _ _ _ _ H j r Hlt (Nat.le_0_l j)) as Hf.
    rewrite Nat.sub_0_r in Hf. specialize (Hf Hn). apply andb_false_iff in Hf.
    destruct Hf as [Hf|Hf].
    + apply mem_in in H1. congruence.
    + apply str_eqb_neq in Hf. congruence.
Qed.

Theorem static_select_complete rs m k j r : nth_error rs j = Some r ->
  In m (format_methods (r_methods r)) -> r_path r = k -> exists rid, static_select rs m k = Some rid /\ (j <= rid)%nat.
Proof.
  intros Hn H1 H2. unfold static_select.
  destruct (find_last_idx _ rs 0 None) as [rid|] eqn:E.
  - exists rid. split; [reflexivity|]. destruct (le_lt_dec j rid) as [Hle|Hlt]; [exact Hle|].
    pose proof (find_last_idx_last _ _ _ _ _ E j r Hlt (Nat.le_0_l j)) as Hf. rewrite Nat.sub_0_r in Hf.
    specialize (Hf Hn). apply mem_in in H1. rewrite H1 in Hf. cbn [andb] in Hf.
    apply str_eqb_neq in Hf. congruence.
  - apply find_last_idx_none in E. destruct E as [_ E]. specialize (E r (nth_error_In _ _ Hn)).
    apply mem_in in H1. rewrite H1 in E. cbn [andb] in E. apply str_eqb_neq in E. congruence.
Qed.

(* and when no route has that method and path, no route is selected, except that HEAD falls back to GET *)
Theorem sys_static_selection_none o ss s m p k : sys_build o ss = Ok s ->
  forallb (fun r => is_fixed_path (r_path r)) (s_routes s) = true ->
  o_intercept o = [] -> no_slash m ->
  format_path (o_strict o) p = Ok k ->
  static_select (s_routes s) m k = None ->
  forall rid ps, fst (quick_match (s_rt s) m p) = QFound rid ps ->
    m = HEAD /\ ps = None /\ static_select (s_routes s) GET k = Some rid.
Proof.
  intros H Hfix Hi Hm Hp Hsel rid ps.
  assert (Hk: rooted k). { rewrite format_core in Hp. inversion Hp. reflexivity. }
  destruct (sys_static_assoc o ss s m k H Hfix Hm Hk) as (Ha & Hrg & Hir).
  destruct (sys_static_assoc o ss s GET k H Hfix no_slash_GET Hk) as (Hget & _).
  destruct (sys_build_sigs o ss s H) as (_ & Ho & Hc & _).
  assert (Hdyn: forall rt m', regular rt = [] -> irregular rt = [] -> dyn_match rt m' k = LNone).
  { intros rt m' E1 E2. unfold dyn_match. destruct k as [|c tl]; [destruct Hk|]. cbn [first_node].
    rewrite E1, E2. unfold map_get_list. cbn [assoc scan].
    destruct (index_of slash tl) as [[|pos]|]; reflexivity. }
  assert (Hm1: forall m', assoc (m' ++ k) (stable (s_rt s)) = None -> match_ (s_rt s) m' k = (LNone, s_rt s)).
  { intros m' Hnone. unfold match_. rewrite Hnone, Hc. rewrite (Hdyn _ m' Hrg Hir).
    destruct (o_caching (ropts (s_rt s))); cbn [aget afind]; rewrite <- Hc; rewrite set_cache_id; reflexivity. }
  unfold quick_match, quick_match_gen. cbv zeta. rewrite Ho, Hi. cbn [nil_b]. rewrite Hp.
  rewrite (Hm1 m) by congruence.
  destruct (str_eqb_spec m HEAD) as [Eh|Eh].
  - destruct (static_select (s_routes s) GET k) as [rid'|] eqn:Eg.
    + unfold match_. rewrite Hget. cbn [fst]. intros E. inversion E; subst. auto.
    + rewrite (Hm1 GET) by congruence.
      destruct (if o_fallback o then assoc (m ++ fallback_suffix) (stable (s_rt s)) else None); [discriminate|].
      destruct (o_na o); [|discriminate].
      destruct (probe_methods (s_rt s) any_methods m k []) as [[[[|a al]|]|] rt3]; discriminate.
  - destruct (if o_fallback o then assoc (m ++ fallback_suffix) (stable (s_rt s)) else None); [discriminate|].
    destruct (o_na o); [|discriminate].
    destruct (probe_methods (s_rt s) any_methods m k []) as [[[[|a al]|]|] rt3]; discriminate.
Qed.

(* ====================================================================== *)
(* (d) C04 end to end: the onion, with the dispatcher's own fuel          *)
(* ====================================================================== *)
Open Scope Z_scope.

Lemma prog_size_chain_size hs : prog_size hs = chain_size eff hs.
Proof. reflexivity. Qed.

(* the dispatcher on a chain of well-behaved handlers: it never runs out of fuel, nothing panics, the effects are applied
   in onion order on the context that assemble prepared, every handler starts once in chain order, and the response is
   committed at the end. OnPanic is irrelevant (nothing panics); OnError must be absent (or it would run if a handler
   added an error). *)
Theorem handle_request_onion cfg o t x0 (ws : list (wb eff)) :
  on_error cfg = None ->
  fst (assemble cfg o t x0) = map (prog eff) ws ->
  Z.of_nat (List.length ws) <= 63 ->
  handle_request cfg o t x0 =
    Done (final_commit (apply_all xctx eff apply_eff (onion eff ws) (snd (assemble cfg o t x0)))) (seq 0 (List.length ws)).
Proof.
  intros He Ha Hs. unfold handle_request, handle_request_gen.
  destruct (assemble cfg o t x0) as [hs x1]. cbn [fst snd] in *. subst hs. cbv zeta.
  destruct (onion_fuel xctx eff apply_eff note_aborted abort_status ws x1
              (4 * prog_size (map (prog eff) ws) + 64) Hs) as (c & R & T & S).
  { apply Nat.le_refl. }
  unfold mrun. rewrite R, He, T, S. reflexivity.
Qed.

(* handler tables whose entries (for the ids in question) are well-behaved programs *)
Definition wb_table (progs : hid -> hprog) (wbs : hid -> wb eff) (ids : list hid) : Prop :=
  forall id, In id ids -> progs id = prog eff (wbs id).

Lemma wb_table_map progs wbs ids : wb_table progs wbs ids -> map progs ids = map (prog eff) (map wbs ids).
Proof. intros H. rewrite map_map. apply map_ext_in. exact H. Qed.

(* the context the chain starts from for a matched route: fresh (whatever the pooled context was), with the route's
   params and the route name / request path recorded *)
Definition route_x1 (r : rroute) (ps : list (str * str)) (path : str) (sc : list nat) : xctx :=
  {| trace := []; w := winit sc;
     data := data_set k_route_path (DStr path) (data_set k_route_name (DStr (r_name r)) []);
     Dispatch.params := ps; errors := []; resp_own := true; req_own := true |}.

Lemma serve_route_onion progs wbs hooks s r ps path o sc pooled :
  snd hooks = None ->
  wb_table progs wbs (route_chain (s_globals s) r) ->
  (List.length (route_chain (s_globals s) r) <= 63)%nat ->
  serve (sys_cfg progs hooks s) o sc (route_target progs r ps path) pooled =
    Done (final_commit (apply_all xctx eff apply_eff (onion eff (map wbs (route_chain (s_globals s) r)))
                          (route_x1 r ps path sc)))
         (seq 0 (List.length (route_chain (s_globals s) r))).
Proof.
  intros Hh Hwb Hlen. unfold serve.
  rewrite (handle_request_onion _ _ _ _ (map wbs (route_chain (s_globals s) r))).
  - rewrite map_length. reflexivity.
  - exact Hh.
  - rewrite <- (wb_table_map _ _ _ Hwb). rewrite route_chain_progs. reflexivity.
  - rewrite map_length. lia.
Qed.

(* (d) a request that resolves to route r; no hooks; every handler of the chain globals ++ route middleware ++ [main]
   is a well-behaved program; at most 63 of them. Then the request is Done (never OutOfFuel, never a panic), its final
   context is the onion of all the handlers' effects applied to the fresh route context and then committed, and the
   handlers started are 0, 1, ..., n-1 in this order. *)
Theorem sys_onion progs wbs s m p sc pooled rid ps r :
  fst (quick_match (s_rt s) m p) = QFound rid ps ->
  nth_error (s_routes s) rid = Some r ->
  let ids := s_globals s ++ r_handlers r ++ [r_main r] in
  wb_table progs wbs ids ->
  (List.length ids <= 63)%nat ->
  let ws := map wbs ids in
  let cfg := sys_cfg progs (None, None) s in
  let x1 := snd (assemble cfg (str_eqb m OPTIONS) (route_target progs r (opt_params ps) p) (p_x (ctx_init sc pooled))) in
  fst (sys_serve progs (None, None) s m p sc pooled) =
    Some (Done (final_commit (apply_all xctx eff apply_eff (onion eff ws) x1)) (seq 0 (List.length ws))).
Proof.
  intros Hq Hr ids Hwb Hlen ws cfg x1. unfold sys_serve.
  destruct (quick_match (s_rt s) m p) as [q rt']. cbn [fst] in Hq. subst q.
  cbn [sys_target fst]. rewrite Hr. fold (opt_params ps).
  rewrite (serve_route_onion progs wbs (None, None) s r (opt_params ps) p _ sc pooled eq_refl Hwb Hlen).
  unfold ws. rewrite map_length. reflexivity.
Qed.

Theorem sys_onion_fallback progs wbs s m p sc pooled rid r :
  fst (quick_match (s_rt s) m p) = QFallback rid ->
  nth_error (s_routes s) rid = Some r ->
  let ids := s_globals s ++ r_handlers r ++ [r_main r] in
  wb_table progs wbs ids ->
  (List.length ids <= 63)%nat ->
  let ws := map wbs ids in
  let cfg := sys_cfg progs (None, None) s in
  let x1 := snd (assemble cfg (str_eqb m OPTIONS) (route_target progs r [] p) (p_x (ctx_init sc pooled))) in
  fst (sys_serve progs (None, None) s m p sc pooled) =
    Some (Done (final_commit (apply_all xctx eff apply_eff (onion eff ws) x1)) (seq 0 (List.length ws))).
Proof.
  intros Hq Hr ids Hwb Hlen ws cfg x1. unfold sys_serve.
  destruct (quick_match (s_rt s) m p) as [q rt']. cbn [fst] in Hq. subst q.
  cbn [sys_target fst]. rewrite Hr.
  rewrite (serve_route_onion progs wbs (None, None) s r [] p _ sc pooled eq_refl Hwb Hlen).
  unfold ws. rewrite map_length. reflexivity.
Qed.

(* the context after assemble, written out *)
Lemma sys_onion_x1 progs hooks s r ps path o sc pooled :
  snd (assemble (sys_cfg progs hooks s) o (route_target progs r ps path) (p_x (ctx_init sc pooled))) = route_x1 r ps path sc.
Proof. reflexivity. Qed.

(* the same for a request no route answers, with the custom NotFound handlers (or the built-in 404 handler, which is
   the well-behaved program that only writes the 404 error) *)
Definition wb_404 : wb eff := {| pre := [EW (WHttpError msg_404 404)]; calls := false; post := [] |}.
Lemma default_404_wb : default_404 = prog eff wb_404.
Proof. reflexivity. Qed.

Theorem sys_onion_not_found progs wbs s m p sc pooled :
  fst (quick_match (s_rt s) m p) = QNotFound ->
  wb_table progs wbs (s_globals s ++ s_noroute s) ->
  (List.length (s_globals s ++ s_noroute s) < 63)%nat ->
  let ws := map wbs (s_globals s) ++ (match s_noroute s with [] => [wb_404] | hs => map wbs hs end) in
  fst (sys_serve progs (None, None) s m p sc pooled) =
    Some (Done (final_commit (apply_all xctx eff apply_eff (onion eff ws) (p_x (ctx_init sc pooled))))
               (seq 0 (List.length ws))).
Proof.
  intros Hq Hwb Hlen ws. unfold sys_serve.
  destruct (quick_match (s_rt s) m p) as [q rt']. cbn [fst] in Hq. subst q.
  cbn [sys_target fst]. unfold serve.
  rewrite (handle_request_onion _ _ _ _ ws).
  - reflexivity.
  - reflexivity.
  - cbn [assemble fst sys_cfg globals]. unfold ws. rewrite map_app.
    assert (Hg: wb_table progs wbs (s_globals s)). { intros id Hin. apply Hwb. apply in_or_app. auto. }
    assert (Hn: wb_table progs wbs (s_noroute s)). { intros id Hin. apply Hwb. apply in_or_app. auto. }
    rewrite <- (wb_table_map _ _ _ Hg). f_equal.
    destruct (s_noroute s) as [|h hs] eqn:E; [reflexivity|].
    rewrite <- (wb_table_map _ _ _ Hn). reflexivity.
  - unfold ws. rewrite app_length, map_length. rewrite app_length in Hlen.
    destruct (s_noroute s); cbn [List.length] in *; rewrite ?map_length; cbn [List.length]; lia.
Qed.

(* ====================================================================== *)
(* the route table only ever changes in its cache, so (c) holds for the   *)
(* whole life of the router                                               *)
(* ====================================================================== *)
Lemma probe_keeps_tables m path : forall ms rt acc, nocache (snd (probe_methods rt ms m path acc)) = nocache rt.
Proof.
  induction ms as [|m' rest IH]; intros rt acc; cbn [probe_methods]; [reflexivity|].
  destruct (str_eqb m' m); [apply IH|].
  pose proof (match_keeps_tables rt m' path) as Hk. destruct (match_ rt m' path) as [r rt1]. cbn [snd] in Hk.
  destruct r; cbn [snd]; rewrite ?IH; exact Hk.
Qed.

Lemma quick_keeps_tables rt m p : nocache (snd (quick_match rt m p)) = nocache rt.
Proof.
  unfold quick_match, quick_match_gen. cbv zeta.
  destruct (if nil_b (o_intercept (ropts rt)) then format_path (o_strict (ropts rt)) p
            else format_path (o_strict (ropts rt)) (o_intercept (ropts rt))) as [path|]; [|reflexivity].
  pose proof (match_keeps_tables rt m path) as H1. destruct (match_ rt m path) as [r1 rt1]. cbn [snd] in H1.
  destruct r1; cbn [snd]; try exact H1.
  assert (H2: nocache (snd (if str_eqb m HEAD then match_ rt1 GET path else (LNone, rt1))) = nocache rt1).
  { destruct (str_eqb m HEAD); [apply match_keeps_tables|reflexivity]. }
  destruct (if str_eqb m HEAD then match_ rt1 GET path else (LNone, rt1)) as [r2 rt2]. cbn [snd] in H2.
  destruct r2; cbn [snd]; try congruence.
  destruct (if o_fallback (ropts rt) then assoc (m ++ fallback_suffix) (stable rt2) else None); cbn [snd]; [congruence|].
  destruct (o_na (ropts rt)); cbn [snd]; [|congruence].
  pose proof (probe_keeps_tables m path any_methods rt2 []) as H3.
  destruct (probe_methods rt2 any_methods m path []) as [[[[|a al]|]|] rt3]; cbn [snd] in *; congruence.
Qed.

(* the router after a sequence of requests *)
Fixpoint sys_after (progs : hid -> hprog) (hooks : option hprog * option hprog) (s : sys) (reqs : list (str * str))
  (sc : list nat) (pooled : pctx) : sys :=
  match reqs with
  | [] => s
  | (m, p) :: rest => sys_after progs hooks (snd (sys_serve progs hooks s m p sc pooled)) rest sc pooled
  end.

Lemma sys_serve_snd progs hooks s m p sc pooled :
  snd (sys_serve progs hooks s m p sc pooled) = set_rt s (snd (quick_match (s_rt s) m p)).
Proof. unfold sys_serve. destruct (quick_match (s_rt s) m p); reflexivity. Qed.

(* serving requests changes nothing but the route cache *)
Theorem sys_after_same progs hooks sc pooled : forall reqs s,
  let s' := sys_after progs hooks s reqs sc pooled in
  nocache (s_rt s') = nocache (s_rt s) /\ s_routes s' = s_routes s /\ s_globals s' = s_globals s /\
  s_noroute s' = s_noroute s /\ s_noallowed s' = s_noallowed s.
Proof.
  induction reqs as [|[m p] rest IH]; intros s; cbn [sys_after]; [auto 10|].
  destruct (IH (snd (sys_serve progs hooks s m p sc pooled))) as (H1 & H2 & H3 & H4 & H5).
  rewrite sys_serve_snd in *. cbn [set_rt s_rt s_routes s_globals s_noroute s_noallowed] in *.
  rewrite quick_keeps_tables in H1. auto 10.
Qed.

(* (c) at any time: after any sequence of earlier requests the same route is selected *)
Theorem sys_static_selection_later progs hooks sc pooled reqs o ss s m p k rid : sys_build o ss = Ok s ->
  forallb (fun r => is_fixed_path (r_path r)) (s_routes s) = true ->
  o_intercept o = [] -> no_slash m ->
  format_path (o_strict o) p = Ok k ->
  static_select (s_routes s) m k = Some rid ->
  fst (quick_match (s_rt (sys_after progs hooks s reqs sc pooled)) m p) = QFound rid None.
Proof.
  intros H Hfix Hi Hm Hp Hsel.
  assert (Hk: rooted k). { rewrite format_core in Hp. inversion Hp. reflexivity. }
  destruct (sys_static_assoc o ss s m k H Hfix Hm Hk) as (Ha & _).
  destruct (sys_build_sigs o ss s H) as (_ & Ho & _).
  destruct (sys_after_same progs hooks sc pooled reqs s) as (Hn & _).
  set (s' := sys_after progs hooks s reqs sc pooled) in *.
  assert (Hst: stable (s_rt s') = stable (s_rt s)) by (change (stable (nocache (s_rt s')) = stable (nocache (s_rt s))); congruence).
  assert (Hos: o_strict (ropts (s_rt s')) = o_strict (ropts (s_rt s)))
    by (change (o_strict (ropts (nocache (s_rt s'))) = o_strict (ropts (nocache (s_rt s)))); congruence).
  assert (Hoi: o_intercept (ropts (s_rt s')) = o_intercept (ropts (s_rt s)))
    by (change (o_intercept (ropts (nocache (s_rt s'))) = o_intercept (ropts (nocache (s_rt s)))); congruence).
  unfold quick_match, quick_match_gen. cbv zeta. rewrite Hos, Hoi, Ho, Hi. cbn [nil_b]. rewrite Hp.
  unfold match_. rewrite Hst, Ha, Hsel. reflexivity.
Qed.

(* ====================================================================== *)
(* (a)-(d) together: from the program text to the onion                   *)
(* ====================================================================== *)
(* A program is accepted; all its routes are static; a request (method m, raw path p) whose normalised path is k;
   r is the last route of the program's lexical denotation with that method and path (at index rid). Then, after any
   earlier requests, the request runs global middleware (top-level Use, in order), then the middleware of the enclosing
   groups from the outermost in and the route's own (these are r_handlers r by den_block), then the main handler, as an
   onion, and is committed. *)
Theorem sys_static_onion progs wbs sc pooled reqs o ss s m p k rid r : sys_build o ss = Ok s ->
  forallb (fun r => is_fixed_path (r_path r)) (den_block (o_strict o) [] [] ss) = true ->
  o_intercept o = [] -> no_slash m ->
  format_path (o_strict o) p = Ok k ->
  static_select (den_block (o_strict o) [] [] ss) m k = Some rid ->
  nth_error (den_block (o_strict o) [] [] ss) rid = Some r ->
  let ids := den_globals ss ++ r_handlers r ++ [r_main r] in
  wb_table progs wbs ids ->
  (List.length ids <= 63)%nat ->
  let ws := map wbs ids in
  fst (sys_serve progs (None, None) (sys_after progs (None, None) s reqs sc pooled) m p sc pooled) =
    Some (Done (final_commit (apply_all xctx eff apply_eff (onion eff ws) (route_x1 r [] p sc))) (seq 0 (List.length ws))).
Proof.
  intros H Hfix Hi Hm Hp Hsel Hr ids Hwb Hlen ws.
  destruct (sys_build_routes o ss s H) as (Hden & _). pose proof (sys_build_globals o ss s H) as Hg.
  rewrite <- Hden in Hfix, Hsel, Hr.
  pose proof (sys_static_selection_later progs (None, None) sc pooled reqs o ss s m p k rid H Hfix Hi Hm Hp Hsel) as Hq.
  destruct (sys_after_same progs (None, None) sc pooled reqs s) as (_ & Hr' & Hg' & _).
  set (s' := sys_after progs (None, None) s reqs sc pooled) in *.
  rewrite <- Hr' in Hr. unfold ids in Hwb, Hlen. rewrite <- Hg, <- Hg' in Hwb, Hlen.
  pose proof (sys_onion progs wbs s' m p sc pooled rid None r Hq Hr Hwb Hlen) as Ho.
  cbv zeta in Ho. rewrite Ho. unfold ws, ids. rewrite Hg', Hg. reflexivity.
Qed.

(* ====================================================================== *)
(* Examples: the hypotheses are satisfiable                               *)
(* ====================================================================== *)
Module SysExample.
Import String.
Local Open Scope string_scope.
Local Open Scope nat_scope.

(* r.Use(h1, h2); r.Group("/api", func(){ r.GET("/users", h10, h4).NamedTo("users") ; r.GET("/ping", h11) }, h3);
   r.GET("/", h12); r.NotFound(h20) *)
Definition ex_prog : list stmt :=
  [ SUse [1; 2];
    SGroup (Consts.s "/api") [3]
      [ SRoute [GET] (Consts.s "/users") 10 [4] [] (Consts.s "users");
        SRoute [GET; POST] (Consts.s "ping/") 11 [] [5] [] ];
    SRoute [] (Consts.s "/") 12 [] [] [];
    SNotFound [20] ].

(* handler i: event i, Next (middleware ids < 10 only), event 100 + i *)
Definition ex_wbs (i : hid) : wb eff := {| pre := [EEv i]; calls := Nat.ltb i 10; post := [EEv (100 + i)] |}.
Definition ex_progs (i : hid) : hprog := prog eff (ex_wbs i).

Definition ex_sys : sys :=
  match sys_build default_opts ex_prog with Ok s => s | Panic => {| s_rt := new_router default_opts; s_routes := []; s_globals := []; s_noroute := []; s_noallowed := [] |} end.

Example ex_build_ok : sys_build default_opts ex_prog = Ok ex_sys.
Proof. vm_compute. reflexivity. Qed.

Example ex_build_shape :
  s_globals ex_sys = [1; 2] /\ s_noroute ex_sys = [20] /\
  map (fun r => (r_path r, r_handlers r, r_main r)) (s_routes ex_sys) =
    [(Consts.s "/api/users", [3; 4], 10); (Consts.s "/api/ping", [3; 5], 11); (Consts.s "/", [], 12)] /\
  map rt_path (routes (s_rt ex_sys)) = [Consts.s "/api/users"; Consts.s "/api/ping"; Consts.s "/"].
Proof. vm_compute. auto. Qed.

Definition outcome_trace (r : option outcome1) : option (list tev * list nat * Z) :=
  match r with Some (Done x st) => Some (trace x, st, status (w x)) | _ => None end.

(* GET /api/users/ : globals 1 2, group 3, route 4, main 10, and back out *)
Example ex_serve_users :
  outcome_trace (fst (sys_serve ex_progs (None, None) ex_sys GET (Consts.s "/api/users/") [] fresh_ctx)) =
    Some ([TE 1; TE 2; TE 3; TE 4; TE 10; TE 110; TE 104; TE 103; TE 102; TE 101], [0; 1; 2; 3; 4], 200%Z).
Proof. vm_compute. reflexivity. Qed.

(* the same through the theorem: every hypothesis of sys_static_onion holds for this program and request *)
Definition ex_users : rroute :=
  {| r_methods := [GET]; r_path := Consts.s "/api/users"; r_handlers := [3; 4]; r_main := 10; r_name := Consts.s "users" |}.
Example ex_users_by_theorem :
  fst (sys_serve ex_progs (None, None) ex_sys GET (Consts.s "/api/users/") [] fresh_ctx) =
    Some (Done (final_commit (apply_all xctx eff apply_eff (onion eff (map ex_wbs [1; 2; 3; 4; 10]))
                                (route_x1 ex_users [] (Consts.s "/api/users/") [])))
               (seq 0 5)).
Proof.
  refine (sys_static_onion ex_progs ex_wbs [] fresh_ctx [] default_opts ex_prog ex_sys GET (Consts.s "/api/users/")
            (Consts.s "/api/users") 0 ex_users ex_build_ok _ _ _ _ _ _ _ _).
  - vm_compute. reflexivity.
  - reflexivity.
  - reflexivity.
  - vm_compute. reflexivity.
  - vm_compute. reflexivity.
  - vm_compute. reflexivity.
  - intros id _. reflexivity.
  - vm_compute. lia.
Qed.

(* POST /api/ping : the later Route.Use middleware 5 after the group's 3 *)
Example ex_serve_ping :
  outcome_trace (fst (sys_serve ex_progs (None, None) ex_sys POST (Consts.s "/api/ping") [] fresh_ctx)) =
    Some ([TE 1; TE 2; TE 3; TE 5; TE 11; TE 111; TE 105; TE 103; TE 102; TE 101], [0; 1; 2; 3; 4], 200%Z).
Proof. vm_compute. reflexivity. Qed.

(* GET /nothing : globals, then the custom NotFound handler 20 *)
Example ex_serve_not_found :
  outcome_trace (fst (sys_serve ex_progs (None, None) ex_sys GET (Consts.s "/nothing") [] fresh_ctx)) =
    Some ([TE 1; TE 2; TE 20; TE 120; TE 102; TE 101], [0; 1; 2], 200%Z).
Proof. vm_compute. reflexivity. Qed.

Example ex_not_found_by_theorem :
  fst (sys_serve ex_progs (None, None) ex_sys GET (Consts.s "/nothing") [] fresh_ctx) =
    Some (Done (final_commit (apply_all xctx eff apply_eff (onion eff (map ex_wbs [1; 2; 20])) (p_x (ctx_init [] fresh_ctx))))
               (seq 0 3)).
Proof.
  refine (sys_onion_not_found ex_progs ex_wbs ex_sys GET (Consts.s "/nothing") [] fresh_ctx _ _ _).
  - vm_compute. reflexivity.
  - intros id _. reflexivity.
  - vm_compute. lia.
Qed.

(* a sequence of requests through the same router *)
Example ex_serve_all :
  map outcome_trace (sys_serve_all ex_progs (None, None) ex_sys
        [(GET, Consts.s "/"); (HEAD, Consts.s "//api/ping/"); (PUT, Consts.s "/api/ping")] [] fresh_ctx) =
    [ Some ([TE 1; TE 2; TE 12; TE 112; TE 102; TE 101], [0; 1; 2], 200%Z);
      Some ([TE 1; TE 2; TE 3; TE 5; TE 11; TE 111; TE 105; TE 103; TE 102; TE 101], [0; 1; 2; 3; 4], 200%Z);
      Some ([TE 1; TE 2; TE 20; TE 120; TE 102; TE 101], [0; 1; 2], 200%Z) ].
Proof. vm_compute. reflexivity. Qed.
End SysExample.

Print Assumptions onion_steps_exact.
Print Assumptions onion_steps_bound.
Print Assumptions program_globals.
Print Assumptions sys_build_routes.
Print Assumptions sys_build_globals.
Print Assumptions sys_chain_found.
Print Assumptions sys_chain_fallback.
Print Assumptions sys_chain_not_found.
Print Assumptions sys_chain_not_allowed.
Print Assumptions sys_chain.
Print Assumptions sys_static_selection.
Print Assumptions static_select_spec.
Print Assumptions static_select_complete.
Print Assumptions sys_static_selection_none.
Print Assumptions sys_static_selection_later.
Print Assumptions handle_request_onion.
Print Assumptions sys_onion.
Print Assumptions sys_onion_fallback.
Print Assumptions sys_onion_not_found.
Print Assumptions sys_after_same.
Print Assumptions sys_static_onion.
Print Assumptions SysExample.ex_users_by_theorem.
