(* Chain.v — the handler chain of one request as a small-step stack machine:
   Context.Next / Abort / AbortWithStatus / IsAborted with the int8 cursor written out.
   Effects on the rest of the context (trace events, writer ops, data, errors, params) are
   an abstract type [eff] applied to an abstract state, so ordering theorems are generic. *)
From Rux Require Import Base.
Open Scope Z_scope.

Definition wrap8 (z : Z) : Z := ((z + 128) mod 256) - 128.
Definition abort_idx : Z := 63.

Section Machine.
Variable X : Type.                 (* the rest of the context *)
Variable eff : Type.               (* effects on it *)
Variable apply : eff -> X -> X.
Variable note_aborted : bool -> X -> X.   (* recording the result of c.IsAborted() *)
Variable abort_status : Z -> X -> X.      (* c.Resp.WriteHeader(code) inside AbortWithStatus *)

Inductive op :=
| OEff (e : eff)
| ONext                      (* c.Next() *)
| OAbort                     (* c.Abort() / c.AbortThen() *)
| OAbortStatus (code : Z)    (* c.AbortWithStatus(code) *)
| OIsAborted                 (* c.IsAborted(), result recorded *)
| OPanic (v : nat).          (* panic(v) *)
Definition handler := list op.

Inductive frame := FOps (ops : list op) | FTest | FInc.

Record ctx := { index : Z; chain : list handler; started : list nat; xs : X }.
Definition set_index z c := {| index := z; chain := chain c; started := started c; xs := xs c |}.
Definition set_xs x c := {| index := index c; chain := chain c; started := started c; xs := x |}.
Definition start i c := {| index := index c; chain := chain c; started := started c ++ [i]; xs := xs c |}.
Definition len8 (c : ctx) : Z := wrap8 (Z.of_nat (List.length (chain c))).

(* pval: what was thrown *)
Inductive pval := PUser (v : nat) | PIndex.   (* PIndex = Go runtime "index out of range" *)
Inductive st := Run (c : ctx) (k : list frame) | Halt (c : ctx) | Panicked (p : pval) (c : ctx).

Definition step (s : st) : st :=
  match s with
  | Run c [] => Halt c
  | Run c (FOps [] :: k) => Run c k
  | Run c (FOps (OEff e :: r) :: k) => Run (set_xs (apply e (xs c)) c) (FOps r :: k)
  | Run c (FOps (ONext :: r) :: k) => Run (set_index (wrap8 (index c + 1)) c) (FTest :: FOps r :: k)
  | Run c (FOps (OAbort :: r) :: k) => Run (set_index abort_idx c) (FOps r :: k)
  | Run c (FOps (OAbortStatus code :: r) :: k) =>
      Run (set_index abort_idx (set_xs (abort_status code (xs c)) c)) (FOps r :: k)
  | Run c (FOps (OIsAborted :: r) :: k) =>
      Run (set_xs (note_aborted (abort_idx <=? index c) (xs c)) c) (FOps r :: k)
  | Run c (FOps (OPanic v :: r) :: k) => Panicked (PUser v) c
  | Run c (FTest :: k) =>       (* loop condition of Next: c.index < int8(len(c.handlers)) *)
      if index c <? len8 c then
        (if index c <? 0 then Panicked PIndex c else
         match nth_error (chain c) (Z.to_nat (index c)) with
         | Some h => Run (start (Z.to_nat (index c)) c) (FOps h :: FInc :: k)
         | None => Panicked PIndex c
         end)
      else Run c k
  | Run c (FInc :: k) => Run (set_index (wrap8 (index c + 1)) c) (FTest :: k)
  | Halt c => Halt c
  | Panicked p c => Panicked p c
  end.

Fixpoint run (fuel : nat) (s : st) : st := match fuel with O => s | S f => run f (step s) end.

(* ctx.Next() called by the dispatcher on a context with index -1 *)
Definition init_ctx (hs : list handler) (x : X) : ctx := {| index := -1; chain := hs; started := []; xs := x |}.
Definition init (hs : list handler) (x : X) : st := Run (init_ctx hs x) [FOps [ONext]].

(* ---------- well-behaved handlers: effects, at most one Next, effects ---------- *)
Record wb := { pre : list eff; calls : bool; post : list eff }.
Definition effs (l : list eff) : list op := map OEff l.
Definition prog (w : wb) : handler := effs (pre w) ++ (if calls w then [ONext] else []) ++ effs (post w).

(* the onion: who runs when *)
Fixpoint onion (l : list wb) : list eff :=
  match l with
  | [] => []
  | h :: t => pre h ++ (if calls h then onion t ++ post h else post h ++ onion t)
  end.
Definition apply_all (l : list eff) (x : X) : X := fold_left (fun x e => apply e x) l x.

End Machine.

Arguments OEff {eff}. Arguments ONext {eff}. Arguments OAbort {eff}. Arguments OAbortStatus {eff}.
Arguments OIsAborted {eff}. Arguments OPanic {eff}.
Arguments FOps {eff}. Arguments FTest {eff}. Arguments FInc {eff}.
Arguments Run {X eff}. Arguments Halt {X eff}. Arguments Panicked {X eff}.
Arguments index {X eff}. Arguments chain {X eff}. Arguments started {X eff}. Arguments xs {X eff}.
Arguments pre {eff}. Arguments calls {eff}. Arguments post {eff}.
