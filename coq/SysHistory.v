(* SysHistory.v — end to end: every request is served as if it were the first one on a freshly built router.
   A history is a list of requests, each with its own method, raw path, short-write script and pooled context (in any
   state). The router state (the route cache is the only part that moves) is threaded through Sys.sys_serve.
   (1) sys_build_coherent      : a built router has an empty, coherent cache;
   (2) sys_run_invariant       : serving keeps the cache coherent and changes nothing but the cache;
   (3) sys_history_independent : C10 + C07 + C09 — after ANY history the next request is answered exactly like the first
                                 request of the freshly built router on a fresh context;
   (4) sys_cache_transparent   : C07 — the caching router and its non-caching twin give the same outcomes, request by request;
   (5) sys_after_panic_healthy : C09 — in particular after a request that panicked (escaped or recovered by OnPanic);
   (6) examples by vm_compute.
   The hypothesis no_slash on request methods is kept: it is needed (only) because the cache key is method ++ path
   (TableFacts.key_split); see HistoryExample.ex_slash_method_* for a method with '/' that the cache answers differently. *)
From Rux Require Import Base BaseFacts Str Consts Norm NormFacts Writer Chain Dispatch DispatchFacts
  Reg Cache CacheFacts Table TableFacts Sys SysFacts.

(* ====================================================================== *)
(* histories                                                              *)
(* ====================================================================== *)
(* one request: method (as given), raw path, the short-write script of its ResponseWriter, the pooled context it gets *)
Definition hreq : Type := (str * str * list nat * pctx)%type.
Definition hreq_method (r : hreq) : str := fst (fst (fst r)).
Definition hist_no_slash (h : list hreq) : Prop := Forall (fun r => no_slash (hreq_method r)) h.

Definition sys_serve_req (progs : hid -> hprog) (hooks : option hprog * option hprog) (s : sys) (r : hreq)
  : option outcome1 * sys :=
  let '(m, p, sc, pooled) := r in sys_serve progs hooks s m p sc pooled.

(* the router after a history *)
Fixpoint sys_run (progs : hid -> hprog) (hooks : option hprog * option hprog) (s : sys) (h : list hreq) : sys :=
  match h with
  | [] => s
  | r :: rest => sys_run progs hooks (snd (sys_serve_req progs hooks s r)) rest
  end.

(* what the requests of a history observed, in order *)
Fixpoint sys_outcomes (progs : hid -> hprog) (hooks : option hprog * option hprog) (s : sys) (h : list hreq)
  : list (option outcome1) :=
  match h with
  | [] => []
  | r :: rest => fst (sys_serve_req progs hooks s r) :: sys_outcomes progs hooks (snd (sys_serve_req progs hooks s r)) rest
  end.

Lemma sys_run_app progs hooks h1 : forall s h2,
  sys_run progs hooks s (h1 ++ h2) = sys_run progs hooks (sys_run progs hooks s h1) h2.
Proof. induction h1 as [|r h1 IH]; intros s h2; cbn [app sys_run]; auto. Qed.

Lemma sys_outcomes_app progs hooks h1 : forall s h2,
  sys_outcomes progs hooks s (h1 ++ h2) =
    sys_outcomes progs hooks s h1 ++ sys_outcomes progs hooks (sys_run progs hooks s h1) h2.
Proof. induction h1 as [|r h1 IH]; intros s h2; cbn [app sys_run sys_outcomes]; [reflexivity|]. rewrite IH. reflexivity. Qed.

Lemma sys_outcomes_length progs hooks h : forall s, List.length (sys_outcomes progs hooks s h) = List.length h.
Proof. induction h as [|r h IH]; intros s; cbn [sys_outcomes List.length]; auto. Qed.

(* the homogeneous histories of SysFacts (same script and pooled context for every request) are a special case *)
Lemma sys_after_run progs hooks sc pooled : forall reqs s,
  sys_after progs hooks s reqs sc pooled = sys_run progs hooks s (map (fun mp => (fst mp, snd mp, sc, pooled)) reqs).
Proof. induction reqs as [|[m p] rest IH]; intros s; cbn [sys_after map sys_run sys_serve_req fst snd]; auto. Qed.

Lemma sys_serve_all_outcomes progs hooks sc pooled : forall reqs s,
  sys_serve_all progs hooks s reqs sc pooled =
    sys_outcomes progs hooks s (map (fun mp => (fst mp, snd mp, sc, pooled)) reqs).
Proof.
  induction reqs as [|[m p] rest IH]; intros s; cbn [sys_serve_all map sys_outcomes sys_serve_req fst snd]; [reflexivity|].
  destruct (sys_serve progs hooks s m p sc pooled) as [r s'] eqn:E. cbn [fst snd]. rewrite IH. reflexivity.
Qed.

(* ====================================================================== *)
(* (1) the built router: empty and coherent cache                         *)
(* ====================================================================== *)
Lemma coherent_empty rt : cache rt = [] -> coherent rt.
Proof. intros E k rid ps Hin. rewrite E in Hin. destruct Hin. Qed.

Theorem sys_build_coherent o ss s : sys_build o ss = Ok s -> coherent (s_rt s) /\ cache (s_rt s) = [].
Proof.
  intros H. destruct (sys_build_sigs o ss s H) as (_ & _ & Hc & _). split; [apply coherent_empty|]; exact Hc.
Qed.

(* ====================================================================== *)
(* (2) serving changes nothing but the cache, and keeps it coherent       *)
(* ====================================================================== *)
(* same router up to the state of the route cache (and the caching switch, which nocache erases) *)
Definition same_tables (s s' : sys) : Prop :=
  nocache (s_rt s') = nocache (s_rt s) /\ s_routes s' = s_routes s /\ s_globals s' = s_globals s /\
  s_noroute s' = s_noroute s /\ s_noallowed s' = s_noallowed s.

Lemma same_tables_refl s : same_tables s s.
Proof. unfold same_tables. auto 10. Qed.
Lemma same_tables_sym s s' : same_tables s s' -> same_tables s' s.
Proof. unfold same_tables. intros (H1 & H2 & H3 & H4 & H5). auto 10. Qed.
Lemma same_tables_trans s1 s2 s3 : same_tables s1 s2 -> same_tables s2 s3 -> same_tables s1 s3.
Proof.
  unfold same_tables. intros (A1 & A2 & A3 & A4 & A5) (B1 & B2 & B3 & B4 & B5). repeat split; congruence.
Qed.

Lemma sys_serve_req_snd progs hooks s r :
  snd (sys_serve_req progs hooks s r) = set_rt s (snd (quick_match (s_rt s) (hreq_method r) (snd (fst (fst r))))).
Proof. destruct r as [[[m p] sc] pooled]. cbn [sys_serve_req hreq_method fst snd]. apply sys_serve_snd. Qed.

Lemma sys_serve_step progs hooks s m p sc pooled : coherent (s_rt s) -> no_slash m ->
  coherent (s_rt (snd (sys_serve progs hooks s m p sc pooled))) /\
  same_tables s (snd (sys_serve progs hooks s m p sc pooled)).
Proof.
  intros Hco Hm. rewrite sys_serve_snd. unfold same_tables. cbn [set_rt s_rt s_routes s_globals s_noroute s_noallowed].
  split; [exact (proj2 (quick_match_transparent (s_rt s) m p Hco Hm))|].
  rewrite quick_keeps_tables. auto 10.
Qed.

(* without the method hypothesis the tables are still unchanged (only coherence of the cache needs it) *)
Lemma sys_run_same_tables progs hooks : forall h s, same_tables s (sys_run progs hooks s h).
Proof.
  induction h as [|r h IH]; intros s; cbn [sys_run]; [apply same_tables_refl|].
  eapply same_tables_trans; [|apply IH].
  rewrite sys_serve_req_snd. unfold same_tables. cbn [set_rt s_rt s_routes s_globals s_noroute s_noallowed].
  rewrite quick_keeps_tables. auto 10.
Qed.

Theorem sys_run_invariant progs hooks : forall h s, coherent (s_rt s) -> hist_no_slash h ->
  let s' := sys_run progs hooks s h in
  coherent (s_rt s') /\ nocache (s_rt s') = nocache (s_rt s) /\
  s_routes s' = s_routes s /\ s_globals s' = s_globals s /\ s_noroute s' = s_noroute s /\ s_noallowed s' = s_noallowed s.
Proof.
  induction h as [|[[[m p] sc] pooled] h IH]; intros s Hco Hh; cbn [sys_run sys_serve_req].
  - cbv zeta. auto 10.
  - inversion Hh as [|r0 h0 Hm Hh']; subst. cbn [hreq_method fst] in Hm.
    destruct (sys_serve_step progs hooks s m p sc pooled Hco Hm) as [Hco1 (T1 & T2 & T3 & T4 & T5)].
    destruct (IH _ Hco1 Hh') as (Hc & I1 & I2 & I3 & I4 & I5). cbv zeta.
    split; [exact Hc|]. repeat split; congruence.
Qed.

(* ====================================================================== *)
(* (3) history independence                                               *)
(* ====================================================================== *)
Lemma sys_target_cong progs s s' q p :
  s_routes s' = s_routes s -> s_noroute s' = s_noroute s -> s_noallowed s' = s_noallowed s ->
  sys_target progs s' q p = sys_target progs s q p.
Proof. intros H1 H2 H3. destruct q; cbn [sys_target]; rewrite ?H1, ?H2, ?H3; reflexivity. Qed.

Lemma sys_cfg_cong progs hooks s s' : s_globals s' = s_globals s -> sys_cfg progs hooks s' = sys_cfg progs hooks s.
Proof. intros H. unfold sys_cfg. rewrite H. reflexivity. Qed.

(* what a request observes depends on the router only through its tables (not the cache state, not the caching
   switch), and not at all on the pooled context *)
Lemma sys_serve_fst_cong progs hooks s s' m p sc pooled pooled' :
  coherent (s_rt s) -> coherent (s_rt s') -> same_tables s s' -> no_slash m ->
  fst (sys_serve progs hooks s' m p sc pooled') = fst (sys_serve progs hooks s m p sc pooled).
Proof.
  intros Hco Hco' (T1 & T2 & T3 & T4 & T5) Hm.
  assert (Hq: fst (quick_match (s_rt s') m p) = fst (quick_match (s_rt s) m p)).
  { rewrite (proj1 (quick_match_transparent (s_rt s') m p Hco' Hm)).
    rewrite (proj1 (quick_match_transparent (s_rt s) m p Hco Hm)). rewrite T1. reflexivity. }
  unfold sys_serve.
  destruct (quick_match (s_rt s') m p) as [q' rt']. destruct (quick_match (s_rt s) m p) as [q rt].
  cbn [fst] in Hq |- *. subst q'.
  rewrite (sys_target_cong progs s s' q p T2 T4 T5).
  destruct (sys_target progs s q p) as [t|]; [|reflexivity].
  rewrite (sys_cfg_cong progs hooks s s' T3).
  rewrite (serve_pristine _ _ sc t pooled'), (serve_pristine _ _ sc t pooled). reflexivity.
Qed.

(* the general form: from any coherent router state *)
Theorem sys_history_independent_gen progs hooks s h m p sc pooled :
  coherent (s_rt s) -> hist_no_slash h -> no_slash m ->
  fst (sys_serve progs hooks (sys_run progs hooks s h) m p sc pooled) = fst (sys_serve progs hooks s m p sc fresh_ctx).
Proof.
  intros Hco Hh Hm.
  destruct (sys_run_invariant progs hooks h s Hco Hh) as (Hc & I1 & I2 & I3 & I4 & I5).
  apply sys_serve_fst_cong; auto. unfold same_tables. auto 10.
Qed.

(* C10 + C07 + C09 end to end: on a router built from a registration program, with any hooks, after any history
   (whatever those requests did), the next request is answered exactly like the FIRST request of the freshly built
   router on a fresh context *)
Theorem sys_history_independent progs hooks o ss s h m p sc pooled :
  sys_build o ss = Ok s -> hist_no_slash h -> no_slash m ->
  fst (sys_serve progs hooks (sys_run progs hooks s h) m p sc pooled) = fst (sys_serve progs hooks s m p sc fresh_ctx).
Proof.
  intros H Hh Hm. apply sys_history_independent_gen; auto. exact (proj1 (sys_build_coherent o ss s H)).
Qed.

(* the same for every request of the history at once: the list of outcomes is what each request would have got alone *)
Definition sys_alone (progs : hid -> hprog) (hooks : option hprog * option hprog) (s : sys) (r : hreq) : option outcome1 :=
  let '(m, p, sc, _) := r in fst (sys_serve progs hooks s m p sc fresh_ctx).

Lemma sys_outcomes_alone_aux progs hooks s : coherent (s_rt s) -> forall h pre, hist_no_slash pre -> hist_no_slash h ->
  sys_outcomes progs hooks (sys_run progs hooks s pre) h = map (sys_alone progs hooks s) h.
Proof.
  intros Hco. induction h as [|[[[m p] sc] pooled] h IH]; intros pre Hpre Hh; [reflexivity|].
  inversion Hh as [|r0 h0 Hm Hh']; subst. cbn [hreq_method fst] in Hm.
  cbn [sys_outcomes map sys_serve_req sys_alone]. f_equal.
  - apply sys_history_independent_gen; auto.
  - specialize (IH (pre ++ [(m, p, sc, pooled)])). rewrite sys_run_app in IH. cbn [sys_run sys_serve_req] in IH.
    apply IH; [|exact Hh']. apply Forall_app. split; [exact Hpre|]. constructor; [exact Hm|constructor].
Qed.

Theorem sys_outcomes_alone_gen progs hooks : forall h s, coherent (s_rt s) -> hist_no_slash h ->
  sys_outcomes progs hooks s h = map (sys_alone progs hooks s) h.
Proof. intros h s Hco Hh. apply (sys_outcomes_alone_aux progs hooks s Hco h []); [constructor|exact Hh]. Qed.

Theorem sys_outcomes_alone progs hooks o ss s h : sys_build o ss = Ok s -> hist_no_slash h ->
  sys_outcomes progs hooks s h = map (sys_alone progs hooks s) h.
Proof. intros H Hh. apply sys_outcomes_alone_gen; auto. exact (proj1 (sys_build_coherent o ss s H)). Qed.

(* ====================================================================== *)
(* (4) C07 end to end: caching on or off, same outcomes                   *)
(* ====================================================================== *)
(* the same router with caching disabled: TableFacts.nocache switches o_caching off AND empties the cache *)
Definition sys_nocache (s : sys) : sys := set_rt s (nocache (s_rt s)).

Lemma sys_nocache_step progs hooks s m p sc pooled : coherent (s_rt s) -> no_slash m ->
  sys_serve progs hooks (sys_nocache s) m p sc pooled =
    (fst (sys_serve progs hooks s m p sc pooled), sys_nocache (snd (sys_serve progs hooks s m p sc pooled))).
Proof.
  intros Hco Hm. rewrite (sys_serve_snd progs hooks s). unfold sys_serve, sys_nocache.
  cbn [set_rt s_rt s_routes s_globals s_noroute s_noallowed].
  destruct (quick_nc (s_rt s) m p Hco Hm) as [E _]. rewrite E.
  destruct (quick_match (s_rt s) m p) as [q rt']. cbn [fst snd]. reflexivity.
Qed.

Theorem sys_cache_transparent_gen progs hooks : forall h s, coherent (s_rt s) -> hist_no_slash h ->
  sys_outcomes progs hooks s h = sys_outcomes progs hooks (sys_nocache s) h /\
  sys_run progs hooks (sys_nocache s) h = sys_nocache (sys_run progs hooks s h).
Proof.
  induction h as [|[[[m p] sc] pooled] h IH]; intros s Hco Hh; cbn [sys_outcomes sys_run sys_serve_req]; [auto|].
  inversion Hh as [|r0 h0 Hm Hh']; subst. cbn [hreq_method fst] in Hm.
  rewrite (sys_nocache_step progs hooks s m p sc pooled Hco Hm). cbn [fst snd].
  destruct (sys_serve_step progs hooks s m p sc pooled Hco Hm) as [Hco1 _].
  destruct (IH _ Hco1 Hh') as [E1 E2]. rewrite E1, E2. auto.
Qed.

(* any table built by a registration program, any options (any capacity: 0, 1, ...), any hooks, any history *)
Theorem sys_cache_transparent progs hooks o ss s h : sys_build o ss = Ok s -> hist_no_slash h ->
  sys_outcomes progs hooks s h = sys_outcomes progs hooks (set_rt s (nocache (s_rt s))) h.
Proof.
  intros H Hh. exact (proj1 (sys_cache_transparent_gen progs hooks h s (proj1 (sys_build_coherent o ss s H)) Hh)).
Qed.

(* the twin never caches anything *)
Lemma sys_nocache_run_cache progs hooks s h : coherent (s_rt s) -> hist_no_slash h ->
  cache (s_rt (sys_run progs hooks (sys_nocache s) h)) = [].
Proof. intros Hco Hh. rewrite (proj2 (sys_cache_transparent_gen progs hooks h s Hco Hh)). reflexivity. Qed.

(* ====================================================================== *)
(* (5) C09's last clause: healthy after a panic                           *)
(* ====================================================================== *)
(* a request whose panic escaped ServeHTTP, or was recovered by the OnPanic hook (which is the only way a DPanic value
   gets into the context data, under the key _recoverResult) *)
Definition req_panicked (r : option outcome1) : Prop :=
  match r with
  | Some (Escaped _ _ _) => True
  | Some (Done x _) => exists pv, In (k_recover, DPanic pv) (data x)
  | _ => False
  end.

Theorem sys_after_panic_healthy progs hooks o ss s h m p sc pooled :
  sys_build o ss = Ok s -> hist_no_slash h -> no_slash m ->
  Exists req_panicked (sys_outcomes progs hooks s h) ->
  let s' := sys_run progs hooks s h in
  fst (sys_serve progs hooks s' m p sc pooled) = fst (sys_serve progs hooks s m p sc fresh_ctx) /\
  coherent (s_rt s') /\ nocache (s_rt s') = nocache (s_rt s) /\
  s_routes s' = s_routes s /\ s_globals s' = s_globals s /\ s_noroute s' = s_noroute s /\ s_noallowed s' = s_noallowed s.
Proof.
  intros H Hh Hm _. cbv zeta. split.
  - apply (sys_history_independent progs hooks o ss s h m p sc pooled H Hh Hm).
  - exact (sys_run_invariant progs hooks h s (proj1 (sys_build_coherent o ss s H)) Hh).
Qed.

(* the tables are the registered ones at any time, even if request methods contain '/' *)
Theorem sys_run_tables progs hooks s h :
  let s' := sys_run progs hooks s h in
  nocache (s_rt s') = nocache (s_rt s) /\ s_routes s' = s_routes s /\ s_globals s' = s_globals s /\
  s_noroute s' = s_noroute s /\ s_noallowed s' = s_noallowed s.
Proof. exact (sys_run_same_tables progs hooks h s). Qed.

(* ====================================================================== *)
(* (6) Examples: the hypotheses are satisfiable, the conclusions computed *)
(* ====================================================================== *)
Module HistoryExample.
Import String.
Local Open Scope string_scope.
Local Open Scope nat_scope.

(* caching on, capacity 1 (every new dynamic key evicts the previous one), 405 detection on (its probes go through the
   cache as well) *)
Definition ex_opts : opts :=
  {| o_strict := false; o_na := true; o_fallback := false; o_caching := true; o_cap := 1; o_intercept := [] |}.

(* r.Use(h1); r.GET("/users/{id}", h10).NamedTo("user"); r.GET("/boom/{x}", h11); r.POST("/users/{id}", h13); r.GET("/", h12) *)
Definition ex_prog : list stmt :=
  [ SUse [1];
    SRoute [GET] (Consts.s "/users/{id}") 10 [] [] (Consts.s "user");
    SRoute [GET] (Consts.s "/boom/{x}") 11 [] [] [];
    SRoute [POST] (Consts.s "/users/{id}") 13 [] [] [];
    SRoute [] (Consts.s "/") 12 [] [] [] ].

Definition k_user : str := Consts.s "k".
(* 1: middleware; 10: snapshot + write; 11: replaces the writer, sets data, adds an error, aborts, panics;
   13: writes and adds an error; others: one event *)
Definition ex_progs (i : hid) : hprog :=
  match i with
  | 1 => [OEff (EEv 1); ONext; OEff (EEv 101)]
  | 10 => [OEff ESnap; OEff (EW (WWrite (Consts.s "hello"))); OEff (EEv 10)]
  | 11 => [OEff (EEv 11); OEff EReplaceResp; OEff EReplaceReq; OEff (ESetData k_user 5); OEff (EAddError 3);
           OEff (ESetParam (Consts.s "x") (Consts.s "changed")); OAbortStatus 403%Z; OPanic 7; OEff (EEv 111)]
  | 13 => [OEff (EW (WWrite (Consts.s "created"))); OEff (EAddError 4)]
  | _ => [OEff (EEv i)]
  end.

Definition ex_sys : sys :=
  match sys_build ex_opts ex_prog with
  | Ok s => s
  | Panic => {| s_rt := new_router ex_opts; s_routes := []; s_globals := []; s_noroute := []; s_noallowed := [] |}
  end.

Example ex_build_ok : sys_build ex_opts ex_prog = Ok ex_sys.
Proof. vm_compute. reflexivity. Qed.

Example ex_build_shape :
  map (fun r => (r_path r, r_main r)) (s_routes ex_sys) =
    [(Consts.s "/users/{id}", 10); (Consts.s "/boom/{x}", 11); (Consts.s "/users/{id}", 13); (Consts.s "/", 12)] /\
  o_caching (ropts (s_rt ex_sys)) = true /\ o_cap (ropts (s_rt ex_sys)) = 1 /\ cache (s_rt ex_sys) = [].
Proof. vm_compute. auto. Qed.

(* a pooled context as some earlier request left it *)
Definition dirty_ctx : pctx :=
  {| p_index := 63%Z; p_handlers := [1; 2; 3];
     p_x := {| trace := [TE 99]; w := winit [1]; data := [(k_user, DNat 1)]; Dispatch.params := [(Consts.s "id", Consts.s "old")];
               errors := [4; 4]; resp_own := false; req_own := false |} |}.

Definition DELETE' : str := Consts.s "DELETE".
(* the history: a dynamic hit (cached), a panicking request (cached, evicts), another key (evicts), a 405 whose probes
   go through the cache (evict), a POST with a short-write script, a HEAD served by the GET route, a static route *)
Definition ex_hist : list hreq :=
  [ (GET, Consts.s "/users/1", [], fresh_ctx);
    (GET, Consts.s "/boom/9", [2], dirty_ctx);
    (GET, Consts.s "/users/2", [], dirty_ctx);
    (DELETE', Consts.s "/users/3", [], dirty_ctx);
    (POST, Consts.s "//users/4/", [3; 1], dirty_ctx);
    (HEAD, Consts.s "/users/1", [], fresh_ctx);
    (GET, Consts.s "/", [], dirty_ctx) ].

Example ex_hist_no_slash : hist_no_slash ex_hist.
Proof. repeat constructor. Qed.

Definition outcome_kind (r : option outcome1) : option (nat * list tev * list nat * Z) :=
  match r with
  | Some (Done x st) => Some (0, trace x, st, status (w x))
  | Some (Escaped _ x st) => Some (1, trace x, st, status (w x))
  | Some OutOfFuel => Some (2, [], [], 0%Z)
  | None => None
  end.
Definition no_snaps (r : option (nat * list tev * list nat * Z)) : option (nat * list nat * list nat * Z) :=
  match r with
  | Some (k, tr, st, z) => Some (k, flat_map (fun e => match e with TE t => [t] | _ => [] end) tr, st, z)
  | None => None
  end.

(* no hooks: the second request escapes ServeHTTP (kind 1), the others are Done (kind 0) *)
Example ex_outcomes :
  map (fun r => no_snaps (outcome_kind r)) (sys_outcomes ex_progs (None, None) ex_sys ex_hist) =
    [ Some (0, [1; 10; 101], [0; 1], 200%Z);
      Some (1, [1; 11], [0; 1], 403%Z);
      Some (0, [1; 10; 101], [0; 1], 200%Z);
      Some (0, [1; 101], [0; 1], 405%Z);
      Some (0, [1; 101], [0; 1], 200%Z);
      Some (0, [1; 10; 101], [0; 1], 200%Z);
      Some (0, [1; 12; 101], [0; 1], 200%Z) ].
Proof. vm_compute. reflexivity. Qed.

Example ex_hist_panicked : Exists req_panicked (sys_outcomes ex_progs (None, None) ex_sys ex_hist).
Proof. apply Exists_cons_tl, Exists_cons_hd. vm_compute. exact I. Qed.

(* the cache after each prefix of the history: one entry at most, evicted by every new key *)
Example ex_cache_keys :
  map (fun k => map fst (cache (s_rt (sys_run ex_progs (None, None) ex_sys (firstn k ex_hist))))) (seq 0 8) =
    [ [];
      [Consts.s "GET/users/1"];
      [Consts.s "GET/boom/9"];
      [Consts.s "GET/users/2"];
      [Consts.s "POST/users/3"];
      [Consts.s "POST/users/4"];
      [Consts.s "GET/users/1"];
      [Consts.s "GET/users/1"] ].
Proof. vm_compute. reflexivity. Qed.

(* (3) by the theorem: a later request, on a dirty pooled context, is answered like the first one on a fresh context *)
Example ex_later_by_theorem :
  fst (sys_serve ex_progs (None, None) (sys_run ex_progs (None, None) ex_sys ex_hist) GET (Consts.s "/users/2") [] dirty_ctx) =
  fst (sys_serve ex_progs (None, None) ex_sys GET (Consts.s "/users/2") [] fresh_ctx).
Proof.
  exact (sys_history_independent ex_progs (None, None) ex_opts ex_prog ex_sys ex_hist GET (Consts.s "/users/2") [] dirty_ctx
           ex_build_ok ex_hist_no_slash eq_refl).
Qed.
(* ... and by computation: both sides are this value (the snapshot shows the fresh context with the route's param) *)
Definition ex_later_value : option outcome1 :=
  fst (sys_serve ex_progs (None, None) ex_sys GET (Consts.s "/users/2") [] fresh_ctx).
Example ex_later_computed :
  fst (sys_serve ex_progs (None, None) (sys_run ex_progs (None, None) ex_sys ex_hist) GET (Consts.s "/users/2") [] dirty_ctx) =
    ex_later_value /\
  match ex_later_value with
  | Some (Done x st) =>
      trace x = [TE 1;
                 TSnap {| s_data := [(k_route_name, DStr (Consts.s "user")); (k_route_path, DStr (Consts.s "/users/2"))];
                          s_params := [(Consts.s "id", Consts.s "2")]; s_nerrors := 0; s_status := 0%Z; s_length := (-1)%Z;
                          s_resp_own := true; s_req_own := true |};
                 TE 10; TE 101] /\
      errors x = [] /\ resp_own x = true
  | _ => False
  end.
Proof. vm_compute. auto. Qed.

(* (5) by the theorem *)
Example ex_healthy_by_theorem :
  let s' := sys_run ex_progs (None, None) ex_sys ex_hist in
  fst (sys_serve ex_progs (None, None) s' GET (Consts.s "/boom/1") [] dirty_ctx) =
    fst (sys_serve ex_progs (None, None) ex_sys GET (Consts.s "/boom/1") [] fresh_ctx) /\
  coherent (s_rt s') /\ nocache (s_rt s') = nocache (s_rt ex_sys) /\
  s_routes s' = s_routes ex_sys /\ s_globals s' = s_globals ex_sys /\ s_noroute s' = s_noroute ex_sys /\
  s_noallowed s' = s_noallowed ex_sys.
Proof.
  exact (sys_after_panic_healthy ex_progs (None, None) ex_opts ex_prog ex_sys ex_hist GET (Consts.s "/boom/1") [] dirty_ctx
           ex_build_ok ex_hist_no_slash eq_refl ex_hist_panicked).
Qed.

(* (4) by the theorem and by computation: the twin with caching off gives the same outcomes, and every request got what
   it would have got alone *)
Example ex_transparent_by_theorem :
  sys_outcomes ex_progs (None, None) ex_sys ex_hist =
    sys_outcomes ex_progs (None, None) (set_rt ex_sys (nocache (s_rt ex_sys))) ex_hist.
Proof. exact (sys_cache_transparent ex_progs (None, None) ex_opts ex_prog ex_sys ex_hist ex_build_ok ex_hist_no_slash). Qed.
Example ex_transparent_computed :
  sys_outcomes ex_progs (None, None) ex_sys ex_hist =
    sys_outcomes ex_progs (None, None) (set_rt ex_sys (nocache (s_rt ex_sys))) ex_hist /\
  sys_outcomes ex_progs (None, None) ex_sys ex_hist = map (sys_alone ex_progs (None, None) ex_sys) ex_hist /\
  cache (s_rt (sys_run ex_progs (None, None) (set_rt ex_sys (nocache (s_rt ex_sys))) ex_hist)) = [].
Proof. vm_compute. auto. Qed.

(* with an OnPanic hook (and an OnError hook): the panic is recovered, the request is Done and committed, and the
   recovered value is in the context data; the history is again "panicked" and the theorems apply unchanged *)
Definition ex_hooks : option hprog * option hprog := (Some [OEff (EEv 77)], Some [OEff (EEv 88)]).
Example ex_outcomes_hooks :
  map (fun r => no_snaps (outcome_kind r)) (sys_outcomes ex_progs ex_hooks ex_sys ex_hist) =
    [ Some (0, [1; 10; 101], [0; 1], 200%Z);
      Some (0, [1; 11; 77], [0; 1], 403%Z);
      Some (0, [1; 10; 101], [0; 1], 200%Z);
      Some (0, [1; 101], [0; 1], 405%Z);
      Some (0, [1; 101; 88], [0; 1], 200%Z);
      Some (0, [1; 10; 101], [0; 1], 200%Z);
      Some (0, [1; 12; 101], [0; 1], 200%Z) ].
Proof. vm_compute. reflexivity. Qed.
Example ex_hist_panicked_hooks : Exists req_panicked (sys_outcomes ex_progs ex_hooks ex_sys ex_hist).
Proof. apply Exists_cons_tl, Exists_cons_hd. vm_compute. exists (PUser 7). auto 10. Qed.
Example ex_healthy_hooks :
  fst (sys_serve ex_progs ex_hooks (sys_run ex_progs ex_hooks ex_sys ex_hist) POST (Consts.s "/users/4") [3; 1] dirty_ctx) =
    fst (sys_serve ex_progs ex_hooks ex_sys POST (Consts.s "/users/4") [3; 1] fresh_ctx).
Proof.
  exact (proj1 (sys_after_panic_healthy ex_progs ex_hooks ex_opts ex_prog ex_sys ex_hist POST (Consts.s "/users/4") [3; 1]
                  dirty_ctx ex_build_ok ex_hist_no_slash eq_refl ex_hist_panicked_hooks)).
Qed.

(* why no_slash is a hypothesis: the cache key is method ++ path, so after GET /users/1 the (ill-formed) method
   "GET/users" with path "/1" hits the cached entry of GET /users/1, while the freshly built router finds nothing *)
Definition bad_m : str := Consts.s "GET/users".
Example ex_slash_method_differs :
  no_snaps (outcome_kind (fst (sys_serve ex_progs (None, None)
      (sys_run ex_progs (None, None) ex_sys [(GET, Consts.s "/users/1", [], fresh_ctx)]) bad_m (Consts.s "/1") [] fresh_ctx))) =
    Some (0, [1; 10; 101], [0; 1], 200%Z) /\
  no_snaps (outcome_kind (fst (sys_serve ex_progs (None, None) ex_sys bad_m (Consts.s "/1") [] fresh_ctx))) =
    Some (0, [1; 101], [0; 1], 404%Z).
Proof. vm_compute. auto. Qed.
(* the tables are unchanged even then *)
Example ex_slash_method_tables :
  nocache (s_rt (sys_run ex_progs (None, None) ex_sys [(GET, Consts.s "/users/1", [], fresh_ctx); (bad_m, Consts.s "/1", [], fresh_ctx)])) =
    nocache (s_rt ex_sys).
Proof. exact (proj1 (sys_run_tables ex_progs (None, None) ex_sys _)). Qed.
End HistoryExample.

Print Assumptions sys_build_coherent.
Print Assumptions sys_run_invariant.
Print Assumptions sys_run_tables.
Print Assumptions sys_history_independent_gen.
Print Assumptions sys_history_independent.
Print Assumptions sys_outcomes_alone.
Print Assumptions sys_cache_transparent_gen.
Print Assumptions sys_cache_transparent.
Print Assumptions sys_after_panic_healthy.
Print Assumptions HistoryExample.ex_later_by_theorem.
Print Assumptions HistoryExample.ex_healthy_by_theorem.
Print Assumptions HistoryExample.ex_transparent_by_theorem.
Print Assumptions HistoryExample.ex_slash_method_differs.
