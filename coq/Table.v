(* Table.v — the router: registration into the three tiers (router.go appendRoute), lookup
   (parse_match.go match: static -> cache -> regular[method+first] -> irregular[method]),
   the LRU cache of dynamic matches, and QuickMatch's fallback ladder. *)
From Rux Require Import Base Str Consts Norm Rx RxParse Pattern Cache.

Definition params := list (str * str).
Inductive rkind := KStatic | KDyn (start first : str) (re : cre) (names : list str).
Record route := { rt_methods : list str; rt_path : str; rt_kind : rkind; rt_name : str }.

Record opts := { o_strict : bool; o_na : bool; o_fallback : bool; o_caching : bool; o_cap : nat; o_intercept : str }.
Definition default_opts : opts :=
  {| o_strict := false; o_na := false; o_fallback := false; o_caching := false; o_cap := 1000; o_intercept := [] |}.

Record router := {
  ropts : opts;
  counter : nat;
  routes : list route;                          (* rid = position *)
  stable : list (str * nat);                    (* method ++ path -> rid *)
  regular : list (str * list nat);              (* method ++ first -> rids in registration order *)
  irregular : list (str * list nat);            (* method -> rids in registration order *)
  named : list (str * nat);
  cache : alist (nat * params)                  (* method ++ path -> (rid, params), most recent first *)
}.
Definition new_router (o : opts) : router :=
  {| ropts := o; counter := 0; routes := []; stable := []; regular := []; irregular := []; named := []; cache := [] |}.

(* Go map assignment m[k] = v / m[k] = append(m[k], v) *)
Fixpoint map_set {A} (k : str) (v : A) (l : list (str * A)) : list (str * A) :=
  match l with
  | [] => [(k, v)]
  | (k', v') :: r => if str_eqb k k' then (k, v) :: r else (k', v') :: map_set k v r
  end.
Definition map_get_list {A} (k : str) (l : list (str * list A)) : list A :=
  match assoc k l with Some v => v | None => [] end.
Definition map_append {A} (k : str) (x : A) (l : list (str * list A)) : list (str * list A) :=
  map_set k (map_get_list k l ++ [x]) l.

(* ---------- registration ---------- *)
(* utils.go formatMethodsWithDefault *)
Definition format_methods (ms : list str) : list str :=
  match ms with
  | [] => [GET]
  | _ => flat_map (fun m => match trim_space m with [] => [] | t => [to_upper t] end) ms
  end.
Definition nil_b {A} (l : list A) : bool := match l with [] => true | _ => false end.
(* Route.goodInfo: handler present, methods non-empty, every method one of the nine (exact membership) *)
Definition good_info (nil_handler : bool) (ms : list str) : bool :=
  negb nil_handler && negb (nil_b ms) && forallb (fun m => mem m any_methods) ms.

(* a route definition as AddRoute receives it: methods already through formatMethodsWithDefault, path
   already through simpleFmtPath + appendGroupInfo (models: Norm.reg_path, Reg) *)
Record rdef := { df_methods : list str; df_path : str; df_nil_handler : bool; df_name : str }.

Definition set_tables (rt : router) (cnt : nat) (rs : list route) st rg ir nm : router :=
  {| ropts := ropts rt; counter := cnt; routes := rs; stable := st; regular := rg; irregular := ir; named := nm; cache := cache rt |}.

(* Route.NamedTo(name, router) for the route with identity rid (an attached route or a fresh one): the trimmed name, if
   not empty, now points to that route; nothing else changes *)
Definition names_set (nm : list (str * nat)) (n : str) (rid : nat) : list (str * nat) :=
  match trim_space n with [] => nm | n' => map_set n' rid nm end.
Definition named_to (rt : router) (n : str) (rid : nat) : router :=
  set_tables rt (counter rt) (routes rt) (stable rt) (regular rt) (irregular rt) (names_set (named rt) n rid).

Definition reg_route (rt : router) (d : rdef) : outcome router :=
  if negb (good_info (df_nil_handler d) (df_methods d)) then Panic else
  let rid := List.length (routes rt) in
  let nm := match df_name d with [] => named rt | n => map_set n rid (named rt) end in
  let ms := df_methods d in
  let cnt := (counter rt + List.length ms)%nat in
  if is_fixed_path (df_path d) then
    let r := {| rt_methods := ms; rt_path := df_path d; rt_kind := KStatic; rt_name := df_name d |} in
    Ok (set_tables rt cnt (routes rt ++ [r])
          (fold_left (fun st m => map_set (m ++ df_path d) rid st) ms (stable rt)) (regular rt) (irregular rt) nm)
  else
    bind (compile_dyn (df_path d)) (fun dy =>
    bind (compile_re dy) (fun re =>
    let r := {| rt_methods := ms; rt_path := df_path d;
                rt_kind := KDyn (d_start dy) (d_first dy) re (d_names dy); rt_name := df_name d |} in
    match d_first dy with
    | [] => Ok (set_tables rt cnt (routes rt ++ [r]) (stable rt) (regular rt)
                  (fold_left (fun ir m => map_append m rid ir) ms (irregular rt)) nm)
    | f => Ok (set_tables rt cnt (routes rt ++ [r]) (stable rt)
                 (fold_left (fun rg m => map_append (m ++ f) rid rg) ms (regular rt)) (irregular rt) nm)
    end)).

Definition reg_routes (rt : router) (ds : list rdef) : outcome router :=
  fold_left (fun acc d => bind acc (fun r => reg_route r d)) ds (Ok rt).

(* Router.WithOptions after routes exist panics *)
Definition with_options (rt : router) (o : opts) : outcome router :=
  if Nat.ltb 0 (counter rt) then Panic
  else Ok {| ropts := o; counter := counter rt; routes := routes rt; stable := stable rt; regular := regular rt;
             irregular := irregular rt; named := named rt; cache := [] |}.

(* ---------- lookup ---------- *)
Inductive lres := LNone | LHit (rid : nat) (ps : option params) | LPanic | LUnsup.

Definition route_match (r : route) (path : str) : mres :=
  match rt_kind r with
  | KStatic => MNo
  | KDyn _ _ re names => match_regex re names path
  end.
Definition route_start (r : route) : str := match rt_kind r with KDyn s _ _ _ => s | KStatic => [] end.

(* scan a tier list in order; check_start = the strings.Index(path, start) != 0 filter of the regular tier *)
Fixpoint scan (rs : list route) (check_start : bool) (ids : list nat) (path : str) : lres :=
  match ids with
  | [] => LNone
  | i :: rest =>
      match nth_error rs i with
      | None => LPanic
      | Some r =>
          if check_start && negb (has_prefix (route_start r) path) then scan rs check_start rest path
          else match route_match r path with
               | MNo => scan rs check_start rest path
               | MYes ps => LHit i (Some ps)
               | MPanic => LPanic
               | MUnsup => LUnsup
               end
      end
  end.

(* first node of the request path: pos := IndexByte(path[1:], '/'); pos > 0 *)
Definition first_node (path : str) : outcome (option str) :=
  match path with
  | [] => Panic                              (* path[1:] on an empty string *)
  | _ :: tl1 => match index_of slash tl1 with
                | Some (S pos) => Ok (Some (firstn (S pos) tl1))
                | _ => Ok None
                end
  end.

Definition set_cache (rt : router) (c : alist (nat * params)) : router :=
  {| ropts := ropts rt; counter := counter rt; routes := routes rt; stable := stable rt; regular := regular rt;
     irregular := irregular rt; named := named rt; cache := c |}.

(* the dynamic tiers only (no cache): what a non-caching router does after the static miss *)
Definition dyn_match (rt : router) (m path : str) : lres :=
  match first_node path with
  | Panic => LPanic
  | Ok fn =>
      let reg := match fn with
                 | Some f => scan (routes rt) true (map_get_list (m ++ f) (regular rt)) path
                 | None => LNone
                 end in
      match reg with
      | LNone => scan (routes rt) false (map_get_list m (irregular rt)) path
      | r => r
      end
  end.

(* Router.match *)
Definition match_ (rt : router) (m path : str) : lres * router :=
  match assoc (m ++ path) (stable rt) with
  | Some rid => (LHit rid None, rt)
  | None =>
      let key := m ++ path in
      let '(c1, hit) := if o_caching (ropts rt) then aget (nat * params) (cache rt) key else (cache rt, None) in
      match hit with
      | Some (rid, ps) => (LHit rid (Some ps), set_cache rt c1)
      | None =>
          match dyn_match rt m path with
          | LHit rid (Some ps) =>
              (LHit rid (Some ps),
               set_cache rt (if o_caching (ropts rt) then aset (nat * params) (o_cap (ropts rt)) c1 key (rid, ps) else c1))
          | r => (r, set_cache rt c1)
          end
      end
  end.

(* ---------- QuickMatch ---------- *)
Inductive qres :=
| QFound (rid : nat) (ps : option params)
| QFallback (rid : nat)
| QNotAllowed (allowed : list str)       (* in anyMethods order; the code returns them in map order *)
| QNotFound
| QPanic | QUnsup.

Definition fallback_suffix : str := [slash; star_c].

(* findAllowedMethods: probe every other method in anyMethods order (each probe is a match, so it touches the cache) *)
Fixpoint probe_methods (rt : router) (ms : list str) (m path : str) (acc : list str) : outcome (option (list str)) * router :=
  match ms with
  | [] => (Ok (Some (rev acc)), rt)
  | m' :: rest =>
      if str_eqb m' m then probe_methods rt rest m path acc else
      match match_ rt m' path with
      | (LHit _ _, rt') => probe_methods rt' rest m path (m' :: acc)
      | (LNone, rt') => probe_methods rt' rest m path acc
      | (LPanic, rt') => (Panic, rt')
      | (LUnsup, rt') => (Ok None, rt')
      end
  end.

(* fixed = true: the code after repair F14 (the intercept path is normalised like any request path) *)
Definition quick_match_gen (fixed : bool) (rt : router) (m p : str) : qres * router :=
  let o := ropts rt in
  let fp := if nil_b (o_intercept o) then format_path (o_strict o) p
            else if fixed then format_path (o_strict o) (o_intercept o) else Ok (o_intercept o) in
  match fp with
  | Panic => (QPanic, rt)
  | Ok path =>
    match match_ rt m path with
    | (LHit rid ps, rt1) => (QFound rid ps, rt1)
    | (LPanic, rt1) => (QPanic, rt1)
    | (LUnsup, rt1) => (QUnsup, rt1)
    | (LNone, rt1) =>
      (* HEAD -> GET *)
      let '(r2, rt2) := if str_eqb m HEAD then match_ rt1 GET path else (LNone, rt1) in
      match r2 with
      | LHit rid ps => (QFound rid ps, rt2)
      | LPanic => (QPanic, rt2)
      | LUnsup => (QUnsup, rt2)
      | LNone =>
        match (if o_fallback o then assoc (m ++ fallback_suffix) (stable rt2) else None) with
        | Some rid => (QFallback rid, rt2)
        | None =>
          if o_na o then
            match probe_methods rt2 any_methods m path [] with
            | (Panic, rt3) => (QPanic, rt3)
            | (Ok None, rt3) => (QUnsup, rt3)
            | (Ok (Some []), rt3) => (QNotFound, rt3)
            | (Ok (Some al), rt3) => (QNotAllowed al, rt3)
            end
          else (QNotFound, rt2)
        end
      end
    end
  end.
Definition quick_match := quick_match_gen true.
(* Router.Match upper-cases the method first *)
Definition router_match (rt : router) (m p : str) : qres * router := quick_match rt (to_upper m) p.
