(* Rest.v — Router.Resource: the RESTful action table as registration statements (router.go Resource). *)
From Rux Require Import Base Str Consts Norm Reg.

Inductive action := AIndex | ACreate | AStore | AShow | AEdit | AUpdate | ADelete.
Definition all_actions : list action := [AIndex; ACreate; AStore; AShow; AEdit; AUpdate; ADelete].

Definition action_name (a : action) : str :=
  match a with
  | AIndex => [73;110;100;101;120] | ACreate => [67;114;101;97;116;101] | AStore => [83;116;111;114;101]
  | AShow => [83;104;111;119] | AEdit => [69;100;105;116] | AUpdate => [85;112;100;97;116;101] | ADelete => [68;101;108;101;116;101]
  end%N.
(* RESTFulActions *)
Definition action_methods (a : action) : list str :=
  match a with
  | AIndex | ACreate | AShow | AEdit => [GET]
  | AStore => [POST]
  | AUpdate => [PUT; PATCH]
  | ADelete => [DELETE]
  end.
Definition id_var : str := [123;105;100;125]%N.   (* "{id}" *)
(* the path argument Resource passes to AddNamed *)
Definition action_path (a : action) : str :=
  match a with
  | AIndex | AStore => [slash]
  | ACreate => slash :: to_lower (action_name a) ++ [slash]
  | AEdit => id_var ++ slash :: to_lower (action_name a) ++ [slash]
  | AShow | AUpdate | ADelete => id_var ++ [slash]
  end.
Definition action_id (a : action) : nat :=
  match a with AIndex => 0 | ACreate => 1 | AStore => 2 | AShow => 3 | AEdit => 4 | AUpdate => 5 | ADelete => 6 end.

(* Resource(base, controller) for a controller type named res (lower-cased by the caller) implementing the
   actions acts, visited in the order given (Go iterates a map: any order); uses a = Uses()[a] *)
Definition route_name (res : str) (a : action) : str := res ++ [95%N] ++ to_lower (action_name a).
Definition resource_stmts (base res : str) (acts : list action) (uses : action -> list hid) : list stmt :=
  [SGroup (base ++ res) []
     (map (fun a => SRoute (action_methods a) (action_path a) (action_id a) [] (uses a) (route_name res a)) acts)].

(* the reflect guards of Resource *)
Definition resource_guard (is_ptr elem_is_struct : bool) : outcome unit :=
  if negb is_ptr then Panic else if negb elem_is_struct then Panic else Ok tt.

(* the documented table, relative to the normalised prefix G *)
Definition documented_path (G : str) (a : action) : str :=
  match a with
  | AIndex | AStore => G
  | ACreate => G ++ slash :: to_lower (action_name ACreate)
  | AShow | AUpdate | ADelete => G ++ slash :: id_var
  | AEdit => G ++ slash :: id_var ++ slash :: to_lower (action_name AEdit)
  end.
