(* WriterFacts.v — exactly one header commit, first, with the right status; body and length. *)
From Rux Require Import Base Writer.
Open Scope Z_scope.

Lemma ensure_written w : written w = true -> ensure w = w.
Proof. unfold ensure. intros ->. reflexivity. Qed.

Lemma nonneg_written w : 0 <= length w -> written w = true.
Proof. intros H. unfold written. apply negb_true_iff. apply Z.eqb_neq. lia. Qed.

(* once committed, ops only append body/flush events, never another WH *)
Lemma wrun_committed ops : forall w, 0 <= length w ->
  log (wrun ops w) = log w ++ spec_events (script w) ops /\
  0 <= length (wrun ops w) /\
  length (wrun ops w) = length w + Z.of_nat (List.length (body_of (spec_events (script w) ops))).
Proof.
  induction ops as [|o ops IH]; intros w Hw; cbn [wrun fold_left spec_events].
  - rewrite app_nil_r. cbn. repeat split; auto. lia.
  - change (fold_left wstep ops (wstep w o)) with (wrun ops (wstep w o)).
    assert (Hwh: forall z, 0 <= length (write_header z w) /\ script (write_header z w) = script w /\
                           log (write_header z w) = log w /\ length (write_header z w) = length w).
    { intros z. unfold write_header. destruct ((z >? 0) && negb (status w =? z)); cbn; auto. }
    assert (Hwr: forall b w0, 0 <= length w0 ->
       let '(acc, sc') := accept (script w0) b in
       0 <= length (write b w0) /\ script (write b w0) = sc' /\ log (write b w0) = log w0 ++ [W acc] /\
       length (write b w0) = length w0 + Z.of_nat (List.length acc)).
    { intros b w0 H0. unfold write. rewrite (ensure_written w0 (nonneg_written w0 H0)).
      destruct (accept (script w0) b) as [acc sc'] eqn:Ea. cbn.
      repeat split; auto. lia. }
    destruct o as [z|k v|b| |msg code|url code|]; cbn [wstep wstep_gen spec_events].
    + destruct (Hwh z) as (A & B & C & D). destruct (IH _ A) as (E1 & E2 & E3). rewrite B, C, D in *. auto.
    + apply IH; auto.
    + specialize (Hwr b w Hw). destruct (accept (script w) b) as [acc sc'] eqn:Ea.
      destruct Hwr as (A & B & C & D). destruct (IH _ A) as (E1 & E2 & E3).
      rewrite B, C, D in *. cbn [body_of map concat]. fold (body_of (spec_events sc' ops)).
      rewrite <- app_assoc in E1. cbn [app] in E1. repeat split; auto.
      rewrite E3. rewrite app_length. lia.
    + unfold flush_gen. rewrite (ensure_written w (nonneg_written w Hw)).
      set (w1 := {| status := status w; length := length w; script := script w; log := log w ++ [F]; obs := obs w |}).
      assert (A: 0 <= length w1) by exact Hw.
      destruct (IH _ A) as (E1 & E2 & E3). cbn [w1 log script length] in *.
      rewrite <- app_assoc in E1. repeat split; auto.
    + destruct (Hwh code) as (A & B & C & D).
      specialize (Hwr (msg ++ [newline]) (write_header code w) A). rewrite B in Hwr.
      destruct (accept (script w) (msg ++ [newline])) as [acc sc'] eqn:Ea.
      destruct Hwr as (A' & B' & C' & D'). destruct (IH _ A') as (E1 & E2 & E3).
      rewrite B', C', D', C, D in *. cbn [body_of map concat]. fold (body_of (spec_events sc' ops)).
      rewrite <- app_assoc in E1. cbn [app] in E1. repeat split; auto.
      rewrite E3. rewrite app_length. lia.
    + destruct (Hwh code) as (A & B & C & D). destruct (IH _ A) as (E1 & E2 & E3). rewrite B, C, D in *. auto.
    + set (w1 := {| status := status w; length := length w; script := script w; log := log w; obs := obs w ++ [(status w, length w)] |}).
      assert (A: 0 <= length w1) by exact Hw.
      destruct (IH _ A) as (E1 & E2 & E3). auto.
Qed.

Lemma ensure_uncommitted w : length w = -1 ->
  written (ensure w) = true /\ log (ensure w) = log w ++ [WH (if status w =? 0 then 200 else status w)] /\
  script (ensure w) = script w /\ length (ensure w) = 0 /\
  status (ensure w) = (if status w =? 0 then 200 else status w).
Proof. intros H. unfold ensure, written. rewrite H. cbn. auto. Qed.

(* the main theorem: from an uncommitted writer, the whole request yields exactly one WH, first *)
Theorem wrequest_log_gen ops : forall w, length w = -1 ->
  log (ensure (wrun ops w)) = log w ++ WH (spec_status (status w) ops) :: spec_events (script w) ops /\
  length (ensure (wrun ops w)) = Z.of_nat (List.length (body_of (spec_events (script w) ops))).
Proof.
  induction ops as [|o ops IH]; intros w Hw; cbn [wrun fold_left spec_events spec_status].
  - destruct (ensure_uncommitted w Hw) as (A & B & C & D & E). rewrite B, D. cbn. auto.
  - change (fold_left wstep ops (wstep w o)) with (wrun ops (wstep w o)).
    assert (Hwh: forall z, length (write_header z w) = -1 /\ script (write_header z w) = script w /\
                           log (write_header z w) = log w /\
                           status (write_header z w) = (if z >? 0 then z else status w)).
    { intros z. unfold write_header. destruct (z >? 0) eqn:Ez; cbn [andb]; [|auto].
      destruct (status w =? z) eqn:Es; cbn; auto. apply Z.eqb_eq in Es. auto. }
    (* committing step followed by committed ops *)
    assert (Hcommit: forall (w1 : wstate) evs, 0 <= length w1 ->
               log w1 = log w ++ WH (status w1) :: evs ->
               log (ensure (wrun ops w1)) = log w ++ WH (status w1) :: evs ++ spec_events (script w1) ops /\
               length (ensure (wrun ops w1)) = length w1 + Z.of_nat (List.length (body_of (spec_events (script w1) ops)))).
    { intros w1 evs H1 HL. destruct (wrun_committed ops w1 H1) as (E1 & E2 & E3).
      rewrite (ensure_written _ (nonneg_written _ E2)). rewrite E1, HL, E3. rewrite <- app_assoc. auto. }
    destruct o as [z|k v|b| |msg code|url code|]; cbn [wstep wstep_gen].
    + destruct (Hwh z) as (A & B & C & D). destruct (IH _ A) as (E1 & E2). rewrite B, C, D in *. auto.
    + apply IH; auto.
    + unfold write. destruct (ensure_uncommitted w Hw) as (A & B & C & D & E).
      rewrite C. destruct (accept (script w) b) as [acc sc'] eqn:Ea.
      set (w1 := {| status := status (ensure w); length := length (ensure w) + Z.of_nat (List.length acc);
                    script := sc'; log := log (ensure w) ++ [W acc]; obs := obs (ensure w) |}).
      assert (H1: 0 <= length w1).
      { unfold w1. cbn. rewrite D. lia. }
      destruct (Hcommit w1 [W acc] H1) as (E1 & E2).
      { unfold w1. cbn [log status]. rewrite B, E. rewrite <- app_assoc. reflexivity. }
      cbn [status script length w1] in E1, E2. rewrite E in E1. rewrite D in E2.
      split; [exact E1|]. rewrite E2. cbn [body_of map concat]. fold (body_of (spec_events sc' ops)).
      rewrite app_length. lia.
    + unfold flush_gen. destruct (ensure_uncommitted w Hw) as (A & B & C & D & E).
      set (w1 := {| status := status (ensure w); length := length (ensure w); script := script (ensure w);
                    log := log (ensure w) ++ [F]; obs := obs (ensure w) |}).
      assert (H1: 0 <= length w1) by (unfold w1; cbn; lia).
      destruct (Hcommit w1 [F] H1) as (E1 & E2).
      { unfold w1. cbn [log status]. rewrite B, E. rewrite <- app_assoc. reflexivity. }
      cbn [status script length w1] in E1, E2. rewrite E, C in E1. rewrite D, C in E2.
      split; [exact E1|]. rewrite E2. reflexivity.
    + destruct (Hwh code) as (A & B & C & D).
      unfold write. destruct (ensure_uncommitted _ A) as (A' & B' & C' & D' & E').
      rewrite C', B. destruct (accept (script w) (msg ++ [newline])) as [acc sc'] eqn:Ea.
      set (w0 := ensure (write_header code w)) in *.
      set (w1 := {| status := status w0; length := length w0 + Z.of_nat (List.length acc);
                    script := sc'; log := log w0 ++ [W acc]; obs := obs w0 |}).
      assert (H1: 0 <= length w1).
      { unfold w1. cbn. rewrite D'. lia. }
      destruct (Hcommit w1 [W acc] H1) as (E1 & E2).
      { unfold w1. cbn [log status]. rewrite B', E', C. rewrite <- app_assoc. reflexivity. }
      cbn [status script length w1] in E1, E2. rewrite E', D in E1. rewrite D' in E2.
      split; [exact E1|]. rewrite E2. cbn [body_of map concat]. fold (body_of (spec_events sc' ops)).
      rewrite app_length. lia.
    + destruct (Hwh code) as (A & B & C & D). destruct (IH _ A) as (E1 & E2). rewrite B, C, D in *. auto.
    + set (w1 := {| status := status w; length := length w; script := script w; log := log w; obs := obs w ++ [(status w, length w)] |}).
      assert (A: length w1 = -1) by exact Hw. destruct (IH _ A) as (E1 & E2). auto.
Qed.

Theorem wrequest_log sc ops :
  log (wrequest sc ops) = WH (spec_status 0 ops) :: spec_events sc ops /\
  length (wrequest sc ops) = Z.of_nat (List.length (body_of (spec_events sc ops))).
Proof. unfold wrequest. apply (wrequest_log_gen ops (winit sc)). reflexivity. Qed.

Lemma spec_events_no_wh sc ops : count_wh (spec_events sc ops) = 0%nat.
Proof.
  revert sc. induction ops as [|o ops IH]; intros sc; cbn [spec_events]; auto.
  destruct o; auto.
  - destruct (accept sc b). cbn. apply IH.
  - cbn. apply IH.
  - destruct (accept sc (msg ++ [newline])). cbn. apply IH.
Qed.

Lemma count_wh_cons_wh c l : count_wh (WH c :: l) = S (count_wh l).
Proof. reflexivity. Qed.

Theorem one_commit sc ops : count_wh (log (wrequest sc ops)) = 1%nat /\
  exists c rest, log (wrequest sc ops) = WH c :: rest /\ count_wh rest = 0%nat.
Proof.
  destruct (wrequest_log sc ops) as [E _]. rewrite E. split.
  - rewrite count_wh_cons_wh, spec_events_no_wh. reflexivity.
  - eexists _, _. split; [reflexivity|]. apply spec_events_no_wh.
Qed.

(* spec_status is what the property says: the last positive status before the first write/flush *)
Definition commits (o : wop) : bool :=
  match o with WWrite _ | WFlush | WHttpError _ _ => true | _ => false end.
Fixpoint last_positive (st : Z) (ops : list wop) : Z :=
  match ops with
  | [] => st
  | WSetStatus z :: r | WRedirect _ z :: r | WHttpError _ z :: r => last_positive (if z >? 0 then z else st) r
  | _ :: r => last_positive st r
  end.
Fixpoint upto_commit (ops : list wop) : list wop :=
  match ops with
  | [] => []
  | o :: r => if commits o then [o] else o :: upto_commit r
  end.
Theorem spec_status_is_last_positive st ops :
  spec_status st ops = let s := last_positive st (upto_commit ops) in if s =? 0 then 200 else s.
Proof.
  revert st. induction ops as [|o ops IH]; intros st; cbn [spec_status upto_commit last_positive]; auto.
  destruct o; cbn [commits last_positive]; auto.
Qed.

(* empty chain: still exactly one commit, with 200 *)
Theorem no_writes_commit sc : log (wrequest sc []) = [WH 200].
Proof. reflexivity. Qed.

(* legacy witness F08: Flush; SetStatus 404; Write x  => F, WH 404, W *)
Example legacy_flush_refuted :
  log (ensure (fold_left (wstep_gen false) [WFlush; WSetStatus 404; WWrite [120%N]] (winit []))) = [F; WH 404; W [120%N]].
Proof. reflexivity. Qed.
