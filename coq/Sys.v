(* Sys.v — the whole router as one function: a registration program (Reg.v) is run, every accepted route is
   entered into the route table (Table.v), and a request is looked up (QuickMatch) and dispatched
   (Dispatch.v: chain assembly, chain machine, hooks, final commit). Definitions only; SysFacts.v has the theorems. *)
From Rux Require Import Base Str Consts Norm Writer Chain Dispatch Reg Table.

Record sys := { s_rt : router;                       (* the route table *)
                s_routes : list rroute;              (* route id -> the registered rroute (same order as routes s_rt) *)
                s_globals : list hid; s_noroute : list hid; s_noallowed : list hid }.

(* what AddRoute receives for a registered route: methods through formatMethodsWithDefault, the handler is present *)
Definition rdef_of (r : rroute) : rdef :=
  {| df_methods := format_methods (r_methods r); df_path := r_path r; df_nil_handler := false; df_name := r_name r |}.

(* Router built by running a registration program: exec_block, then every accepted route goes into the table.
   reg_routes numbers routes by position and is Panic as soon as one reg_route panics, so on success route id i of
   the table is the i-th registered rroute (SysFacts.sys_build_routes). *)
Definition sys_build (o : opts) (ss : list stmt) : outcome sys :=
  bind (exec_block (o_strict o) ss rinit) (fun st =>
  bind (reg_routes (new_router o) (map rdef_of (r_routes st))) (fun rt =>
  Ok {| s_rt := rt; s_routes := r_routes st; s_globals := r_globals st;
        s_noroute := r_noroute st; s_noallowed := r_noallowed st |})).

(* the target for a matched route: its middleware, main handler, params, name; path = the raw request path *)
Definition route_target (progs : hid -> hprog) (r : rroute) (ps : list (str * str)) (path : str) : target :=
  TRoute (map progs (r_handlers r)) (progs (r_main r)) ps (r_name r) path.

(* what handleHTTPRequest dispatches to for a QuickMatch result; progs : hid -> hprog is the handler table *)
Definition sys_target (progs : hid -> hprog) (s : sys) (q : qres) (path : str) : option target :=
  match q with
  | QFound rid ps =>
      match nth_error (s_routes s) rid with
      | Some r => Some (route_target progs r (match ps with Some l => l | None => [] end) path)
      | None => None
      end
  | QFallback rid =>
      match nth_error (s_routes s) rid with
      | Some r => Some (route_target progs r [] path)
      | None => None
      end
  | QNotAllowed al => Some (TNotAllowed al (map progs (s_noallowed s)))
  | QNotFound => Some (TNotFound (map progs (s_noroute s)))
  | QPanic | QUnsup => None
  end.

Definition sys_cfg (progs : hid -> hprog) (hooks : option hprog * option hprog) (s : sys) : rcfg :=
  {| globals := map progs (s_globals s); on_panic := fst hooks; on_error := snd hooks |}.

Definition set_rt (s : sys) (rt : router) : sys :=
  {| s_rt := rt; s_routes := s_routes s; s_globals := s_globals s; s_noroute := s_noroute s; s_noallowed := s_noallowed s |}.

(* one request: lookup (which may update the route cache), then dispatch on a context initialised from `pooled`.
   m is the request method as given (ServeHTTP does not upper-case it), p the raw request path. *)
Definition sys_serve (progs : hid -> hprog) (hooks : option hprog * option hprog) (s : sys) (m p : str)
  (sc : list nat) (pooled : pctx) : option outcome1 * sys :=
  let '(q, rt') := quick_match (s_rt s) m p in
  (match sys_target progs s q p with
   | Some t => Some (serve (sys_cfg progs hooks s) (str_eqb m OPTIONS) sc t pooled)
   | None => None
   end, set_rt s rt').

(* a sequence of requests on the same router (the cache is threaded through) *)
Fixpoint sys_serve_all (progs : hid -> hprog) (hooks : option hprog * option hprog) (s : sys)
  (reqs : list (str * str)) (sc : list nat) (pooled : pctx) : list (option outcome1) :=
  match reqs with
  | [] => []
  | (m, p) :: rest =>
      let '(r, s') := sys_serve progs hooks s m p sc pooled in
      r :: sys_serve_all progs hooks s' rest sc pooled
  end.

(* the top-level Use statements of a program, in order (Use inside a group is not global) *)
Fixpoint den_globals (ss : list stmt) : list hid :=
  match ss with
  | SUse m :: r => m ++ den_globals r
  | _ :: r => den_globals r
  | [] => []
  end.
