(* Rx.v — the regular expressions rux hands to Go's regexp package: AST, declarative semantics,
   and an executable backtracking matcher in Go's leftmost-first (Perl-like, greedy) priority order. *)
From Rux Require Import Base.

Inductive rx :=
| Eps | Chr (c : ch) | AnyNL | Cls (neg : bool) (rs : list (ch * ch))
| Cat (a b : rx) | Alt (a b : rx) | Star (a : rx) | Grp (i : nat) (a : rx).

(* derived forms, as regexp/syntax simplifies them *)
Definition Plus (a : rx) : rx := Cat a (Star a).
Definition Opt (a : rx) : rx := Alt a Eps.                       (* greedy: try a first *)
Fixpoint rep_exact (a : rx) (n : nat) : rx := match n with O => Eps | S n' => Cat a (rep_exact a n') end.
Fixpoint rep_upto (a : rx) (n : nat) : rx := match n with O => Eps | S n' => Opt (Cat a (rep_upto a n')) end.
Definition Rep (a : rx) (m n : nat) : rx := Cat (rep_exact a m) (rep_upto a (n - m)).   (* a{m,n} *)
Definition RepMin (a : rx) (m : nat) : rx := Cat (rep_exact a m) (Star a).               (* a{m,} *)

Definition in_cls (rs : list (ch * ch)) (c : ch) : bool :=
  existsb (fun '(lo, hi) => N.leb lo c && N.leb c hi) rs.
Definition caps := list (nat * str).      (* most recent first *)

(* continuation-passing backtracking matcher; Star is an inner fix on the remaining length with a
   strict-progress test, so the definition is structural *)
Fixpoint bt {A} (r : rx) : str -> caps -> (str -> caps -> option A) -> option A :=
  match r with
  | Eps => fun s c k => k s c
  | Chr x => fun s c k => match s with y :: s' => if N.eqb x y then k s' c else None | [] => None end
  | AnyNL => fun s c k => match s with y :: s' => if N.eqb y 10 then None else k s' c | [] => None end
  | Cls neg rs => fun s c k => match s with y :: s' => if xorb neg (in_cls rs y) then k s' c else None | [] => None end
  | Cat a b => fun s c k => bt a s c (fun s' c' => bt b s' c' k)
  | Alt a b => fun s c k => match bt a s c k with Some x => Some x | None => bt b s c k end
  | Star a => fun s c k =>
      (fix loop (n : nat) (s : str) (c : caps) {struct n} : option A :=
         match n with
         | O => k s c
         | S n' => match bt a s c (fun s' c' => if Nat.ltb (List.length s') (List.length s) then loop n' s' c' else None) with
                   | Some x => Some x
                   | None => k s c
                   end
         end) (List.length s) s c
  | Grp i a => fun s c k => bt a s c (fun s' c' => k s' ((i, firstn (List.length s - List.length s') s) :: c'))
  end.

(* anchored match ^r$ : Some captures of the leftmost-first match, or None *)
Definition full (r : rx) (s : str) : option caps :=
  bt r s [] (fun s' c => match s' with [] => Some c | _ => None end).
Definition matches (r : rx) (s : str) : bool := match full r s with Some _ => true | None => false end.

(* value of capture group i: the most recent capture, "" when the group did not participate *)
Fixpoint cap_get (i : nat) (c : caps) : str :=
  match c with [] => [] | (j, v) :: r => if Nat.eqb i j then v else cap_get i r end.

(* declarative semantics *)
Inductive den : rx -> str -> Prop :=
| DEps : den Eps []
| DChr c : den (Chr c) [c]
| DAny c : c <> 10%N -> den AnyNL [c]
| DCls neg rs c : xorb neg (in_cls rs c) = true -> den (Cls neg rs) [c]
| DCat a b s1 s2 : den a s1 -> den b s2 -> den (Cat a b) (s1 ++ s2)
| DAltL a b s : den a s -> den (Alt a b) s
| DAltR a b s : den b s -> den (Alt a b) s
| DStar0 a : den (Star a) []
| DStarS a s1 s2 : den a s1 -> den (Star a) s2 -> den (Star a) (s1 ++ s2)
| DGrp i a s : den a s -> den (Grp i a) s.

(* capture-threaded semantics: captures before -> captures after *)
Inductive denc : rx -> str -> caps -> caps -> Prop :=
| CEps c : denc Eps [] c c
| CChr x c : denc (Chr x) [x] c c
| CAny x c : x <> 10%N -> denc AnyNL [x] c c
| CCls neg rs x c : xorb neg (in_cls rs x) = true -> denc (Cls neg rs) [x] c c
| CCat a b s1 s2 c c1 c2 : denc a s1 c c1 -> denc b s2 c1 c2 -> denc (Cat a b) (s1 ++ s2) c c2
| CAltL a b s c c1 : denc a s c c1 -> denc (Alt a b) s c c1
| CAltR a b s c c1 : denc b s c c1 -> denc (Alt a b) s c c1
| CStar0 a c : denc (Star a) [] c c
| CStarS a s1 s2 c c1 c2 : denc a s1 c c1 -> denc (Star a) s2 c1 c2 -> denc (Star a) (s1 ++ s2) c c2
| CGrp i a s c c1 : denc a s c c1 -> denc (Grp i a) s c ((i, s) :: c1).

Definition star_loop {A} (a : rx) (k : str -> caps -> option A) :=
  fix loop (n : nat) (s : str) (c : caps) {struct n} : option A :=
         match n with
         | O => k s c
         | S n' => match bt a s c (fun s' c' => if Nat.ltb (List.length s') (List.length s) then loop n' s' c' else None) with
                   | Some x => Some x
                   | None => k s c
                   end
         end.
