(* TableFacts.v — facts about the router model of Table.v:
   Part 1: well-formed routers, registration keeps them well formed, lookup never panics (C13);
   Part 2: the cache never changes what a lookup returns (C07) and stores the right key (C14). *)
From Rux Require Import Base BaseFacts Str Consts Norm NormFacts Rx RxParse Pattern Cache CacheFacts Table.

(* ====================================================================== *)
(* Part 1 — well-formed routers and total lookup                          *)
(* ====================================================================== *)

Definition ids_ok (n : nat) (l : list (str * list nat)) : Prop :=
  forall k ids i, In (k, ids) l -> In i ids -> i < n.
Definition route_ok (r : route) : Prop :=
  match rt_kind r with KDyn _ _ (CRx _ g) names => g = List.length names | _ => True end.
Definition wf_router (rt : router) : Prop :=
  (forall k i, In (k, i) (stable rt) -> i < List.length (routes rt)) /\
  ids_ok (List.length (routes rt)) (regular rt) /\ ids_ok (List.length (routes rt)) (irregular rt) /\
  Forall route_ok (routes rt) /\
  (forall k i ps, In (k, (i, ps)) (cache rt) -> i < List.length (routes rt)).

Definition cache_ok (n : nat) (c : alist (nat * params)) : Prop :=
  forall k i ps, In (k, (i, ps)) c -> i < n.

Lemma wf_new o : wf_router (new_router o).
Proof.
  unfold wf_router, ids_ok, new_router. cbn [stable regular irregular routes cache].
  repeat split; try (intros; contradiction). constructor.
Qed.

(* ---------- association-list helpers ---------- *)
Lemma map_set_in {A} k (v : A) l k' v' :
  In (k', v') (map_set k v l) -> (k' = k /\ v' = v) \/ In (k', v') l.
Proof.
  induction l as [|[k0 v0] l IH]; cbn [map_set]; intros H.
  - destruct H as [H|[]]. inversion H; auto.
  - destruct (str_eqb k k0).
    + destruct H as [H|H]; [inversion H; auto|right; right; auto].
    + destruct H as [H|H]; [right; left; auto|]. destruct (IH H) as [H'|H']; auto. right; right; auto.
Qed.
Lemma assoc_in {A} k (l : list (str * A)) v : assoc k l = Some v -> In (k, v) l.
Proof.
  induction l as [|[k0 v0] l IH]; cbn [assoc]; [discriminate|].
  destruct (str_eqb_spec k k0) as [E|NE]; intros H.
  - inversion H; subst. left; auto.
  - right; auto.
Qed.
Lemma ids_ok_get n l k i : ids_ok n l -> In i (map_get_list k l) -> i < n.
Proof.
  intros H Hi. unfold map_get_list in Hi. destruct (assoc k l) as [ids|] eqn:E; [|destruct Hi].
  apply assoc_in in E. eapply H; eauto.
Qed.
Lemma ids_ok_map_append n k x l : ids_ok n l -> x < n -> ids_ok n (map_append k x l).
Proof.
  intros H Hx k' ids i Hin Hi. unfold map_append in Hin. apply map_set_in in Hin.
  destruct Hin as [[-> ->]|Hin].
  - apply in_app_or in Hi. destruct Hi as [Hi|[<-|[]]]; auto. eapply ids_ok_get; eauto.
  - eapply H; eauto.
Qed.
Lemma ids_ok_mono n n' l : n <= n' -> ids_ok n l -> ids_ok n' l.
Proof. intros Hle H k ids i Hin Hi. specialize (H k ids i Hin Hi). lia. Qed.
Lemma ids_ok_fold n (f : str -> str) x ms : forall l, ids_ok n l -> x < n ->
  ids_ok n (fold_left (fun acc m => map_append (f m) x acc) ms l).
Proof.
  induction ms as [|m ms IH]; cbn [fold_left]; auto.
  intros l H Hx. apply IH; auto. apply ids_ok_map_append; auto.
Qed.
Lemma stable_fold n (f : str -> str) x ms : forall st : list (str * nat),
  (forall k i, In (k, i) st -> i < n) -> x < n ->
  forall k i, In (k, i) (fold_left (fun acc m => map_set (f m) x acc) ms st) -> i < n.
Proof.
  induction ms as [|m ms IH]; cbn [fold_left]; auto.
  intros st H Hx. apply IH; auto. intros k i Hin. apply map_set_in in Hin.
  destruct Hin as [[_ ->]|Hin]; eauto.
Qed.

Lemma compile_re_groups dy r g : compile_re dy = Ok (CRx r g) -> g = List.length (d_names dy).
Proof.
  unfold compile_re, compile_re_gen. destruct (Nat.odd (trailing_bsl (d_retext dy))); [discriminate|].
  destruct (parse_rx (d_retext dy)) as [[r0 g0]| |]; try discriminate.
  cbn [negb orb]. destruct (Nat.eqb_spec g0 (List.length (d_names dy))) as [E|NE]; [|discriminate].
  intros H. inversion H; subst. reflexivity.
Qed.

Lemma wf_set_tables rt cnt r st rg ir nm :
  wf_router rt ->
  (forall k i, In (k, i) st -> i < S (List.length (routes rt))) ->
  ids_ok (S (List.length (routes rt))) rg -> ids_ok (S (List.length (routes rt))) ir ->
  route_ok r ->
  wf_router (set_tables rt cnt (routes rt ++ [r]) st rg ir nm).
Proof.
  intros (Hst & Hrg & Hir & Hro & Hca) H1 H2 H3 H4.
  unfold wf_router, set_tables. cbn [routes stable regular irregular cache].
  rewrite app_length. cbn [List.length]. rewrite Nat.add_1_r.
  split; [exact H1|]. split; [exact H2|]. split; [exact H3|]. split.
  - apply Forall_app. split; auto.
  - intros k i ps Hin. specialize (Hca k i ps Hin). lia.
Qed.

Lemma wf_reg_route rt d rt' : wf_router rt -> reg_route rt d = Ok rt' -> wf_router rt'.
Proof.
  intros Hwf H. pose proof Hwf as (Hst & Hrg & Hir & Hro & Hca).
  assert (Hst': forall k i, In (k, i) (stable rt) -> i < S (List.length (routes rt))).
  { intros k i Hin. specialize (Hst k i Hin). lia. }
  assert (Hrg': ids_ok (S (List.length (routes rt))) (regular rt)) by (eapply ids_ok_mono; [|eauto]; lia).
  assert (Hir': ids_ok (S (List.length (routes rt))) (irregular rt)) by (eapply ids_ok_mono; [|eauto]; lia).
  unfold reg_route in H.
  destruct (negb (good_info (df_nil_handler d) (df_methods d))); [discriminate|].
  destruct (is_fixed_path (df_path d)).
  - inversion H; subst rt'; clear H. apply wf_set_tables; auto.
    + apply (stable_fold (S (List.length (routes rt))) (fun m => m ++ df_path d)); auto.
    + exact I.
  - destruct (compile_dyn (df_path d)) as [dy|]; cbn [bind] in H; [|discriminate].
    destruct (compile_re dy) as [re|] eqn:Ere; cbn [bind] in H; [|discriminate].
    assert (Hr: forall ms p nm, route_ok {| rt_methods := ms; rt_path := p;
                     rt_kind := KDyn (d_start dy) (d_first dy) re (d_names dy); rt_name := nm |}).
    { intros ms p nm. unfold route_ok. cbn [rt_kind]. destruct re as [r g|]; auto.
      eapply compile_re_groups; eauto. }
    destruct (d_first dy) as [|f0 fr] eqn:Ef; inversion H; subst rt'; clear H.
    + apply wf_set_tables; auto.
      apply (ids_ok_fold (S (List.length (routes rt))) (fun m => m)); auto.
    + apply wf_set_tables; auto.
      apply (ids_ok_fold (S (List.length (routes rt))) (fun m => m ++ f0 :: fr)); auto.
Qed.

(* ---------- lookup never panics ---------- *)
Lemma zip_params_total : forall g i names c acc, i + g <= List.length names -> zip_params g i names c acc <> None.
Proof.
  induction g as [|g IH]; intros i names c acc Hle; cbn [zip_params]; [discriminate|].
  destruct (nth_error names i) as [n|] eqn:E.
  - apply IH. lia.
  - apply nth_error_None in E. lia.
Qed.

Lemma route_match_no_panic r path : route_ok r -> route_match r path <> MPanic.
Proof.
  unfold route_ok, route_match. destruct (rt_kind r) as [|st fi re names]; [discriminate|].
  intros Hok. unfold match_regex. destruct re as [rx g|]; [|discriminate].
  destruct (full rx path) as [c|]; [|discriminate].
  pose proof (zip_params_total g 0 names c []) as Hz.
  destruct (zip_params g 0 names c []) as [ps|]; [discriminate|].
  exfalso. apply Hz; auto. lia.
Qed.

Lemma scan_no_panic rs chk ids path :
  Forall route_ok rs -> (forall i, In i ids -> i < List.length rs) -> scan rs chk ids path <> LPanic.
Proof.
  intros Hro. induction ids as [|i rest IH]; intros Hids; cbn [scan]; [discriminate|].
  assert (IH': scan rs chk rest path <> LPanic) by (apply IH; intros j Hj; apply Hids; right; auto).
  destruct (nth_error rs i) as [r|] eqn:E.
  - assert (Hr: route_ok r). { rewrite Forall_forall in Hro. apply Hro. eapply nth_error_In; eauto. }
    destruct (chk && negb (has_prefix (route_start r) path)); auto.
    pose proof (route_match_no_panic r path Hr) as Hm.
    destruct (route_match r path); auto; try discriminate; try congruence.
  - apply nth_error_None in E. specialize (Hids i (or_introl eq_refl)). lia.
Qed.

Lemma scan_hit_lt rs chk ids path i ps : scan rs chk ids path = LHit i ps -> i < List.length rs.
Proof.
  induction ids as [|j rest IH]; cbn [scan]; [discriminate|].
  destruct (nth_error rs j) as [r|] eqn:E; [|discriminate].
  destruct (chk && negb (has_prefix (route_start r) path)); auto.
  destruct (route_match r path); auto; try discriminate.
  intros H. inversion H; subst. apply nth_error_Some. congruence.
Qed.

Lemma dyn_match_hit_lt rt m path i ps : dyn_match rt m path = LHit i ps -> i < List.length (routes rt).
Proof.
  unfold dyn_match. destruct (first_node path) as [fn|]; [|discriminate].
  destruct fn as [f|].
  - destruct (scan (routes rt) true (map_get_list (m ++ f) (regular rt)) path) eqn:E1; intros H; try discriminate.
    + eapply scan_hit_lt; eauto.
    + inversion H; subst. eapply scan_hit_lt; eauto.
  - apply scan_hit_lt.
Qed.

Lemma dyn_match_no_panic rt m path : wf_router rt -> path <> [] -> dyn_match rt m path <> LPanic.
Proof.
  intros (Hst & Hrg & Hir & Hro & Hca) Hp. unfold dyn_match.
  destruct path as [|c tl1]; [congruence|]. cbn [first_node].
  assert (Hi: scan (routes rt) false (map_get_list m (irregular rt)) (c :: tl1) <> LPanic).
  { apply scan_no_panic; auto. intros i Hin. exact (ids_ok_get _ _ _ _ Hir Hin). }
  assert (Hr: forall f, scan (routes rt) true (map_get_list (m ++ f) (regular rt)) (c :: tl1) <> LPanic).
  { intros f. apply scan_no_panic; auto. intros i Hin. exact (ids_ok_get _ _ _ _ Hrg Hin). }
  destruct (index_of slash tl1) as [[|pos]|]; auto.
  specialize (Hr (firstn (S pos) tl1)).
  destruct (scan (routes rt) true (map_get_list (m ++ firstn (S pos) tl1) (regular rt)) (c :: tl1)); auto; discriminate.
Qed.

(* the three ways Router.match can go *)
Lemma match_cases rt m path :
  (exists rid, assoc (m ++ path) (stable rt) = Some rid /\ match_ rt m path = (LHit rid None, rt)) \/
  (assoc (m ++ path) (stable rt) = None /\ o_caching (ropts rt) = true /\
   exists rid ps, afind (nat * params) (m ++ path) (cache rt) = Some (rid, ps) /\
     match_ rt m path = (LHit rid (Some ps),
                         set_cache rt ((m ++ path, (rid, ps)) :: aremove (nat * params) (m ++ path) (cache rt)))) \/
  (assoc (m ++ path) (stable rt) = None /\
   (o_caching (ropts rt) = false \/ afind (nat * params) (m ++ path) (cache rt) = None) /\
   match_ rt m path =
     (dyn_match rt m path,
      set_cache rt (match dyn_match rt m path with
                    | LHit rid (Some ps) =>
                        if o_caching (ropts rt)
                        then aset (nat * params) (o_cap (ropts rt)) (cache rt) (m ++ path) (rid, ps)
                        else cache rt
                    | _ => cache rt
                    end))).
Proof.
  unfold match_. destruct (assoc (m ++ path) (stable rt)) as [rid|]; [left; eauto|right].
  destruct (o_caching (ropts rt)) eqn:Ec.
  - unfold aget. destruct (afind (nat * params) (m ++ path) (cache rt)) as [[rid ps]|] eqn:Ef.
    + left. split; auto. split; auto. exists rid, ps. split; auto.
    + right. split; auto. split; auto.
      destruct (dyn_match rt m path) as [|rid [ps|]| |]; reflexivity.
  - right. split; auto. split; auto.
    destruct (dyn_match rt m path) as [|rid [ps|]| |]; reflexivity.
Qed.

Lemma wf_set_cache rt c : wf_router rt -> cache_ok (List.length (routes rt)) c -> wf_router (set_cache rt c).
Proof.
  intros (Hst & Hrg & Hir & Hro & Hca) Hc. unfold wf_router, set_cache.
  cbn [routes stable regular irregular cache]. repeat split; auto.
Qed.

Lemma in_aset {V} cap (l : alist V) k v x : In x (aset V cap l k v) -> x = (k, v) \/ In x l.
Proof.
  unfold aset. destruct (afind V k l).
  - intros [<-|H]; auto. right. eapply in_aremove; eauto.
  - destruct (Nat.ltb cap (List.length ((k, v) :: l))).
    + intros H. apply in_removelast in H. destruct H as [<-|H]; auto.
    + intros [<-|H]; auto.
Qed.

Lemma match_no_panic rt m path : wf_router rt -> path <> [] ->
  fst (match_ rt m path) <> LPanic /\ wf_router (snd (match_ rt m path)).
Proof.
  intros Hwf Hp. pose proof Hwf as (Hst & Hrg & Hir & Hro & Hca).
  destruct (match_cases rt m path) as [(rid & Ea & Em)|[(Ea & Ec & rid & ps & Ef & Em)|(Ea & _ & Em)]];
    rewrite Em; cbn [fst snd].
  - split; [discriminate|auto].
  - split; [discriminate|]. apply wf_set_cache; auto.
    apply afind_in in Ef.
    intros k i ps' [E|Hin].
    + inversion E; subst. eapply Hca; eauto.
    + apply in_aremove in Hin. eapply Hca; eauto.
  - split; [apply dyn_match_no_panic; auto|]. apply wf_set_cache; auto.
    destruct (dyn_match rt m path) as [|rid [ps|]| |] eqn:Ed; try exact Hca.
    destruct (o_caching (ropts rt)); try exact Hca.
    intros k i ps' Hin. apply in_aset in Hin. destruct Hin as [E|Hin].
    + inversion E; subst. eapply dyn_match_hit_lt; eauto.
    + eapply Hca; eauto.
Qed.

Lemma probe_no_panic m path : path <> [] -> forall ms rt acc, wf_router rt ->
  fst (probe_methods rt ms m path acc) <> Panic /\ wf_router (snd (probe_methods rt ms m path acc)).
Proof.
  intros Hp. induction ms as [|m' rest IH]; intros rt acc Hwf; cbn [probe_methods].
  - cbn [fst snd]. split; [discriminate|auto].
  - destruct (str_eqb m' m); [apply IH; auto|].
    destruct (match_no_panic rt m' path Hwf Hp) as [Hn Hw].
    destruct (match_ rt m' path) as [r rt1]. cbn [fst snd] in Hn, Hw.
    destruct r; try (apply IH; auto).
    + congruence.
    + cbn [fst snd]. split; [discriminate|auto].
Qed.

Theorem quick_match_no_panic rt m p : wf_router rt ->
  fst (quick_match rt m p) <> QPanic /\ wf_router (snd (quick_match rt m p)).
Proof.
  intros Hwf. unfold quick_match, quick_match_gen. cbv zeta.
  set (fp := if nil_b (o_intercept (ropts rt)) then format_path (o_strict (ropts rt)) p
             else format_path (o_strict (ropts rt)) (o_intercept (ropts rt))).
  assert (Hfp: exists t, fp = Ok (slash :: t)).
  { unfold fp. destruct (nil_b (o_intercept (ropts rt))); rewrite format_core; eauto. }
  destruct Hfp as [t ->].
  assert (Hp: slash :: t <> []) by discriminate.
  destruct (match_no_panic rt m (slash :: t) Hwf Hp) as [Hn1 Hw1].
  destruct (match_ rt m (slash :: t)) as [r1 rt1]. cbn [fst snd] in Hn1, Hw1.
  destruct r1; cbn [fst snd]; try (split; [discriminate|auto]); [|congruence].
  assert (H2: fst (if str_eqb m HEAD then match_ rt1 GET (slash :: t) else (LNone, rt1)) <> LPanic /\
              wf_router (snd (if str_eqb m HEAD then match_ rt1 GET (slash :: t) else (LNone, rt1)))).
  { destruct (str_eqb m HEAD); [apply match_no_panic; auto|]. cbn [fst snd]. split; [discriminate|auto]. }
  destruct (if str_eqb m HEAD then match_ rt1 GET (slash :: t) else (LNone, rt1)) as [r2 rt2].
  cbn [fst snd] in H2. destruct H2 as [Hn2 Hw2].
  destruct r2; cbn [fst snd]; try (split; [discriminate|auto]); [|congruence].
  destruct (if o_fallback (ropts rt) then assoc (m ++ fallback_suffix) (stable rt2) else None) as [rid|];
    cbn [fst snd]; [split; [discriminate|auto]|].
  destruct (o_na (ropts rt)); cbn [fst snd]; [|split; [discriminate|auto]].
  destruct (probe_no_panic m (slash :: t) Hp any_methods rt2 [] Hw2) as [Hn3 Hw3].
  destruct (probe_methods rt2 any_methods m (slash :: t) []) as [o3 rt3]. cbn [fst snd] in Hn3, Hw3.
  destruct o3 as [[[|a al]|]|]; cbn [fst snd]; try (split; [discriminate|auto]). congruence.
Qed.

(* ---------- rejection classes ---------- *)
Lemma reject_nil_handler rt d : df_nil_handler d = true -> reg_route rt d = Panic.
Proof. intros H. unfold reg_route, good_info. rewrite H. reflexivity. Qed.
Lemma reject_no_method rt d : df_methods d = [] -> reg_route rt d = Panic.
Proof. intros H. unfold reg_route, good_info. rewrite H. destruct (df_nil_handler d); reflexivity. Qed.
Lemma reject_unknown_method rt d m : In m (df_methods d) -> mem m any_methods = false -> reg_route rt d = Panic.
Proof.
  intros Hin Hm. unfold reg_route, good_info.
  assert (E: forallb (fun m0 => mem m0 any_methods) (df_methods d) = false).
  { destruct (forallb (fun m0 => mem m0 any_methods) (df_methods d)) eqn:E; auto.
    rewrite forallb_forall in E. rewrite (E m Hin) in Hm. discriminate. }
  rewrite E. rewrite andb_false_r. reflexivity.
Qed.
Lemma reject_options_after_routes rt o : 0 < counter rt -> with_options rt o = Panic.
Proof. intros H. unfold with_options. apply Nat.ltb_lt in H. rewrite H. reflexivity. Qed.

Lemma reg_route_shape rt d rt' : reg_route rt d = Ok rt' ->
  good_info (df_nil_handler d) (df_methods d) = true /\
  counter rt' = counter rt + List.length (df_methods d) /\ cache rt' = cache rt.
Proof.
  unfold reg_route. destruct (good_info (df_nil_handler d) (df_methods d)); cbn [negb]; [|discriminate].
  destruct (is_fixed_path (df_path d)).
  - intros H. inversion H; subst. auto.
  - destruct (compile_dyn (df_path d)) as [dy|]; cbn [bind]; [|discriminate].
    destruct (compile_re dy) as [re|]; cbn [bind]; [|discriminate].
    destruct (d_first dy); intros H; inversion H; subst; auto.
Qed.
Lemma counter_positive rt d rt' : reg_route rt d = Ok rt' ->
  df_methods d <> [] /\ counter rt' = counter rt + List.length (df_methods d).
Proof.
  intros H. destruct (reg_route_shape rt d rt' H) as (Hg & Hc & _). split; auto.
  intros E. unfold good_info in Hg. rewrite E in Hg. cbn [nil_b negb] in Hg.
  rewrite andb_false_r in Hg. discriminate.
Qed.

(* ====================================================================== *)
(* Part 2 — cache transparency (C07) and the cached key (C14)             *)
(* ====================================================================== *)

Definition no_slash (m : str) : Prop := forallb (fun c => negb (N.eqb c slash)) m = true.
Definition rooted (p : str) : Prop := match p with c :: _ => c = slash | [] => False end.

Lemma key_split m1 m2 p1 p2 : no_slash m1 -> no_slash m2 -> rooted p1 -> rooted p2 ->
  m1 ++ p1 = m2 ++ p2 -> m1 = m2 /\ p1 = p2.
Proof.
  unfold no_slash. revert m2. induction m1 as [|a m1 IH]; intros [|b m2] H1 H2 R1 R2 E; cbn [app] in E.
  - auto.
  - exfalso. subst p1. cbn [rooted] in R1. subst b. cbn [forallb] in H2.
    rewrite N.eqb_refl in H2. discriminate.
  - exfalso. subst p2. cbn [rooted] in R2. subst a. cbn [forallb] in H1.
    rewrite N.eqb_refl in H1. discriminate.
  - inversion E; subst. cbn [forallb] in H1, H2.
    apply andb_true_iff in H1. apply andb_true_iff in H2. destruct H1 as [_ H1]. destruct H2 as [_ H2].
    destruct (IH m2 H1 H2 R1 R2 H3) as [-> ->]. auto.
Qed.

(* the non-caching twin: same tables, caching switched off, empty cache *)
Definition nocache (rt : router) : router :=
  {| ropts := {| o_strict := o_strict (ropts rt); o_na := o_na (ropts rt); o_fallback := o_fallback (ropts rt);
                 o_caching := false; o_cap := o_cap (ropts rt); o_intercept := o_intercept (ropts rt) |};
     counter := counter rt; routes := routes rt; stable := stable rt; regular := regular rt;
     irregular := irregular rt; named := named rt; cache := [] |}.

(* every cache entry is what the dynamic tiers answer for its key, and its key is not a static key *)
Definition coherent (rt : router) : Prop :=
  forall k rid ps, In (k, (rid, ps)) (cache rt) ->
    forall m p, no_slash m -> rooted p -> m ++ p = k ->
      dyn_match rt m p = LHit rid (Some ps) /\ assoc k (stable rt) = None.

Lemma dyn_match_set_cache rt c m p : dyn_match (set_cache rt c) m p = dyn_match rt m p.
Proof. reflexivity. Qed.
Lemma dyn_match_nocache rt m p : dyn_match (nocache rt) m p = dyn_match rt m p.
Proof. reflexivity. Qed.
Lemma nocache_set_cache rt c : nocache (set_cache rt c) = nocache rt.
Proof. reflexivity. Qed.

Lemma coherent_set_cache rt c : coherent rt -> (forall x, In x c -> In x (cache rt)) -> coherent (set_cache rt c).
Proof. intros H Hs k rid ps Hin. exact (H k rid ps (Hs _ Hin)). Qed.

(* Router.match with caching off: static tier, then the dynamic tiers; the router is unchanged *)
Lemma match_caching_off rt m p : o_caching (ropts rt) = false ->
  match_ rt m p =
    (match assoc (m ++ p) (stable rt) with Some rid => LHit rid None | None => dyn_match rt m p end,
     match assoc (m ++ p) (stable rt) with Some _ => rt | None => set_cache rt (cache rt) end).
Proof.
  intros H. unfold match_. rewrite H. destruct (assoc (m ++ p) (stable rt)); auto.
  destruct (dyn_match rt m p) as [|rid [ps|]| |]; reflexivity.
Qed.
Lemma match_nocache rt m p :
  match_ (nocache rt) m p =
    (match assoc (m ++ p) (stable rt) with Some rid => LHit rid None | None => dyn_match rt m p end, nocache rt).
Proof.
  rewrite match_caching_off by reflexivity. change (stable (nocache rt)) with (stable rt).
  destruct (assoc (m ++ p) (stable rt)); reflexivity.
Qed.
(* match_ changes nothing but the cache *)
Lemma match_keeps_tables rt m p : nocache (snd (match_ rt m p)) = nocache rt.
Proof.
  destruct (match_cases rt m p) as [(rid & Ea & Em)|[(Ea & Ec & rid & ps & Ef & Em)|(Ea & _ & Em)]];
    rewrite Em; reflexivity.
Qed.

(* the working form: the twin answers the same and stays the twin; coherence is kept *)
Lemma match_nc rt m p : coherent rt -> no_slash m -> rooted p ->
  match_ (nocache rt) m p = (fst (match_ rt m p), nocache (snd (match_ rt m p))) /\
  coherent (snd (match_ rt m p)).
Proof.
  intros Hco Hm Hp. rewrite match_nocache, match_keeps_tables.
  destruct (match_cases rt m p) as [(rid & Ea & Em)|[(Ea & Ec & rid & ps & Ef & Em)|(Ea & _ & Em)]];
    rewrite Em, Ea; cbn [fst snd].
  - split; auto.
  - apply afind_in in Ef. destruct (Hco _ _ _ Ef m p Hm Hp eq_refl) as [Hd _]. rewrite Hd. split; auto.
    apply coherent_set_cache; auto. intros x [<-|Hx]; auto. eapply in_aremove; eauto.
  - split; auto.
    destruct (dyn_match rt m p) as [|rid [ps|]| |] eqn:Ed;
      try (apply coherent_set_cache; [assumption|intros x Hx; exact Hx]).
    destruct (o_caching (ropts rt)); [|apply coherent_set_cache; auto].
    intros k rid' ps' Hin. cbn [cache set_cache] in Hin. apply in_aset in Hin. destruct Hin as [E|Hin].
    + inversion E; subst. intros m' p' Hm' Hp' Hk.
      destruct (key_split m' m p' p Hm' Hm Hp' Hp Hk) as [-> ->]. split; auto.
    + exact (Hco k rid' ps' Hin).
Qed.

Theorem match_transparent rt m p : coherent rt -> no_slash m -> rooted p ->
  fst (match_ rt m p) = fst (match_ (nocache rt) m p) /\ coherent (snd (match_ rt m p)).
Proof.
  intros Hco Hm Hp. destruct (match_nc rt m p Hco Hm Hp) as [E Hc]. rewrite E. auto.
Qed.

Lemma no_slash_GET : no_slash GET.
Proof. reflexivity. Qed.
Lemma no_slash_any : forall x, In x any_methods -> no_slash x.
Proof. apply Forall_forall. repeat constructor. Qed.

Lemma probe_nc m path : rooted path -> forall ms rt acc, coherent rt -> (forall x, In x ms -> no_slash x) ->
  probe_methods (nocache rt) ms m path acc =
    (fst (probe_methods rt ms m path acc), nocache (snd (probe_methods rt ms m path acc))) /\
  coherent (snd (probe_methods rt ms m path acc)).
Proof.
  intros Hp. induction ms as [|m' rest IH]; intros rt acc Hco Hms; cbn [probe_methods].
  - cbn [fst snd]. auto.
  - assert (Hrest: forall x, In x rest -> no_slash x) by (intros x Hx; apply Hms; right; auto).
    destruct (str_eqb m' m); [apply IH; auto|].
    destruct (match_nc rt m' path Hco (Hms m' (or_introl eq_refl)) Hp) as [E Hc]. rewrite E.
    destruct (match_ rt m' path) as [r rt1]. cbn [fst snd] in *.
    destruct r; cbn [fst snd]; auto.
Qed.

Lemma quick_nc rt m p : coherent rt -> no_slash m ->
  quick_match (nocache rt) m p = (fst (quick_match rt m p), nocache (snd (quick_match rt m p))) /\
  coherent (snd (quick_match rt m p)).
Proof.
  intros Hco Hm. unfold quick_match, quick_match_gen. cbv zeta.
  change (ropts (nocache rt)) with
    {| o_strict := o_strict (ropts rt); o_na := o_na (ropts rt); o_fallback := o_fallback (ropts rt);
       o_caching := false; o_cap := o_cap (ropts rt); o_intercept := o_intercept (ropts rt) |}.
  cbn [o_strict o_na o_fallback o_intercept].
  set (fp := if nil_b (o_intercept (ropts rt)) then format_path (o_strict (ropts rt)) p
             else format_path (o_strict (ropts rt)) (o_intercept (ropts rt))).
  assert (Hfp: exists t, fp = Ok (slash :: t)).
  { unfold fp. destruct (nil_b (o_intercept (ropts rt))); rewrite format_core; eauto. }
  destruct Hfp as [t ->].
  assert (Hp: rooted (slash :: t)) by reflexivity.
  destruct (match_nc rt m (slash :: t) Hco Hm Hp) as [E1 Hc1]. rewrite E1.
  destruct (match_ rt m (slash :: t)) as [r1 rt1]. cbn [fst snd] in *.
  destruct r1; cbn [fst snd]; auto.
  assert (H2: (if str_eqb m HEAD then match_ (nocache rt1) GET (slash :: t) else (LNone, nocache rt1)) =
              (fst (if str_eqb m HEAD then match_ rt1 GET (slash :: t) else (LNone, rt1)),
               nocache (snd (if str_eqb m HEAD then match_ rt1 GET (slash :: t) else (LNone, rt1)))) /\
              coherent (snd (if str_eqb m HEAD then match_ rt1 GET (slash :: t) else (LNone, rt1)))).
  { destruct (str_eqb m HEAD); [apply match_nc; auto; apply no_slash_GET|]. cbn [fst snd]. auto. }
  destruct H2 as [E2 Hc2]. rewrite E2.
  destruct (if str_eqb m HEAD then match_ rt1 GET (slash :: t) else (LNone, rt1)) as [r2 rt2].
  cbn [fst snd] in *.
  destruct r2; cbn [fst snd]; auto.
  change (stable (nocache rt2)) with (stable rt2).
  destruct (if o_fallback (ropts rt) then assoc (m ++ fallback_suffix) (stable rt2) else None) as [rid|];
    cbn [fst snd]; auto.
  destruct (o_na (ropts rt)); cbn [fst snd]; auto.
  destruct (probe_nc m (slash :: t) Hp any_methods rt2 [] Hc2 no_slash_any) as [E3 Hc3]. rewrite E3.
  destruct (probe_methods rt2 any_methods m (slash :: t) []) as [o3 rt3]. cbn [fst snd] in *.
  destruct o3 as [[[|a al]|]|]; cbn [fst snd]; auto.
Qed.

Theorem quick_match_transparent rt m p : coherent rt -> no_slash m ->
  fst (quick_match rt m p) = fst (quick_match (nocache rt) m p) /\ coherent (snd (quick_match rt m p)).
Proof.
  intros Hco Hm. destruct (quick_nc rt m p Hco Hm) as [E Hc]. rewrite E. auto.
Qed.

(* histories: the list of answers of the caching router equals that of the non-caching twin *)
Fixpoint run_queries (rt : router) (qs : list (str * str)) : list qres :=
  match qs with [] => [] | (m, p) :: r => let '(a, rt') := quick_match rt m p in a :: run_queries rt' r end.

Theorem cache_transparent rt qs : coherent rt -> (forall m p, In (m, p) qs -> no_slash m) ->
  run_queries rt qs = run_queries (nocache rt) qs.
Proof.
  revert rt. induction qs as [|[m p] r IH]; intros rt Hco Hqs; cbn [run_queries]; auto.
  destruct (quick_nc rt m p Hco (Hqs m p (or_introl eq_refl))) as [E Hc]. rewrite E.
  destruct (quick_match rt m p) as [a rt']. cbn [fst snd] in *.
  f_equal. apply IH; auto. intros m' p' Hin. apply (Hqs m' p'). right; auto.
Qed.

Lemma coherent_new o : coherent (new_router o).
Proof. intros k rid ps Hin. destruct Hin. Qed.
Lemma coherent_reg_empty rt d rt' : cache rt = [] -> reg_route rt d = Ok rt' -> cache rt' = [].
Proof. intros Hc H. destruct (reg_route_shape rt d rt' H) as (_ & _ & E). congruence. Qed.

(* C14: after a dynamic match with caching on and capacity >= 1, exactly the key method ++ path is the most recent entry *)
Theorem dynamic_match_cached rt m path rid ps :
  o_caching (ropts rt) = true -> 1 <= o_cap (ropts rt) -> ainv (nat * params) (o_cap (ropts rt)) (cache rt) ->
  assoc (m ++ path) (stable rt) = None ->
  fst (match_ rt m path) = LHit rid (Some ps) ->
  exists rest, cache (snd (match_ rt m path)) = (m ++ path, (rid, ps)) :: rest.
Proof.
  intros Hc Hcap Hinv Ha.
  destruct (match_cases rt m path) as [(rid0 & Ea & Em)|[(_ & _ & rid0 & ps0 & Ef & Em)|(_ & _ & Em)]];
    rewrite Em; cbn [fst snd].
  - congruence.
  - intros H. inversion H; subst. cbn [cache set_cache]. eauto.
  - intros H. rewrite H. rewrite Hc. cbn [cache set_cache]. apply set_is_mru; auto.
Qed.
