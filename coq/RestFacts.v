(* RestFacts.v — C16: Router.Resource registers exactly the documented REST table, whatever the order
   in which the implemented actions are visited; it never fails for fewer than 63 per-action middleware;
   the documented paths in the default (non-strict) mode. *)
From Rux Require Import Base BaseFacts Str Consts Norm NormFacts Reg RegFacts Rest.
From Coq Require Import Permutation.

(* ---------- 1. the registered table ---------- *)
Lemma den_block_sroutes strict pfx g res (uses : action -> list hid) acts : pfx <> [] ->
  den_block strict pfx g
    (map (fun a => SRoute (action_methods a) (action_path a) (action_id a) [] (uses a) (route_name res a)) acts) =
  map (fun a => {| r_methods := action_methods a;
                   r_path := nf strict (pfx ++ nf strict (action_path a));
                   r_handlers := g ++ uses a; r_main := action_id a; r_name := route_name res a |}) acts.
Proof.
  intros Hp. unfold den_block. induction acts as [|a acts IH]; cbn [map den_blockf den_stmt app]; [reflexivity|].
  destruct pfx as [|c pfx]; [congruence|]. cbn [is_nil]. f_equal. exact IH.
Qed.

(* what Resource registers: for every order of the implemented actions, one route per action, with the documented methods and name,
   its per-action middleware only, and the path obtained by normalising prefix ++ action path *)
Theorem resource_routes strict base res acts uses st' :
  exec_block strict (resource_stmts base res acts uses) rinit = Ok st' ->
  r_routes st' = map (fun a => {| r_methods := action_methods a;
                                  r_path := nf strict (nf strict (base ++ res) ++ nf strict (action_path a));
                                  r_handlers := uses a; r_main := action_id a; r_name := route_name res a |}) acts.
Proof.
  intros H. apply program_routes in H. destruct H as (R & _ & _). rewrite R. unfold resource_stmts.
  rewrite sibling_unaffected. cbn [app]. change (den_block strict [] [] []) with (@nil rroute). rewrite app_nil_r.
  rewrite den_block_sroutes by (unfold nf; discriminate). reflexivity.
Qed.

(* registration order only permutes the table *)
Theorem resource_order_independent strict base res acts acts' uses st1 st2 :
  Permutation acts acts' ->
  exec_block strict (resource_stmts base res acts uses) rinit = Ok st1 ->
  exec_block strict (resource_stmts base res acts' uses) rinit = Ok st2 ->
  Permutation (r_routes st1) (r_routes st2).
Proof.
  intros P H1 H2. rewrite (resource_routes _ _ _ _ _ _ H1), (resource_routes _ _ _ _ _ _ H2).
  apply Permutation_map. exact P.
Qed.

(* ---------- 2. registration is accepted ---------- *)
Lemma exec_route_accept strict meths P main later name st :
  g_handlers st = [] -> List.length later < limit ->
  exists st', exec_route strict meths P main [] later name st = Ok st' /\ g_handlers st' = [].
Proof.
  intros Hg Hl. unfold exec_route, group_info. rewrite format_reg_lookup, format_core. cbn [bind].
  match goal with |- context [bind (if ?c then ?x else ?y) _] => assert (E : exists pp, (if c then x else y) = Ok pp) end.
  { destruct (is_nil (g_prefix st)); [eexists; reflexivity|]. rewrite format_core. eexists; reflexivity. }
  destruct E as [pp E]. rewrite E. cbn [bind]. rewrite Hg. cbn [is_nil bind]. unfold route_use.
  cbn [List.length app Nat.add]. change (Nat.leb limit 0) with false. cbn [bind].
  cbn [List.length app Nat.add].
  destruct (Nat.leb_spec limit (List.length later)) as [Hle|Hlt]; [lia|]. cbn [bind].
  eexists. split; [reflexivity|]. cbn [add_route g_handlers]. exact Hg.
Qed.

Lemma exec_block_accept strict res (uses : action -> list hid) acts : (forall a, List.length (uses a) < 63) ->
  forall st, g_handlers st = [] ->
  exists st', exec_block strict
    (map (fun a => SRoute (action_methods a) (action_path a) (action_id a) [] (uses a) (route_name res a)) acts) st = Ok st'.
Proof.
  intros Hu. unfold exec_block. induction acts as [|a acts IH]; intros st Hg; cbn [map run_block].
  - eexists; reflexivity.
  - cbn [exec_stmt].
    destruct (exec_route_accept strict (action_methods a) (action_path a) (action_id a) (uses a) (route_name res a) st Hg (Hu a))
      as (st1 & E & Hg1).
    rewrite E. apply IH. exact Hg1.
Qed.

(* registration never fails for fewer than 63 per-action middleware *)
Theorem resource_accepted strict base res acts uses : (forall a, List.length (uses a) < 63) ->
  exists st', exec_block strict (resource_stmts base res acts uses) rinit = Ok st'.
Proof.
  intros Hu. unfold resource_stmts. unfold exec_block at 1. cbn [run_block].
  rewrite exec_stmt_group, format_core.
  destruct (exec_block_accept strict res uses acts Hu
              (set_scope (g_prefix rinit ++ slash :: core strict (base ++ res)) (g_handlers rinit ++ []) rinit) eq_refl)
    as [st2 E].
  rewrite E. eexists; reflexivity.
Qed.

(* non-pointer / non-struct controllers are rejected *)
Theorem resource_guard_rejects : resource_guard false true = Panic /\ resource_guard true false = Panic /\ resource_guard true true = Ok tt.
Proof. repeat split. Qed.

(* ---------- 3. the documented paths (non-strict mode, clean prefix) ---------- *)
Lemma de_prefix p s : exists b, s = de p s ++ b.
Proof.
  induction s as [|c r [b IH]]; [exists []; reflexivity|].
  cbn [de]. destruct (de p r) as [|d l] eqn:E.
  - destruct (p c); [exists (c :: r); reflexivity|exists r; reflexivity].
  - exists b. cbn [app]. f_equal. exact IH.
Qed.
Lemma de_length_eq p s : List.length s <= List.length (de p s) -> de p s = s.
Proof.
  intros H. destruct (de_prefix p s) as [b Hb]. rewrite Hb in H at 1. rewrite app_length in H.
  destruct b as [|x b]; [|cbn [List.length] in H; lia]. rewrite app_nil_r in Hb. symmetry. exact Hb.
Qed.
Lemma de_length_le p s : List.length (de p s) <= List.length s.
Proof. destruct (de_prefix p s) as [b Hb]. rewrite Hb at 2. rewrite app_length. lia. Qed.
Lemma dw_length_le p s : List.length (dw p s) <= List.length s.
Proof. destruct (dw_suffix p s) as [a Ha]. rewrite Ha at 2. rewrite app_length. lia. Qed.
Lemma dw_length_eq p s : List.length s <= List.length (dw p s) -> dw p s = s.
Proof.
  intros H. destruct (dw_suffix p s) as [a Ha]. rewrite Ha in H at 1. rewrite app_length in H.
  destruct a as [|x a]; [|cbn [List.length] in H; lia]. symmetry. exact Ha.
Qed.

Lemma de_app_nonnil p x y : de p y <> [] -> de p (x ++ y) = x ++ de p y.
Proof.
  intros Hy. induction x as [|c x IH]; [reflexivity|].
  cbn [app de]. rewrite IH. destruct (x ++ de p y) as [|d l] eqn:E; [|reflexivity].
  apply app_eq_nil in E. destruct E as [_ E]. congruence.
Qed.
Lemma de_app_all p x y : forallb p y = true -> de p (x ++ y) = de p x.
Proof.
  intros Hy. induction x as [|c x IH].
  - cbn [app de]. apply de_nil_iff. exact Hy.
  - cbn [app de]. rewrite IH. reflexivity.
Qed.

(* G is its own normal form and is not the root *)
Definition clean (G : str) : Prop := exists t, G = slash :: t /\ t <> [] /\ core false G = t.

(* what being clean amounts to: no white space at the end, no '/' at the end, no second '/' at the start *)
Lemma clean_facts G : clean G ->
  exists c t, G = slash :: c :: t /\ is_slash c = false /\
              de is_space (c :: t) = c :: t /\ de is_slash (c :: t) = c :: t.
Proof.
  intros (t & -> & Hne & Hc). unfold core, trim_space in Hc.
  rewrite (dw_cons_false _ _ _ slash_not_space) in Hc.
  rewrite (de_cons_not _ _ _ slash_not_space) in Hc.
  set (u := de is_space t) in *.
  assert (Hv : de is_slash (slash :: u) = slash :: de is_slash u).
  { cbn [de]. destruct (de is_slash u) as [|d l] eqn:E; [|reflexivity].
    change (is_slash slash) with true in Hc. cbn [de] in Hc. rewrite E in Hc.
    change (is_slash slash) with true in Hc. cbn [dw] in Hc. congruence. }
  rewrite Hv in Hc. rewrite dw_cons_true in Hc by reflexivity.
  pose proof (dw_length_le is_slash (de is_slash u)) as L1.
  pose proof (de_length_le is_slash u) as L2.
  pose proof (de_length_le is_space t) as L3. fold u in L3.
  assert (Eu : u = t). { apply de_length_eq. fold u. rewrite <- Hc at 1. lia. }
  rewrite Eu in *.
  assert (Es : de is_slash t = t). { apply de_length_eq. rewrite <- Hc at 1. lia. }
  rewrite Es in Hc.
  destruct t as [|c t]; [congruence|]. exists c, t. split; [reflexivity|]. split; [|split; assumption].
  cbn [dw] in Hc. destruct (is_slash c) eqn:Ec; [|reflexivity].
  exfalso. pose proof (dw_length_le is_slash t) as L4. rewrite Hc in L4. cbn [List.length] in L4. lia.
Qed.

(* appending a suffix that needs no trimming to a clean prefix gives a normal form *)
Lemma nf_clean_app G x : clean G -> x <> [] -> de is_space x = x -> de is_slash x = x ->
  nf false (G ++ x) = G ++ x.
Proof.
  intros HG Hx Hsp Hsl. destruct (clean_facts G HG) as (c & t & -> & Hc & _ & _).
  unfold nf, core, trim_space. cbn [app].
  rewrite (dw_cons_false _ _ _ slash_not_space).
  change (slash :: c :: t ++ x) with ((slash :: c :: t) ++ x).
  rewrite (de_app_nonnil is_space) by congruence. rewrite Hsp.
  rewrite (de_app_nonnil is_slash) by congruence. rewrite Hsl.
  cbn [app]. rewrite dw_cons_true by reflexivity. rewrite dw_cons_false by exact Hc. reflexivity.
Qed.
(* a trailing '/' after a clean prefix disappears *)
Lemma nf_clean_slash G : clean G -> nf false (G ++ [slash]) = G.
Proof.
  intros HG. destruct (clean_facts G HG) as (c & t & -> & Hc & Hsp & Hsl).
  unfold nf, core, trim_space. cbn [app].
  rewrite (dw_cons_false _ _ _ slash_not_space).
  change (slash :: c :: t ++ [slash]) with ((slash :: c :: t) ++ [slash]).
  rewrite (de_app_nonnil is_space) by discriminate.
  change (de is_space [slash]) with [slash].
  rewrite (de_app_all is_slash) by reflexivity.
  change (de is_slash (slash :: c :: t))
    with (match de is_slash (c :: t) with [] => if is_slash slash then [] else [slash] | r' => slash :: r' end).
  rewrite Hsl. rewrite dw_cons_true by reflexivity. rewrite dw_cons_false by exact Hc. reflexivity.
Qed.

Theorem documented_paths G a : clean G ->
  nf false (G ++ nf false (action_path a)) = documented_path G a.
Proof.
  intros HG.
  destruct a;
    match goal with |- nf false (G ++ ?x) = _ => let v := eval vm_compute in x in change x with v end;
    cbn [documented_path];
    first [ apply (nf_clean_slash G HG)
          | rewrite (nf_clean_app G _ HG) by (discriminate || reflexivity); reflexivity ].
Qed.

(* the concrete instance for the prefix "/res" *)
Example documented_paths_res : forall a,
  nf false ([47;114;101;115]%N ++ nf false (action_path a)) = documented_path [47;114;101;115]%N a.
Proof. destruct a; vm_compute; reflexivity. Qed.
