(* GatesFacts.v — gates: auth decision, method override whitelist, wrapper nesting. *)
From Rux Require Import Base BaseFacts Str Consts Writer Chain ChainFacts ChainMore Dispatch Gates.
Local Open Scope nat_scope.

(* ---- method override: rewritten only for POST, only to PUT/PATCH/DELETE (case-insensitively), original recorded ---- *)
Theorem override_iff meth fv hv :
  let om := to_upper (match fv with [] => hv | _ => fv end) in
  method_override meth fv hv =
  if str_eqb meth POST && (str_eqb om PUT || str_eqb om PATCH || str_eqb om DELETE) then (om, Some POST) else (meth, None).
Proof. unfold method_override. cbv zeta. destruct (str_eqb meth POST); reflexivity. Qed.

Theorem override_only_post meth fv hv m' o : method_override meth fv hv = (m', o) ->
  (o = None /\ m' = meth) \/ (o = Some POST /\ meth = POST /\ (m' = PUT \/ m' = PATCH \/ m' = DELETE)).
Proof.
  unfold method_override. destruct (str_eqb_spec meth POST) as [E|NE].
  - set (om := to_upper match fv with [] => hv | _ :: _ => fv end).
    destruct (str_eqb_spec om PUT) as [E1|N1]; cbn [orb].
    + intros H. inversion H; subst. right. auto.
    + destruct (str_eqb_spec om PATCH) as [E2|N2]; cbn [orb].
      * intros H. inversion H; subst. right. auto.
      * destruct (str_eqb_spec om DELETE) as [E3|N3]; intros H; inversion H; subst; auto. right. auto.
  - intros H. inversion H. auto.
Qed.

(* ---- wrappers: the loop of WrapHTTPHandlers builds w1 (w2 (... (wn router))) for every non-empty list ---- *)
Lemma nth_error_skipn_cons {A} (l : list A) n x : nth_error l n = Some x -> skipn n l = x :: skipn (S n) l.
Proof.
  revert n. induction l as [|a l IH]; intros [|n] E; cbn in *; try discriminate.
  - inversion E; reflexivity.
  - apply IH; auto.
Qed.

Lemma wrap_loop_aux H (ws : list (H -> H)) (r : H) :
  forall k, k <= List.length ws ->
  fold_left (fun (acc : option H) (i : nat) =>
               match nth_error ws (List.length ws - i - 1) with
               | Some w => Some (w (match acc with Some h => h | None => r end))
               | None => acc
               end) (seq 0 k) None
  = match k with O => None | _ => Some (wrap_spec H (skipn (List.length ws - k) ws) r) end.
Proof.
  induction k as [|k IH]; intros Hk; [reflexivity|].
  rewrite seq_S, fold_left_app. cbn [fold_left plus]. rewrite IH by lia.
  destruct (nth_error ws (List.length ws - k - 1)) as [w|] eqn:E; [|apply nth_error_None in E; lia].
  apply nth_error_skipn_cons in E.
  replace (List.length ws - S k) with (List.length ws - k - 1) by lia. rewrite E.
  replace (S (List.length ws - k - 1)) with (List.length ws - k) by lia.
  cbn [wrap_spec fold_right]. destruct k; [|reflexivity].
  rewrite Nat.sub_0_r, skipn_all. reflexivity.
Qed.

Theorem wrap_loop_is_spec H (ws : list (H -> H)) (r : H) : ws <> [] -> wrap_loop H ws r = Some (wrap_spec H ws r).
Proof.
  intros NE. unfold wrap_loop. rewrite wrap_loop_aux by lia.
  destruct ws as [|w ws']; [congruence|]. cbn [List.length]. rewrite Nat.sub_diag. reflexivity.
Qed.
Theorem wrap_loop_empty H (r : H) : wrap_loop H [] r = None.
Proof. reflexivity. Qed.

(* ---- Basic auth: the decision ---- *)
Section AuthFacts.
Variable b64 : str -> option str.

Theorem auth_allow_iff accts hdr u p :
  basic_auth b64 accts hdr = Allow u p <->
  parse_basic b64 hdr = Some (u, p) /\ (accts = [] \/ acct_lookup u accts = Some p).
Proof.
  unfold basic_auth. destruct (parse_basic b64 hdr) as [[u0 p0]|] eqn:E.
  - destruct accts as [|a accts'].
    + split; [intros H; inversion H; subst; auto|intros [H _]; inversion H; subst; auto].
    + set (al := a :: accts'). destruct (acct_lookup u0 al) as [p'|] eqn:L.
      * destruct (str_eqb_spec p' p0) as [Ep|NEp].
        -- split.
           ++ intros H. inversion H; subst. split; [reflexivity|right; exact L].
           ++ intros [H _]. inversion H; subst. reflexivity.
        -- split; [discriminate|]. intros [H [Hn|Hl]]; inversion H; subst; [discriminate|]. congruence.
      * split; [discriminate|]. intros [H [Hn|Hl]]; inversion H; subst; [discriminate|]. congruence.
  - split; [discriminate|]. intros [H _]. discriminate.
Qed.
Theorem auth_401_iff accts hdr : basic_auth b64 accts hdr = Deny401 <-> parse_basic b64 hdr = None.
Proof.
  unfold basic_auth. destruct (parse_basic b64 hdr) as [[u0 p0]|]; [|tauto].
  split; [|discriminate]. destruct accts; [discriminate|].
  destruct (acct_lookup u0 _); [destruct (str_eqb _ _)|]; discriminate.
Qed.
(* the three outcomes are exhaustive: everything else is 403 *)
Theorem auth_403_iff accts hdr : basic_auth b64 accts hdr = Deny403 <->
  exists u p, parse_basic b64 hdr = Some (u, p) /\ accts <> [] /\ acct_lookup u accts <> Some p.
Proof.
  unfold basic_auth. destruct (parse_basic b64 hdr) as [[u0 p0]|] eqn:E.
  - destruct accts as [|a accts'].
    + split; [discriminate|]. intros (u & p & _ & H & _). congruence.
    + set (al := a :: accts'). destruct (acct_lookup u0 al) as [p'|] eqn:L.
      * destruct (str_eqb_spec p' p0) as [Ep|NEp].
        -- split; [discriminate|]. intros (u & p & H & _ & Hn). inversion H; subst. congruence.
        -- split; auto. intros _. exists u0, p0. split; [reflexivity|]. split; [unfold al; discriminate|]. rewrite L. congruence.
      * split; auto. intros _. exists u0, p0. split; [reflexivity|]. split; [unfold al; discriminate|]. rewrite L. discriminate.
  - split; [discriminate|]. intros (u & p & H & _). discriminate.
Qed.
End AuthFacts.

(* ---- the auth middleware as a gate of the chain machine ---- *)
Section AuthGate.
Variable b64 : str -> option str.
Local Open Scope Z_scope.

(* denied: the request completes and only the auth middleware has started *)
Theorem auth_denied_nothing_downstream accts hdr (rest : list hprog) x0 :
  basic_auth b64 accts hdr <> Allow (match basic_auth b64 accts hdr with Allow u _ => u | _ => [] end)
                                    (match basic_auth b64 accts hdr with Allow _ p => p | _ => [] end) ->
  handlers_ok eff (auth_prog b64 accts hdr :: rest) ->
  exists n c, mrun n (init xctx eff (auth_prog b64 accts hdr :: rest) x0) = Halt c /\ started c = [0%nat].
Proof.
  intros Hd Hok. unfold auth_prog in *. destruct (basic_auth b64 accts hdr) as [u p| |] eqn:E.
  - exfalso. apply Hd. reflexivity.
  - apply (deny_gate xctx eff apply_eff note_aborted abort_status
             [EW (WSetHeader hdr_www challenge); EW (WHttpError msg_unauth 401)] OAbort [] rest x0); auto.
  - apply (deny_gate xctx eff apply_eff note_aborted abort_status
             [] (OAbortStatus 403) [ESetData k_user 0; ESetData k_pass 0] rest x0); eauto.
Qed.

(* allowed: every handler of the chain starts, in order *)
Theorem auth_allowed_chain_runs accts hdr u p (ws : list (wb eff)) x0 :
  basic_auth b64 accts hdr = Allow u p -> Z.of_nat (S (List.length ws)) <= 63 ->
  exists n c, mrun n (init xctx eff (auth_prog b64 accts hdr :: map (prog eff) ws) x0) = Halt c
              /\ started c = seq 0 (S (List.length ws)).
Proof.
  intros E Hl. unfold auth_prog. rewrite E.
  apply (allow_gate xctx eff apply_eff note_aborted abort_status [ESetData k_user 0; ESetData k_pass 0] ws x0); auto.
Qed.
End AuthGate.
