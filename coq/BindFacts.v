(* BindFacts.v — binding.Auto's dispatch against the documented table; decode-then-validate glue. *)
From Rux Require Import Base BaseFacts Str Consts Bind.

Theorem source_query meth ctype : has_body meth = false -> auto_source meth ctype = SQuery.
Proof. intros H. unfold auto_source. rewrite H. reflexivity. Qed.

(* parameters: nothing, or ';' followed by ANY text *)
Definition params_ok (ps : str) : Prop := ps = [] \/ exists r, ps = 59%N :: r.
Definition semi_free (s : str) : bool := forallb (fun c => negb (N.eqb c 59%N)) s.

Lemma upto_semi_free a : semi_free a = true -> upto_semi a = a.
Proof.
  induction a as [|c a IH]; intros H; [reflexivity|].
  cbn [semi_free forallb] in H. apply andb_true_iff in H. destruct H as [Hc Ha].
  cbn [upto_semi]. apply negb_true_iff in Hc. rewrite Hc. f_equal. exact (IH Ha).
Qed.

Lemma upto_semi_app a ps : semi_free a = true -> upto_semi (a ++ 59%N :: ps) = a.
Proof.
  induction a as [|c a IH]; intros H.
  - reflexivity.
  - cbn [semi_free forallb] in H. apply andb_true_iff in H. destruct H as [Hc Ha].
    cbn [app upto_semi]. apply negb_true_iff in Hc. rewrite Hc. f_equal. exact (IH Ha).
Qed.

(* the parameters of a Content-Type never influence the choice *)
Theorem source_params_irrelevant meth a ps : semi_free a = true ->
  auto_source meth (a ++ 59%N :: ps) = auto_source meth a.
Proof.
  intros H. unfold auto_source, media_type. rewrite (upto_semi_app a ps H), (upto_semi_free a H). reflexivity.
Qed.

(* for each documented media type, with any parameters, the code picks the documented source *)
Theorem source_documented meth mt ps : has_body meth = true -> params_ok ps ->
  In mt [mt_urlencoded; mt_multipart; mt_json; mt_xml; mt_textxml] ->
  auto_source meth (mt ++ ps) = doc_source mt.
Proof.
  intros Hb Hp Hin.
  assert (Hf : semi_free mt = true).
  { cbn [In] in Hin. destruct Hin as [<- | [<- | [<- | [<- | [<- | []]]]]]; vm_compute; reflexivity. }
  assert (E : auto_source meth (mt ++ ps) = auto_source meth mt).
  { destruct Hp as [-> | [r ->]]; [rewrite app_nil_r; reflexivity | exact (source_params_irrelevant meth mt r Hf)]. }
  rewrite E. unfold auto_source. rewrite Hb. cbn [negb].
  cbn [In] in Hin. destruct Hin as [<- | [<- | [<- | [<- | [<- | []]]]]]; vm_compute; reflexivity.
Qed.

(* a Content-Type whose media type has none of the four subtypes is an error *)
Theorem source_unknown meth ctype : has_body meth = true ->
  has_suffix m_urlencoded (media_type ctype) = false -> has_suffix m_formdata (media_type ctype) = false ->
  has_suffix m_json (media_type ctype) = false -> has_suffix m_xml (media_type ctype) = false ->
  auto_source meth ctype = SError.
Proof.
  intros Hb H1 H2 H3 H4. unfold auto_source. rewrite Hb. cbn [negb]. cbv zeta. rewrite H1, H2, H3, H4. reflexivity.
Qed.

(* finding F20 (former K5, repaired): the tests were substring tests on the whole header value *)
Definition ct_jsonx : str := mt_json ++ [120%N].                                                   (* application/jsonx *)
Definition ct_plain_param : str := [116;101;120;116;47;112;108;97;105;110;59;32;97;61]%N ++ m_json.   (* text/plain; a=/json *)
Example substring_dispatch_refuted :
  auto_source_legacy POST ct_jsonx = SJson /\ doc_source ct_jsonx = SError /\ auto_source POST ct_jsonx = SError /\
  auto_source_legacy POST ct_plain_param = SJson /\ auto_source POST ct_plain_param = SError.
Proof. repeat split; vm_compute; reflexivity. Qed.

(* decode-then-validate *)
Theorem bind_validated V I (decode : I -> option V) (valid : V -> bool) on i v :
  bind_with V I decode valid on i = Some v -> decode i = Some v /\ (on = false \/ valid v = true).
Proof.
  unfold bind_with. destruct (decode i) as [v0|]; [|discriminate].
  destruct on; cbn [andb].
  - destruct (valid v0) eqn:Hv; cbn [negb]; [|discriminate].
    intros E. injection E as <-. split; [reflexivity | right; exact Hv].
  - intros E. injection E as <-. split; [reflexivity | left; reflexivity].
Qed.

Theorem bind_roundtrip V I (decode : I -> option V) (valid : V -> bool) (encode : V -> I) on v :
  (forall x, decode (encode x) = Some x) -> (on = false \/ valid v = true) ->
  bind_with V I decode valid on (encode v) = Some v.
Proof.
  intros Hd Hv. unfold bind_with. rewrite Hd.
  destruct Hv as [-> | Hv].
  - reflexivity.
  - rewrite Hv. cbn [negb]. rewrite andb_false_r. reflexivity.
Qed.

Theorem bind_error_not_value V I (decode : I -> option V) (valid : V -> bool) on i :
  decode i = None -> bind_with V I decode valid on i = None.
Proof. intros H. unfold bind_with. rewrite H. reflexivity. Qed.
