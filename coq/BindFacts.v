(* BindFacts.v — binding.Auto's dispatch against the documented table; decode-then-validate glue. *)
From Rux Require Import Base BaseFacts Str Consts Bind.

Theorem source_query meth ctype : has_body meth = false -> auto_source meth ctype = SQuery.
Proof. intros H. unfold auto_source. rewrite H. reflexivity. Qed.

(* parameters: nothing, or ';' followed by text without '/' *)
Definition params_ok (ps : str) : Prop :=
  ps = [] \/ exists r, ps = 59%N :: r /\ forallb (fun c => negb (N.eqb c slash)) r = true.

(* a text without '/' contains no string that starts with '/' *)
Lemma contains_no_slash sub' r :
  forallb (fun c => negb (N.eqb c slash)) r = true -> contains (slash :: sub') r = false.
Proof.
  induction r as [|x r IH]; intros H.
  - reflexivity.
  - cbn [forallb] in H. apply andb_true_iff in H. destruct H as [Hx Hr].
    cbn [contains has_prefix]. rewrite (IH Hr).
    apply negb_true_iff in Hx. rewrite N.eqb_sym in Hx. rewrite Hx. reflexivity.
Qed.

(* a prefix test with a ';'-free pattern cannot run into the parameters *)
Lemma has_prefix_app_params sub : forall b ps,
  forallb (fun c => negb (N.eqb c 59%N)) sub = true ->
  (ps = [] \/ exists r, ps = 59%N :: r) ->
  has_prefix sub (b ++ ps) = has_prefix sub b.
Proof.
  induction sub as [|c sub IH]; intros b ps Hs Hp.
  - reflexivity.
  - cbn [forallb] in Hs. apply andb_true_iff in Hs. destruct Hs as [Hc Hs].
    destruct b as [|y b].
    + cbn [app]. destruct Hp as [-> | [r ->]].
      * reflexivity.
      * cbn [has_prefix]. apply negb_true_iff in Hc. rewrite Hc. reflexivity.
    + cbn [app has_prefix]. rewrite (IH b ps Hs Hp). reflexivity.
Qed.

Lemma contains_app_params sub a ps : (exists sub', sub = slash :: sub') ->
  forallb (fun c => negb (N.eqb c 59%N)) sub = true ->
  params_ok ps -> contains sub (a ++ ps) = contains sub a.
Proof.
  intros [sub' ->] Hs Hp.
  assert (Hp' : ps = [] \/ exists r, ps = 59%N :: r).
  { destruct Hp as [-> | (r & -> & _)]; [left; reflexivity | right; exists r; reflexivity]. }
  induction a as [|x a IH].
  - cbn [app]. destruct Hp as [-> | (r & -> & Hr)].
    + reflexivity.
    + cbn [contains has_prefix]. rewrite (contains_no_slash sub' r Hr). reflexivity.
  - change ((x :: a) ++ ps) with (x :: (a ++ ps)).
    cbn [contains]. rewrite IH.
    change (x :: (a ++ ps)) with ((x :: a) ++ ps).
    f_equal. exact (has_prefix_app_params (slash :: sub') (x :: a) ps Hs Hp').
Qed.

(* for each documented media type, with any admissible parameters, the code picks the documented source *)
Theorem source_documented meth mt ps : has_body meth = true -> params_ok ps ->
  In mt [mt_urlencoded; mt_multipart; mt_json; mt_xml; mt_textxml] ->
  auto_source meth (mt ++ ps) = doc_source mt.
Proof.
  intros Hb Hp Hin. unfold auto_source. rewrite Hb. cbn [negb].
  assert (E1 : contains m_urlencoded (mt ++ ps) = contains m_urlencoded mt).
  { apply contains_app_params; [eexists; reflexivity | reflexivity | exact Hp]. }
  assert (E2 : contains m_formdata (mt ++ ps) = contains m_formdata mt).
  { apply contains_app_params; [eexists; reflexivity | reflexivity | exact Hp]. }
  assert (E3 : contains m_json (mt ++ ps) = contains m_json mt).
  { apply contains_app_params; [eexists; reflexivity | reflexivity | exact Hp]. }
  assert (E4 : contains m_xml (mt ++ ps) = contains m_xml mt).
  { apply contains_app_params; [eexists; reflexivity | reflexivity | exact Hp]. }
  rewrite E1, E2, E3, E4. clear E1 E2 E3 E4.
  cbn [In] in Hin.
  destruct Hin as [<- | [<- | [<- | [<- | [<- | []]]]]]; vm_compute; reflexivity.
Qed.

(* a Content-Type that contains none of the four markers is an error *)
Theorem source_unknown meth ctype : has_body meth = true ->
  contains m_urlencoded ctype = false -> contains m_formdata ctype = false ->
  contains m_json ctype = false -> contains m_xml ctype = false ->
  auto_source meth ctype = SError.
Proof.
  intros Hb H1 H2 H3 H4. unfold auto_source. rewrite Hb, H1, H2, H3, H4. reflexivity.
Qed.

(* known finding K5: the tests are substring tests *)
Example substring_dispatch_refuted :
  auto_source POST (mt_json ++ [120%N]) = SJson /\ doc_source (mt_json ++ [120%N]) = SError.   (* application/jsonx *)
Proof. split; vm_compute; reflexivity. Qed.

(* decode-then-validate *)
Theorem bind_validated V I (decode : I -> option V) (valid : V -> bool) on i v :
  bind_with V I decode valid on i = Some v -> decode i = Some v /\ (on = false \/ valid v = true).
Proof.
  unfold bind_with. destruct (decode i) as [v0|]; [|discriminate].
  destruct on; cbn [andb].
  - destruct (valid v0) eqn:Hv; cbn [negb]; [|discriminate].
    intros E. injection E as <-. split; [reflexivity | right; exact Hv].
  - intros E. injection E as <-. split; [reflexivity | left; reflexivity].
Qed.

Theorem bind_roundtrip V I (decode : I -> option V) (valid : V -> bool) (encode : V -> I) on v :
  (forall x, decode (encode x) = Some x) -> (on = false \/ valid v = true) ->
  bind_with V I decode valid on (encode v) = Some v.
Proof.
  intros Hd Hv. unfold bind_with. rewrite Hd.
  destruct Hv as [-> | Hv].
  - reflexivity.
  - rewrite Hv. cbn [negb]. rewrite andb_false_r. reflexivity.
Qed.

Theorem bind_error_not_value V I (decode : I -> option V) (valid : V -> bool) on i :
  decode i = None -> bind_with V I decode valid on i = None.
Proof. intros H. unfold bind_with. rewrite H. reflexivity. Qed.
