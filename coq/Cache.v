(* Cache.v — model of route_cache.go (cachedRoutes): an implementation-shaped
   state (recency list of nodes + hash index) and the abstract LRU spec
   (recency-ordered association list truncated to its capacity).
   No proofs here; see CacheFacts.v. *)
From Rux Require Import Base.

Section Cache.
Variable val : Type.

(* ================= abstract spec ================= *)
Definition alist := list (str * val).          (* most recent first *)
Fixpoint aremove (k : str) (l : alist) : alist :=
  match l with [] => [] | (k', v) :: r => if str_eqb k k' then r else (k', v) :: aremove k r end.
Fixpoint afind (k : str) (l : alist) : option val :=
  match l with [] => None | (k', v) :: r => if str_eqb k k' then Some v else afind k r end.
Definition aset (cap : nat) (l : alist) (k : str) (v : val) : alist :=
  match afind k l with
  | Some _ => (k, v) :: aremove k l
  | None => let l' := (k, v) :: l in if Nat.ltb cap (length l') then removelast l' else l'
  end.
Definition aget (l : alist) (k : str) : alist * option val :=
  match afind k l with Some v => ((k, v) :: aremove k l, Some v) | None => (l, None) end.
Definition adel (l : alist) (k : str) : alist * bool :=
  match afind k l with Some _ => (aremove k l, true) | None => (l, false) end.
Definition akeys (l : alist) : list str := map fst l.

(* ================= implementation-shaped model =================
   container/list is a list of nodes with identities (the *list.Element
   pointers); hashMap maps a key to the identity of its element. *)
Record node := { nid : nat; nkey : str; nval : val }.
Record icache := { isize : nat; ilst : list node; ihm : list (str * nat); inext : nat }.

Definition inew (size : nat) : icache := {| isize := size; ilst := []; ihm := []; inext := 0 |}.

Fixpoint hfind (k : str) (h : list (str * nat)) : option nat :=
  match h with [] => None | (k', i) :: r => if str_eqb k k' then Some i else hfind k r end.
Fixpoint hremove (k : str) (h : list (str * nat)) : list (str * nat) :=
  match h with [] => [] | (k', i) :: r => if str_eqb k k' then hremove k r else (k', i) :: hremove k r end.
(* list.MoveToFront / list.Remove address an element by identity *)
Fixpoint take_node (i : nat) (l : list node) : option node * list node :=
  match l with
  | [] => (None, [])
  | n :: r => if Nat.eqb (nid n) i then (Some n, r)
              else let '(o, r') := take_node i r in (o, n :: r')
  end.

(* Set: "key has been exists" -> MoveToFront + update value; else PushFront,
   index it, and when Len() > size remove list.Back() from index and list. *)
Definition iset (c : icache) (k : str) (v : val) : icache :=
  match hfind k (ihm c) with
  | Some i =>
      match take_node i (ilst c) with
      | (Some n, rest) =>
          {| isize := isize c; ilst := {| nid := i; nkey := nkey n; nval := v |} :: rest;
             ihm := ihm c; inext := inext c |}
      | (None, _) => c (* dangling index entry: excluded by the invariant *)
      end
  | None =>
      let n := {| nid := inext c; nkey := k; nval := v |} in
      let l := n :: ilst c in
      let h := (k, inext c) :: ihm c in
      if Nat.ltb (isize c) (length l) then
        {| isize := isize c; ilst := removelast l; ihm := hremove (nkey (last l n)) h; inext := S (inext c) |}
      else {| isize := isize c; ilst := l; ihm := h; inext := S (inext c) |}
  end.

Definition iget (c : icache) (k : str) : icache * option val :=
  match hfind k (ihm c) with
  | Some i =>
      match take_node i (ilst c) with
      | (Some n, rest) =>
          ({| isize := isize c; ilst := n :: rest; ihm := ihm c; inext := inext c |}, Some (nval n))
      | (None, _) => (c, None)
      end
  | None => (c, None)
  end.

Definition idel (c : icache) (k : str) : icache * bool :=
  match hfind k (ihm c) with
  | Some i =>
      match take_node i (ilst c) with
      | (Some n, rest) =>
          ({| isize := isize c; ilst := rest; ihm := hremove (nkey n) (ihm c); inext := inext c |}, true)
      | (None, _) => (c, true)
      end
  | None => (c, false)
  end.

Definition ilen (c : icache) : nat := length (ilst c).
Definition ikeys (c : icache) : list str := map nkey (ilst c).
Definition abs (c : icache) : alist := map (fun n => (nkey n, nval n)) (ilst c).

(* ================= operations and histories ================= *)
Inductive cop := OSet (k : str) (v : val) | OGet (k : str) | OHas (k : str) | ODel (k : str) | OLen.
Inductive cres := RUnit | RVal (o : option val) | RBool (b : bool) | RNat (n : nat).

Definition istep (c : icache) (o : cop) : icache * cres :=
  match o with
  | OSet k v => (iset c k v, RUnit)
  | OGet k => let '(c', r) := iget c k in (c', RVal r)
  | OHas k => let '(c', r) := iget c k in (c', RBool (match r with Some _ => true | None => false end))
  | ODel k => let '(c', b) := idel c k in (c', RBool b)
  | OLen => (c, RNat (ilen c))
  end.

Definition astep (cap : nat) (l : alist) (o : cop) : alist * cres :=
  match o with
  | OSet k v => (aset cap l k v, RUnit)
  | OGet k => let '(l', r) := aget l k in (l', RVal r)
  | OHas k => let '(l', r) := aget l k in (l', RBool (match r with Some _ => true | None => false end))
  | ODel k => let '(l', b) := adel l k in (l', RBool b)
  | OLen => (l, RNat (length l))
  end.

(* run a history, observing after each op the result and the key order *)
Fixpoint irun (c : icache) (ops : list cop) : list (cres * list str) :=
  match ops with
  | [] => []
  | o :: r => let '(c', x) := istep c o in (x, ikeys c') :: irun c' r
  end.
Fixpoint arun (cap : nat) (l : alist) (ops : list cop) : list (cres * list str) :=
  match ops with
  | [] => []
  | o :: r => let '(l', x) := astep cap l o in (x, akeys l') :: arun cap l' r
  end.
Fixpoint astates (cap : nat) (l : alist) (ops : list cop) : alist :=
  match ops with [] => l | o :: r => astates cap (fst (astep cap l o)) r end.

End Cache.
Arguments OSet {val}. Arguments OGet {val}. Arguments OHas {val}. Arguments ODel {val}. Arguments OLen {val}.
Arguments RUnit {val}. Arguments RVal {val}. Arguments RBool {val}. Arguments RNat {val}.
Arguments nid {val}. Arguments nkey {val}. Arguments nval {val}.
Arguments isize {val}. Arguments ilst {val}. Arguments ihm {val}. Arguments inext {val}.
