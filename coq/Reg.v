(* Reg.v — registration programs: Router.Use / Group / route registration with variadic and later
   middleware / NotFound / NotAllowed, as the imperative save-extend-run-restore of router.go, and
   the lexically scoped denotation that is its specification. Handlers are identified by numbers. *)
From Rux Require Import Base Str Norm.

Definition hid := nat.

Inductive stmt :=
| SUse (mws : list hid)                                   (* r.Use(mws...) *)
| SGroup (prefix : str) (mws : list hid) (body : list stmt) (* r.Group(prefix, func(){body}, mws...) *)
| SRoute (meths : list str) (path : str) (main : hid) (var later : list hid) (name : str)
    (* rt := r.Add(path, main, meths...).Use(var...) ; rt.Use(later...) [; named] *)
| SNotFound (hs : list hid)
| SNotAllowed (hs : list hid).

Record rroute := { r_methods : list str; r_path : str; r_handlers : list hid; r_main : hid; r_name : str }.

Record rstate := { g_prefix : str; g_handlers : list hid; r_globals : list hid;
                   r_routes : list rroute; r_noroute : list hid; r_noallowed : list hid }.
Definition rinit : rstate :=
  {| g_prefix := []; g_handlers := []; r_globals := []; r_routes := []; r_noroute := []; r_noallowed := [] |}.

Definition limit : nat := 63.   (* abortIndex *)
Definition is_nil {A} (l : list A) : bool := match l with [] => true | _ => false end.

(* Route.Use *)
Definition route_use (hs mws : list hid) : outcome (list hid) :=
  if Nat.leb limit (List.length hs + List.length mws) then Panic else Ok (hs ++ mws).

(* appendGroupInfo: path and group middleware *)
Definition group_info (strict : bool) (st : rstate) (P : str) : outcome (str * list hid) :=
  bind (format_path strict (simple_fmt_path P)) (fun path =>
  bind (if is_nil (g_prefix st) then Ok path else format_path strict (g_prefix st ++ path)) (fun path =>
  if is_nil (g_handlers st) then Ok (path, [])
  else if Nat.leb limit (List.length (g_handlers st)) then Panic
  else Ok (path, g_handlers st))).

Definition add_route (st : rstate) (r : rroute) : rstate :=
  {| g_prefix := g_prefix st; g_handlers := g_handlers st; r_globals := r_globals st;
     r_routes := r_routes st ++ [r]; r_noroute := r_noroute st; r_noallowed := r_noallowed st |}.

Definition set_scope (pfx : str) (g : list hid) (st : rstate) : rstate :=
  {| g_prefix := pfx; g_handlers := g; r_globals := r_globals st;
     r_routes := r_routes st; r_noroute := r_noroute st; r_noallowed := r_noallowed st |}.

Definition exec_use (mws : list hid) (st : rstate) : rstate :=
  if is_nil (g_prefix st)
  then {| g_prefix := g_prefix st; g_handlers := g_handlers st; r_globals := r_globals st ++ mws;
          r_routes := r_routes st; r_noroute := r_noroute st; r_noallowed := r_noallowed st |}
  else set_scope (g_prefix st) (g_handlers st ++ mws) st.

Definition exec_route (strict : bool) (meths : list str) (P : str) (main : hid) (var later : list hid) (name : str)
  (st : rstate) : outcome rstate :=
  bind (group_info strict st P) (fun '(path, hs0) =>
  bind (route_use hs0 var) (fun hs1 =>
  bind (route_use hs1 later) (fun hs2 =>
  Ok (add_route st {| r_methods := meths; r_path := path; r_handlers := hs2; r_main := main; r_name := name |})))).

(* running a block with a given statement interpreter *)
Section RunBlock.
Variable f : stmt -> rstate -> outcome rstate.
Fixpoint run_block (l : list stmt) (st : rstate) {struct l} : outcome rstate :=
  match l with
  | [] => Ok st
  | x :: r => match f x st with Ok st' => run_block r st' | Panic => Panic end
  end.
End RunBlock.

Fixpoint exec_stmt (strict : bool) (s : stmt) (st : rstate) {struct s} : outcome rstate :=
  match s with
  | SUse mws => Ok (exec_use mws st)
  | SGroup prefix mws body =>
      match format_path strict prefix with
      | Panic => Panic
      | Ok p =>
        (* save, extend, run, restore *)
        match run_block (fun x st' => exec_stmt strict x st') body (set_scope (g_prefix st ++ p) (g_handlers st ++ mws) st) with
        | Panic => Panic
        | Ok st2 => Ok (set_scope (g_prefix st) (g_handlers st) st2)
        end
      end
  | SRoute meths P main var later name => exec_route strict meths P main var later name st
  | SNotFound hs =>
      Ok {| g_prefix := g_prefix st; g_handlers := g_handlers st; r_globals := r_globals st;
            r_routes := r_routes st; r_noroute := hs; r_noallowed := r_noallowed st |}
  | SNotAllowed hs =>
      Ok {| g_prefix := g_prefix st; g_handlers := g_handlers st; r_globals := r_globals st;
            r_routes := r_routes st; r_noroute := r_noroute st; r_noallowed := hs |}
  end.
Definition exec_block (strict : bool) : list stmt -> rstate -> outcome rstate := run_block (fun x st' => exec_stmt strict x st').

(* ---------- specification: lexical scoping ---------- *)
(* a scope is (prefix, group middleware in effect); a statement denotes the routes it declares and
   the group middleware in effect after it (only Use inside a group changes that) *)
Definition nf (strict : bool) (s : str) : str := slash :: core strict s.

Section DenBlock.
Variable f : list hid -> stmt -> list rroute * list hid.
Fixpoint den_blockf (g : list hid) (l : list stmt) {struct l} : list rroute :=
  match l with
  | [] => []
  | x :: r => let '(rs, g') := f g x in rs ++ den_blockf g' r
  end.
End DenBlock.
Fixpoint den_stmt (strict : bool) (pfx : str) (g : list hid) (s : stmt) {struct s} : list rroute * list hid :=
  match s with
  | SUse mws => ([], if is_nil pfx then g else g ++ mws)
  | SGroup p mws body =>
      (den_blockf (fun g' x => den_stmt strict (pfx ++ nf strict p) g' x) (g ++ mws) body, g)
  | SRoute meths P main var later name =>
      ([{| r_methods := meths;
           r_path := (if is_nil pfx then nf strict P else nf strict (pfx ++ nf strict P));
           r_handlers := g ++ var ++ later; r_main := main; r_name := name |}], g)
  | _ => ([], g)
  end.
Definition den_block (strict : bool) (pfx : str) : list hid -> list stmt -> list rroute := den_blockf (fun g' x => den_stmt strict pfx g' x).
(* group middleware in effect after a block *)
Fixpoint scope_after (pfx : str) (g : list hid) (ss : list stmt) : list hid :=
  match ss with
  | [] => g
  | SUse mws :: r => scope_after pfx (if is_nil pfx then g else g ++ mws) r
  | _ :: r => scope_after pfx g r
  end.

(* the chain a request runs (C04): globals at request time, route middleware, main *)
Definition route_chain (globals : list hid) (r : rroute) : list hid := globals ++ r_handlers r ++ [r_main r].
Definition fallback_chain (globals hs : list hid) (default : hid) : list hid :=
  globals ++ (match hs with [] => [default] | _ => hs end).
