(* RegHeap.v — route registration on the slice heap of Conc.v: the middleware lists of Reg.v kept in Go slices,
   with append writing in place into the spare capacity of a shared backing array (router.go Group / Use,
   appendGroupInfo, route.go Use, NotFound / NotAllowed), and the abstraction back to the list-level state. *)
From Rux Require Import Base Str Norm Reg Conc.

Record hroute := { hr_methods : list str; hr_path : str; hr_handlers : slice; hr_main : hid; hr_name : str }.

Record hstate := { h_heap : heap; hg_prefix : str; hg_handlers : slice; h_globals : slice;
                   h_routes : list hroute; h_noroute : slice; h_noallowed : slice }.

(* the nil slice *)
Definition nil_slice : slice := {| s_arr := 0; s_len := 0; s_cap := 0 |}.

Definition hinit : hstate :=
  {| h_heap := []; hg_prefix := []; hg_handlers := nil_slice; h_globals := nil_slice;
     h_routes := []; h_noroute := nil_slice; h_noallowed := nil_slice |}.

(* a variadic argument list: the caller's slice — a fresh array holding the ids followed by extra unused slots;
   an empty argument list is the nil slice *)
Definition alloc_args (extra : nat) (h : heap) (xs : list hid) : heap * slice :=
  match xs with
  | [] => (h, nil_slice)
  | _ => (h ++ [xs ++ repeat 0 extra],
          {| s_arr := List.length h; s_len := List.length xs; s_cap := List.length xs + extra |})
  end.

(* combineHandlers(old, new). fixed = true: always a fresh array of exactly the needed size;
   fixed = false (legacy): old itself when new is empty — no copy *)
Definition hcombine (fixed : bool) (h : heap) (a b : slice) : heap * slice :=
  if fixed then combine h (slice_elems h a) (slice_elems h b)
  else if Nat.eqb (s_len b) 0 then (h, a) else combine h (slice_elems h a) (slice_elems h b).

(* Route.Use(middleware...) on the route's handler slice s *)
Definition hroute_use (grow extra : nat) (h : heap) (s : slice) (mws : list hid) : outcome (heap * slice) :=
  let '(h1, m) := alloc_args extra h mws in
  if Nat.leb limit (s_len s + s_len m) then Panic else Ok (append grow h1 s (slice_elems h1 m)).

(* appendGroupInfo: path (as Reg.group_info) and group middleware; route.handlers is nil at first *)
Definition hgroup_info (fixed strict : bool) (hs : hstate) (P : str) : outcome (str * (heap * slice)) :=
  bind (format_path strict (simple_fmt_path P)) (fun path =>
  bind (if is_nil (hg_prefix hs) then Ok path else format_path strict (hg_prefix hs ++ path)) (fun path =>
  if Nat.eqb (s_len (hg_handlers hs)) 0 then Ok (path, (h_heap hs, nil_slice))
  else let '(h1, s) := hcombine fixed (h_heap hs) (hg_handlers hs) nil_slice in
       if Nat.leb limit (s_len s) then Panic else Ok (path, (h1, s)))).

Definition hadd_route (h : heap) (hs : hstate) (r : hroute) : hstate :=
  {| h_heap := h; hg_prefix := hg_prefix hs; hg_handlers := hg_handlers hs; h_globals := h_globals hs;
     h_routes := h_routes hs ++ [r]; h_noroute := h_noroute hs; h_noallowed := h_noallowed hs |}.

Definition hset_scope (pfx : str) (g : slice) (hs : hstate) : hstate :=
  {| h_heap := h_heap hs; hg_prefix := pfx; hg_handlers := g; h_globals := h_globals hs;
     h_routes := h_routes hs; h_noroute := h_noroute hs; h_noallowed := h_noallowed hs |}.

(* Router.Use *)
Definition hexec_use (grow extra : nat) (mws : list hid) (hs : hstate) : hstate :=
  let '(h1, m) := alloc_args extra (h_heap hs) mws in
  if is_nil (hg_prefix hs)
  then let '(h2, g') := append grow h1 (h_globals hs) (slice_elems h1 m) in
       {| h_heap := h2; hg_prefix := hg_prefix hs; hg_handlers := hg_handlers hs; h_globals := g';
          h_routes := h_routes hs; h_noroute := h_noroute hs; h_noallowed := h_noallowed hs |}
  else let '(h2, c') := append grow h1 (hg_handlers hs) (slice_elems h1 m) in
       {| h_heap := h2; hg_prefix := hg_prefix hs; hg_handlers := c'; h_globals := h_globals hs;
          h_routes := h_routes hs; h_noroute := h_noroute hs; h_noallowed := h_noallowed hs |}.

Definition hexec_route (fixed : bool) (grow extra : nat) (strict : bool) (meths : list str) (P : str) (main : hid)
  (var later : list hid) (name : str) (hs : hstate) : outcome hstate :=
  bind (hgroup_info fixed strict hs P) (fun '(path, (h1, s0)) =>
  bind (hroute_use grow extra h1 s0 var) (fun '(h2, s1) =>
  bind (hroute_use grow extra h2 s1 later) (fun '(h3, s2) =>
  Ok (hadd_route h3 hs {| hr_methods := meths; hr_path := path; hr_handlers := s2; hr_main := main; hr_name := name |})))).

(* Group: the new current group slice *)
Definition hgroup_enter (grow : nat) (h1 : heap) (prev m : slice) : heap * slice :=
  if Nat.ltb 0 (s_len m)
  then (if Nat.ltb 0 (s_len prev) then append grow h1 prev (slice_elems h1 m) else (h1, m))
  else (h1, prev).

Section HRunBlock.
Variable f : stmt -> hstate -> outcome hstate.
Fixpoint hrun_block (l : list stmt) (hs : hstate) {struct l} : outcome hstate :=
  match l with
  | [] => Ok hs
  | x :: r => match f x hs with Ok hs' => hrun_block r hs' | Panic => Panic end
  end.
End HRunBlock.

Fixpoint hexec_stmt (fixed : bool) (grow extra : nat) (strict : bool) (s : stmt) (hs : hstate) {struct s} : outcome hstate :=
  match s with
  | SUse mws => Ok (hexec_use grow extra mws hs)
  | SGroup prefix mws body =>
      match format_path strict prefix with
      | Panic => Panic
      | Ok p =>
        let prev := hg_handlers hs in
        let '(h1, m) := alloc_args extra (h_heap hs) mws in
        let '(h2, cur) := hgroup_enter grow h1 prev m in
        match hrun_block (fun x hs' => hexec_stmt fixed grow extra strict x hs') body
                {| h_heap := h2; hg_prefix := hg_prefix hs ++ p; hg_handlers := cur; h_globals := h_globals hs;
                   h_routes := h_routes hs; h_noroute := h_noroute hs; h_noallowed := h_noallowed hs |} with
        | Panic => Panic
        | Ok hs2 => Ok (hset_scope (hg_prefix hs) prev hs2)
        end
      end
  | SRoute meths P main var later name => hexec_route fixed grow extra strict meths P main var later name hs
  | SNotFound l =>
      let '(h1, m) := alloc_args extra (h_heap hs) l in
      Ok {| h_heap := h1; hg_prefix := hg_prefix hs; hg_handlers := hg_handlers hs; h_globals := h_globals hs;
            h_routes := h_routes hs; h_noroute := m; h_noallowed := h_noallowed hs |}
  | SNotAllowed l =>
      let '(h1, m) := alloc_args extra (h_heap hs) l in
      Ok {| h_heap := h1; hg_prefix := hg_prefix hs; hg_handlers := hg_handlers hs; h_globals := h_globals hs;
            h_routes := h_routes hs; h_noroute := h_noroute hs; h_noallowed := m |}
  end.
Definition hexec_block (fixed : bool) (grow extra : nat) (strict : bool) : list stmt -> hstate -> outcome hstate :=
  hrun_block (fun x hs' => hexec_stmt fixed grow extra strict x hs').

(* abstraction: read every slice through the heap *)
Definition abs_route (h : heap) (r : hroute) : rroute :=
  {| r_methods := hr_methods r; r_path := hr_path r; r_handlers := slice_elems h (hr_handlers r);
     r_main := hr_main r; r_name := hr_name r |}.
Definition abs (hs : hstate) : rstate :=
  {| g_prefix := hg_prefix hs; g_handlers := slice_elems (h_heap hs) (hg_handlers hs);
     r_globals := slice_elems (h_heap hs) (h_globals hs);
     r_routes := map (abs_route (h_heap hs)) (h_routes hs);
     r_noroute := slice_elems (h_heap hs) (h_noroute hs);
     r_noallowed := slice_elems (h_heap hs) (h_noallowed hs) |}.
