(* ChainMore.v — more about the handler-chain machine: deny/allow gates (C20 on the generic machine),
   IsAborted() reads false before any abort. *)
From Rux Require Import Base Chain ChainFacts.
Open Scope Z_scope.

Section More.
Variable X : Type.
Variable eff : Type.
Variable apply : eff -> X -> X.
Variable note_aborted : bool -> X -> X.
Variable abort_status : Z -> X -> X.

Notation step := (step X eff apply note_aborted abort_status).
Notation run := (run X eff apply note_aborted abort_status).
Notation steps := (steps X eff apply note_aborted abort_status).
Notation st := (st X eff).
Notation ctx := (ctx X eff).
Notation frame := (frame eff).
Notation op := (op eff).
Notation wb := (wb eff).
Notation handler := (handler eff).
Notation handlers_ok := (handlers_ok eff).
Notation aborted := (aborted X eff).
Notation inv := (inv X eff).
Notation steps_trans := (steps_trans X eff apply note_aborted abort_status).
Notation steps_step := (steps_step X eff apply note_aborted abort_status).
Notation steps_refl := (steps_refl X eff apply note_aborted abort_status).
Notation steps_run := (steps_run X eff apply note_aborted abort_status).
Notation steps_effs := (steps_effs X eff apply note_aborted abort_status).
Notation run_add := (run_add X eff apply note_aborted abort_status).

(* ================= (b) gates ================= *)

Lemma no_panic_effs (l : list eff) : no_panic_ops eff (effs eff l) = true.
Proof. induction l as [|e l IH]; cbn [effs map no_panic_ops]; auto. Qed.

(* the dispatcher's Next starts handler 0 of a non-empty chain of at most 63 handlers *)
Lemma init_starts_first (h0 : handler) (rest : list handler) x0 :
  Z.of_nat (List.length (h0 :: rest)) <= 63 ->
  steps (init X eff (h0 :: rest) x0)
        (Run {| index := 0; chain := h0 :: rest; started := [0%nat]; xs := x0 |} [FOps h0; FInc; FOps []]).
Proof.
  intros Hlen.
  apply steps_step. cbn [Chain.step init init_ctx set_index index chain started xs].
  change (wrap8 (-1 + 1)) with 0.
  apply steps_step. cbn [Chain.step]. unfold len8, set_index, init_ctx. cbn [index chain started xs].
  rewrite wrap8_small by lia.
  destruct (Z.ltb_spec 0 (Z.of_nat (List.length (h0 :: rest)))) as [_|Hge]; [|cbn [List.length] in Hge; lia].
  cbn [Z.ltb Z.compare Z.to_nat nth_error start index chain started xs app].
  apply steps_refl.
Qed.

Theorem deny_gate (pre_e : list eff) (ab : op) (post_e : list eff) (rest : list handler) x0 :
  (ab = OAbort \/ exists code, ab = OAbortStatus code) ->
  handlers_ok ((effs eff pre_e ++ ab :: effs eff post_e) :: rest) ->
  exists n c, run n (init X eff ((effs eff pre_e ++ ab :: effs eff post_e) :: rest) x0) = Halt c /\ started c = [0%nat].
Proof.
  intros Hab Hok.
  set (h0 := effs eff pre_e ++ ab :: effs eff post_e) in *.
  pose proof Hok as [Hlen _].
  pose proof (init_starts_first h0 rest x0 Hlen) as S1.
  set (c1 := {| index := 0; chain := h0 :: rest; started := [0%nat]; xs := x0 |} : ctx) in *.
  pose proof (steps_effs pre_e c1 (ab :: effs eff post_e) [FInc; FOps []]) as S2.
  fold h0 in S2.
  set (c2 := set_xs X eff (apply_all X eff apply pre_e (xs c1)) c1) in *.
  set (k := [FInc; FOps []] : list frame) in *.
  destruct (steps_run _ _ (steps_trans _ _ _ S1 S2)) as [n0 Hn0].
  assert (Hinv: inv (Run c2 (FOps (ab :: effs eff post_e) :: k))).
  { eapply eq_ind; [|exact Hn0]. apply (inv_run X eff apply note_aborted abort_status). exact Hok. }
  assert (Habt: aborted (step (Run c2 (FOps (ab :: effs eff post_e) :: k)))
                /\ started_of X eff (step (Run c2 (FOps (ab :: effs eff post_e) :: k))) = [0%nat]
                /\ exists c3, step (Run c2 (FOps (ab :: effs eff post_e) :: k)) = Run c3 (FOps (effs eff post_e) :: k)).
  { destruct Hab as [->|[code ->]].
    - split; [apply (inv_abort_aborted X eff apply note_aborted abort_status); exact Hinv|].
      split; [reflexivity|]. eexists. reflexivity.
    - split; [apply (inv_abort_status_aborted X eff apply note_aborted abort_status); exact Hinv|].
      split; [reflexivity|]. eexists. reflexivity. }
  destruct Habt as (Ha & Hst & c3 & E3). rewrite E3 in Ha, Hst. cbn [started_of] in Hst.
  destruct (aborted_resumes X eff apply note_aborted abort_status c3 (FOps (effs eff post_e) :: k) Ha) as (n1 & c' & Hr & _ & Hs).
  { unfold k. cbn [no_panic_stack no_panic_ops]. rewrite no_panic_effs. reflexivity. }
  exists (n0 + S n1)%nat, c'. split.
  - rewrite run_add. etransitivity; [apply f_equal; exact Hn0|]. cbn [Chain.run]. rewrite E3. exact Hr.
  - rewrite Hs. exact Hst.
Qed.

Theorem allow_gate (es : list eff) (ws : list wb) x0 : Z.of_nat (S (List.length ws)) <= 63 ->
  exists n c, run n (init X eff (effs eff es :: map (prog eff) ws) x0) = Halt c /\ started c = seq 0 (S (List.length ws)).
Proof.
  intros Hlen.
  set (w0 := {| pre := es; calls := false; post := [] |} : wb).
  assert (E: effs eff es = prog eff w0).
  { unfold prog, w0. cbn [pre calls post effs map app]. rewrite app_nil_r. reflexivity. }
  rewrite E. change (prog eff w0 :: map (prog eff) ws) with (map (prog eff) (w0 :: ws)).
  destruct (onion_order X eff apply note_aborted abort_status (w0 :: ws) x0) as (n & c & Hr & _ & Hs).
  { cbn [List.length]. exact Hlen. }
  exists n, c. split; [exact Hr|]. exact Hs.
Qed.

(* ================= (a) IsAborted() reads false before any abort ================= *)
Inductive sop := SEff (e : eff) | SIsAborted.
Record wb2 := { pre2 : list sop; calls2 : bool; post2 : list sop }.
Definition sops (l : list sop) : list op := map (fun s => match s with SEff e => OEff e | SIsAborted => OIsAborted end) l.
Definition prog2 (w : wb2) : handler := sops (pre2 w) ++ (if calls2 w then [ONext] else []) ++ sops (post2 w).
(* what the samples do to the rest of the context when every sample reads "false" *)
Definition apply_sop (s : sop) (x : X) : X := match s with SEff e => apply e x | SIsAborted => note_aborted false x end.
Fixpoint onion2 (l : list wb2) : list sop := match l with [] => [] | h :: t => pre2 h ++ (if calls2 h then onion2 t ++ post2 h else post2 h ++ onion2 t) end.
Definition apply_sops (l : list sop) (x : X) : X := fold_left (fun x s => apply_sop s x) l x.

(* below the sentinel every sample reads false *)
Lemma steps_sops l : forall (c : ctx) r k, index c < 63 ->
  steps (Run c (FOps (sops l ++ r) :: k))
        (Run (set_xs X eff (apply_sops l (xs c)) c) (FOps r :: k)).
Proof.
  induction l as [|t l IH]; intros c r k Hi; cbn [sops map app apply_sops fold_left].
  - destruct c; apply steps_refl.
  - destruct t as [e|].
    + apply steps_step. cbn [Chain.step]. eapply steps_trans.
      * apply IH. cbn [set_xs index]. exact Hi.
      * cbn [set_xs index chain started xs apply_sop]. apply steps_refl.
    + apply steps_step. cbn [Chain.step]. unfold abort_idx.
      destruct (Z.leb_spec 63 (index c)) as [Hge|_]; [lia|].
      eapply steps_trans.
      * apply IH. cbn [set_xs index]. exact Hi.
      * cbn [set_xs index chain started xs apply_sop]. apply steps_refl.
Qed.

Lemma loop_onion2 (ws : list wb2) :
  let s := Z.of_nat (List.length ws) in
  2 * s - 1 < 63 ->
  forall (m : nat) (i : nat) (c : ctx) k,
    (List.length ws - i = m)%nat -> (i <= List.length ws)%nat ->
    chain c = map prog2 ws -> index c = Z.of_nat i ->
    exists c', steps (Run c (FTest :: k)) (Run c' k)
      /\ xs c' = apply_sops (onion2 (skipn i ws)) (xs c)
      /\ chain c' = chain c
      /\ started c' = started c ++ seq i (List.length ws - i)
      /\ s <= index c' <= s + (s - Z.of_nat i).
Proof.
  intros s Hs2 m.
  assert (Hs: s <= 63) by (unfold s in *; lia).
  induction m as [|m IH]; intros i c k Hm Hi Hc Hidx.
  - assert (i = List.length ws) by lia. subst i.
    exists c. repeat split; try lia.
    + apply steps_step. cbn [Chain.step]. unfold len8. rewrite Hc, map_length, Hidx.
      rewrite wrap8_small by (fold s; lia). rewrite Z.ltb_irrefl. apply steps_refl.
    + rewrite skipn_all. reflexivity.
    + rewrite Nat.sub_diag. cbn [seq]. rewrite app_nil_r. reflexivity.
  - assert (Hlt: (i < List.length ws)%nat) by lia.
    assert (Hi63: Z.of_nat i < 63) by (unfold s in *; lia).
    destruct (nth_error ws i) as [w|] eqn:Hw; [|apply nth_error_None in Hw; lia].
    assert (Hsk: skipn i ws = w :: skipn (S i) ws).
    { clear -Hw. revert i Hw. induction ws as [|x ws IHws]; intros [|i] Hw; cbn [nth_error skipn] in *; try discriminate.
      - inversion Hw; auto.
      - apply IHws; auto. }
    assert (Hnth: nth_error (chain c) i = Some (prog2 w)).
    { rewrite Hc. rewrite nth_error_map, Hw. auto. }
    assert (Hseq: seq i (List.length ws - i) = i :: seq (S i) (List.length ws - S i)).
    { replace (List.length ws - i)%nat with (S (List.length ws - S i)) by lia. reflexivity. }
    set (c1 := start X eff i c).
    assert (S1: steps (Run c (FTest :: k)) (Run c1 (FOps (prog2 w) :: FInc :: k))).
    { apply steps_step. cbn [Chain.step]. unfold len8. rewrite Hc, map_length, Hidx.
      rewrite wrap8_small by (fold s; lia).
      destruct (Z.ltb_spec (Z.of_nat i) (Z.of_nat (List.length ws))); [|lia].
      destruct (Z.ltb_spec (Z.of_nat i) 0); [lia|].
      rewrite Nat2Z.id. rewrite <- Hc, Hnth. apply steps_refl. }
    unfold prog2 in S1.
    assert (Hc1i: index c1 < 63) by (unfold c1; cbn [start index]; lia).
    pose proof (steps_sops (pre2 w) c1 ((if calls2 w then [ONext] else []) ++ sops (post2 w)) (FInc :: k) Hc1i) as S2.
    set (c2 := set_xs X eff (apply_sops (pre2 w) (xs c1)) c1) in *.
    destruct (calls2 w) eqn:Hcalls.
    + set (c3 := set_index X eff (wrap8 (index c2 + 1)) c2).
      assert (Hc3i: index c3 = Z.of_nat (S i)).
      { unfold c3, c2, c1. cbn [set_index set_xs start index]. rewrite Hidx. rewrite wrap8_small; lia. }
      destruct (IH (S i) c3 (FOps (sops (post2 w)) :: FInc :: k)) as (c4 & S4 & T4 & C4 & ST4 & I4); try lia; auto.
      assert (Hc4i: index c4 < 63) by (unfold s in *; lia).
      pose proof (steps_sops (post2 w) c4 [] (FInc :: k) Hc4i) as S5. rewrite app_nil_r in S5.
      set (c5 := set_xs X eff (apply_sops (post2 w) (xs c4)) c4) in *.
      set (c6 := set_index X eff (wrap8 (index c5 + 1)) c5).
      assert (Hc6i: index c6 = index c4 + 1).
      { unfold c6, c5. cbn [set_index set_xs index]. rewrite wrap8_small; lia. }
      exists c6. repeat split.
      * eapply steps_trans; [apply S1|]. eapply steps_trans; [apply S2|].
        apply steps_step. cbn [Chain.step app]. fold c3. eapply steps_trans; [apply S4|].
        eapply steps_trans; [apply S5|].
        apply steps_step. cbn [Chain.step]. apply steps_step. cbn [Chain.step]. fold c6.
        apply steps_step. cbn [Chain.step].
        unfold len8. rewrite Hc6i.
        replace (chain c6) with (chain c) by (unfold c6, c5; cbn [set_index set_xs chain]; rewrite C4; reflexivity).
        rewrite Hc, map_length.
        rewrite (wrap8_small (Z.of_nat (List.length ws))) by (fold s; lia).
        destruct (Z.ltb_spec (index c4 + 1) (Z.of_nat (List.length ws))); [fold s in I4; lia|]. apply steps_refl.
      * unfold c6, c5. cbn [set_index set_xs xs]. rewrite T4. unfold c3, c2, c1. cbn [set_index set_xs start xs]. rewrite Hsk. cbn [onion2]. rewrite Hcalls.
        unfold apply_sops. rewrite !fold_left_app. reflexivity.
      * unfold c6, c5. cbn [set_index set_xs chain]. rewrite C4. reflexivity.
      * unfold c6, c5. cbn [set_index set_xs started]. rewrite ST4. unfold c3, c2, c1. cbn [set_index set_xs start started]. rewrite Hseq. rewrite <- app_assoc. reflexivity.
      * rewrite Hc6i. lia.
      * rewrite Hc6i. lia.
    + cbn [app] in S2.
      assert (Hc2i: index c2 < 63) by (unfold c2; cbn [set_xs index]; exact Hc1i).
      pose proof (steps_sops (post2 w) c2 [] (FInc :: k) Hc2i) as S3. rewrite app_nil_r in S3.
      set (c3 := set_xs X eff (apply_sops (post2 w) (xs c2)) c2) in *.
      set (c4 := set_index X eff (wrap8 (index c3 + 1)) c3).
      assert (Hc4i: index c4 = Z.of_nat (S i)).
      { unfold c4, c3, c2, c1. cbn [set_index set_xs start index]. rewrite Hidx. rewrite wrap8_small; lia. }
      destruct (IH (S i) c4 k) as (c5 & S5 & T5 & C5 & ST5 & I5); try lia; auto.
      exists c5. repeat split; try lia.
      * eapply steps_trans; [apply S1|]. cbn [app]. eapply steps_trans; [apply S2|].
        eapply steps_trans; [apply S3|]. apply steps_step. cbn [Chain.step]. apply steps_step. cbn [Chain.step]. fold c4. apply S5.
      * rewrite T5. unfold c4, c3, c2, c1. cbn [set_index set_xs start xs]. rewrite Hsk. cbn [onion2]. rewrite Hcalls.
        unfold apply_sops. rewrite !fold_left_app. reflexivity.
      * rewrite C5. reflexivity.
      * rewrite ST5. unfold c4, c3, c2, c1. cbn [set_index set_xs start started]. rewrite Hseq. rewrite <- app_assoc. reflexivity.
Qed.

(* in a chain of at most 31 handlers none of which aborts, every IsAborted() sample reads false and the onion order holds *)
Theorem onion_order_no_abort (ws : list wb2) x0 : 2 * Z.of_nat (List.length ws) - 1 < 63 ->
  exists n c, run n (init X eff (map prog2 ws) x0) = Halt c
    /\ xs c = fold_left (fun x s => apply_sop s x) (onion2 ws) x0
    /\ started c = seq 0 (List.length ws).
Proof.
  intros Hs.
  set (c0 := {| index := 0; chain := map prog2 ws; started := []; xs := x0 |} : ctx).
  destruct (loop_onion2 ws Hs (List.length ws) 0%nat c0 [FOps []]) as (c' & S & T & C & STt & I); try lia; auto.
  assert (St: steps (init X eff (map prog2 ws) x0) (Halt c')).
  { apply steps_step. cbn [Chain.step init init_ctx]. change (wrap8 (-1 + 1)) with 0. fold c0.
    eapply steps_trans; [apply S|]. apply steps_step. cbn [Chain.step]. apply steps_step. cbn [Chain.step]. apply steps_refl. }
  destruct (steps_run _ _ St) as [n Hn]. exists n, c'. repeat split; auto.
  rewrite STt. cbn [started c0 app skipn]. rewrite Nat.sub_0_r. reflexivity.
Qed.

(* ================= (c) handlers that call Next any number of times ================= *)
(* FTest only ever sits on top of the stack *)
Fixpoint notest (k : list frame) : Prop :=
  match k with [] => True | FTest :: _ => False | _ :: r => notest r end.
Definition top_notest (k : list frame) : Prop :=
  match k with FTest :: r => notest r | _ => notest k end.
Lemma notest_top k : notest k -> top_notest k.
Proof. destruct k as [|[ops| |] k]; cbn [notest top_notest]; auto. contradiction. Qed.
Lemma notest_not_test (k : list frame) (P : Prop) : notest k -> match k with FTest :: _ => P | _ => True end.
Proof. destruct k as [|[ops| |] k]; cbn [notest]; auto. contradiction. Qed.

Lemma wrap8_range z : -128 <= wrap8 z <= 127.
Proof. unfold wrap8. pose proof (Z.mod_pos_bound (z + 128) 256 ltac:(lia)). lia. Qed.

(* either the cursor is at/after every started handler (strictly after, at a loop test),
   or it has wrapped below zero and the pending loop test is about to raise the index panic *)
Definition inv2 (s : st) : Prop :=
  match s with
  | Run c k =>
      Z.of_nat (List.length (chain c)) <= 63 /\ top_notest k /\ NoDup (started c) /\
      (forall j, In j (started c) -> (j < List.length (chain c))%nat) /\
      -128 <= index c <= 127 /\
      ( ((forall j, In j (started c) -> Z.of_nat j <= index c) /\
         match k with FTest :: _ => forall j, In j (started c) -> Z.of_nat j < index c | _ => True end)
        \/ (index c < 0 /\ exists k', k = FTest :: k') )
  | Halt c => NoDup (started c)
  | Panicked _ c => NoDup (started c)
  end.

Lemma inv2_intro (c : ctx) k :
  Z.of_nat (List.length (chain c)) <= 63 -> top_notest k -> NoDup (started c) ->
  (forall j, In j (started c) -> (j < List.length (chain c))%nat) ->
  -128 <= index c <= 127 ->
  ( ((forall j, In j (started c) -> Z.of_nat j <= index c) /\
     match k with FTest :: _ => forall j, In j (started c) -> Z.of_nat j < index c | _ => True end)
    \/ (index c < 0 /\ exists k', k = FTest :: k') ) ->
  inv2 (Run c k).
Proof. intros. cbn [inv2]. tauto. Qed.

Lemma inv2_init hs x : Z.of_nat (List.length hs) <= 63 -> inv2 (init X eff hs x).
Proof.
  intros Hlen. unfold init, init_ctx. apply inv2_intro; cbn [chain started index top_notest notest].
  - exact Hlen.
  - exact I.
  - constructor.
  - intros j [].
  - lia.
  - left. split; [intros j []|exact I].
Qed.

(* incrementing the cursor (Next / the loop's index++) *)
Lemma inv2_bump (c : ctx) k :
  Z.of_nat (List.length (chain c)) <= 63 -> notest k -> NoDup (started c) ->
  (forall j, In j (started c) -> (j < List.length (chain c))%nat) ->
  -128 <= index c <= 127 ->
  (forall j, In j (started c) -> Z.of_nat j <= index c) ->
  inv2 (Run (set_index X eff (wrap8 (index c + 1)) c) (FTest :: k)).
Proof.
  intros Hlen Hnt Hnd Hlt Hrng Hle.
  apply inv2_intro; cbn [set_index chain started index top_notest]; auto.
  - apply wrap8_range.
  - destruct (Z_le_gt_dec (index c + 1) 127) as [Hsmall|Hbig].
    + left. rewrite wrap8_small by lia. split; intros j Hj; specialize (Hle j Hj); lia.
    + right. replace (index c + 1) with 128 by lia. change (wrap8 128) with (-128).
      split; [lia|]. eexists; reflexivity.
Qed.

Lemma inv2_step s : inv2 s -> inv2 (step s).
Proof.
  destruct s as [c k|c|p c]; cbn [Chain.step]; auto.
  intros (Hlen & Htop & Hnd & Hlt & Hrng & Hph).
  destruct k as [|[ops| |] k].
  - cbn [Chain.step inv2]. exact Hnd.
  - cbn [top_notest notest] in Htop.
    destruct Hph as [[Hle _]|[_ [k' Hk']]]; [|discriminate].
    destruct ops as [|[e| | |code| |v] r]; cbn [Chain.step].
    + apply inv2_intro; auto.
      * apply notest_top; exact Htop.
      * left. split; [exact Hle|]. apply notest_not_test; exact Htop.
    + apply inv2_intro; cbn [set_xs chain started index top_notest notest]; auto.
    + apply inv2_bump; cbn [notest]; auto.
    + apply inv2_intro; cbn [set_index chain started index top_notest notest]; auto.
      * unfold abort_idx; lia.
      * left. split; [|exact I]. intros j Hj. specialize (Hlt j Hj). unfold abort_idx. lia.
    + apply inv2_intro; cbn [set_index set_xs chain started index top_notest notest]; auto.
      * unfold abort_idx; lia.
      * left. split; [|exact I]. intros j Hj. specialize (Hlt j Hj). unfold abort_idx. lia.
    + apply inv2_intro; cbn [set_xs chain started index top_notest notest]; auto.
    + cbn [inv2]. exact Hnd.
  - cbn [top_notest] in Htop. cbn [Chain.step]. unfold len8. rewrite wrap8_small by lia.
    destruct Hph as [[Hle Hc]|[Hneg _]].
    + destruct (Z.ltb_spec (index c) (Z.of_nat (List.length (chain c)))) as [Hin|Hout].
      * destruct (Z.ltb_spec (index c) 0) as [Hneg|Hnn]; [cbn [inv2]; exact Hnd|].
        assert (Hi: (Z.to_nat (index c) < List.length (chain c))%nat) by lia.
        destruct (nth_error (chain c) (Z.to_nat (index c))) as [h|] eqn:Hnth; [|cbn [inv2]; exact Hnd].
        apply inv2_intro; cbn [start chain started index top_notest notest]; auto.
        -- apply nodup_snoc; auto. intros Hin'. specialize (Hc _ Hin'). lia.
        -- intros j Hj. apply in_app_iff in Hj. destruct Hj as [Hj|[<-|[]]]; auto.
        -- left. split; [|exact I].
           intros j Hj. apply in_app_iff in Hj. destruct Hj as [Hj|[<-|[]]]; [auto|lia].
      * apply inv2_intro; auto.
        -- apply notest_top; exact Htop.
        -- left. split; [exact Hle|]. apply notest_not_test; exact Htop.
    + destruct (Z.ltb_spec (index c) (Z.of_nat (List.length (chain c)))) as [_|Hout]; [|lia].
      destruct (Z.ltb_spec (index c) 0) as [_|Hnn]; [|lia].
      cbn [inv2]. exact Hnd.
  - cbn [top_notest notest] in Htop.
    destruct Hph as [[Hle _]|[_ [k' Hk']]]; [|discriminate].
    cbn [Chain.step]. apply inv2_bump; auto.
Qed.

Lemma inv2_run_from n s : inv2 s -> inv2 (run n s).
Proof.
  revert s. induction n as [|n IH]; intros s H; cbn [Chain.run]; auto.
  apply IH. apply inv2_step. exact H.
Qed.
Lemma inv2_started_nodup s : inv2 s -> NoDup (started_of X eff s).
Proof. destruct s as [c k|c|p c]; cbn [inv2 started_of]; tauto. Qed.

(* whatever the handlers do (any number of Next, Abort, ...), in a chain of at most 63 handlers nobody starts twice *)
Theorem next_many_each_once_63 n (hs : list handler) x : Z.of_nat (List.length hs) <= 63 ->
  NoDup (started_of X eff (run n (init X eff hs x))).
Proof. intros Hlen. apply inv2_started_nodup. apply inv2_run_from. apply inv2_init. exact Hlen. Qed.

Definition total_next (hs : list handler) : Z := fold_right (fun h a => count_next eff h + a) 0 hs.
Lemma total_next_nonneg hs : 0 <= total_next hs.
Proof.
  induction hs as [|h hs IH]; cbn [total_next fold_right]; [lia|].
  fold (total_next hs). pose proof (count_next_nonneg eff h). lia.
Qed.

Theorem next_many_each_once n (hs : list handler) x :
  Z.of_nat (List.length hs) + total_next hs + Z.of_nat (List.length hs) <= 127 ->
  NoDup (started_of X eff (run n (init X eff hs x))).
Proof.
  intros H. apply next_many_each_once_63. pose proof (total_next_nonneg hs). lia.
Qed.

(* ---- the cursor budget: without Abort, length + total number of Next calls <= 127 excludes the int8 wrap,
        hence the runtime index panic ---- *)
Fixpoint na_ops (ops : list op) : bool :=
  match ops with [] => true | OAbort :: _ => false | OAbortStatus _ :: _ => false | _ :: r => na_ops r end.
Fixpoint na_stack (k : list frame) : bool :=
  match k with [] => true | FOps ops :: r => na_ops ops && na_stack r | _ :: r => na_stack r end.
(* increments still owed by handlers that have not started: their Next calls and the loop's index++ *)
Fixpoint owed (hs : list handler) : Z :=
  match hs with [] => 0 | h :: t => count_next eff h + 1 + owed t end.
Lemma owed_nonneg hs : 0 <= owed hs.
Proof. induction hs as [|h hs IH]; cbn [owed]; [lia|]. pose proof (count_next_nonneg eff h). lia. Qed.
Lemma owed_total hs : owed hs = total_next hs + Z.of_nat (List.length hs).
Proof.
  induction hs as [|h hs IH]; cbn [owed total_next fold_right List.length]; [lia|].
  fold (total_next hs). rewrite IH. lia.
Qed.
Lemma skipn_nth_error {A} (l : list A) : forall i a, nth_error l i = Some a -> skipn i l = a :: skipn (S i) l.
Proof.
  induction l as [|x l IH]; intros [|i] a H; cbn [nth_error skipn] in *; try discriminate.
  - inversion H; reflexivity.
  - apply IH; exact H.
Qed.

Definition test_off (k : list frame) : Z := match k with FTest :: _ => 0 | _ => 1 end.
Definition inv3 (s : st) : Prop :=
  match s with
  | Run c k =>
      Z.of_nat (List.length (chain c)) <= 127 /\
      forallb na_ops (chain c) = true /\ na_stack k = true /\ top_notest k /\
      -1 <= index c /\ 0 <= index c + test_off k /\
      index c + debt eff k + owed (skipn (Z.to_nat (index c + test_off k)) (chain c)) <= 127
  | Halt _ => True
  | Panicked (PUser _) _ => True
  | Panicked PIndex _ => False
  end.
Lemma inv3_intro (c : ctx) k :
  Z.of_nat (List.length (chain c)) <= 127 ->
  forallb na_ops (chain c) = true -> na_stack k = true -> top_notest k ->
  -1 <= index c -> 0 <= index c + test_off k ->
  index c + debt eff k + owed (skipn (Z.to_nat (index c + test_off k)) (chain c)) <= 127 ->
  inv3 (Run c k).
Proof. intros. cbn [inv3]. tauto. Qed.
Lemma test_off_notest k : notest k -> test_off k = 1.
Proof. destruct k as [|[ops| |] k]; cbn [notest test_off]; auto. contradiction. Qed.

Lemma inv3_step s : inv3 s -> inv3 (step s).
Proof.
  destruct s as [c k|c|[v|] c]; cbn [Chain.step]; auto.
  intros (Hlen & Hna & Hnk & Htop & Hlo & Hoff & Hbud).
  destruct k as [|[ops| |] k].
  - cbn [Chain.step inv3]. exact I.
  - cbn [top_notest notest] in Htop. cbn [na_stack] in Hnk. apply andb_true_iff in Hnk. destruct Hnk as [Hno Hnk].
    cbn [test_off] in Hoff, Hbud. cbn [debt] in Hbud.
    pose proof (debt_nonneg eff k) as Hdk.
    pose proof (owed_nonneg (skipn (Z.to_nat (index c + 1)) (chain c))) as Hrem.
    destruct ops as [|[e| | |code| |v] r]; cbn [Chain.step]; cbn [na_ops] in Hno; try discriminate;
      cbn [count_next] in Hbud; try (pose proof (count_next_nonneg eff r) as Hr).
    + apply inv3_intro; auto.
      * apply notest_top; exact Htop.
      * rewrite (test_off_notest _ Htop). exact Hoff.
      * rewrite (test_off_notest _ Htop). lia.
    + apply inv3_intro; cbn [set_xs chain index na_stack top_notest notest test_off debt]; auto.
      apply andb_true_iff; auto.
    + rewrite wrap8_small by lia.
      apply inv3_intro; cbn [set_index chain index na_stack top_notest notest test_off debt]; auto.
      * apply andb_true_iff; auto.
      * lia.
      * lia.
      * rewrite Z.add_0_r. lia.
    + apply inv3_intro; cbn [set_xs chain index na_stack top_notest notest test_off debt]; auto.
      apply andb_true_iff; auto.
    + cbn [inv3]. exact I.
  - cbn [top_notest] in Htop. cbn [na_stack] in Hnk. cbn [test_off] in Hoff, Hbud. cbn [debt] in Hbud.
    rewrite Z.add_0_r in Hoff, Hbud.
    pose proof (debt_nonneg eff k) as Hdk.
    cbn [Chain.step]. unfold len8. rewrite wrap8_small by lia.
    destruct (Z.ltb_spec (index c) (Z.of_nat (List.length (chain c)))) as [Hin|Hout].
    + destruct (Z.ltb_spec (index c) 0) as [Hneg|_]; [lia|].
      assert (Hi: (Z.to_nat (index c) < List.length (chain c))%nat) by lia.
      destruct (nth_error (chain c) (Z.to_nat (index c))) as [h|] eqn:Hnth; [|apply nth_error_None in Hnth; lia].
      rewrite (skipn_nth_error _ _ _ Hnth) in Hbud. cbn [owed] in Hbud.
      apply inv3_intro; cbn [start chain index na_stack top_notest notest test_off debt]; auto.
      * apply andb_true_iff. split; [|exact Hnk].
        rewrite forallb_forall in Hna. apply Hna. eapply nth_error_In; exact Hnth.
      * lia.
      * replace (Z.to_nat (index c + 1)) with (S (Z.to_nat (index c))) by lia. lia.
    + apply inv3_intro; auto.
      * apply notest_top; exact Htop.
      * rewrite (test_off_notest _ Htop). lia.
      * rewrite (test_off_notest _ Htop).
        rewrite skipn_all2 in Hbud by lia. rewrite skipn_all2 by lia. exact Hbud.
  - cbn [top_notest notest] in Htop. cbn [na_stack] in Hnk. cbn [test_off] in Hoff, Hbud. cbn [debt] in Hbud.
    pose proof (debt_nonneg eff k) as Hdk.
    pose proof (owed_nonneg (skipn (Z.to_nat (index c + 1)) (chain c))) as Hrem.
    cbn [Chain.step]. rewrite wrap8_small by lia.
    apply inv3_intro; cbn [set_index chain index na_stack top_notest notest test_off debt]; auto.
    + lia.
    + lia.
    + rewrite Z.add_0_r. lia.
Qed.

Lemma inv3_run_from n s : inv3 s -> inv3 (run n s).
Proof.
  revert s. induction n as [|n IH]; intros s H; cbn [Chain.run]; auto.
  apply IH. apply inv3_step. exact H.
Qed.

(* no handler aborts, any number of Next calls: the request never hits the runtime index panic as long as
   the cursor budget (handlers + Next calls) fits an int8 *)
Theorem next_many_no_index_panic n (hs : list handler) x :
  forallb na_ops hs = true ->
  Z.of_nat (List.length hs) + total_next hs <= 127 ->
  ~ is_index_panic X eff (run n (init X eff hs x)).
Proof.
  intros Hna Hb.
  assert (Hi: inv3 (run n (init X eff hs x))).
  { apply inv3_run_from. unfold init, init_ctx.
    pose proof (total_next_nonneg hs) as Ht.
    apply inv3_intro; cbn [chain index na_stack na_ops andb top_notest notest test_off debt count_next]; auto; try lia.
    change (Z.to_nat (-1 + 1)) with 0%nat. cbn [skipn]. rewrite owed_total. lia. }
  destruct (run n (init X eff hs x)) as [c k|c|[v|] c]; cbn [inv3 is_index_panic] in *; tauto.
Qed.

End More.

(* The budget of next_many_each_once does not by itself exclude the runtime index panic once Abort is involved:
   one handler doing 60 x Next, Abort (cursor 60 -> 63), 65 x Next satisfies 1 + 125 + 1 <= 127, yet the last Next
   wraps the int8 cursor to -128 and handlers[-128] panics (the handler still started only once). *)
Example next_many_abort_wraps :
  let h : handler unit := repeat ONext 60 ++ OAbort :: repeat ONext 65 in
  Z.of_nat (List.length [h]) + total_next unit [h] + Z.of_nat (List.length [h]) <= 127 /\
  exists c, run unit unit (fun _ x => x) (fun _ x => x) (fun _ x => x) 300 (init unit unit [h] tt) = Panicked PIndex c
            /\ started c = [0%nat] /\ index c = -128.
Proof.
  split.
  - vm_compute. discriminate.
  - eexists. split; [vm_compute; reflexivity|]. split; reflexivity.
Qed.
