(* Replay2.v — in-Coq replay (thorough tier) of the registration-program cases: the whole-router function Sys.sys_build /
   sys_serve is evaluated by the kernel's VM on sampled cases and must reproduce what the extracted OCaml model printed. *)
From Rux Require Import Base Str Norm Writer Chain Dispatch Reg Table Sys Replay.
Open Scope Z_scope.

(* C12: the registration outcome: (path, number of middleware) of every route, and the scope left behind *)
Definition c12_out (strict : bool) (ss : list stmt) : option (list (str * nat) * (str * nat * nat)) :=
  match exec_block strict ss rinit with
  | Panic => None
  | Ok st => Some (map (fun r => (r_path r, List.length (r_handlers r))) (r_routes st),
                   (g_prefix st, List.length (g_handlers st), List.length (r_globals st)))
  end.
Definition c12_eqb (a b : option (list (str * nat) * (str * nat * nat))) : bool :=
  opt_eqb (fun '(r1, (p1, g1, n1)) '(r2, (p2, g2, n2)) =>
    list_eqb (fun '(x1, y1) '(x2, y2) => str_eqb x1 x2 && Nat.eqb y1 y2) r1 r2 && str_eqb p1 p2 && Nat.eqb g1 g2 && Nat.eqb n1 n2) a b.

(* C04: per request, the trace events and the response log of the whole router run on the program *)
Fixpoint assoc_prog (l : list (nat * hprog)) (id : nat) : hprog :=
  match l with [] => [] | (k, p) :: r => if Nat.eqb k id then p else assoc_prog r id end.
Definition events (x : xctx) : list nat := flat_map (fun t => match t with TE n => [n] | _ => [] end) (trace x).
Fixpoint c04_serve (progs : nat -> hprog) (s : sys) (pooled : pctx) (reqs : list (str * str * list nat))
  : list (option (list nat * list wev)) :=
  match reqs with
  | [] => []
  | (m, p, sc) :: rest =>
      let '(out, s') := sys_serve progs (None, None) s m p sc pooled in
      match out with
      | Some (Done x _) => Some (events x, log (w x)) :: c04_serve progs s' {| p_index := 0; p_handlers := []; p_x := x |} rest
      | Some (Escaped _ x _) => Some (events x, log (w x)) :: c04_serve progs s' pooled rest
      | _ => None :: c04_serve progs s' pooled rest
      end
  end.
Definition c04_out (strict na : bool) (ss : list stmt) (hs : list (nat * hprog)) (reqs : list (str * str * list nat))
  : option (list (option (list nat * list wev))) :=
  let o := {| o_strict := strict; o_na := na; o_fallback := false; o_caching := false; o_cap := 1000; o_intercept := [] |} in
  match sys_build o ss with
  | Panic => None
  | Ok s => Some (c04_serve (assoc_prog hs) s fresh_ctx reqs)
  end.
Definition c04_eqb (a b : option (list (option (list nat * list wev)))) : bool :=
  opt_eqb (list_eqb (opt_eqb (fun '(e1, l1) '(e2, l2) => list_eqb Nat.eqb e1 e2 && list_eqb wev_eqb l1 l2))) a b.
